(* JsonStr.v - the STRING arm of jsonStreamer.write at the level of bytes.
     serialization/jsonstreamer.go:108   v, err = json.Marshal(e.String())
   Model/Json.v works on tokens: `write (SStr x) = [TStr (utf8_coerce x)]`, where the token carries the DECODED
   string.  That is a statement about bytes: "what is written for x is a JSON string lexeme whose decoding is
   utf8_coerce x".  This file makes the statement explicit: the bytes written (`write_string`), what a JSON
   reader makes of a string lexeme (`json_unquote`), and the token a lexeme denotes (`str_token`).
   The two functions mirror encoding/json of the Go toolchain in use (1.23):
     json_escape   = encode.go appendString(dst, s, escapeHTML = true)   (json.Marshal of a string)
     json_unquote  = scanner.go stateInString/stateInStringEsc*  +  decode.go unquoteBytes
   They are the library's, not pcore's: both are compared with the library on every run (obligation
   `str_lexemes`: json.Marshal(s) byte for byte; json.Unmarshal on every lexeme the streamer wrote and on random
   and damaged lexemes).  What IS pcore's is that write hands the marshalled bytes to the output unchanged:
   `write_string`.  `write_string_amp` is NOT the code but seeded change C11-m8 (a byte replace of the six bytes backslash u 0 0 2 6 by &
   after marshalling), kept as the witness that this model tells them apart. *)
From Coq Require Import NArith Bool List.
From PcoreV Require Import Model.Base Model.Json.
Import ListNotations.
Local Open Scope N_scope.

(* ---------------------------------------------------------------------------------------------- *)
(* hexadecimal digits *)

(* encode.go: const hex = "0123456789abcdef" *)
Definition hexd (n : N) : N := if n <? 10 then 48 + n else 87 + n.

(* decode.go getu4: '0'..'9', 'a'..'f', 'A'..'F' *)
Definition hexv (c : N) : option N :=
  if in_rng 48 c 57 then Some (c - 48)
  else if in_rng 97 c 102 then Some (c - 87)
  else if in_rng 65 c 70 then Some (c - 55)
  else None.

Definition hex4 (h1 h2 h3 h4 : N) : option N :=
  match hexv h1, hexv h2, hexv h3, hexv h4 with
  | Some a, Some b, Some c, Some d => Some (a * 4096 + b * 256 + c * 16 + d)
  | _, _, _, _ => None
  end.

(* ---------------------------------------------------------------------------------------------- *)
(* the writer: json.Marshal(string) *)

(* appendString, the branch b < utf8.RuneSelf (encode.go:971-1000): htmlSafeSet = 0x20..0x7f without
   the quote, the backslash, '<' '>' '&' *)
Definition esc_ascii (b : N) : list N :=
  if (b =? 34) || (b =? 92) then [92; b]                       (* quote, backslash: backslash + the byte *)
  else if b =? 8 then [92; 98]                                 (* \b *)
  else if b =? 12 then [92; 102]                               (* \f *)
  else if b =? 10 then [92; 110]                               (* \n *)
  else if b =? 13 then [92; 114]                               (* \r *)
  else if b =? 9 then [92; 116]                                (* \t *)
  else if (b <? 32) || (b =? 60) || (b =? 62) || (b =? 38)
       then [92; 117; 48; 48; hexd (b / 16); hexd (b mod 16)]  (* \u00XY: control characters, < > & *)
  else [b].

Definition ufffd_text : list N := [92; 117; 102; 102; 102; 100].   (* backslash u f f f d *)

(* U+2028 / U+2029 (E2 80 A8 / E2 80 A9) are always escaped (encode.go:1025) *)
Definition is_linesep (b0 b1 b2 : N) : bool := (b0 =? 226) && (b1 =? 128) && ((b2 =? 168) || (b2 =? 169)).

(* the loop of appendString; utf8.DecodeRuneInString is decided as in utf8_coerce (Model/Json.v): a byte that
   starts no well-formed sequence is RuneError of width 1 and is written as the six bytes backslash u f f f d *)
Fixpoint esc_body (s : str) : list N :=
  match s with
  | [] => []
  | b0 :: r0 =>
    if N.ltb b0 128 then esc_ascii b0 ++ esc_body r0
    else
      let bad := ufffd_text ++ esc_body r0 in
      match r0 with
      | [] => bad
      | b1 :: r1 =>
        if two_ok b0 b1 then b0 :: b1 :: esc_body r1
        else match r1 with
             | [] => bad
             | b2 :: r2 =>
               if three_ok b0 b1 b2 then
                 if is_linesep b0 b1 b2
                 then [92; 117; 50; 48; 50; hexd (b2 mod 16)] ++ esc_body r2      (* backslash u 2 0 2 8 / 9 *)
                 else b0 :: b1 :: b2 :: esc_body r2
               else match r2 with
                    | [] => bad
                    | b3 :: r3 => if four_ok b0 b1 b2 b3 then b0 :: b1 :: b2 :: b3 :: esc_body r3 else bad
                    end
             end
      end
  end.

Definition json_escape (s : str) : list N := 34 :: esc_body s ++ [34].

(* jsonstreamer.go:108 + :123: the marshalled bytes are written as they are (Marshal of a string cannot fail) *)
Definition write_string (x : str) : list N := json_escape x.

(* ---------------------------------------------------------------------------------------------- *)
(* the reader of one string lexeme *)

(* utf8.EncodeRune (a surrogate half or a value beyond U+10FFFF is written as U+FFFD) *)
Definition enc_rune (c : N) : str :=
  if c <? 128 then [c]
  else if c <? 2048 then [192 + c / 64; 128 + c mod 64]
  else if in_rng 55296 c 57343 then replacement
  else if c <? 65536 then [224 + c / 4096; 128 + (c / 64) mod 64; 128 + c mod 64]
  else if c <? 1114112 then [240 + c / 262144; 128 + (c / 4096) mod 64; 128 + (c / 64) mod 64; 128 + c mod 64]
  else replacement.

Definition pre (l : str) (o : option str) : option str :=
  match o with Some x => Some (l ++ x) | None => None end.

(* scanner.go stateInStringEsc: the one-letter escapes *)
Definition simple_escape (e : N) : option N :=
  if e =? 34 then Some 34         (* backslash quote *)
  else if e =? 92 then Some 92    (* \\ *)
  else if e =? 47 then Some 47    (* \/ *)
  else if e =? 98 then Some 8     (* \b *)
  else if e =? 102 then Some 12   (* \f *)
  else if e =? 110 then Some 10   (* \n *)
  else if e =? 114 then Some 13   (* \r *)
  else if e =? 116 then Some 9    (* \t *)
  else None.

(* utf16.DecodeRune(hi, lo) for `\uHHHH\uLLLL` following a high surrogate: Some code point when the six bytes
   a b g1..g4 are `\u` + four hex digits denoting a low surrogate and hi is a high one *)
Definition pair_low (hi a b g1 g2 g3 g4 : N) : option N :=
  if (a =? 92) && (b =? 117) then
    match hex4 g1 g2 g3 g4 with
    | Some lo => if in_rng 55296 hi 56319 && in_rng 56320 lo 57343
                 then Some ((hi - 55296) * 1024 + (lo - 56320) + 65536) else None
    | None => None
    end
  else None.

(* the bytes after the opening quote, up to and including the closing quote, which must be the last byte.
   None: not a string lexeme (scanner error: raw control character, unknown escape, short \u, text after the
   closing quote, no closing quote).  Some s: the decoded string (decode.go unquoteBytes: escapes resolved,
   a lone surrogate and every byte that starts no well-formed UTF-8 sequence become U+FFFD). *)
Fixpoint unq (s : list N) : option str :=
  match s with
  | [] => None                                                     (* unexpected end of JSON input *)
  | b0 :: r0 =>
    if b0 =? 34 then match r0 with [] => Some [] | _ :: _ => None end
    else if b0 =? 92 then
      match r0 with
      | [] => None
      | e :: r1 =>
        match simple_escape e with
        | Some c => pre [c] (unq r1)
        | None =>
          if e =? 117 then                                         (* \uXXXX *)
            match r1 with
            | h1 :: h2 :: h3 :: h4 :: r5 =>
              match hex4 h1 h2 h3 h4 with
              | None => None
              | Some cp =>
                if in_rng 55296 cp 57343 then                      (* utf16.IsSurrogate *)
                  match r5 with
                  | a :: b :: g1 :: g2 :: g3 :: g4 :: r11 =>
                    match pair_low cp a b g1 g2 g3 g4 with
                    | Some dec => pre (enc_rune dec) (unq r11)     (* a valid pair: consumed *)
                    | None => pre replacement (unq r5)             (* invalid surrogate: U+FFFD, nothing consumed *)
                    end
                  | _ => pre replacement (unq r5)
                  end
                else pre (enc_rune cp) (unq r5)
              end
            | _ => None
            end
          else None                                                (* invalid character in string escape code *)
        end
      end
    else if b0 <? 32 then None                                     (* invalid character in string literal *)
    else if b0 <? 128 then pre [b0] (unq r0)
    else
      (* coerce to well-formed UTF-8: utf8.DecodeRune + EncodeRune *)
      let bad := pre replacement (unq r0) in
      match r0 with
      | [] => bad
      | b1 :: r1 =>
        if two_ok b0 b1 then pre [b0; b1] (unq r1)
        else match r1 with
             | [] => bad
             | b2 :: r2 =>
               if three_ok b0 b1 b2 then pre [b0; b1; b2] (unq r2)
               else match r2 with
                    | [] => bad
                    | b3 :: r3 => if four_ok b0 b1 b2 b3 then pre [b0; b1; b2; b3] (unq r3) else bad
                    end
             end
      end
  end.

(* json.Unmarshal(lexeme, &string) *)
Definition json_unquote (lex : list N) : option str :=
  match lex with
  | b :: r => if b =? 34 then unq r else None
  | [] => None
  end.

(* RFC 8259 section 7 recogniser of one string lexeme *)
Definition str_lexeme_ok (lex : list N) : bool :=
  match json_unquote lex with Some _ => true | None => false end.

(* the token a string lexeme denotes (what the harness' tokenizer and json.Decoder.Token make of it) *)
Definition str_token (lex : list N) : jtoken :=
  match json_unquote lex with Some s => TStr s | None => TBad end.

(* ---------------------------------------------------------------------------------------------- *)
(* NOT the code: seeded change C11-m8, `v = bytes.Replace(v, []byte(<backslash>u0026), []byte{'&'}, -1)` after Marshal *)

Fixpoint replace_amp (l : list N) : list N :=
  match l with
  | [] => []
  | a :: r =>
    match r with
    | b :: c :: d :: e :: f :: r6 =>
      if (a =? 92) && (b =? 117) && (c =? 48) && (d =? 48) && (e =? 50) && (f =? 54)
      then 38 :: replace_amp r6 else a :: replace_amp r
    | _ => a :: replace_amp r
    end
  end.

Definition write_string_amp (x : str) : list N := replace_amp (json_escape x).
