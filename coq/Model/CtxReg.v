(* CtxReg.v — the implementation registry of a px.Context (pxContext.implRegistry, internal/context.go:20) and the
   loader next to it, as CHAINS OF LEVELS WITH LIVE REFERENCES (property C14: "definitions ... made in a forked
   context are invisible to its parent and siblings while the parent's are visible to the child").

   A Go-backed Object type is defined in two halves: the name in the loader of the context, the mapping
   Go type <-> type in the registry of the context.  pxContext.Fork wraps both (internal/context.go:111-112), and both
   wrappers hold a REFERENCE to the parent's level, not a copy: what an ancestor registers after the fork is seen
   by the fork.  Mirrors, method by method:
     internal/implementationregistry.go:21  newImplementationRegistry            -> new_level None
     :25  newParentedImplementationRegistry(parent)                                  -> new_level (Some parent)
     :29 / :58  RegisterType (NormalizeType; assertUnregistered; addTypeMapping)     -> assert_unregistered, add_mapping
     :35  implRegistry.TypeToReflected, :40 ReflectedNameToType (own maps)           -> own_t2r, own_r2t
     :64  parentedImplRegistry.TypeToReflected, :72 ReflectedNameToType (the parent first, then the own maps) -> rlook
     :84  assertUnregistered (name known with another Go type / Go type known with another type object: panic
          ImplAlreadyRegistered; the empty name is not looked at)
     :49  addTypeMapping (own maps only; the empty name is not entered in objectTypeToReflect)
     internal/context.go:53 NewContext = WithParent(Background, loader, logger, newImplementationRegistry())  -> HNew
     :57  WithParent(parent, loader, logger, ir): ir = newParentedImplementationRegistry(ir) (`parent.(pxContext)` never
          holds - contexts are pointers - so the new context takes loader and registry as given)    -> HWith
     :107 pxContext.Fork: NewParentedLoader(clone.loader), newParentedImplementationRegistry(clone.implRegistry) -> HFork
          (= px.Fork / px.Go: px/context.go:174,188; pcore.DoWithParent(c, ..): internal/runtime.go:249-251)
     internal/runtime.go:239 rt.Do: WithParent(Background, EnvironmentLoader, logger, topImplRegistry), then Fork   -> HDo
     :125 topImplRegistry = the registry of the static context (a root level and one level on top: addresses 0 and 1)
     c.DefiningLoader().SetEntry / px.Load through the context's loader: set_entry / load of Model/Ctx.v    -> HDefine
   A history is a list of such calls on contexts numbered in the order of their creation; the calls of one history
   are executed one after the other (the harness runs the contexts of px.Fork / px.Go / DoWithParent in goroutines of
   their own and hands the turn over channels; that a context is used by its goroutine only is the business of the
   interleaving machine, races inside one registry call belong to C13: the maps of the registry have no lock).
   Go types are the strings reflect.Type.String() after NormalizeType (numbers here), type objects are pointers
   (t_id) with a name (t_name, 0 = the empty name of an anonymous type).
   Definitions only. *)
From Coq Require Import ZArith NArith Bool List.
From PcoreV Require Import Model.Base Model.Ctx.
Import ListNotations.
Local Open Scope nat_scope.

Definition raddr := nat.      (* address of a registry level *)
Definition gotype := N.
Record ptype := { t_id : N; t_name : N }.

(* Go maps keyed by strings *)
Fixpoint aget {A} (k : N) (l : list (N * A)) : option A :=
  match l with
  | [] => None
  | (k', v) :: l' => if N.eqb k k' then Some v else aget k l'
  end.
Definition aset {A} (k : N) (v : A) (l : list (N * A)) : list (N * A) :=
  (k, v) :: filter (fun kv => negb (N.eqb k (fst kv))) l.

(* implementationregistry.go:11 implRegistry (rl_parent = None), :16 parentedImplRegistry (Some parent) *)
Record rlevel := { rl_parent : option raddr; rl_r2t : list (gotype * ptype); rl_t2r : list (N * gotype) }.

Inductive rres (A : Type) := RFound (a : A) | RMissing | RStuck.   (* RStuck: out of fuel / no such level: never *)
Arguments RFound {A} a.
Arguments RMissing {A}.
Arguments RStuck {A}.

Definition own_r2t (g : gotype) (lv : rlevel) : option ptype := aget g (rl_r2t lv).   (* :40 *)
Definition own_t2r (n : N) (lv : rlevel) : option gotype := aget n (rl_t2r lv).      (* :35, t.Name() *)

(* :64-78 the parent's answer first; the own maps when the parent has none *)
Fixpoint rlook {A} (own : rlevel -> option A) (fuel : nat) (rh : list rlevel) (l : raddr) : rres A :=
  match fuel with
  | O => RStuck
  | S f =>
    match nth_error rh l with
    | None => RStuck
    | Some lv =>
      let mine := match own lv with Some a => RFound a | None => RMissing end in
      match rl_parent lv with
      | None => mine
      | Some p => match rlook own f rh p with
                  | RFound a => RFound a
                  | RMissing => mine
                  | RStuck => RStuck
                  end
      end
    end
  end.

(* a level is younger than its parent: `S (length rh)` levels of fuel suffice (Proofs: rlook_enough) *)
Definition r2t (rh : list rlevel) (l : raddr) (g : gotype) : rres ptype := rlook (own_r2t g) (S (length rh)) rh l.
Definition t2r (rh : list rlevel) (l : raddr) (n : N) : rres gotype := rlook (own_t2r n) (S (length rh)) rh l.

(* :84 assertUnregistered: true = no panic *)
Definition assert_unregistered (rh : list rlevel) (l : raddr) (t : ptype) (g : gotype) : bool :=
  (match t2r rh l (t_name t) with
   | RFound g' => N.eqb (t_name t) 0 || N.eqb g g'
   | _ => true
   end) &&
  (match r2t rh l g with
   | RFound t' => N.eqb (t_id t') (t_id t)
   | _ => true
   end).

(* :49 addTypeMapping *)
Definition add_mapping (t : ptype) (g : gotype) (lv : rlevel) : rlevel :=
  {| rl_parent := rl_parent lv;
     rl_r2t := aset g t (rl_r2t lv);
     rl_t2r := if N.eqb (t_name t) 0 then rl_t2r lv else aset (t_name t) g (rl_t2r lv) |}.

Definition new_level (p : option raddr) (rh : list rlevel) : raddr * list rlevel :=
  (length rh, rh ++ [{| rl_parent := p; rl_r2t := []; rl_t2r := [] |}]).

(* ---- contexts and histories ---------------------------------------------------------------------------------- *)

Record rctx := { x_reg : raddr; x_ldr : laddr }.
Record rstate := { s_rh : list rlevel; s_lh : list ldr; s_cx : list rctx }.

Inductive hop :=
| HNew                                   (* pcore.NewContext(NewParentedLoader(EnvironmentLoader()), logger) *)
| HDo                                    (* the context handed to the body of pcore.Do *)
| HFork (c : nat)                        (* c.Fork(): Context.Fork, px.Fork(c, ..), px.Go with c current, pcore.DoWithParent(c, ..) *)
| HWith (cr cl : nat)                    (* pcore.WithParent(Background, NewParentedLoader(cl.Loader()), logger, cr.ImplementationRegistry()) *)
| HRegister (c : nat) (t : ptype) (g : gotype)   (* c.ImplementationRegistry().RegisterType(t, g); Reflector().TypeFromReflect *)
| HDefine (c : nat) (n : name) (v : val)         (* c.DefiningLoader().SetEntry(n, v) *)
| HObserve (c : nat).

Definition obs_gos : list gotype := [0; 1; 2; 3]%N.
Definition obs_tnames : list N := [1; 2; 3]%N.

Inductive hres :=
| HOk
| HAlready                               (* panic ImplAlreadyRegistered *)
| HRedefine                              (* panic AttemptToRedefine *)
| HBad                                   (* no such context / level / loader: never *)
| HObs (r2ts : list (rres N)) (wraps : list (rres N)) (t2rs : list (rres gotype)) (loads : list lres).

Definition top_registry : raddr := 1.
Definition init_rstate : rstate :=
  {| s_rh := [{| rl_parent := None; rl_r2t := []; rl_t2r := [] |};
              {| rl_parent := Some 0; rl_r2t := []; rl_t2r := [] |}];
     s_lh := [base_loader]; s_cx := [] |}.

Definition rmap {A B} (f : A -> B) (r : rres A) : rres B :=
  match r with RFound a => RFound (f a) | RMissing => RMissing | RStuck => RStuck end.

Definition add_ctx (st : rstate) (rh : list rlevel) (lh : list ldr) (x : rctx) : rstate :=
  {| s_rh := rh; s_lh := lh; s_cx := s_cx st ++ [x] |}.

Definition hstep (st : rstate) (o : hop) : rstate * hres :=
  match o with
  | HNew =>
    let '(r0, rh1) := new_level None (s_rh st) in
    let '(r1, rh2) := new_level (Some r0) rh1 in
    let '(l, lh) := new_loader 0%N 0 (s_lh st) in
    (add_ctx st rh2 lh {| x_reg := r1; x_ldr := l |}, HOk)
  | HDo =>
    let '(ra, rh1) := new_level (Some top_registry) (s_rh st) in        (* runtime.go:254 the root context *)
    let '(rb, rh2) := new_level (Some ra) rh1 in                        (* :251 its fork *)
    let '(l, lh) := new_loader 0%N 0 (s_lh st) in
    (add_ctx st rh2 lh {| x_reg := rb; x_ldr := l |}, HOk)
  | HFork c =>
    match nth_error (s_cx st) c with
    | None => (st, HBad)
    | Some x =>
      let '(r, rh) := new_level (Some (x_reg x)) (s_rh st) in
      let '(l, lh) := new_loader 0%N (x_ldr x) (s_lh st) in
      (add_ctx st rh lh {| x_reg := r; x_ldr := l |}, HOk)
    end
  | HWith cr cl =>
    match nth_error (s_cx st) cr, nth_error (s_cx st) cl with
    | Some xr, Some xl =>
      let '(r, rh) := new_level (Some (x_reg xr)) (s_rh st) in
      let '(l, lh) := new_loader 0%N (x_ldr xl) (s_lh st) in
      (add_ctx st rh lh {| x_reg := r; x_ldr := l |}, HOk)
    | _, _ => (st, HBad)
    end
  | HRegister c t g =>
    match nth_error (s_cx st) c with
    | None => (st, HBad)
    | Some x =>
      match nth_error (s_rh st) (x_reg x) with
      | None => (st, HBad)
      | Some lv =>
        if assert_unregistered (s_rh st) (x_reg x) t g
        then ({| s_rh := upd (x_reg x) (add_mapping t g lv) (s_rh st); s_lh := s_lh st; s_cx := s_cx st |}, HOk)
        else (st, HAlready)
      end
    end
  | HDefine c n v =>
    match nth_error (s_cx st) c with
    | None => (st, HBad)
    | Some x =>
      match nth_error (s_lh st) (x_ldr x) with
      | None => (st, HBad)
      | Some ld =>
        match set_entry n v ld with
        | Some ld' => ({| s_rh := s_rh st; s_lh := upd (x_ldr x) ld' (s_lh st); s_cx := s_cx st |}, HOk)
        | None => (st, HRedefine)
        end
      end
    end
  | HObserve c =>
    match nth_error (s_cx st) c with
    | None => (st, HBad)
    | Some x =>
      (st, HObs (map (fun g => rmap t_id (r2t (s_rh st) (x_reg x) g)) obs_gos)
                (map (fun g => rmap t_name (r2t (s_rh st) (x_reg x) g)) obs_gos)    (* px.Wrap: types/types.go:843 *)
                (map (fun n => t2r (s_rh st) (x_reg x) n) obs_tnames)
                (map (fun n => load (s_lh st) (x_ldr x) n) obs_names))
    end
  end.

Fixpoint hrun_from (st : rstate) (os : list hop) : rstate * list hres :=
  match os with
  | [] => (st, [])
  | o :: os' =>
    let '(st1, r) := hstep st o in
    let '(st2, rs) := hrun_from st1 os' in
    (st2, r :: rs)
  end.
Definition hrun (os : list hop) : rstate * list hres := hrun_from init_rstate os.
Definition hfinal (os : list hop) : rstate := fst (hrun os).

(* ---- the levels a lookup through level l consults, the oldest ancestor first, l last ------------------------------ *)
Fixpoint chain (fuel : nat) (rh : list rlevel) (l : raddr) : option (list raddr) :=
  match fuel with
  | O => None
  | S f =>
    match nth_error rh l with
    | None => None
    | Some lv =>
      match rl_parent lv with
      | None => Some [l]
      | Some p => match chain f rh p with Some ls => Some (ls ++ [l]) | None => None end
      end
    end
  end.
Definition chain_of (rh : list rlevel) (l : raddr) : option (list raddr) := chain (S (length rh)) rh l.

(* what the levels `ls` hold NOW for a key: the first level, in that order, that has an entry *)
Fixpoint first_held {A} (own : rlevel -> option A) (rh : list rlevel) (ls : list raddr) : rres A :=
  match ls with
  | [] => RMissing
  | a :: ls' =>
    match nth_error rh a with
    | None => RStuck
    | Some lv => match own lv with Some v => RFound v | None => first_held own rh ls' end
    end
  end.

(* ---- decidable equality for the correspondence -------------------------------------------------------------------- *)
Definition rres_eqb {A} (eqb : A -> A -> bool) (a b : rres A) : bool :=
  match a, b with
  | RFound x, RFound y => eqb x y
  | RMissing, RMissing | RStuck, RStuck => true
  | _, _ => false
  end.
Definition hres_eqb (a b : hres) : bool :=
  match a, b with
  | HOk, HOk | HAlready, HAlready | HRedefine, HRedefine | HBad, HBad => true
  | HObs a1 a2 a3 a4, HObs b1 b2 b3 b4 =>
    list_eqb (rres_eqb N.eqb) a1 b1 && list_eqb (rres_eqb N.eqb) a2 b2 && list_eqb (rres_eqb N.eqb) a3 b3 &&
    list_eqb lres_eqb a4 b4
  | _, _ => false
  end.
