(* KeysIndex.v — C07: the hidden state of a Hash value (the key index) and the construction route
   that pre-builds it.  Definitions only; the lemmas are in Proofs/KeysIndexProofs.v.

   Model/Keys.v models a Hash as the list of its entries: `veq`, `hash_get`, `hash_includes_key`
   look the key up among the entries (`find_last`).  The code keeps, next to the entries, a map
   from hash key to entry position (types/hashtype.go:32-37 `Hash{entries, index}`):
     - `valueIndex` (hashtype.go:1439) builds it on first use from the entries;
     - `uniqueEntries` (hashtype.go:680, behind `WrapHashFromArray` :696, `Hash.new`, `Hash.AddAll`)
       builds it while it compacts the entries and hands it to the new Hash;
   and `Get`, `IncludesKey`, `Equals` (and Merge/Delete as receiver) go through that map and index
   the entry slice with the position found.  Here the map is explicit state, so that the property's
   clause "does not depend on hidden state / on the construction route" is a statement about the model. *)
From Coq Require Import ZArith NArith Bool List.
From PcoreV Require Import Model.Base Model.Keys.
Import ListNotations.
Local Open Scope nat_scope.

Notation entry := (value * value)%type (only parsing).

(* Go map[px.HashKey]int: one binding per key, kept in the order of first insertion (the order is
   not observable in Go: lookups by key, and `range` in Hash.Equals computes a conjunction) *)
Definition imap := list (list N * nat).

Fixpoint im_get (m : imap) (k : list N) : option nat :=
  match m with
  | [] => None
  | (k', i) :: m' => if str_eqb k' k then Some i else im_get m' k
  end.

(* m[k] = i *)
Fixpoint im_put (m : imap) (k : list N) (i : nat) : imap :=
  match m with
  | [] => [(k, i)]
  | (k', j) :: m' => if str_eqb k' k then (k', i) :: m' else (k', j) :: im_put m' k i
  end.

(* hashtype.go:32 — None is the nil index *)
Record hobj := { h_entries : list entry; h_index : option imap }.

(* hashtype.go:603 WrapHash (also the result of Merge :1178, Delete :834, DeleteAll :844, Slice, ...) *)
Definition wrap_hash (es : list entry) : hobj := {| h_entries := es; h_index := None |}.

(* l[i] = x for i < len(l); the writes of uniqueEntries stay inside the compacted prefix
   (Proofs/KeysIndexProofs.v ue_loop_index_in_range), out of range is a no-op here *)
Fixpoint set_nth {A} (i : nat) (x : A) (l : list A) : list A :=
  match l, i with
  | [], _ => []
  | _ :: l', O => x :: l'
  | y :: l', S i' => y :: set_nth i' x l'
  end.

(* hashtype.go:680 uniqueEntries.  `out` is entries[:n] (n = length out), `index` the map:
     k := px.ToKey(e.key)
     if idx, ok := index[k]; ok { entries[idx] = e } else { index[k] = n; entries[n] = e; n++ }
   The slice is compacted in place; the loop reads entries[i] with i >= n, which no write has touched. *)
Fixpoint ue_loop (es : list entry) (out : list entry) (index : imap) : list entry * imap :=
  match es with
  | [] => (out, index)
  | e :: es' =>
      let k := vkey (fst e) in
      match im_get index k with
      | Some idx => ue_loop es' (set_nth idx e out) index
      | None => ue_loop es' (out ++ [e]) (im_put index k (length out))
      end
  end.

(* return &Hash{entries: entries[:n:n], index: index} *)
Definition unique_entries (es : list entry) : hobj :=
  let r := ue_loop es [] [] in {| h_entries := fst r; h_index := Some (snd r) |}.

(* hashtype.go:696 WrapHashFromArray.  The element type of the array is an Array type exactly when the
   array is not empty and every element is an Array or a HashEntry (whose type is Array[..,2,2]):
   then every element is a [key, value] pair; otherwise the elements are k0, v0, k1, v1, ... *)
Definition is_pairlike (p : value) : bool := match p with VArr _ | VEntry _ _ => true | _ => false end.

Fixpoint pairs_of (l : list value) : option (list entry) :=
  match l with
  | [] => Some []
  | p :: t =>
      match (match p with VArr [k; v] => Some (k, v) | VEntry k v => Some (k, v) | _ => None end) with
      | Some e => match pairs_of t with Some r => Some (e :: r) | None => None end
      | None => None
      end
  end.

Fixpoint pairs_flat (l : list value) : list entry :=
  match l with
  | k :: v :: t => (k, v) :: pairs_flat t
  | _ => []
  end.

(* None: the reported error (hashtype.go:705 a pair without two elements, :712 odd number of elements) *)
Definition hash_from_array (l : list value) : option hobj :=
  if negb (Nat.eqb (length l) 0) && forallb is_pairlike l then
    match pairs_of l with
    | Some es => Some (unique_entries es)
    | None => None
    end
  else if Nat.odd (length l) then None
  else Some (unique_entries (pairs_flat l)).

(* hashtype.go:1439 valueIndex: for idx, entry := range hv.entries { result[px.ToKey(entry.key)] = idx } *)
Fixpoint build_index_from (es : list entry) (i : nat) (m : imap) : imap :=
  match es with
  | [] => m
  | e :: es' => build_index_from es' (S i) (im_put m (vkey (fst e)) i)
  end.
Definition build_index (es : list entry) : imap := build_index_from es 0 [].

Definition value_index (h : hobj) : imap :=
  match h_index h with
  | Some m => m
  | None => build_index (h_entries h)
  end.

(* the result of a lookup; LFault = the Go runtime fault "index out of range" of hv.entries[pos] *)
Inductive look := LFound (v : value) | LMissing | LFault.

(* hashtype.go:1087 Get -> :1127 get: if pos, ok := hv.valueIndex()[key]; ok { return hv.entries[pos].value, true } *)
Definition hobj_get (h : hobj) (q : value) : look :=
  match im_get (value_index h) (vkey q) with
  | Some pos => match nth_error (h_entries h) pos with
                | Some (_, v) => LFound v
                | None => LFault
                end
  | None => LMissing
  end.

(* hashtype.go:1148 IncludesKey *)
Definition hobj_includes_key (h : hobj) (q : value) : bool :=
  match im_get (value_index h) (vkey q) with Some _ => true | None => false end.

(* hashtype.go:1067 Hash.Equals:
     if top := len(hv.entries); top == len(ov.entries) {
       ovIndex := ov.valueIndex()
       for key, idx := range hv.valueIndex() {
         if ovIdx, ok = ovIndex[key]; !(ok && hv.entries[idx].Equals(ov.entries[ovIdx], g)) { return false } }
       return true }
     return false
   None = a runtime fault (index out of range) at some binding.  Go ranges over the map in an unspecified
   order and stops at the first `false`: whether a fault at one binding or a `false` at another one comes
   first is not determined, the model answers None (Proofs: it never happens for a Hash that a constructor made). *)
Definition entry_eqb (e e' : entry) : bool := veq (fst e) (fst e') && veq (snd e) (snd e').

Fixpoint all_bindings (f : list N * nat -> option bool) (m : imap) : option bool :=
  match m with
  | [] => Some true
  | b :: m' => match f b, all_bindings f m' with
               | Some x, Some y => Some (x && y)
               | _, _ => None
               end
  end.

Definition hobj_equals (h o : hobj) : option bool :=
  if Nat.eqb (length (h_entries h)) (length (h_entries o)) then
    let ov_index := value_index o in
    all_bindings (fun b =>
      match im_get ov_index (fst b) with
      | None => Some false
      | Some ov_idx =>
          match nth_error (h_entries h) (snd b), nth_error (h_entries o) ov_idx with
          | Some e, Some e' => Some (entry_eqb e e')
          | _, _ => None
          end
      end) (value_index h)
  else Some false.

(* hashtype.go:1240 Hash.ToKey reads the entries only *)
Definition hobj_key (h : hobj) : list N := vkey (VHash (h_entries h)).

(* The invariant of the index field: nil, or the map that valueIndex would build *)
Definition hobj_ok (h : hobj) : Prop :=
  h_index h = None \/ h_index h = Some (build_index (h_entries h)).
