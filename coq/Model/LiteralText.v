(* LiteralText.v — property C05: the whole lexer over a text, and the text of a literal value.
   next_token / lex_text: types/lexer.go:91 nextToken (the dispatch on the first character; white space and
     comments skipped) on top of the token readers of Model/QuoteLex.v (consumeString, consumeRegexp,
     consumeNumber), with lexer.go:385 consumeIdentifier and :421 consumeTypeName; the token stream up to the end
     token, as types.VerifTokens collects it (the tokens of Model/TokenParse.v, the end token left out).
   print_lit: px.ToString2(v, types.Program) of a literal value, as an expression of Model/TokenParse.v:
     arraytype.go:631 Array.ToString2 (`[`, elements separated by `, `, `]`), hashtype.go:1260 Hash.ToString2
     (`{`, `key => value` separated by `, `, `}`), strings by utils.PuppetQuote, regexps by utils.RegexpQuote,
     integers by strconv.FormatInt, undef / default / true / false by their words, a type by its name and
     parameter list (types.go:223); a float by the text an oracle gives (fmt %g is not modelled).
   Definitions only. *)
From Coq Require Import ZArith NArith Bool List.
From PcoreV Require Import Model.Base Model.QuoteLex Model.TokenParse.
Import ListNotations.
Open Scope N_scope.

Definition is_upper (r : N) : bool := (65 <=? r) && (r <=? 90).
Definition is_lower (r : N) : bool := (97 <=? r) && (r <=? 122).
Definition is_word (r : N) : bool := (r =? 95) || is_digit r || is_upper r || is_lower r.

(* lexer.go:385 consumeIdentifier (upper = false) / :421 consumeTypeName (upper = true) after the first
   character: word characters, and `::` followed by a letter of the right case (or `_` in an identifier) *)
Fixpoint consume_word (upper : bool) (fuel : nat) (s : str) (buf : str) : lres str :=
  match fuel with
  | O => LOutOfFuel
  | S f =>
    let r := sr_peek s in
    if r =? 0 then LOk buf s
    else if r =? 58 then
      let (r2, s2) := sr_next (snd (sr_next s)) in
      if r2 =? 58 then
        let (r3, s3) := sr_next s2 in
        if (if upper then is_upper r3 else is_lower r3 || (r3 =? 95))
        then consume_word upper f s3 (buf ++ [58; 58; r3])
        else LErr EBadToken
      else LErr EBadToken
    else if is_word r then consume_word upper f (snd (sr_next s)) (buf ++ [r])
    else LOk buf s
  end.

(* lexer.go:164 consumeLineComment *)
Fixpoint consume_line_comment (fuel : nat) (s : str) : lres unit :=
  match fuel with
  | O => LOutOfFuel
  | S f =>
    let (r, s1) := sr_next s in
    if (r =? 0) || (r =? 10) then LOk tt s1
    else if r =? rune_error then LErr EUnicode
    else consume_line_comment f s1
  end.

Definition lmap {A B} (g : A -> B) (r : lres A) : lres B :=
  match r with LOk a rest => LOk (g a) rest | LErr e => LErr e | LOutOfFuel => LOutOfFuel end.

Section Lexer.
  (* unicode.IsLetter (a number must not be followed by a letter): an oracle *)
  Variable is_letter : N -> bool.

  (* lexer.go:91 nextToken; fuel: one unit per character skipped (white space, comments) *)
  Fixpoint next_token (fuel : nat) (s : str) : lres tok :=
    match fuel with
    | O => LOutOfFuel
    | S f =>
      let (r, s1) := sr_next s in
      if r =? rune_error then LErr EUnicode                              (* lexer.go:94 *)
      else if r =? 0 then LOk KEnd s1                                    (* :97 *)
      else if (r =? 32) || (r =? 9) || (r =? 10) then next_token f s1    (* :102 *)
      else if r =? 35 then                                               (* :104 *)
        match consume_line_comment (S (length s1)) s1 with
        | LOk _ s2 => next_token f s2
        | LErr e => LErr e
        | LOutOfFuel => LOutOfFuel
        end
      else if (r =? 39) || (r =? 34) then lmap KString (lex_string s)    (* :107 *)
      else if r =? 47 then lmap KRegexp (lex_regexp s)                   (* :109 *)
      else if r =? 123 then LOk KLBrace s1
      else if r =? 125 then LOk KRBrace s1
      else if r =? 91 then LOk KLBracket s1
      else if r =? 93 then LOk KRBracket s1
      else if r =? 40 then LOk KLParen s1
      else if r =? 41 then LOk KRParen s1
      else if r =? 44 then LOk KComma s1
      else if r =? 46 then LOk KDot s1
      else if r =? 61 then                                               (* :127 *)
        if sr_peek s1 =? 62 then LOk KRocket (snd (sr_next s1)) else LOk KEqual s1
      else if (r =? 45) || (r =? 43) || is_digit r then                  (* :135, :146 *)
        match lex_number is_letter s with
        | LOk (KInteger, t) rest => LOk (KInt t) rest
        | LOk (QuoteLex.KFloat, t) rest => LOk (KFloat t) rest
        | LErr e => LErr e
        | LOutOfFuel => LOutOfFuel
        end
      else if is_upper r then lmap KName (consume_word true (S (length s1)) s1 [r])     (* :148 *)
      else if is_lower r then lmap KIdent (consume_word false (S (length s1)) s1 [r])   (* :151 *)
      else LErr EBadToken
    end.

  (* the tokens up to the end token (types.VerifTokens); fuel: one unit per token *)
  Fixpoint lex_all (fuel : nat) (s : str) : lres (list tok) :=
    match fuel with
    | O => LOutOfFuel
    | S f =>
      match next_token (S (length s)) s with
      | LOk KEnd rest => LOk [] rest
      | LOk t rest => lmap (cons t) (lex_all f rest)
      | LErr e => LErr e
      | LOutOfFuel => LOutOfFuel
      end
    end.

  (* every token takes at least one character *)
  Definition lex_text (s : str) : lres (list tok) := lex_all (S (length s)) s.
End Lexer.

(* ------------------------------------------------------------------------------------------ *)
(* the text of a literal value in program format                                                *)

Definition t_comma_space : str := [44; 32].
Definition t_rocket : str := [32; 61; 62; 32].

Fixpoint print_lit (v : pval) : str :=
  match v with
  | PVUndef => s_undef
  | PVDefault => s_default
  | PVBool true => s_true
  | PVBool false => s_false
  | PVInt z => format_int z
  | PVFloat text => text
  | PVStr s => puppet_quote s
  | PVRegexp s => regexp_quote s
  | PVArr es => 91 :: sep_by t_comma_space (map print_lit es) ++ [93]
  | PVHash kvs =>
    123 :: sep_by t_comma_space (map (fun kv => print_lit (fst kv) ++ t_rocket ++ print_lit (snd kv)) kvs) ++ [125]
  | PVEntry k x => print_lit k ++ t_rocket ++ print_lit x
  | PVType n None => n
  | PVType n (Some ps) => n ++ 91 :: sep_by t_comma_space (map print_lit ps) ++ [93]
  end.

(* the literal values of the end-to-end theorem: undef, default, booleans, 64 bit integers, strings that are
   text without U+FFFD, regexps whose source RegexpQuote can represent, arrays and hashes of these to any depth.
   Outside: floats (fmt / strconv are not modelled), types (their names and parameters are read by the resolver,
   layer L3), bare entries. *)
Fixpoint lit_ok (v : pval) : bool :=
  match v with
  | PVUndef | PVDefault | PVBool _ => true
  | PVInt z => in_int64 z
  | PVStr s => valid_utf8 s && no_replacement s
  | PVRegexp s => valid_utf8 s && no_replacement s && regexp_printable s
  | PVArr es => forallb lit_ok es
  | PVHash kvs => forallb (fun kv => lit_ok (fst kv) && lit_ok (snd kv)) kvs
  | PVFloat _ | PVEntry _ _ | PVType _ _ => false
  end.

(* what may follow a literal in a text: the end, or one of  , ] } space *)
Definition lit_stop (k : str) : bool :=
  match k with
  | [] => true
  | c :: _ => (c =? 44) || (c =? 93) || (c =? 125) || (c =? 32)
  end.
