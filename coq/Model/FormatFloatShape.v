(* FormatFloatShape.v — the shape fmt.fmtFloat (format.go:494-600 of go1.23) and floatValue's padFloat
   (types/floattype.go:386) build AROUND a digit string, written as a specification: sign, padding on one
   of three places, body.  The digit string is a parameter (`dig`: any function from (bits, verb, precision)
   to a string - strconv's in the code, a table in the correspondence cases).
   Proofs/FormatFloatShape.v proves that the method-by-method model (Model/Format.v: fmt_float, pad_float,
   float_g) IS this shape for every `dig`; Corr/CorrC20.v evaluates it on every numeric case of a run. *)
From Coq Require Import ZArith NArith Bool List.
From PcoreV Require Import Model.Base Model.Format.
Import ListNotations.
Open Scope Z_scope.

(* the text laid out in a field of `wid` bytes: exactly one of the three pads is non-empty, and only when the
   field is wider than sign + body; nothing is ever cut *)
Definition fl_layout (minus zero : bool) (wid : Z) (sign body : str) : str :=
  let n := wid - (len sign + len body) in
  if minus then sign ++ body ++ spaces n          (* '-' flag: left aligned, the '0' flag is ignored *)
  else if zero then sign ++ zeros n ++ body       (* '0' flag: zeros between the sign and the digits *)
  else spaces n ++ sign ++ body.                  (* right aligned *)

(* the sign character fmt chooses: '-' for a negative number, else '+' under the '+' flag, else ' ' under the
   ' ' flag; "+" again is what strconv writes in front of a positive number (shown for +Inf only) *)
Definition fl_sign_char (neg plus space : bool) : N :=
  if neg then 45%N else if plus then 43%N else if space then 32%N else 43%N.

Definition fl_strip_plus (ds0 : str) : str := match ds0 with 43%N :: r => r | _ => ds0 end.

(* Inf / NaN texts: recognised by fmt from their first letter *)
Definition fl_special (ds : str) : bool := match ds with d0 :: _ => N.eqb d0 73 || N.eqb d0 78 | [] => false end.
Definition fl_is_n (ds : str) : bool := match ds with d0 :: _ => N.eqb d0 78 | [] => false end.

Definition fl_prec (prec : Z) (verb : N) : Z :=
  if 0 <=? prec then prec else if N.eqb verb 101 || N.eqb verb 69 || N.eqb verb 102 then 6 else -1.

Definition fl_sign (ds : str) (neg plus space : bool) : str :=
  let shown := if fl_special ds then negb (fl_is_n ds && negb space && negb plus) else neg || plus || space in
  if shown then [fl_sign_char neg plus space] else [].

Definition fl_body (sharp : bool) (verb : N) (p : Z) (ds : str) : str :=
  if fl_special ds then ds else if sharp then sharp_fix verb p ds else ds.

Section Digits.
  Variable dig : Z -> N -> Z -> option str.       (* the digit string oracle: strconv.FormatFloat(|x|, verb, p, 64) *)

  (* fmt.fmtFloat as a shape *)
  Definition fmt_float_spec (sharp zero plus space minus : bool) (wid prec : Z) (verb : N) (bits : Z) : obs :=
    let p := fl_prec prec verb in
    match dig bits verb p with
    | None => OErr EOracle
    | Some ds0 =>
      let ds := fl_strip_plus ds0 in
      match ds with
      | [] => OErr EFault
      | _ :: _ =>
        let neg := negb (f_is_nan bits) && f_signbit bits in
        OText (fl_layout minus (zero && negb (fl_special ds)) wid (fl_sign ds neg plus space) (fl_body sharp verb p ds))
      end
    end.

  Definition go_fmt_float_spec (f : format) (verb : N) (bits : Z) : obs :=
    fmt_float_spec (f_alt f) (f_zero f) (N.eqb (f_plus f) 43) (N.eqb (f_plus f) 32) (f_left f) (f_width f) (f_prec f) verb bits.
End Digits.

(* padFloat: the text already carries its sign as first byte *)
Definition fl_split_sign (s : str) : str * str :=
  match s with
  | c :: r => if N.eqb c 45 || N.eqb c 43 || N.eqb c 32 then ([c], r) else ([], s)
  | [] => ([], [])
  end.

Definition pad_float_spec (f : format) (s : str) : str :=
  let '(sg, r) := fl_split_sign s in
  fl_layout (f_left f) (f_zero f && negb (mem 73 s || mem 78 s)) (f_width f) sg r.

(* the table of an oracle as a digit function *)
Definition dig_of (o : oracle) (bits : Z) (verb : N) (p : Z) : option str := assoc fdig_key_eqb (bits, verb, p) (o_fdig o).

(* every digit string of the table is ASCII (strconv's are: digits, '.', 'e', 'p', 'x', signs, Inf, NaN) *)
Definition fdig_ascii (o : oracle) : bool := forallb (fun e => is_ascii (snd e)) (o_fdig o).

(* what the correspondence evaluates on every case of a run: the digit strings the implementation showed are
   ASCII, and for a Boolean / Integer / Float under e E f a A (the verbs handed to fmt as they are), whatever the
   specification (directive string, per-type map, default), the observed text is the shape around the digit string; under every verb of
   e E f g G a A a text is at least `width` runes wide *)
Definition float_verb_direct (c : N) : bool := mem c l_eEf || mem c l_aA.
(* the verb fmt sees: floatValue.ToString hands %a / %A to fmt as %x / %X (floattype.go:318) *)
Definition fl_verb (c : N) : N := if N.eqb c 65 then 88%N else if N.eqb c 97 then 120%N else c.

Definition float_bits_of (o : oracle) (v : value) : option Z :=
  match v with
  | VFloat b => Some b
  | VInt n => assoc Z.eqb n (o_i2f o)
  | VBool b => Some (if b then bits_one else 0)
  | _ => None
  end.

Definition str_obs_eqb (a b : obs) : bool :=
  match a, b with
  | ROk x, ROk y => str_eqb x y
  | RErr _, RErr _ => true
  | _, _ => false
  end.

(* the format GetFormat selects for a scalar under the context of a specification (directive string, per-type map
   or default) *)
Definition scalar_format (o : oracle) (v : value) (spec : fspec) : option format :=
  if is_container v then None
  else match context_of spec with
       | Some (ROk m) => match get_format o m v with ROk f => Some f | RErr _ => None end
       | _ => None
       end.

Definition float_shape_check (o : oracle) (v : value) (spec : fspec) (observed : obs) : bool :=
  fdig_ascii o &&
  match scalar_format o v spec, float_bits_of o v with
  | Some f, Some bits =>
    let c := f_char f in
    if mem c l_efg then
      (match observed with ROk t => f_width f <=? rlen t | RErr _ => true end) &&
      (if float_verb_direct c
       then str_obs_eqb (go_fmt_float_spec (dig_of o) f (fl_verb c) bits) observed
       else true)
    else true
  | _, _ => true
  end.
