(* InferHist.v — executable model of HISTORIES of type inference on values that share parts (C04).

   The inferred types of Array and Hash values are computed lazily and cached in the value
   (Array.reducedType / detailedType, arraytype.go:776-808; Hash.reducedType / detailedType, hashtype.go:1379-1437).
   A value that is an element of several collections is ONE Go object: its cached types are reused by every
   collection that contains it, in whatever order the inferences are asked for.  Model/Infer.v treats
   v.PType() and DetailedValueType(v) as pure functions of the value; this file models what the code does:

     node                 a Go value object: a leaf (scalar or type used as a value: no cache), or an
                          Array / Hash / Sensitive whose elements are REFERENCES (indices) to earlier objects
     cache                the two lazily filled fields of every Array / Hash object
     pt  f c i            Array.privateReducedType / Hash.privateReducedType / Sensitive.PType  on object i
     dt  f c i            privateDetailedType / Sensitive.DetailedType on object i
     op, step, run        a history: v.PType(), DetailedValueType(v), CommonType(a, b), Generalize(a) in any order,
                          the type operands being literal types or the RESULTS of earlier operations of the history
     spec_op, spec_run    the same history with the pure functions of Model/Infer.v

   Loops: the recursion into the elements follows references, hence explicit fuel (out-of-fuel result
   TOutOfFuel; the number of objects suffices, Proofs/InferHistProofs.v); a dangling reference is the explicit
   result TFault.
   NOT modelled: types are values of `ty` here, i.e. a type object, once returned, is taken never to be written to
   again.  In the code that rests on utils.Unique, UniqueRegexps and UniqueTypes copying the backing array that
   commonType appends to (commonality.go, the Enum, Pattern and Variant merges) before it is stored in the new
   type.  That is an ASSUMPTION of this model, not a theorem (there is no slice-level model): it is tied to the code
   on every run by the correspondence (the types the returned objects hold at the END of each history are compared
   with `run`) and by the direct check (the stated relation of every earlier operation is evaluated again after
   every later one).  Mutable hashes (types.NewMutableHash, Put) are outside this model: direct check only. *)
From Coq Require Import ZArith NArith Bool List.
From PcoreV Require Import Model.Base Model.Ty Model.Lattice Model.Infer.
Import ListNotations.
Open Scope Z_scope.

Inductive node :=
| NLeaf (v : value)                      (* built on its own: a scalar, or a type used as a value *)
| NArr (cs : list nat)                   (* types.WrapValues of earlier objects *)
| NHash (es : list (nat * nat))          (* types.WrapHash of entries (key object, value object) *)
| NSens (c : nat).                       (* types.WrapSensitive *)

Definition s_fault : str := [70;97;117;108;116]%N.       (* "Fault" *)
Definition TFault : ty := TOther s_fault.

(* ---- the value an object denotes ---- *)
Definition nval (acc : list value) (n : node) : value :=
  match n with
  | NLeaf v => v
  | NArr cs => VArr (map (fun c => nth c acc VUndef) cs)
  | NHash es => VHash (map (fun e => (nth (fst e) acc VUndef, nth (snd e) acc VUndef)) es)
  | NSens c => VSensitive (nth c acc VUndef)
  end.

Fixpoint build (ns : list node) (acc : list value) : list value :=
  match ns with
  | [] => acc
  | n :: r => build r (acc ++ [nval acc n])
  end.
Definition vals_of (ns : list node) : list value := build ns [].

(* references point backwards (Go values are immutable and built bottom-up) *)
Definition node_ok (i : nat) (n : node) : bool :=
  match n with
  | NLeaf _ => true
  | NArr cs => forallb (fun c => Nat.ltb c i) cs
  | NHash es => forallb (fun e => Nat.ltb (fst e) i && Nat.ltb (snd e) i) es
  | NSens c => Nat.ltb c i
  end.
Fixpoint wf_from (i : nat) (ns : list node) : bool :=
  match ns with
  | [] => true
  | n :: r => node_ok i n && wf_from (S i) r
  end.
Definition wf_dag (ns : list node) : bool := wf_from 0 ns.

(* ---- the cached fields ---- *)
Definition slot := (option ty * option ty)%type.          (* reducedType, detailedType; None = nil *)
Definition cache := list slot.
Definition no_slot : slot := (None, None).
Definition get_red (c : cache) (i : nat) : option ty := fst (nth i c no_slot).
Definition get_det (c : cache) (i : nat) : option ty := snd (nth i c no_slot).
Fixpoint upd (c : cache) (i : nat) (f : slot -> slot) : cache :=
  match c, i with
  | [], _ => []
  | s :: r, O => f s :: r
  | s :: r, S i' => s :: upd r i' f
  end.
Definition set_red (c : cache) (i : nat) (t : ty) : cache := upd c i (fun s => (Some t, snd s)).
Definition set_det (c : cache) (i : nat) (t : ty) : cache := upd c i (fun s => (fst s, Some t)).
Definition empty_cache (ns : list node) : cache := map (fun _ => no_slot) ns.

Section Hist.
  Variable rx : str -> str -> bool.
  Variable ns : list node.
  Notation asg := (asg rx true).

  (* ---- v.PType() on object i ---- *)
  Fixpoint pt (f : nat) (c : cache) (i : nat) {struct f} : cache * ty :=
    match f with
    | O => (c, TOutOfFuel)
    | S f' =>
      match nth_error ns i with
      | None => (c, TFault)
      | Some (NLeaf v) => (c, infer rx v)
      | Some (NSens k) => let r := pt f' c k in (fst r, TSensitive (snd r))        (* sensitivetype.go:187 *)
      | Some (NArr cs) =>                                                          (* arraytype.go:793 *)
        match get_red c i with
        | Some t => (c, t)                                                         (* :794 reducedType != nil *)
        | None =>
          match cs with
          | [] => let t := TArray TUnit 0 0 in (set_red c i t, t)                  (* :797 *)
          | x :: r =>
            let r0 := pt f' c x in                                                 (* :799 *)
            let r1 := fold_left (fun (st : cache * ty) y =>
                                   let ry := pt f' (fst st) y in
                                   (fst ry, common rx (snd st) (snd ry))) r r0 in  (* :801 *)
            let t := TArray (snd r1) (zlen cs) (zlen cs) in (set_red (fst r1) i t, t)   (* :805 *)
          end
        end
      | Some (NHash es) =>                                                         (* hashtype.go:1414 *)
        match get_red c i with
        | Some t => (c, t)
        | None =>
          match es with
          | [] => let t := THash TUnit TUnit 0 0 in (set_red c i t, t)             (* :1418 *)
          | e0 :: r =>
            let rk := pt f' c (fst e0) in                                          (* :1425 *)
            let rv := pt f' (fst rk) (snd e0) in                                   (* :1426 *)
            let r1 := fold_left (fun (st : cache * (ty * ty)) e =>
                                   let rk' := pt f' (fst st) (fst e) in
                                   let rv' := pt f' (fst rk') (snd e) in
                                   (fst rv', (common rx (fst (snd st)) (snd rk'),
                                              common rx (snd (snd st)) (snd rv'))))
                                r (fst rv, (snd rk, snd rv)) in                    (* :1427-1431 *)
            let t := THash (fst (snd r1)) (snd (snd r1)) (zlen es) (zlen es) in
            (set_red (fst r1) i t, t)                                              (* :1432 *)
          end
        end
      end
    end.

  (* the key of an entry is a non-empty string (hashtype.go:1392: entry.key.(stringValue), len > 0) *)
  Definition node_name (k : nat) : option str :=
    match nth_error ns k with
    | Some (NLeaf v) => name_of v
    | _ => None
    end.

  (* structtype.go:53 NewStructElement(key, detailed value type) *)
  Definition struct_member (p : (nat * nat) * (ty * ty)) : str * (ty * ty) :=
    let n := match node_name (fst (fst p)) with Some n => n | None => [] end in
    let dv := snd (snd p) in
    (n, (if asg dv TUndef then TOptional (TStringVal n) else TStringVal n, dv)).

  (* ---- px.DetailedValueType(v) on object i ---- *)
  Fixpoint dt (f : nat) (c : cache) (i : nat) {struct f} : cache * ty :=
    match f with
    | O => (c, TOutOfFuel)
    | S f' =>
      match nth_error ns i with
      | None => (c, TFault)
      | Some (NLeaf v) => (c, infer_detailed rx v)                                 (* types.go:372 *)
      | Some (NSens k) => let r := dt f' c k in (fst r, TSensitive (snd r))        (* sensitivetype.go:191 *)
      | Some (NArr cs) =>                                                          (* arraytype.go:776 *)
        match get_det c i with
        | Some t => (c, t)
        | None =>
          match cs with
          | [] =>                                                                  (* :779 privateReducedType *)
            match get_red c i with
            | Some t => (set_det c i t, t)
            | None => let t := TArray TUnit 0 0 in (set_det (set_red c i t) i t, t)
            end
          | _ =>
            let r1 := fold_left (fun (st : cache * list ty) y =>
                                   let ry := dt f' (fst st) y in (fst ry, snd st ++ [snd ry])) cs (c, []) in   (* :782 *)
            let t := TTuple (snd r1) false (zlen cs) (zlen cs) in (set_det (fst r1) i t, t)   (* :787 *)
          end
        end
      | Some (NHash es) =>                                                         (* hashtype.go:1379 *)
        match get_det c i with
        | Some t => (c, t)
        | None =>
          match es with
          | [] =>                                                                  (* :1383 privateReducedType *)
            match get_red c i with
            | Some t => (set_det c i t, t)
            | None => let t := THash TUnit TUnit 0 0 in (set_det (set_red c i t) i t, t)
            end
          | _ =>
            let r1 := fold_left (fun (st : cache * list (ty * ty)) e =>
                                   let rk := dt f' (fst st) (fst e) in
                                   let rv := dt f' (fst rk) (snd e) in
                                   (fst rv, snd st ++ [(snd rk, snd rv)])) es (c, []) in      (* :1391-1397 *)
            let kvs := snd r1 in
            let t :=
              if forallb (fun e => match node_name (fst e) with Some _ => true | None => false end) es
              then TStruct (map struct_member (combine es kvs))                    (* :1399-1404 *)
              else THash (mk_variant (udedup (map fst kvs))) (mk_variant (udedup (map snd kvs)))
                         (zlen es) (zlen es) in                                    (* :1408 *)
            (set_det (fst r1) i t, t)
          end
        end
      end
    end.

  (* ---- histories ---- *)
  Inductive tref :=
  | RTy (t : ty)                         (* a type given literally *)
  | RRes (k : nat).                      (* the type object the k-th operation of the history returned *)

  Inductive op :=
  | OPType (i : nat)                     (* v.PType() *)
  | ODetailed (i : nat)                  (* px.DetailedValueType(v) *)
  | OCommon (a b : tref)                 (* commonType(a, b) *)
  | OGeneralize (a : tref).              (* px.Generalize(a) *)

  Definition deref (res : list ty) (r : tref) : ty :=
    match r with
    | RTy t => t
    | RRes k => nth k res TFault
    end.

  Definition fuel : nat := length ns.

  Definition step (st : cache * list ty) (o : op) : cache * list ty :=
    match o with
    | OPType i => let r := pt fuel (fst st) i in (fst r, snd st ++ [snd r])
    | ODetailed i => let r := dt fuel (fst st) i in (fst r, snd st ++ [snd r])
    | OCommon a b => (fst st, snd st ++ [common rx (deref (snd st) a) (deref (snd st) b)])
    | OGeneralize a => (fst st, snd st ++ [generalize (deref (snd st) a)])
    end.

  Definition run_from (st : cache * list ty) (ops : list op) : cache * list ty := fold_left step ops st.
  Definition run (ops : list op) : cache * list ty := run_from (empty_cache ns, []) ops.

  (* the same history, every operation a pure function of the values and of the earlier results *)
  Definition spec_op (vals : list value) (res : list ty) (o : op) : ty :=
    match o with
    | OPType i => infer rx (nth i vals VUndef)
    | ODetailed i => infer_detailed rx (nth i vals VUndef)
    | OCommon a b => common rx (deref res a) (deref res b)
    | OGeneralize a => generalize (deref res a)
    end.
  Definition spec_from (vals : list value) (res : list ty) (ops : list op) : list ty :=
    fold_left (fun res o => res ++ [spec_op vals res o]) ops res.
  Definition spec_run (ops : list op) : list ty := spec_from (vals_of ns) [] ops.

  (* the operations name existing objects *)
  Definition op_ok (o : op) : bool :=
    match o with
    | OPType i | ODetailed i => Nat.ltb i (length ns)
    | _ => true
    end.

  (* the type operands of the k-th operation were returned before it *)
  Definition ref_ok (k : nat) (r : tref) : bool :=
    match r with
    | RTy _ => true
    | RRes j => Nat.ltb j k
    end.
  Definition refs_ok (k : nat) (o : op) : bool :=
    match o with
    | OCommon a b => ref_ok k a && ref_ok k b
    | OGeneralize a => ref_ok k a
    | _ => true
    end.
End Hist.
