(* LoaderCtx.v — the loader a px.Context holds (pxContext.loader, internal/context.go:17).  px.Load, Context.Fork and
   px.AddTypes do not name a loader: they take what the context holds at that moment (c.Loader(), c.DefiningLoader()).
   The only code of the modelled paths that assigns the field is
     internal/context.go:91-98   func (c *pxContext) DoWithLoader(loader px.Loader, doer px.Doer) {
                                    saveLoader := c.loader
                                    defer func() { c.loader = saveLoader }()
                                    c.loader = loader
                                    doer() }
   called by typeSet.Resolve (types/typeset.go:427) around the resolution of the members of a type set, with the new
   type-set loader whose parent is `c.Loader()`.  `ctx_exec` runs the calls of one px.AddTypes (Model/LoaderAdd.v) and
   follows the field: CEnter = the assignment :96, CLeave = the deferred function after a normal return of doer, and
   when a call panics (a rejected definition, a member whose Resolve is rejected) the panic passes every DoWithLoader
   that is running and each deferred function puts its saved loader back: the context holds what it held when
   px.AddTypes was called.  Histories (`cstep`, `crun`) keep, for the context made for loader l, the loader it holds
   when that is another one, and send px.Load / Fork / px.AddTypes through it.
   Definitions only. *)
From Coq Require Import Arith NArith Bool List.
From PcoreV Require Import Model.Base Model.Loader Model.LoaderSpec Model.LoaderAdd.
Import ListNotations.

Section CtxExec.
  Context {S : Type}.
  Variable stp : S -> op -> S * out.
  Variable addn : S -> lkind -> S * out.
  Variable len : S -> nat.
  Variable L base : nat.      (* the loader the context holds when px.AddTypes is called; the number of loaders then *)

  (* `top`: the loaders assigned by the DoWithLoader calls that are running, innermost first; the context holds
     `hd L top` *)
  Definition ctx_move (top : list nat) (i : instr) : list nat :=
    match i with
    | ICtx (CEnter r) => ref_idx L base r :: top       (* context.go:96 *)
    | ICtx CLeave => tl top                            (* context.go:93-95 after doer() has returned *)
    | _ => top
    end.

  (* types/typeset.go:427 px.NewTypeSetLoader(c.Loader(), t): the parent of the new loader is what the context holds *)
  Definition ctx_agrees (top : list nat) (i : instr) : bool :=
    match i with INode p _ => Nat.eqb (ref_idx L base p) (hd L top) | _ => true end.

  Fixpoint ctx_exec (s : S) (top : list nat) (is : list instr) : S * aout * list nat :=
    match is with
    | [] => (s, AOk, top)
    | i :: is' =>
      if ctx_agrees top i then
        let '(s1, o) := exec_instr stp addn len L base s i in
        match o with
        | AOk => ctx_exec s1 (ctx_move top i) is'
        | _ => (s1, o, [])          (* the panic unwinds: context.go:93-95 once for every running DoWithLoader *)
        end
      else (s, AStuck, [])          (* the call sequence names another parent than the context holds: never (ctx_exec_exec) *)
    end.
End CtxExec.

(* ---------------------------------------------------------------------------------------------- *)
(* histories through contexts *)

(* the context made for loader l |-> the loader it holds, listed when that is not l *)
Definition ctab := list (nat * nat).

Fixpoint via (tab : ctab) (l : nat) : nat :=
  match tab with
  | [] => l
  | (k, c) :: tab' => if Nat.eqb k l then c else via tab' l
  end.

Definition tab_set (tab : ctab) (l c : nat) : ctab :=
  let rest := filter (fun kc => negb (Nat.eqb (fst kc) l)) tab in
  if Nat.eqb c l then rest else (l, c) :: rest.

(* the loader whose context an operation goes through *)
Definition op_loader (o : op) : nat :=
  match o with
  | ONewDep => 0
  | ONewParented l | OFork l | ONewTypeSet l _ | ODefine l _ _ | OLoad l _ | OLoadEntry l _ | OGetEntry l _ | OHas l _
  | ODiscover l _ => l
  end.

Definition xop_loader (x : xop) : nat := match x with XOp o => op_loader o | XAddTypes l _ | XDeclare l _ => l end.

(* one operation; the third answer is the loader the operation's context holds afterwards (c.Loader()) *)
Definition cstep (cfg : config) (cs : lstate * ctab) (x : xop) : (lstate * ctab) * xout * nat :=
  let '(st, tab) := cs in
  match x with
  | XOp (OLoad l n) =>                              (* loader.go:70 px.Load(c, n): c.Loader() *)
    let '(st', r) := step cfg st (OLoad (via tab l) n) in ((st', tab), XR r, via tab l)
  | XOp (OFork l) =>                                (* context.go:106 Fork: px.NewParentedLoader(clone.loader) *)
    let '(st', r) := step cfg st (OFork (via tab l)) in ((st', tab), XR r, via tab l)
  | XOp o =>                                        (* a method of the loader itself *)
    let '(st', r) := step cfg st o in ((st', tab), XR r, via tab (op_loader o))
  | XAddTypes l ts =>                               (* px/context.go:115 c.DefiningLoader(), :130 ResolveTypes(c, ...) *)
    let c := via tab l in
    if Nat.ltb c (length st) then
      let '(st', a, top) := ctx_exec (step cfg) add_node (@length lnode) c (length st) st [] (compile (cfg_auth cfg) ts) in
      ((st', tab_set tab l (hd c top)), XA a, hd c top)
    else ((st, tab), XA ABadLoader, c)
  | XDeclare l ts =>                                (* internal/context.go:180 c.Loader(), :192 resolveTypes(c, ...) *)
    let c := via tab l in
    if Nat.ltb c (length st) then
      let '(st', a, top) := ctx_exec (step cfg) add_node (@length lnode) c (length st) st [] (compile_decl (cfg_auth cfg) ts) in
      ((st', tab_set tab l (hd c top)), XA a, hd c top)
    else ((st, tab), XA ABadLoader, c)
  end.

Fixpoint crun_from (cfg : config) (cs : lstate * ctab) (xs : list xop) : (lstate * ctab) * list xout * list nat :=
  match xs with
  | [] => (cs, [], [])
  | x :: xs' =>
    let '(cs1, r, c) := cstep cfg cs x in
    let '(cs2, rs, ctxs) := crun_from cfg cs1 xs' in
    (cs2, r :: rs, c :: ctxs)
  end.

Definition crun (cfg : config) (xs : list xop) : (lstate * ctab) * list xout * list nat :=
  crun_from cfg (init_state cfg, []) xs.
Definition couts (cfg : config) (xs : list xop) : list xout := snd (fst (crun cfg xs)).
Definition cctxs (cfg : config) (xs : list xop) : list nat := snd (crun cfg xs).

(* ---------------------------------------------------------------------------------------------- *)
(* the shape of the call sequences: DoWithLoader calls are properly nested and a type-set loader is made on top of
   the loader of the innermost one (true of every `compile` output: Proofs/LoaderCtxProofs.v compile_track) *)
Definition lref_eqb (a b : lref) : bool :=
  match a, b with HL, HL => true | HH j, HH k => Nat.eqb j k | _, _ => false end.

Fixpoint track (stk : list lref) (is : list instr) : option (list lref) :=
  match is with
  | [] => Some stk
  | INode p _ :: is' => if lref_eqb p (hd HL stk) then track stk is' else None
  | ICtx (CEnter r) :: is' => track (r :: stk) is'
  | ICtx CLeave :: is' => match stk with [] => None | _ :: stk' => track stk' is' end
  | _ :: is' => track stk is'
  end.
