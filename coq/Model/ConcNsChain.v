(* C13 - the several-namespace file based loader M of Model/ConcNs.v INSIDE a chain of parented loaders

       static <- A_1 <- ... <- A_a <- M <- C_1 <- ... <- C_b        (loader 1 .. a, a+1 = M, a+2 .. a+1+b, as in the harness)

   and px.Load / HasEntry through ANY loader of the chain of names in M's namespaces.  The parented loaders never bind
   such a name (the instantiator defines through M: filebased.go:278 instantiationLoader); all they ever hold for it is an
   entry without value (the cached miss that load() stores in the loader of the context, loader.go:79).  So they are
   pass-throughs with yield points:

     parentedLoader.LoadEntry loader.go:197   entry := parent.LoadEntry; if entry == nil || entry.Value() == nil
                                              { "parented.between"; entry = own GetEntry }
     load loader.go:71                        entry == nil -> "load.after-lookup"; SetEntry(name, entry without value)

   A load through loader l first passes the "parented.between" of A_1 .. A_min(l,a) (CAbove); for l > a it then runs
   M.LoadEntry - the thread of Model/ConcNs.v, unchanged (CInM; the yield point "parented.between" of M is ConcNs.NBetween) -
   and, when M hands up an entry without value and l > a+1, the "parented.between" of C_1 .. (CBelow); the loader of the
   context caches the miss (CAfter).  The shared state of M is touched by ConcNs.nstep only. *)
From Coq Require Import NArith Arith Bool List.
From PcoreV Require Import Model.ConcNs.
Import ListNotations.

Definition clid := nat.
Record ccfg := mkCC { c_m : ncfg; c_above : nat; c_below : nat }.

Inductive cop :=
| CLoad (l : clid) (s : nsid) (b : N)
| CHas (l : clid) (s : nsid) (b : N).

Inductive cpc :=
| CIdle
| CAbove (l : clid) (s : nsid) (b : N) (j : clid)   (* at "parented.between" of A_j, 1 <= j <= min l a *)
| CInM (l : clid) (s : nsid) (b : N)                (* inside M.LoadEntry: the ConcNs thread runs NLoad s b *)
| CBelow (l : clid) (s : nsid) (b : N) (j : clid)   (* at "parented.between" of loader j, a+1 < j <= l *)
| CAfter (l : clid) (s : nsid) (b : N).             (* at "load.after-lookup": loader l had no entry *)

Record cthread := mkCT { ct_pc : cpc; ct_todo : list cop }.
Definition cevent := (ntid * cop * nres)%type.

Record cstate := mkCSt {
  cs_in : nstate;                          (* M: entries, lock table, the threads inside M.LoadEntry, the parses *)
  cs_thr : ntid -> cthread;
  cs_miss : clid -> nsid -> N -> bool;     (* the entries without value of the parented loaders *)
  cs_log : list cevent
}.

Definition cprog := list (list cop).

Definition cinit (p : cprog) : cstate :=
  mkCSt (ninit []) (fun t => mkCT CIdle (nth t p [])) (fun _ _ _ => false) [].

Definition cset (st : cstate) (t : ntid) (th : cthread) : cstate :=
  mkCSt (cs_in st) (nupd1 (cs_thr st) t th) (cs_miss st) (cs_log st).
Definition cfinish (st : cstate) (t : ntid) (todo : list cop) (o : cop) (r : nres) : cstate :=
  mkCSt (cs_in st) (nupd1 (cs_thr st) t (mkCT CIdle todo)) (cs_miss st) (cs_log st ++ [(t, o, r)]).

(* the thread enters M.LoadEntry: it is handed to ConcNs as a thread whose program is this one load, and runs its
   first segment (up to "parented.between" of M) *)
Definition nenter (st : nstate) (t : ntid) (s : nsid) (b : N) : nstate :=
  mkNSt (ns_sh st) (nupd1 (ns_thr st) t (mkNT NIdle [NLoad s b])) (ns_log st).
Definition center (c : ccfg) (st : cstate) (t : ntid) (todo : list cop) (l : clid) (s : nsid) (b : N) : cstate :=
  mkCSt (nstep KeyMapped (c_m c) (nenter (cs_in st) t s b) t) (nupd1 (cs_thr st) t (mkCT (CInM l s b) todo))
        (cs_miss st) (cs_log st).

(* own GetEntry of loader l, the loader of the context, after everything above it had no value *)
Definition cown (st : cstate) (t : ntid) (todo : list cop) (l : clid) (s : nsid) (b : N) : cstate :=
  if cs_miss st l s b then cfinish st t todo (CLoad l s b) (NFound None)
  else cset st t (mkCT (CAfter l s b) todo).

Definition nlast_res (log : list nevent) : nres :=
  match last log (NvParse 0 0%N) with NvRes _ _ r => r | _ => NFault end.

Definition cstep (c : ccfg) (st : cstate) (t : ntid) : cstate :=
  let th := cs_thr st t in
  let todo := ct_todo th in
  let a := c_above c in
  match ct_pc th with
  | CIdle =>
      match todo with
      | [] => st
      | CHas l s b :: todo' =>          (* parentedLoader.HasEntry: parent || own value; fileBasedLoader.HasEntry: the index *)
          cfinish st t todo' (CHas l s b)
            (if (Nat.leb 1 l && Nat.leb l (a + 1 + c_below c))%bool
             then NBool (Nat.leb (a + 1) l && (Nat.leb s (n_extra (c_m c)) && has_file (c_m c) b))
             else NFault)
      | CLoad l s b :: todo' =>
          if (Nat.leb 1 l && Nat.leb l (a + 1 + c_below c))%bool then
            match a with
            | 0 => center c st t todo' l s b
            | S _ => cset st t (mkCT (CAbove l s b 1) todo')      (* the static loader has none of these names *)
            end
          else cfinish st t todo' (CLoad l s b) NFault
      end
  | CAbove l s b j =>
      if Nat.eqb j l then cown st t todo l s b
      else if Nat.eqb j a then center c st t todo l s b
      else cset st t (mkCT (CAbove l s b (S j)) todo)
  | CInM l s b =>
      let inner := nstep KeyMapped (c_m c) (cs_in st) t in
      match nt_pc (ns_thr inner t) with
      | NIdle =>                               (* M.LoadEntry has returned (or px.Load escaped with an error) *)
          let r := nlast_res (ns_log inner) in
          let st' := mkCSt inner (cs_thr st) (cs_miss st) (cs_log st) in
          match r with
          | NFound None =>
              if Nat.eqb l (a + 1) then cfinish st' t todo (CLoad l s b) r
              else cset st' t (mkCT (CBelow l s b (a + 2)) todo)     (* "parented.between" of the loader below M *)
          | _ => cfinish st' t todo (CLoad l s b) r
          end
      | _ => mkCSt inner (cs_thr st) (cs_miss st) (cs_log st)
      end
  | CBelow l s b j =>
      if Nat.eqb j l then cown st t todo l s b
      else cset st t (mkCT (CBelow l s b (S j)) todo)
  | CAfter l s b =>
      cfinish (mkCSt (cs_in st) (cs_thr st)
                 (fun l' s' b' => if (Nat.eqb l' l && Nat.eqb s' s && N.eqb b' b)%bool then true else cs_miss st l' s' b')
                 (cs_log st)) t todo (CLoad l s b) (NFound None)
  end.

Definition cexec (c : ccfg) (p : cprog) (s : list ntid) : cstate := fold_left (cstep c) s (cinit p).

Fixpoint cresults_of (t : ntid) (log : list cevent) : list nres :=
  match log with
  | [] => []
  | (t', _, r) :: log' => if Nat.eqb t' t then r :: cresults_of t log' else cresults_of t log'
  end.

Fixpoint call_done (st : cstate) (k : nat) : bool :=
  match k with
  | 0 => true
  | S k' => (match ct_pc (cs_thr st k'), ct_todo (cs_thr st k') with CIdle, [] => true | _, _ => false end) && call_done st k'
  end.
