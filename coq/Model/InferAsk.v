(* InferAsk.v — histories (Model/InferHist.v) with the QUESTION of the property and with the asserting / describing
   operations that touch the cached types of a value (C04).

   "Whenever a type T accepts the detailed type inferred for a value, the value is an instance of T, and conversely"
   is asked of a value at some moment of its life: px.IsAssignable(T, px.DetailedValueType(v)) against
   px.IsInstance(T, v).  DetailedValueType returns the object cached in the Array / Hash (InferHist.dt), and other
   public operations compute, fill in and read that same object on their way:

     px.AssertInstance(pfx, T, v)   px/types.go:296  if !IsInstance(T, v) { panic(MismatchError(pfx, T, v)) }
     px.MismatchError(pfx, T, v)    px/types.go:303  actual := DetailedValueType(v); DescribeMismatch(pfx, T, actual)
     px.AssertType(pfx, T, a)       px/types.go:289  if !IsAssignable(T, a) { panic(TypeMismatchError(pfx, T, a)) }

   qstep adds them to the operations of InferHist.v.  A failed AssertInstance and MismatchError run `dt` on the object
   (the detailedType fields of the object and of every collection below it are filled); the describer
   (internal/typemismatchdescriber.go, C19's model) reads the two types and returns a text.
   NOT modelled, as in InferHist.v: types are values of `ty`, i.e. no operation writes into a type object it is handed
   (the describer works on HashedMembersCloned() of the actual Struct type, typemismatchdescriber.go:706).  That is the
   ASSUMPTION of this model; it is tied to the code on every run by the correspondence (the answers of every question
   as given at the END of each history against `qrun`) and by the direct check (every earlier question is put again
   after every later operation). *)
From Coq Require Import ZArith NArith Bool List.
From PcoreV Require Import Model.Base Model.Ty Model.Lattice Model.Infer Model.InferHist.
Import ListNotations.
Open Scope Z_scope.

Inductive qop :=
| QOp (o : op)                           (* an operation of InferHist.v *)
| QAccepts (t : tref) (i : nat)          (* the question, on object i *)
| QAssert (t : tref) (i : nat)           (* px.AssertInstance(pfx, T, v) *)
| QMismatch (t : tref) (i : nat)         (* px.MismatchError(pfx, T, v) *)
| QAssertType (t a : tref).              (* px.AssertType(pfx, T, a) *)

(* QAccepts: (T accepts the detailed type, v is an instance of T); QAssert / QAssertType: (passed, passed) *)
Definition answer := (bool * bool)%type.
Definition qstate := ((cache * list ty) * list answer)%type.

Section Ask.
  Variable rx : str -> str -> bool.
  Variable ns : list node.

  Definition vat (i : nat) : value := nth i (vals_of ns) VUndef.

  Definition qstep (st : qstate) (o : qop) : qstate :=
    let c := fst (fst st) in
    let res := snd (fst st) in
    match o with
    | QOp o' => (step rx ns (fst st) o', snd st)
    | QAccepts t i =>
      let r := dt rx ns (fuel ns) c i in                                    (* px.DetailedValueType(v) *)
      ((fst r, res), snd st ++ [(asg rx true (deref res t) (snd r), inst rx true (deref res t) (vat i))])
    | QAssert t i =>
      if inst rx true (deref res t) (vat i)                                 (* px/types.go:297 *)
      then (fst st, snd st ++ [(true, true)])
      else let r := dt rx ns (fuel ns) c i in                               (* :298 -> :304 *)
           ((fst r, res), snd st ++ [(false, false)])
    | QMismatch t i =>
      let r := dt rx ns (fuel ns) c i in ((fst r, res), snd st)             (* :304 *)
    | QAssertType t a =>
      let ok := asg rx true (deref res t) (deref res a) in                  (* :290 *)
      (fst st, snd st ++ [(ok, ok)])
    end.

  Definition qrun_from (st : qstate) (ops : list qop) : qstate := fold_left qstep ops st.
  Definition qrun (ops : list qop) : qstate := qrun_from ((empty_cache ns, []), []) ops.

  (* the same history, every result and every answer a pure function of the values and of the earlier results *)
  Definition qspec_step (vals : list value) (st : list ty * list answer) (o : qop) : list ty * list answer :=
    let res := fst st in
    match o with
    | QOp o' => (res ++ [spec_op rx vals res o'], snd st)
    | QAccepts t i =>
      (res, snd st ++ [(asg rx true (deref res t) (infer_detailed rx (nth i vals VUndef)),
                        inst rx true (deref res t) (nth i vals VUndef))])
    | QAssert t i => let ok := inst rx true (deref res t) (nth i vals VUndef) in (res, snd st ++ [(ok, ok)])
    | QMismatch _ _ => st
    | QAssertType t a => let ok := asg rx true (deref res t) (deref res a) in (res, snd st ++ [(ok, ok)])
    end.
  Definition qspec_from (vals : list value) (st : list ty * list answer) (ops : list qop) : list ty * list answer :=
    fold_left (qspec_step vals) ops st.
  Definition qspec_run (ops : list qop) : list ty * list answer := qspec_from (vals_of ns) ([], []) ops.

  Definition qop_ok (o : qop) : bool :=
    match o with
    | QOp o' => op_ok ns o'
    | QAccepts _ i | QAssert _ i | QMismatch _ i => Nat.ltb i (length ns)
    | QAssertType _ _ => true
    end.
End Ask.
