(* FileLoader.v — model of file-based loading (property C15).

   Mirrors, function by function, the code as it is after the fix commits 17d1655, d50c2af, 789d3f4, 4dadf43,
   8923fe0, 7cc9a39:
     types/typedname.go:117  newTypedName2 (TrimPrefix "::")                      -> trim_dc / norm_name
     types/typedname.go:230  MapKey (lower case of authority/namespace/name)      -> norm_name (authority and
                             namespace are constants here: runtime authority, namespace `type`)
     types/typedname.go:237  Parts (split on "::", every part must match \A[A-Za-z][0-9A-Z_a-z]*\z) -> parts_checked
     types/typedname.go:223  IsQualified                                          -> is_qualified
     types/typedname.go:170  Parent (up to the last "::")                         -> parent_name / ancestors
     loader/smartpath.go:63  EffectivePath                                        -> effective_path
     loader/smartpath.go:123 TypedNames                                           -> typed_name
     loader/filebased.go:331 addToIndex (over the filepath.Walk of <root>/types)  -> index_of
     loader/filebased.go:204 findExistingPath                                     -> find_existing_path
     loader/filebased.go:315 HasEntry, :286 Discover                              -> mod_has / mod_discover
     loader/loader.go:122    basicLoader.SetEntry                                 -> set_entry_m / dep_set_m
     loader/loader.go:185    parentedLoader.LoadEntry (a context's child loader)  -> ctx_load_entry
     loader/loader.go:70     load (px.Load)                                       -> load
     loader/filebased.go:79  fileBasedLoader.LoadEntry                            -> mod_load_entry
     loader/filebased.go:115 find (module-relative names, init_typeset, parent-name search) -> find / psearch
     loader/filebased.go:238 instantiate (placeholder first) + instantiationLoader -> instantiate
     loader/instantiate.go:13 InstantiatePuppetType (+ px.AddTypes px/context.go:114, internal/context.go:238
                             resolveTypes, :268 resolveTypeSet, types/resolver.go:34 loadType) -> inst_type
     loader/dependency.go:29 dependencyLoader.LoadEntry, :47 find                 -> dep_load_entry / dep_find
     loader/loader.go:198    parentedLoader.LoadEntry of a file-based loader whose parent is a file-based loader
                             (environment <- module <- ...: TopChain)              -> chain_load_entry

   A directory is what filepath.Walk lists below a loader root (the OS is the oracle for the set of paths and
   their order): relative path, is-directory flag, and a content class.  Names are Go strings (bytes); every
   name is used by the code through MapKey / Parts / strings.EqualFold only, i.e. lower-cased — the model
   lower-cases once (norm_name; ASCII letters: non-ASCII names are outside the model).
   What a loader defines is observed as (lower-cased name, marker of the alias, is-a-TypeSet).

   Nested lookups (a definition refers to other names; a TypeSet asks the loader for each member; find asks
   for the ancestors of a qualified name) make the Go functions mutually recursive; the model is layered:
   layer n+1 is defined (non-recursively, Section Layer) over the two entry points of layer n —
   LE = the context loader's LoadEntry and FD = find — and layer 0 answers OutOfFuel.
   Definitions only. *)
From Coq Require Import ZArith NArith Bool List.
From PcoreV Require Import Model.Base.
Import ListNotations.
Local Open Scope nat_scope.

(* ---- Go strings ------------------------------------------------------------------------------------------ *)

Definition lower_byte (c : N) : N := if (N.leb 65 c && N.leb c 90)%bool then (c + 32)%N else c.
Definition lower (s : str) : str := map lower_byte s.

Definition is_dc (c d : N) : bool := (N.eqb c 58 && N.eqb d 58)%bool.        (* "::" *)

(* strings.TrimPrefix(name, "::") *)
Definition trim_dc (s : str) : str :=
  match s with
  | c :: d :: r => if is_dc c d then r else s
  | _ => s
  end.

(* the form in which a requested name is used: typedname.go:121 + :232 *)
Definition norm_name (raw : str) : str := lower (trim_dc raw).

(* strings.Split(s, "::"): never empty *)
Fixpoint split_dc (s : str) : list str :=
  match s with
  | [] => [[]]
  | c :: r =>
      match r with
      | d :: r' =>
          if is_dc c d then [] :: split_dc r'
          else match split_dc r with h :: t => (c :: h) :: t | [] => [[c]] end
      | [] => [[c]]
      end
  end.

(* strings.Split(s, sep) for a one-byte separator *)
Fixpoint split_on (sep : N) (s : str) : list str :=
  match s with
  | [] => [[]]
  | c :: r =>
      if N.eqb c sep then [] :: split_on sep r
      else match split_on sep r with h :: t => (c :: h) :: t | [] => [[c]] end
  end.

(* strings.Join *)
Fixpoint join (sep : str) (l : list str) : str :=
  match l with
  | [] => []
  | [x] => x
  | x :: t => x ++ sep ++ join sep t
  end.

Fixpoint has_prefix (p s : str) : bool :=
  match p, s with
  | [], _ => true
  | a :: p', b :: s' => N.eqb a b && has_prefix p' s'
  | _ :: _, [] => false
  end.

Fixpoint strip_prefix (p s : str) : option str :=
  match p, s with
  | [], _ => Some s
  | a :: p', b :: s' => if N.eqb a b then strip_prefix p' s' else None
  | _ :: _, [] => None
  end.

Definition has_suffix (suf s : str) : bool :=
  (length suf <=? length s) && str_eqb (skipn (length s - length suf) s) suf.

(* name[:strings.LastIndex(name, "::")], None when there is no "::" (typedname.go:170) *)
Fixpoint parent_name (s : str) : option str :=
  match s with
  | [] => None
  | c :: r =>
      match parent_name r with
      | Some p => Some (c :: p)
      | None => match r with d :: _ => if is_dc c d then Some [] else None | [] => None end
      end
  end.

Fixpoint ancestors_f (fuel : nat) (k : str) : list str :=
  match fuel with
  | 0 => []
  | S f => match parent_name k with Some p => p :: ancestors_f f p | None => [] end
  end.
(* name.Parent(), its Parent(), ... : every step removes at least two bytes *)
Definition ancestors (k : str) : list str := ancestors_f (length k) k.

Definition is_alpha (c : N) : bool := (N.leb 65 c && N.leb c 90) || (N.leb 97 c && N.leb c 122).
Definition is_word (c : N) : bool := is_alpha c || (N.leb 48 c && N.leb c 57) || N.eqb c 95.
(* \A[A-Za-z][0-9A-Z_a-z]*\z  (typedname.go:115) *)
Definition valid_seg (s : str) : bool :=
  match s with
  | [] => false
  | c :: r => is_alpha c && forallb is_word r
  end.

(* strings.Contains(name, "::") = len(Parts) > 1 (typedname.go:223) *)
Definition is_qualified (k : str) : bool := 1 <? length (split_dc k).

Definition s_types_slash : str := [116;121;112;101;115;47]%N.                       (* "types/" *)
Definition s_pp : str := [46;112;112]%N.                                            (* ".pp" *)
Definition s_init : str := [105;110;105;116]%N.                                     (* "init" *)
Definition s_init_typeset : str := [105;110;105;116;95;116;121;112;101;115;101;116]%N.  (* "init_typeset" *)
Definition s_environment : str := [101;110;118;105;114;111;110;109;101;110;116]%N.  (* "environment" *)
Definition s_dc : str := [58;58]%N.                                                 (* "::" *)
Definition s_slash : str := [47]%N.

(* sort.Strings *)
Fixpoint insert_str (x : str) (l : list str) : list str :=
  match l with
  | [] => [x]
  | y :: t => if str_ltb y x then y :: insert_str x t else x :: l
  end.
Definition sort_strs (l : list str) : list str := fold_right insert_str [] l.

(* ---- the directory tree and the loader configuration ------------------------------------------------------ *)

(* what a file holds, by class (the harness renders the text; the parser is not part of this model) *)
Inductive content :=
| CGood (decl : str) (refs : list str)        (* `type <decl> = <alias of a marker type that refers to refs>` *)
| CAnon (refs : list str)                     (* a bare type expression: the loader names it after the request *)
| CTypeSet (decl : str) (members : list str)  (* `type <decl> = TypeSet[{ ..., types => { <members> } }]` *)
| CMalformed (line : N)                       (* the parser rejects it at that line *)
| CNoDef                                      (* parses, but is no definition (empty, a literal, only comments) *)
| CUnreadable.                                (* ioutil.ReadFile fails *)

Record file := {
  f_rel : str;          (* path relative to the loader root, '/' separated *)
  f_dir : bool;         (* os.FileInfo.IsDir() as filepath.Walk (lstat) sees it *)
  f_content : content;
  f_marker : N;         (* unique per file; member j of a type set has marker f_marker+1+j *)
  f_defline : N         (* line where the first token starts (1 if none): types.DefinitionLocation *)
}.

Record modl := {
  m_name : str;         (* module name given to NewFileBasedLoader ("" = global) *)
  m_walk : list file    (* filepath.Walk of the loader root, in order *)
}.

(* mods[0] alone | px.NewDependencyLoader over all | mods[0] is the top loader, the parent of the loader of
   mods[i] is the loader of mods[i+1] (px.NewFileBasedLoader(<loader of mods[i+1]>, ...)), the parent of the last
   one is the system loader *)
Inductive topk := TopSingle | TopDep | TopChain.

Record world := {
  w_top : topk;
  w_mods : list modl;
  (* oracle: what the parent of the file-based loaders (system loader over the static loader) binds: key -> name *)
  w_shadow : list (str * str)
}.

Definition dummy_mod : modl := {| m_name := []; m_walk := [] |}.

(* filebased.go:111 isGlobal; the smart path's moduleNameRelative is its negation (filebased.go:56) *)
Definition is_global (m : modl) : bool := str_eqb (m_name m) [] || str_eqb (m_name m) s_environment.

(* ---- results ---------------------------------------------------------------------------------------------- *)

Inductive err :=
| EInvalidName                                  (* PCORE_INVALID_CHARACTERS_IN_NAME *)
| EParse (m : nat) (f : str) (line : N)         (* PARSE_ERROR located at file, line *)
| EUnreadable (m : nat) (f : str)               (* PCORE_UNABLE_TO_READ_FILE (path) *)
| EWrongDef (m : nat) (f : str) (line : N)      (* PCORE_WRONG_DEFINITION located at file, line *)
| ENoDef (m : nat) (f : str) (line : N)         (* PCORE_NO_DEFINITION located at file, line *)
| ENotTypeset (m : nat) (f : str)               (* PCORE_NOT_EXPECTED_TYPESET (source) *)
| ERedefine                                     (* PCORE_ATTEMPT_TO_REDEFINE *)
| ERedefineType.                                (* PCORE_ATTEMPT_TO_REDEFINE_TYPE *)

Inductive res (A : Type) :=
| Ok (a : A)
| Er (e : err)
| Fault          (* Go runtime fault (slice bounds) *)
| Fuel.          (* the layered recursion ran out of layers *)
Arguments Ok {A} a.
Arguments Er {A} e.
Arguments Fault {A}.
Arguments Fuel {A}.

(* ---- the path derivation and its inverse ------------------------------------------------------------------ *)

Definition parts_checked (k : str) : res (list str) :=
  let ps := split_dc k in
  if forallb valid_seg ps then Ok ps else Er EInvalidName.

(* smartpath.go:63, relative to the loader root; "" when the name is not of this module *)
Definition effective_path (m : modl) (k : str) : res str :=
  match parts_checked k with
  | Ok ps =>
      let rel := negb (is_global m) in
      if rel && ((length ps <? 2) || negb (str_eqb (hd [] ps) (m_name m))) then Ok []
      else Ok (s_types_slash ++ join s_slash (if rel then tl ps else ps) ++ s_pp)
  | Er e => Er e
  | Fault => Fault
  | Fuel => Fuel
  end.

(* smartpath.go:123 for the one namespace of a type path; `rel` is relative to <root>/types.
   s[:len(s)-len(ext)] faults when the last segment is shorter than the extension. *)
Definition typed_name (m : modl) (rel : str) : res str :=
  let parts := split_on 47 rel in
  let s := last parts [] in
  if length s <? 3 then Fault
  else
    let s' := firstn (length s - 3) s in
    let parts' := removelast parts ++ [s'] in
    let single_init := (length parts' =? 1) && (str_eqb s' s_init || str_eqb s' s_init_typeset) in
    (* px.NewTypedName2 trims a leading "::" (typedname.go:121) *)
    Ok (trim_dc (join s_dc (if negb (is_global m) && negb single_init then m_name m :: parts' else parts'))).

(* ---- the index (filebased.go:331) -------------------------------------------------------------------------- *)

Definition index := list (str * list str).     (* name key -> paths (relative to the loader root), walk order *)

Fixpoint ix_add (ix : index) (k p : str) : index :=
  match ix with
  | [] => [(k, [p])]
  | (k', ps) :: r => if str_eqb k k' then (k', ps ++ [p]) :: r else (k', ps) :: ix_add r k p
  end.

(* the name key a path (relative to the loader root) is indexed under, if it is indexed at all: below types/,
   extension .pp (filebased.go:353-356) *)
Definition key_of_rel (m : modl) (p : str) : option str :=
  match strip_prefix s_types_slash p with
  | Some rel =>
      if has_suffix s_pp p then
        match typed_name m rel with Ok nm => Some (lower nm) | _ => None end
      else None
  | None => None
  end.

(* directories are not indexed (filebased.go:352) *)
Definition path_key (m : modl) (f : file) : option str :=
  if f_dir f then None else key_of_rel m (f_rel f).

Definition index_of (m : modl) : index :=
  fold_left (fun ix f => match path_key m f with Some k => ix_add ix k (f_rel f) | None => ix end) (m_walk m) [].

Fixpoint ix_get (ix : index) (k : str) : option (list str) :=
  match ix with
  | [] => None
  | (k', ps) :: r => if str_eqb k k' then Some ps else ix_get r k
  end.

Definition file_at (m : modl) (p : str) : option file :=
  find (fun f => negb (f_dir f) && str_eqb (f_rel f) p) (m_walk m).

(* ---- loader state ------------------------------------------------------------------------------------------ *)

(* what is observed of a loaded type *)
Record tval := { tv_name : str; tv_marker : N; tv_ts : bool }.
Definition tval_eqb (a b : tval) : bool :=
  str_eqb (tv_name a) (tv_name b) && N.eqb (tv_marker a) (tv_marker b) && Bool.eqb (tv_ts a) (tv_ts b).

(* a *loaderEntry: nil | &{nil} (placeholder, cached miss) | &{value} *)
Definition eres := option (option tval).

Record state := {
  st_entries : list ((nat * str) * option tval);   (* namedEntries of the file-based loaders: (module, key) *)
  st_dep : list (str * option tval);               (* namedEntries of the dependency loader *)
  st_kids : list (Z * str);                        (* placeholders of the child loaders of the contexts *)
  st_reads : list (nat * str);                     (* GetContent calls, oldest first *)
  st_unres : list N                                (* markers of the aliases bound but not (yet) resolved *)
}.

Definition st0 : state := {| st_entries := []; st_dep := []; st_kids := []; st_reads := []; st_unres := [] |}.

Definition mk_eqb (a b : nat * str) : bool := Nat.eqb (fst a) (fst b) && str_eqb (snd a) (snd b).

Fixpoint ent_get (es : list ((nat * str) * option tval)) (ik : nat * str) : eres :=
  match es with
  | [] => None
  | (ik', v) :: r => if mk_eqb ik ik' then Some v else ent_get r ik
  end.

Definition get_entry (s : state) (i : nat) (k : str) : eres := ent_get (st_entries s) (i, k).

Fixpoint dep_get (es : list (str * option tval)) (k : str) : eres :=
  match es with
  | [] => None
  | (k', v) :: r => if str_eqb k k' then Some v else dep_get r k
  end.

Definition kid_has (s : state) (j : Z) (k : str) : bool :=
  existsb (fun x => Z.eqb (fst x) j && str_eqb (snd x) k) (st_kids s).

Definition M (A : Type) := state -> state * res A.
Definition ret {A} (a : A) : M A := fun s => (s, Ok a).
Definition fail {A} (e : err) : M A := fun s => (s, Er e).
Definition out_of_fuel {A} : M A := fun s => (s, Fuel).
Definition bind {A B} (m : M A) (f : A -> M B) : M B :=
  fun s => match m s with
           | (s', Ok a) => f a s'
           | (s', Er e) => (s', Er e)       (* a panic unwinds: what was written stays written *)
           | (s', Fault) => (s', Fault)
           | (s', Fuel) => (s', Fuel)
           end.
Notation "x <- m ;; f" := (bind m (fun x => f)) (at level 61, m at next level, right associativity).

Definition get_entry_m (i : nat) (k : str) : M eres := fun s => (s, Ok (get_entry s i k)).

(* loader.go:122 basicLoader.SetEntry on a file-based loader: a placeholder is overwritten in place, an equal
   value is kept, anything else is a redefinition *)
Definition set_entry_m (i : nat) (k : str) (v : option tval) : M unit :=
  fun s =>
    match get_entry s i k with
    | Some (Some ov) =>
        match v with
        | Some nv => if tval_eqb ov nv then (s, Ok tt) else (s, Er ERedefineType)
        | None => (s, Er ERedefine)
        end
    | _ => ({| st_entries := ((i, k), v) :: st_entries s; st_dep := st_dep s; st_kids := st_kids s;
               st_reads := st_reads s; st_unres := st_unres s |}, Ok tt)
    end.

(* the same on the dependency loader *)
Definition dep_set_m (k : str) (v : option tval) : M unit :=
  fun s =>
    match dep_get (st_dep s) k with
    | Some (Some ov) =>
        match v with
        | Some nv => if tval_eqb ov nv then (s, Ok tt) else (s, Er ERedefineType)
        | None => (s, Er ERedefine)
        end
    | _ => ({| st_entries := st_entries s; st_dep := (k, v) :: st_dep s; st_kids := st_kids s;
               st_reads := st_reads s; st_unres := st_unres s |}, Ok tt)
    end.

(* the same on a child loader: it only ever holds placeholders *)
Definition kid_add_m (j : Z) (k : str) : M unit :=
  fun s => ({| st_entries := st_entries s; st_dep := st_dep s; st_kids := (j, k) :: st_kids s;
               st_reads := st_reads s; st_unres := st_unres s |}, Ok tt).

Definition log_read_m (i : nat) (p : str) : M unit :=
  fun s => ({| st_entries := st_entries s; st_dep := st_dep s; st_kids := st_kids s;
               st_reads := st_reads s ++ [(i, p)]; st_unres := st_unres s |}, Ok tt).

(* typealiastype.go:142: an alias is bound before it is resolved (resolvedType is set when every name its
   expression refers to has been looked up); if that fails the bound alias stays unresolved *)
Definition unres_add_m (mk : N) : M unit :=
  fun s => ({| st_entries := st_entries s; st_dep := st_dep s; st_kids := st_kids s; st_reads := st_reads s;
               st_unres := mk :: st_unres s |}, Ok tt).
Definition unres_del_m (mk : N) : M unit :=
  fun s => ({| st_entries := st_entries s; st_dep := st_dep s; st_kids := st_kids s; st_reads := st_reads s;
               st_unres := filter (fun x => negb (N.eqb x mk)) (st_unres s) |}, Ok tt).

(* the loader of the calling context: the top loader itself (None) or the child loader of context j, wrapped —
   during an instantiation — in the instantiationLoader of the defining module (filebased.go:277) *)
Record ctxl := { cl_ctx : option Z; cl_def : option nat }.

Fixpoint for_each {A} (f : A -> M unit) (l : list A) : M unit :=
  match l with
  | [] => ret tt
  | x :: t => _ <- f x ;; for_each f t
  end.

Fixpoint for_each_i {A} (f : nat -> A -> M unit) (j : nat) (l : list A) : M unit :=
  match l with
  | [] => ret tt
  | x :: t => _ <- f j x ;; for_each_i f (S j) t
  end.

(* the indexes of all loaders (a loader builds its index once, on first use: filebased.go:230) *)
Definition indexes_of (w : world) : list index := map index_of (w_mods w).

Section World.
  Variable w : world.
  Variable ixs : list index.      (* = indexes_of w; a parameter so that evaluation computes it once per run *)

  Definition mod_at (i : nat) : modl := nth i (w_mods w) dummy_mod.
  Definition shadow (k : str) : option str :=
    match find (fun x => str_eqb (fst x) k) (w_shadow w) with Some x => Some (snd x) | None => None end.
  (* a type bound by the parent: no marker, no TypeSet *)
  Definition shadow_val (nm : str) : tval := {| tv_name := nm; tv_marker := 0%N; tv_ts := false |}.

  (* filebased.go:204: one smart path (types, .pp) for the type namespace *)
  Definition find_existing_path (i : nat) (k : str) : option (list str) := ix_get (nth i ixs []) k.

  Definition content_at (i : nat) (p : str) : option file := file_at (mod_at i) p.

  (* the number of file-based loaders above the loader of module i (its parent, the parent's parent, ...) *)
  Definition n_parents (i : nat) : nat :=
    match w_top w with TopChain => length (w_mods w) - S i | _ => 0 end.

  (* filebased.go:315: the parent's HasEntry first (a file-based loader again for np > 0, else what the system
     loader binds), then the own index *)
  Fixpoint chain_has (np : nat) (i : nat) (k : str) : bool :=
    (match np with
     | 0 => match shadow k with Some _ => true | None => false end
     | S np' => chain_has np' (S i) k
     end) || match find_existing_path i k with Some _ => true | None => false end.
  Definition mod_has (i : nat) (k : str) : bool := chain_has (n_parents i) i k.

  (* filebased.go:286, type namespace, minus what the system loader discovers; names as TypedNameFromMapKey gives
     them: what the parent discovers, then the keys of the own index that the parent does not have *)
  Fixpoint chain_discover (np : nat) (i : nat) : list str :=
    match np with
    | 0 => filter (fun k => match shadow k with Some _ => false | None => true end) (map fst (nth i ixs []))
    | S np' => chain_discover np' (S i) ++ filter (fun k => negb (chain_has np' (S i) k)) (map fst (nth i ixs []))
    end.
  Definition mod_discover (i : nat) : list str := sort_strs (chain_discover (n_parents i) i).

  (* dependency.go:11: module name -> loader, later loaders replace earlier ones *)
  Definition dep_index_get (nm : str) : option nat :=
    let fix go (ms : list modl) (i : nat) (acc : option nat) : option nat :=
      match ms with
      | [] => acc
      | m :: r => go r (S i) (if negb (str_eqb (m_name m) []) && str_eqb (m_name m) nm then Some i else acc)
      end in
    go (w_mods w) 0 None.
  Definition dep_index_nonempty : bool := existsb (fun m => negb (str_eqb (m_name m) [])) (w_mods w).

  Section Layer.
    (* the two entry points of the layer below *)
    Variable LE : ctxl -> str -> M eres.             (* c.Loader().LoadEntry(c, name) *)
    Variable FD : ctxl -> nat -> str -> M eres.      (* fileBasedLoader.find *)

    (* loader.go:70 load, with c.Loader() = cl *)
    Definition load (cl : ctxl) (k : str) : M (option tval) :=
      e <- LE cl k ;;
      match e with
      | None =>
          (* entry == nil: the context loader, if a DefiningLoader, caches the miss *)
          _ <- match cl_def cl with
               | Some i => set_entry_m i k None                 (* instantiationLoader.SetEntry -> definer *)
               | None => match cl_ctx cl with
                         | Some j => kid_add_m j k
                         | None => match w_top w with TopDep => dep_set_m k None | _ => set_entry_m 0 k None end
                         end
               end ;;
          ret None
      | Some None => ret None
      | Some (Some v) => ret (Some v)
      end.

    (* px.AddTypes of an alias (px/context.go:114): bind, then resolve the type expression — every name it
       refers to is loaded through the context loader (types/resolver.go:34; a miss becomes a TypeReference) *)
    Definition add_alias (cl : ctxl) (i : nat) (kd : str) (marker : N) (refs : list str) : M unit :=
      _ <- set_entry_m i kd (Some {| tv_name := kd; tv_marker := marker; tv_ts := false |}) ;;
      _ <- unres_add_m marker ;;
      _ <- for_each (fun r => _ <- load cl (norm_name r) ;; ret tt) refs ;;
      unres_del_m marker.

    (* px.AddTypes of a TypeSet: resolve (no lookups: the members are core types), then resolveTypeSet
       (internal/context.go:268) asks the context loader for each member and binds what is not bound, then
       binds the TypeSet itself *)
    Definition add_typeset (cl : ctxl) (i : nat) (kd : str) (decl : str) (marker : N) (members : list str) : M unit :=
      _ <- for_each_i (fun j mn =>
             let kn := lower (decl ++ s_dc ++ mn) in
             e <- LE cl kn ;;
             match e with
             | Some (Some _) => ret tt
             | _ => set_entry_m i kn (Some {| tv_name := kn; tv_marker := (marker + 1 + N.of_nat j)%N; tv_ts := false |})
             end) 0 members ;;
      set_entry_m i kd (Some {| tv_name := kd; tv_marker := 0%N; tv_ts := true |}).

    (* instantiate.go:15-29: what is done with the content *)
    Definition inst_body (cl : ctxl) (i : nat) (k : str) (p : str) : M unit :=
      match content_at i p with
      | None => fail (EUnreadable i p)
      | Some f =>
          match f_content f with
          | CUnreadable => fail (EUnreadable i p)
          | CMalformed line => fail (EParse i p line)
          | CNoDef => fail (ENoDef i p (f_defline f))
          | CGood decl refs =>
              if str_eqb (lower decl) k then add_alias cl i (lower decl) (f_marker f) refs
              else fail (EWrongDef i p (f_defline f))
          | CAnon refs => add_alias cl i k (f_marker f) refs
          | CTypeSet decl members =>
              if str_eqb (lower decl) k then add_typeset cl i (lower decl) decl (f_marker f) members
              else fail (EWrongDef i p (f_defline f))
          end
      end.

    (* instantiate.go:13: GetContent (counted), then the above *)
    Definition inst_type (cl : ctxl) (i : nat) (k : str) (p : str) : M unit :=
      _ <- log_read_m i p ;; inst_body cl i k p.

    (* filebased.go:238 *)
    Definition instantiate (cl : ctxl) (i : nat) (k : str) (origins : list str) : M eres :=
      e0 <- get_entry_m i k ;;
      match e0 with
      | None =>
          _ <- set_entry_m i k None ;;
          _ <- inst_type {| cl_ctx := cl_ctx cl; cl_def := Some i |} i k (hd [] origins) ;;
          get_entry_m i k
      | Some _ => ret e0
      end.

    (* filebased.go:180-201 *)
    Fixpoint psearch (cl : ctxl) (i : nat) (k : str) (anc : list str) : M eres :=
      match anc with
      | [] => ret None
      | ts :: rest =>
          e0 <- get_entry_m i ts ;;
          match e0 with
          | None =>
              _ <- FD cl i ts ;;
              te <- get_entry_m i k ;;
              match te with
              | Some e => ret (Some e)
              | None => psearch cl i k rest
              end
          | Some _ => psearch cl i k rest
          end
      end.

    (* filebased.go:115, namespace `type` *)
    Definition find (cl : ctxl) (i : nat) (k : str) : M eres :=
      let m := mod_at i in
      let q := is_qualified k in
      let general : M eres :=
        match find_existing_path i k with
        | Some origins => instantiate cl i k origins
        | None => if q then psearch cl i k (ancestors k) else ret None
        end in
      if is_global m then general
      else
        match parts_checked k with
        | Ok ps =>
            if negb (str_eqb (m_name m) (hd [] ps)) then ret None
            else if q then general
            else
              match find_existing_path i s_init_typeset with
              | None => ret None
              | Some origins =>
                  e <- instantiate cl i k origins ;;
                  match e with
                  | Some (Some v) => if tv_ts v then ret e else fail (ENotTypeset i (hd [] origins))
                  | _ => fail (ENotTypeset i (hd [] origins))
                  end
              end
        | Er e => fail e
        | Fault => fun s => (s, Fault)
        | Fuel => out_of_fuel
        end.

    (* filebased.go:79 after the parent gave no value: the own entries (loader.go:202), find, cache the miss *)
    Definition mod_load_own (cl : ctxl) (i : nat) (k : str) : M eres :=
      e0 <- get_entry_m i k ;;
      match e0 with
      | Some _ => ret e0
      | None =>
          r <- find cl i k ;;
          match r with
          | None => _ <- set_entry_m i k None ;; ret (Some None)
          | Some _ => ret r
          end
      end.

    (* filebased.go:79 (parentedLoader.LoadEntry first: the parent, then the own entries); the parent is the
       system loader *)
    Definition mod_load_entry (cl : ctxl) (i : nat) (k : str) : M eres :=
      match shadow k with
      | Some nm => ret (Some (Some (shadow_val nm)))
      | None => mod_load_own cl i k
      end.

    (* the same for a loader with np file-based loaders above it: loader.go:198 asks the parent (the loader of
       module i+1) first and keeps its answer only when it holds a value — whatever the loader itself has cached
       comes second *)
    Fixpoint chain_load_entry (np : nat) (cl : ctxl) (i : nat) (k : str) : M eres :=
      match np with
      | 0 => mod_load_entry cl i k
      | S np' =>
          pe <- chain_load_entry np' cl (S i) k ;;
          match pe with
          | Some (Some _) => ret pe
          | _ => mod_load_own cl i k
          end
      end.

    (* dependency.go:47 *)
    Definition dep_find (cl : ctxl) (k : str) : M eres :=
      let loop :=
        (fix loop (n : nat) (i : nat) : M eres :=
           match n with
           | 0 => fun s => (s, Ok (dep_get (st_dep s) k))
           | S n' =>
               e <- mod_load_entry cl i k ;;
               match e with
               | Some (Some _) => ret e
               | _ => loop n' (S i)
               end
           end) (length (w_mods w)) 0 in
      if dep_index_nonempty && is_qualified k then
        match parts_checked k with
        | Ok ps =>
            match dep_index_get (hd [] ps) with
            | Some i => mod_load_entry cl i k
            | None => loop
            end
        | Er e => fail e
        | Fault => fun s => (s, Fault)
        | Fuel => out_of_fuel
        end
      else loop.

    (* dependency.go:29 *)
    Definition dep_load_entry (cl : ctxl) (k : str) : M eres :=
      e0 <- (fun s => (s, Ok (dep_get (st_dep s) k))) ;;
      match e0 with
      | Some _ => ret e0
      | None =>
          r <- dep_find cl k ;;
          match r with
          | Some (Some v) => _ <- dep_set_m k (Some v) ;; ret r
          | _ => ret (Some None)       (* a miss is not cached here *)
          end
      end.

    Definition top_load_entry (cl : ctxl) (k : str) : M eres :=
      match w_top w with
      | TopSingle => mod_load_entry cl 0 k
      | TopDep => dep_load_entry cl k
      | TopChain => chain_load_entry (length (w_mods w) - 1) cl 0 k
      end.

    (* the loader of the calling context: the top loader, or a child of it (loader.go:185) *)
    Definition ctx_load_entry (cl : ctxl) (k : str) : M eres :=
      match cl_ctx cl with
      | None => top_load_entry cl k
      | Some j =>
          e <- top_load_entry cl k ;;
          match e with
          | Some (Some _) => ret e
          | _ => fun s => (s, Ok (if kid_has s j k then Some None else None))
          end
      end.
  End Layer.

  (* (the state is a parameter of the fixpoints: under call-by-value a layer is only unfolded when it is used) *)
  Fixpoint LEn (n : nat) (cl : ctxl) (k : str) (s : state) {struct n} : state * res eres :=
    match n with
    | 0 => (s, Fuel)
    | S n' => ctx_load_entry (LEn n') (FDn n') cl k s
    end
  with FDn (n : nat) (cl : ctxl) (i : nat) (k : str) (s : state) {struct n} : state * res eres :=
    match n with
    | 0 => (s, Fuel)
    | S n' => find (LEn n') (FDn n') cl i k s
    end.

  (* ---- operations -------------------------------------------------------------------------------------- *)

  Inductive op :=
  | OpLoad (ctx : Z) (name : str)        (* px.Load of type `name`, context loader: top (ctx < 0) or child ctx *)
  | OpHas (m : nat) (name : str)         (* HasEntry on module loader m *)
  | OpDiscover (m : nat)                 (* Discover on module loader m *)
  | OpEffPath (m : nat) (name : str)     (* EffectivePath of the type path of module loader m *)
  | OpTypedNames (m : nat) (rel : str).  (* TypedNames of the type path of module loader m *)

  Inductive out :=
  | OFound (v : tval)
  | ONotFound
  | OErr (e : err)
  | OBool (b : bool)
  | OList (l : list str)
  | OStr (s : str)
  | OFault
  | OFuel.

  Definition out_of_res {A} (f : A -> out) (r : res A) : out :=
    match r with Ok a => f a | Er e => OErr e | Fault => OFault | Fuel => OFuel end.

  Definition top_ctx (ctx : Z) : ctxl :=
    {| cl_ctx := if (ctx <? 0)%Z then None else Some ctx; cl_def := None |}.

  (* one operation: new state, outcome, and the files read during the operation *)
  Definition step (fuel : nat) (s : state) (o : op) : state * (out * list (nat * str)) :=
    match o with
    | OpLoad ctx name =>
        let '(s', r) := load (LEn fuel) (top_ctx ctx) (norm_name name) s in
        (* the marker of an alias is observed through its resolved type: none while unresolved *)
        let obs v := if existsb (N.eqb (tv_marker v)) (st_unres s')
                     then {| tv_name := tv_name v; tv_marker := 0%N; tv_ts := tv_ts v |} else v in
        (s', (out_of_res (fun v => match v with Some v => OFound (obs v) | None => ONotFound end) r,
              skipn (length (st_reads s)) (st_reads s')))
    | OpHas m name => (s, (OBool (mod_has m (norm_name name)), []))
    | OpDiscover m => (s, (OList (mod_discover m), []))
    | OpEffPath m name => (s, (out_of_res OStr (effective_path (mod_at m) (norm_name name)), []))
    | OpTypedNames m rel => (s, (out_of_res (fun nm => OList [nm]) (typed_name (mod_at m) rel), []))
    end.

  Fixpoint run_from (fuel : nat) (s : state) (ops : list op) : state * list (out * list (nat * str)) :=
    match ops with
    | [] => (s, [])
    | o :: t => let '(s', x) := step fuel s o in
                let '(s'', xs) := run_from fuel s' t in (s'', x :: xs)
    end.

End World.

Definition run (w : world) (fuel : nat) (ops : list op) : list (out * list (nat * str)) :=
  let ixs := indexes_of w in snd (run_from w ixs fuel st0 ops).

(* ---- decidable equality of the observables (used by the correspondence file) -------------------------------- *)

Definition err_eqb (a b : err) : bool :=
  match a, b with
  | EInvalidName, EInvalidName => true
  | EParse m f l, EParse m' f' l' => Nat.eqb m m' && str_eqb f f' && N.eqb l l'
  | EUnreadable m f, EUnreadable m' f' => Nat.eqb m m' && str_eqb f f'
  | EWrongDef m f l, EWrongDef m' f' l' => Nat.eqb m m' && str_eqb f f' && N.eqb l l'
  | ENoDef m f l, ENoDef m' f' l' => Nat.eqb m m' && str_eqb f f' && N.eqb l l'
  | ENotTypeset m f, ENotTypeset m' f' => Nat.eqb m m' && str_eqb f f'
  | ERedefine, ERedefine => true
  | ERedefineType, ERedefineType => true
  | _, _ => false
  end.

Definition out_eqb (a b : out) : bool :=
  match a, b with
  | OFound v, OFound v' => tval_eqb v v'
  | ONotFound, ONotFound => true
  | OErr e, OErr e' => err_eqb e e'
  | OBool x, OBool y => Bool.eqb x y
  | OList x, OList y => str_eqb_list x y
  | OStr x, OStr y => str_eqb x y
  | OFault, OFault => true
  | _, _ => false
  end.

Definition read_eqb (a b : nat * str) : bool := Nat.eqb (fst a) (fst b) && str_eqb (snd a) (snd b).

Definition outr_eqb (a b : out * list (nat * str)) : bool :=
  out_eqb (fst a) (fst b) && list_eqb read_eqb (snd a) (snd b).
