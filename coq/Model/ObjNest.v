(* ObjNest.v — executable model of the part of pcore's Object constructors that deals with attributes whose type is,
   or contains, another Object type (C17, input class of the seeded change C17-m9):

     types/objecttype.go  typeAndInit :1240 (an Object type T becomes Variant[T, init Struct of T]), createInitType :1089,
                          createNewFunction :1126: the positional creator (after the fix: 0abd0ef it coerces the init-hash of an
                          attribute of Object type) and the named creator (every entry that names a constructor
                          attribute is deep-coerced, `oh.Merge(WrapHash(el))`: the coerced entries win)
     types/coerce.go      coerceTo :112
     types/objectvalue.go newObjectValue2 / InitFromHash, attributesinfo.go PositionalFromHash (read by name here)
     types/hashtype.go    Hash.Merge (the entries of the receiver in their order, the value of the argument where it has the key,
                          then the keys only the argument has)

   The fragment: Integer, String, Optional[T], Array[T], Hash[String, T], Struct[{..}] and Object types whose attributes are
   of these types (kind normal, with or without a declared value; no constants, no equality or serialization declaration:
   all attributes take part in equality).  A type REFERS to an Object type by containing its (collected: own and inherited)
   constructor attributes, as Model/Obj.v's objdef contains its parent: every walk is structural recursion, and a type that
   refers to itself cannot be written (never generated).  The members of a Struct and the attributes of an Object type are
   cons-lists inside `nty` (NNil / NCons), as TStructCons in Model/Obj.v.

   An object VALUE is normalised: the name of its type and the value of EVERY constructor attribute in layout order (a
   trailing value that attributeSlice does not store is the declared value).  Two objects of the fragment are Equal exactly
   when their normal forms are (attributeSlice.Equals reads by name, Model/Obj.v obj_eqb). *)
From Coq Require Import ZArith NArith Bool List.
From PcoreV Require Import Model.Base.
Import ListNotations.
Open Scope Z_scope.

Inductive nvalue :=
| NVUndef
| NVInt (z : Z)
| NVStr (s : str)
| NVArr (l : list nvalue)
| NVHash (l : list (str * nvalue))
| NVObj (n : str) (vals : list nvalue).

Inductive nty :=
| NInt
| NStr
| NOpt (t : nty)
| NArr (t : nty)
| NHashV (t : nty)                  (* Hash[String, t] *)
| NNil                              (* end of a member / attribute list *)
| NCons (k : str) (dflt : option nvalue) (vt : nty) (rest : nty)
                                    (* one Struct member (dflt = Some _: the member may be left out; the value is not used) or one
                                       constructor attribute (dflt = Some d: the declared value d), then the others *)
| NStruct (ms : nty)
| NObj (n : str) (attrs : nty).     (* the Object type named n with these constructor attributes in layout order *)

Fixpoint nvalue_eqb (a b : nvalue) : bool :=
  match a, b with
  | NVUndef, NVUndef => true
  | NVInt x, NVInt y => Z.eqb x y
  | NVStr x, NVStr y => str_eqb x y
  | NVArr x, NVArr y =>
    (fix go (x y : list nvalue) : bool :=
       match x, y with
       | [], [] => true
       | u :: x', v :: y' => nvalue_eqb u v && go x' y'
       | _, _ => false
       end) x y
  | NVHash x, NVHash y =>
    (fix go (x y : list (str * nvalue)) : bool :=
       match x, y with
       | [], [] => true
       | (k, u) :: x', (k', v) :: y' => str_eqb k k' && nvalue_eqb u v && go x' y'
       | _, _ => false
       end) x y
  | NVObj n x, NVObj m y =>
    str_eqb n m &&
    (fix go (x y : list nvalue) : bool :=
       match x, y with
       | [], [] => true
       | u :: x', v :: y' => nvalue_eqb u v && go x' y'
       | _, _ => false
       end) x y
  | _, _ => false
  end.

Fixpoint nhget (h : list (str * nvalue)) (k : str) : option nvalue :=
  match h with
  | [] => None
  | (k', v) :: r => if str_eqb k' k then Some v else nhget r k
  end.

Fixpoint nnames (t : nty) : list str :=
  match t with NCons k _ _ rest => k :: nnames rest | _ => [] end.

Fixpoint nmem (n : str) (l : list str) : bool :=
  match l with [] => false | x :: r => str_eqb x n || nmem n r end.
Fixpoint nnodup (l : list str) : bool :=
  match l with [] => true | x :: r => negb (nmem x r) && nnodup r end.

(* every key of the hash names a member, no key twice (StructType.IsInstance counts the matched members and compares
   with Len; a pcore Hash has no key twice) *)
Definition keys_known (ms : nty) (h : list (str * nvalue)) : bool :=
  forallb (fun kv => nmem (fst kv) (nnames ms)) h && nnodup (map fst h).

(* IsInstance.  init = false: of the type itself.  init = true: of typeAndInit(type), the type a NAMED argument is
   checked against: an Object type T is replaced by Variant[T, init Struct of T] at every depth, so the init-hash
   form of an object (a Hash that gives constructor attributes by name, themselves possibly in that form) is
   admitted wherever an object is.
     ginst         a value
     ginst_members the Hash h has, for every member of the list, an entry that is an instance or none where it may be left out
     ginst_vals    the values of an object, position by position (all of them: normal form) *)
Fixpoint ginst (init : bool) (t : nty) (v : nvalue) {struct t} : bool :=
  match t with
  | NInt => match v with NVInt _ => true | _ => false end
  | NStr => match v with NVStr _ => true | _ => false end
  | NOpt t' => match v with NVUndef => true | _ => ginst init t' v end
  | NArr t' => match v with NVArr l => forallb (ginst init t') l | _ => false end
  | NHashV t' => match v with NVHash h => forallb (fun kv => ginst init t' (snd kv)) h | _ => false end
  | NNil | NCons _ _ _ _ => false
  | NStruct ms => match v with NVHash h => keys_known ms h && ginst_members init ms h | _ => false end
  | NObj n attrs =>
    match v with
    | NVObj m vals => str_eqb n m && ginst_vals init attrs vals
    | NVHash h => init && keys_known attrs h && ginst_members init attrs h
    | _ => false
    end
  end
with ginst_members (init : bool) (t : nty) (h : list (str * nvalue)) {struct t} : bool :=
  match t with
  | NCons k d vt rest =>
    match nhget h k with
    | Some v => ginst init vt v
    | None => match d with Some _ => true | None => false end
    end && ginst_members init rest h
  | _ => true
  end
with ginst_vals (init : bool) (t : nty) (vals : list nvalue) {struct t} : bool :=
  match t with
  | NCons _ _ vt rest =>
    match vals with
    | v :: r => ginst false vt v && ginst_vals init rest r
    | [] => false
    end
  | _ => match vals with [] => true | _ => false end
  end.

Definition ninst (t : nty) (v : nvalue) : bool := ginst false t v.
Definition ninst_init (t : nty) (v : nvalue) : bool := ginst true t v.

(* Hash.Merge(o) hashtype.go: receiver h, argument o *)
Definition nhmerge (h o : list (str * nvalue)) : list (str * nvalue) :=
  map (fun kv => match nhget o (fst kv) with Some v => (fst kv, v) | None => kv end) h
  ++ filter (fun kv => match nhget h (fst kv) with Some _ => false | None => true end) o.

(* all or nothing *)
Fixpoint all_some {A} (l : list (option A)) : option (list A) :=
  match l with
  | [] => Some []
  | Some x :: r => option_map (cons x) (all_some r)
  | None :: _ => None
  end.

(* PositionalFromHash + fillValueSlice read by name: the value given under the attribute's name, or the declared value;
   a required attribute that is not given: MISSING_REQUIRED_ATTRIBUTE (None) *)
Fixpoint build (attrs : nty) (h : list (str * nvalue)) : option (list nvalue) :=
  match attrs with
  | NCons k d _ rest =>
    match (match nhget h k with Some v => Some v | None => d end) with
    | Some v => option_map (cons v) (build rest h)
    | None => None
    end
  | _ => Some []
  end.

(* coerceTo coerce.go:112.  `coerce t v` is the whole function: a value that is an instance is returned as it is; otherwise
   `csw t v` is the switch (an Optional is looked through once, Optional[Optional[..]] ends in newInstance(Optional,..): None).
   Array: element by element.  Hash: value by value (the key type is String).  Struct: the entries of known members, then
   AssertInstance.  Object type: the entries that name a constructor attribute in LAYOUT order (el: `cattrs`), merged into the
   given hash so that the coerced entries win, then newInstance: the constructor of the type takes the merged hash by name
   (unknown key / missing required attribute: rejected).  Anything else is handed to newInstance of a scalar type: outside the
   model (None) — never reached for a form that denotes an instance (`repb` below; Properties/C17.v C17_nested_every_form_coerces).
     centry  the coerced value of the Struct entry (k, v): a key that names no member is left as it is
     cattrs  el *)
Fixpoint csw (t : nty) (v : nvalue) {struct t} : option nvalue :=
  match t with
  | NOpt t' => match t' with NOpt _ => None | _ => csw t' v end
  | NArr t' =>
    match v with
    | NVArr l => option_map NVArr (all_some (map (fun x => if ginst false t' x then Some x else csw t' x) l))
    | _ => None
    end
  | NHashV t' =>
    match v with
    | NVHash h => option_map NVHash (all_some (map (fun kv => option_map (pair (fst kv))
                                     (if ginst false t' (snd kv) then Some (snd kv) else csw t' (snd kv))) h))
    | _ => None
    end
  | NStruct ms =>
    match v with
    | NVHash h =>
      match all_some (map (fun kv => option_map (pair (fst kv)) (centry ms (fst kv) (snd kv))) h) with
      | Some h' => if ginst false (NStruct ms) (NVHash h') then Some (NVHash h') else None
      | None => None
      end
    | _ => None
    end
  | NObj n attrs =>
    match v with
    | NVHash h =>
      match cattrs attrs h with
      | Some el =>
        let m := nhmerge h el in
        if keys_known attrs m then option_map (NVObj n) (build attrs m) else None
      | None => None
      end
    | _ => None
    end
  | _ => None
  end
with centry (t : nty) (k : str) (v : nvalue) {struct t} : option nvalue :=
  match t with
  | NCons k' _ vt rest =>
    if str_eqb k' k then (if ginst false vt v then Some v else csw vt v) else centry rest k v
  | _ => Some v
  end
with cattrs (t : nty) (h : list (str * nvalue)) {struct t} : option (list (str * nvalue)) :=
  match t with
  | NCons k _ vt rest =>
    match nhget h k with
    | Some v =>
      match (if ginst false vt v then Some v else csw vt v), cattrs rest h with
      | Some v', Some el => Some ((k, v') :: el)
      | _, _ => None
      end
    | None => cattrs rest h
    end
  | _ => Some []
  end.

Definition coerce (t : nty) (v : nvalue) : option nvalue :=
  if ninst t v then Some v else csw t v.

(* the named creator objecttype.go:1163 behind its dispatcher (Param2(createInitType())): the argument must be an instance of
   the init Struct; then el, `oh.Merge(WrapHash(el))`, newObjectValue2 (no further type check) *)
Inductive nres := NOk (v : nvalue) | NIllegalArguments | NMissing | NCoerceFails.

Definition named_new (n : str) (attrs : nty) (h : list (str * nvalue)) : nres :=
  if negb (keys_known attrs h && ginst_members true attrs h) then NIllegalArguments else
  match cattrs attrs h with
  | Some el => match build attrs (nhmerge h el) with Some vals => NOk (NVObj n vals) | None => NMissing end
  | None => NCoerceFails
  end.

(* the positional creator :1143 behind its dispatcher: parameter i has the type of attribute i, typeAndInit of it when it IS an
   Object type (not when it contains one); the first `required` parameters must be given.  After the fix: 0abd0ef an argument of
   such a parameter that is no instance is coerced.  The values that are not given are the declared ones (normal form). *)
Definition is_obj_ty (t : nty) : bool := match t with NObj _ _ => true | _ => false end.

Fixpoint positional_vals (attrs : nty) (args : list nvalue) : nres + list nvalue :=
  match attrs with
  | NCons k d vt rest =>
    match args with
    | v :: r =>
      if ginst (is_obj_ty vt) vt v then
        match (if ginst false vt v then Some v else csw vt v) with
        | Some v' => match positional_vals rest r with inr vs => inr (v' :: vs) | inl e => inl e end
        | None => inl NCoerceFails
        end
      else inl NIllegalArguments
    | [] =>
      match d with
      | Some dv => match positional_vals rest [] with inr vs => inr (dv :: vs) | inl e => inl e end
      | None => inl NIllegalArguments
      end
    end
  | _ => match args with [] => inr [] | _ => inl NIllegalArguments end
  end.

Definition positional_new (n : str) (attrs : nty) (args : list nvalue) : nres :=
  match positional_vals attrs args with inr vs => NOk (NVObj n vs) | inl e => e end.

(* px.New: the named dispatcher first (one argument, a Hash, an instance of the init Struct), then the positional one *)
Definition nnew (n : str) (attrs : nty) (args : list nvalue) : nres :=
  match args with
  | [NVHash h] =>
    if keys_known attrs h && ginst_members true attrs h then named_new n attrs h else positional_new n attrs args
  | _ => positional_new n attrs args
  end.

(* InitHash of a normalised object: every attribute whose value is not the declared one (makeValueHash objectvalue.go:176) *)
Fixpoint ninit_hash (attrs : nty) (vals : list nvalue) : list (str * nvalue) :=
  match attrs, vals with
  | NCons k d _ rest, v :: r =>
    if match d with Some dv => nvalue_eqb dv v | None => false end then ninit_hash rest r
    else (k, v) :: ninit_hash rest r
  | _, _ => []
  end.

(* the init-hash form of an instance: every object, at every depth, replaced by the Hash of ALL its attributes by name *)
Fixpoint to_init (t : nty) (v : nvalue) {struct t} : nvalue :=
  match t with
  | NOpt t' => match v with NVUndef => NVUndef | _ => to_init t' v end
  | NArr t' => match v with NVArr l => NVArr (map (to_init t') l) | _ => v end
  | NHashV t' => match v with NVHash h => NVHash (map (fun kv => (fst kv, to_init t' (snd kv))) h) | _ => v end
  | NStruct ms => match v with NVHash h => NVHash (map (fun kv => (fst kv, to_init_entry ms (fst kv) (snd kv))) h) | _ => v end
  | NObj _ attrs => match v with NVObj _ vals => NVHash (to_init_vals attrs vals) | _ => v end
  | _ => v
  end
with to_init_entry (t : nty) (k : str) (v : nvalue) {struct t} : nvalue :=
  match t with
  | NCons k' _ vt rest => if str_eqb k' k then to_init vt v else to_init_entry rest k v
  | _ => v
  end
with to_init_vals (t : nty) (vals : list nvalue) {struct t} : list (str * nvalue) :=
  match t with
  | NCons k _ vt rest => match vals with v :: r => (k, to_init vt v) :: to_init_vals rest r | [] => [] end
  | _ => []
  end.

(* the named-argument hash of an object given by instances: {name_i => value_i} in layout order (what the harness hands to
   px.New in the form `named`; `to_init_vals` is the same hash with every value in its init-hash form) *)
Fixpoint zipv (t : nty) (vals : list nvalue) : list (str * nvalue) :=
  match t with
  | NCons k _ _ rest => match vals with v :: r => (k, v) :: zipv rest r | [] => [] end
  | _ => []
  end.

(* "x denotes the instance v of type t": the forms in which the harness hands an object value to px.New (named-init-hash,
   named-mixed, an init-hash that leaves attributes with a declared value out) as a relation, independent of coerceTo:
   x is v itself, or agrees with v element by element / entry by entry, where an object NVObj n vals may be given as a Hash h
   all of whose keys are attribute names, holding under name_i a denotation of vals_i, or nothing when vals_i is the declared
   value.  `to_init t v` and `ninit_hash` are two such forms (the extremes: everything / as little as possible as a Hash). *)
Fixpoint all2 {A B} (f : A -> B -> bool) (l1 : list A) (l2 : list B) : bool :=
  match l1, l2 with
  | [], [] => true
  | a :: r1, b :: r2 => f a b && all2 f r1 r2
  | _, _ => false
  end.

Fixpoint repb (t : nty) (x v : nvalue) {struct t} : bool :=
  nvalue_eqb x v ||
  match t with
  | NOpt t' => match x with NVUndef => false | _ => repb t' x v end
  | NArr t' => match x, v with NVArr lx, NVArr lv => all2 (repb t') lx lv | _, _ => false end
  | NHashV t' =>
    match x, v with
    | NVHash hx, NVHash hv => all2 (fun a b => str_eqb (fst a) (fst b) && repb t' (snd a) (snd b)) hx hv
    | _, _ => false
    end
  | NStruct ms =>
    match x, v with
    | NVHash hx, NVHash hv => all2 (fun a b => str_eqb (fst a) (fst b) && repb_entry ms (fst a) (snd a) (snd b)) hx hv
    | _, _ => false
    end
  | NObj n attrs =>
    match x, v with
    | NVHash h, NVObj m vals => str_eqb n m && keys_known attrs h && repb_vals attrs h vals
    | _, _ => false
    end
  | _ => false
  end
with repb_entry (t : nty) (k : str) (x v : nvalue) {struct t} : bool :=
  match t with
  | NCons k' _ vt rest => if str_eqb k' k then repb vt x v else repb_entry rest k x v
  | _ => nvalue_eqb x v
  end
with repb_vals (t : nty) (h : list (str * nvalue)) (vals : list nvalue) {struct t} : bool :=
  match t with
  | NCons k d vt rest =>
    match vals with
    | v :: r =>
      match nhget h k with
      | Some x => repb vt x v
      | None => match d with Some dv => nvalue_eqb dv v | None => false end
      end && repb_vals rest h r
    | [] => false
    end
  | _ => match vals with [] => true | _ => false end
  end.

(* the same for an argument TUPLE of the positional creator: argument i is value i - in any denoting form when the type of
   attribute i IS an Object type (the positional signature has typeAndInit there), as it is otherwise -, the attributes that
   are not given hold their declared values *)
Fixpoint posrep (t : nty) (args vals : list nvalue) : bool :=
  match t with
  | NCons _ d vt rest =>
    match vals with
    | v :: vr =>
      match args with
      | a :: ar => (if is_obj_ty vt then repb vt a v else nvalue_eqb a v) && posrep rest ar vr
      | [] => match d with Some dv => nvalue_eqb dv v | None => false end && posrep rest [] vr
      end
    | [] => false
    end
  | _ => match args, vals with [], [] => true | _, _ => false end
  end.

(* well-formed types: member / attribute names are distinct, a declared value is an instance of the attribute's type (chk: the
   list is the attribute list of an Object type; the `dflt` of a Struct member only says that it may be left out), no Optional
   directly inside an Optional (NewOptionalType), lists are lists *)
Definition is_list_ty (t : nty) : bool := match t with NNil | NCons _ _ _ _ => true | _ => false end.

Fixpoint nwf_at (chk : bool) (t : nty) : bool :=
  match t with
  | NInt | NStr | NNil => true
  | NOpt t' => nwf_at true t' && negb (is_list_ty t') && match t' with NOpt _ => false | _ => true end
  | NArr t' | NHashV t' => nwf_at true t' && negb (is_list_ty t')
  | NCons k d vt rest =>
    nwf_at true vt && negb (is_list_ty vt)
    && nwf_at chk rest && is_list_ty rest
    && negb (nmem k (nnames rest))
    && (negb chk || match d with Some dv => ginst false vt dv | None => true end)
  | NStruct ms => nwf_at false ms && is_list_ty ms
  | NObj _ ms => nwf_at true ms && is_list_ty ms
  end.
Definition nwf (t : nty) : bool := nwf_at true t.
