(* ValuePrint.v — property C05, the printer of container values over the OBJECT GRAPH of a value.
   A px.Value is a graph of Go objects: one *Array / *Hash instance may sit at several positions of a value
   (aliasing, e.g. the library's shared px.EmptyArray / px.EmptyMap), so the printer is modelled over a heap of
   instances addressed by number, not over a tree.
     Array.ToString2   types/arraytype.go:631   (program format: '[' children separated by ", " ']')
     Hash.ToString2    types/hashtype.go:1260   ('{' key " => " value, separated by ", " '}')
     childToString     types/arraytype.go:744   (the child is printed with the SAME recursion detector g)
   The recursion detector px.RDetect (px/values.go:11) is a Go map shared by all nested calls and mutated in
   place: it is threaded through as state. Output is at the level of tokens (Model/TokenParse.v); the text
   `<recursive reference>` that the printer writes for an instance found in g is the marker PRec (it is not a
   token: the lexer rejects '<').
   A value that is not an Array or a Hash is a leaf: it prints itself (strings, numbers, regexps: layer L1;
   types: layer L3) and is given by the tokens of its text.
   Definitions only. *)
From Coq Require Import ZArith NArith Bool List Arith.
From PcoreV Require Import Model.Base Model.QuoteLex Model.TokenParse.
Import ListNotations.

(* a reference held by a container slot (or the value itself) *)
Inductive ref :=
| RLeaf (ts : list tok)        (* not an Array / Hash: the tokens it prints as *)
| RNode (a : nat).             (* the Array / Hash instance at this address *)

Inductive node :=
| NArr (es : list ref)                 (* Array.elements *)
| NHash (kvs : list (ref * ref)).      (* Hash.entries, in order *)

Definition heap := list node.

(* what the printer writes *)
Inductive ptok :=
| PT (t : tok)
| PRec.                        (* `<recursive reference>` arraytype.go:635, hashtype.go:1264 *)

Inductive vres (A : Type) :=
| VOk (a : A)
| VFault                       (* a reference to an address that holds nothing: nil dereference *)
| VOutOfFuel.
Arguments VOk {A}. Arguments VFault {A}. Arguments VOutOfFuel {A}.

(* the recursion detector: the set of instances being printed *)
Definition guard := list nat.
Definition g_mem (a : nat) (g : guard) : bool := existsb (Nat.eqb a) g.
Definition g_add (a : nat) (g : guard) : guard := a :: g.                       (* g[av] = true *)
Fixpoint g_del (a : nat) (g : guard) : guard :=                                 (* delete(g, av) *)
  match g with
  | [] => []
  | x :: r => if Nat.eqb a x then g_del a r else x :: g_del a r
  end.

(* the loops over the children, given how one child is printed (childToString arraytype.go:744: the child's
   ToString with the same g); they return the texts of the children and the detector afterwards *)
Section Children.
  Variable print_child : guard -> ref -> vres (list ptok * guard).

  (* arraytype.go:674 for idx, v := range av.elements *)
  Fixpoint print_refs (l : list ref) (g : guard) {struct l} : vres (list (list ptok) * guard) :=
    match l with
    | [] => VOk ([], g)
    | x :: r =>
      match print_child g x with
      | VOk (t, g') =>
        match print_refs r g' with
        | VOk (ts, g'') => VOk (t :: ts, g'')
        | VFault => VFault | VOutOfFuel => VOutOfFuel
        end
      | VFault => VFault | VOutOfFuel => VOutOfFuel
      end
    end.

  (* hashtype.go:1317 for idx, entry := range hv.entries: the key (:1321), " => ", the value (:1328) *)
  Fixpoint print_pairs (l : list (ref * ref)) (g : guard) {struct l} : vres (list (list ptok) * guard) :=
    match l with
    | [] => VOk ([], g)
    | (k, v) :: r =>
      match print_child g k with
      | VOk (tk, g') =>
        match print_child g' v with
        | VOk (tv, g'') =>
          match print_pairs r g'' with
          | VOk (ts, g3) => VOk ((tk ++ PT KRocket :: tv) :: ts, g3)
          | VFault => VFault | VOutOfFuel => VOutOfFuel
          end
        | VFault => VFault | VOutOfFuel => VOutOfFuel
        end
      | VFault => VFault | VOutOfFuel => VOutOfFuel
      end
    end.
End Children.

(* print_ref: v.ToString(b, ctx, g) for the value in a slot; returns what was written and the detector
   afterwards *)
Fixpoint print_ref (fuel : nat) (h : heap) (g : guard) (r : ref) {struct fuel} : vres (list ptok * guard) :=
  match fuel with
  | O => VOutOfFuel
  | S f =>
    match r with
    | RLeaf ts => VOk (map PT ts, g)
    | RNode a =>
      if g_mem a g then VOk ([PRec], g)                               (* arraytype.go:634, hashtype.go:1263 *)
      else
        let g1 := g_add a g in                                        (* arraytype.go:638, hashtype.go:1267 *)
        match nth_error h a with
        | None => VFault
        | Some (NArr es) =>
          match print_refs (print_ref f h) es g1 with
          | VOk (parts, g2) =>
            VOk (PT KLBracket :: sep_by [PT KComma] parts ++ [PT KRBracket],
                 g_del a g2)                                          (* arraytype.go:720 delete(g, av) *)
          | VFault => VFault | VOutOfFuel => VOutOfFuel
          end
        | Some (NHash kvs) =>
          match print_pairs (print_ref f h) kvs g1 with
          | VOk (parts, g2) =>
            VOk (PT KLBrace :: sep_by [PT KComma] parts ++ [PT KRBrace],
                 g_del a g2)                                          (* hashtype.go:1351 delete(g, hv) *)
          | VFault => VFault | VOutOfFuel => VOutOfFuel
          end
        end
    end
  end.

(* the depth of nesting is at most the number of instances (an instance being printed is in g), plus the leaf *)
Definition print_fuel (h : heap) : nat := S (S (length h)).

(* px.ToString2(v, Program): the top level call starts with a fresh detector (g == nil -> make) *)
Definition print_value (h : heap) (r : ref) : vres (list ptok * guard) := print_ref (print_fuel h) h [] r.

Definition is_rec (p : ptok) : bool := match p with PRec => true | PT _ => false end.
Fixpoint strip (l : list ptok) : list tok :=
  match l with
  | [] => []
  | PT t :: r => t :: strip r
  | PRec :: r => strip r
  end.

(* ------------------------------------------------------------------------------------------ *)
(* the tree a graph stands for                                                                  *)

Inductive tval :=
| TLeaf (ts : list tok)
| TArr (es : list tval)
| THsh (kvs : list (tval * tval)).

Fixpoint tokens_tree (v : tval) : list tok :=
  match v with
  | TLeaf ts => ts
  | TArr es => KLBracket :: sep_by [KComma] (map tokens_tree es) ++ [KRBracket]
  | THsh kvs =>
    KLBrace :: sep_by [KComma] (map (fun kv => tokens_tree (fst kv) ++ KRocket :: tokens_tree (snd kv)) kvs) ++ [KRBrace]
  end.

(* the literal value of layer L2 as such a tree: its containers, and the tokens of everything else *)
Fixpoint tree_of (v : pval) : tval :=
  match v with
  | PVArr es => TArr (map tree_of es)
  | PVHash kvs => THsh (map (fun kv => (tree_of (fst kv), tree_of (snd kv))) kvs)
  | _ => TLeaf (tokens_of v)
  end.

(* unfolding: every reference replaced by (a copy of) what it refers to *)
Section UnfoldChildren.
  Variable unfold_child : ref -> option tval.
  Fixpoint unfold_refs (l : list ref) : option (list tval) :=
    match l with
    | [] => Some []
    | x :: r => match unfold_child x, unfold_refs r with Some t, Some ts => Some (t :: ts) | _, _ => None end
    end.
  Fixpoint unfold_pairs (l : list (ref * ref)) : option (list (tval * tval)) :=
    match l with
    | [] => Some []
    | (k, v) :: r =>
      match unfold_child k, unfold_child v, unfold_pairs r with
      | Some tk, Some tv, Some ts => Some ((tk, tv) :: ts)
      | _, _, _ => None
      end
    end.
End UnfoldChildren.

Fixpoint unfold (fuel : nat) (h : heap) (r : ref) {struct fuel} : option tval :=
  match fuel with
  | O => None
  | S f =>
    match r with
    | RLeaf ts => Some (TLeaf ts)
    | RNode a =>
      match nth_error h a with
      | None => None
      | Some (NArr es) => match unfold_refs (unfold f h) es with Some ts => Some (TArr ts) | None => None end
      | Some (NHash kvs) => match unfold_pairs (unfold f h) kvs with Some ts => Some (THsh ts) | None => None end
      end
    end
  end.

(* a graph without cycles, in the numbering "children before parents" (every finite acyclic graph has one):
   the instance at address a refers only to instances at smaller addresses *)
Definition ref_below (n : nat) (r : ref) : bool :=
  match r with RLeaf _ => true | RNode a => Nat.ltb a n end.
Definition node_below (n : nat) (nd : node) : bool :=
  match nd with
  | NArr es => forallb (ref_below n) es
  | NHash kvs => forallb (fun kv => ref_below n (fst kv) && ref_below n (snd kv)) kvs
  end.
Fixpoint acyclic_from (n : nat) (h : heap) : bool :=
  match h with
  | [] => true
  | nd :: r => node_below n nd && acyclic_from (S n) r
  end.
Definition acyclic (h : heap) : bool := acyclic_from 0 h.
