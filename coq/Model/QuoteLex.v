(* QuoteLex.v — property C05, layer L1 (characters <-> tokens).
   Executable models of
     utils/reader.go      StringReader.Next / Peek          (content only; line/column are C06's business)
     unicode/utf8         DecodeRuneInString, EncodeRune    (Go standard library, modelled from its specification)
     utils/strings.go     PuppetQuote, puppetDoubleQuote, RegexpQuote
     strconv              FormatInt(i, 10), ParseInt(s, 0, 64) on the texts the lexer can produce
     types/lexer.go       consumeString, consumeUnicodeEscape, consumeRegexp, consumeNumber,
                          consumeUnsignedInteger, consumeExponent, consumeHexInteger and the arms of
                          nextToken that start them
   as the code is in /repo NOW (after the fix: commits listed in design_notes/C05.md).
   Definitions only. *)
From Coq Require Import ZArith NArith Bool Lia List.
From PcoreV Require Import Model.Base.
Import ListNotations.
Open Scope N_scope.

(* ------------------------------------------------------------------------------------------ *)
(* Runes and UTF-8 (Go: unicode/utf8)                                                           *)

Definition rune_error : N := 65533.           (* utf8.RuneError = U+FFFD *)

(* continuation byte 0x80..0xBF *)
Definition is_cont (b : N) : bool := (128 <=? b) && (b <=? 191).

(* utf8.DecodeRuneInString on a non-empty string: Some (rune, rest) for a well-formed sequence (shortest
   form, no surrogates, <= U+10FFFF: the `first`/`acceptRanges` tables of utf8.go), None for an
   invalid one, which Go reports as (RuneError, 1). *)
Definition decode_valid (s : str) : option (N * str) :=
  match s with
  | [] => None
  | b0 :: t =>
    if b0 <? 128 then Some (b0, t)
    else if (194 <=? b0) && (b0 <=? 223) then
      match t with
      | b1 :: t1 => if is_cont b1 then Some ((b0 - 192) * 64 + (b1 - 128), t1) else None
      | _ => None
      end
    else if (224 <=? b0) && (b0 <=? 239) then
      match t with
      | b1 :: b2 :: t2 =>
        let lo := if b0 =? 224 then 160 else 128 in
        let hi := if b0 =? 237 then 159 else 191 in
        if (lo <=? b1) && (b1 <=? hi) && is_cont b2
        then Some ((b0 - 224) * 4096 + (b1 - 128) * 64 + (b2 - 128), t2) else None
      | _ => None
      end
    else if (240 <=? b0) && (b0 <=? 244) then
      match t with
      | b1 :: b2 :: b3 :: t3 =>
        let lo := if b0 =? 240 then 144 else 128 in
        let hi := if b0 =? 244 then 143 else 191 in
        if (lo <=? b1) && (b1 <=? hi) && is_cont b2 && is_cont b3
        then Some ((b0 - 240) * 262144 + (b1 - 128) * 4096 + (b2 - 128) * 64 + (b3 - 128), t3) else None
      | _ => None
      end
    else None
  end.

(* (rune, rest) as Go sees it: an invalid byte is (RuneError, 1 byte) *)
Definition decode_rune (s : str) : N * str :=
  match decode_valid s with
  | Some p => p
  | None => (rune_error, tl s)
  end.

(* utils/reader.go:18 StringReader.Next — 0 at the end of the input (and for a NUL byte) *)
Definition sr_next (s : str) : N * str :=
  match s with
  | [] => (0, [])
  | _ => decode_rune s
  end.
(* utils/reader.go:45 StringReader.Peek *)
Definition sr_peek (s : str) : N := fst (sr_next s).

(* a Unicode scalar value: utf8.ValidRune *)
Definition valid_rune (r : N) : bool := (r <? 55296) || ((57344 <=? r) && (r <=? 1114111)).

(* utf8.EncodeRune (bytes.Buffer.WriteRune, utils.WriteRune strings.go:231) *)
Definition encode_rune (r : N) : str :=
  if r <? 128 then [r]
  else if r <? 2048 then [192 + r / 64; 128 + r mod 64]
  else if negb (valid_rune r) then [239; 191; 189]
  else if r <? 65536 then [224 + r / 4096; 128 + (r / 64) mod 64; 128 + r mod 64]
  else [240 + r / 262144; 128 + (r / 4096) mod 64; 128 + (r / 64) mod 64; 128 + r mod 64].

(* `for _, c := range str`: the runes of a string, an invalid byte counts as RuneError *)
Fixpoint runes_fuel (n : nat) (s : str) : list N :=
  match n with
  | O => []
  | S n' => match s with
            | [] => []
            | _ => let (r, rest) := decode_rune s in r :: runes_fuel n' rest
            end
  end.
Definition runes (s : str) : list N := runes_fuel (length s) s.

(* utf8.ValidString *)
Fixpoint valid_utf8_fuel (n : nat) (s : str) : bool :=
  match n with
  | O => match s with [] => true | _ => false end
  | S n' => match s with
            | [] => true
            | _ => match decode_valid s with
                   | Some (_, rest) => valid_utf8_fuel n' rest
                   | None => false
                   end
            end
  end.
Definition valid_utf8 (s : str) : bool := valid_utf8_fuel (length s) s.

Definition encode_runes (rs : list N) : str := flat_map encode_rune rs.

(* ------------------------------------------------------------------------------------------ *)
(* utils/strings.go: PuppetQuote, puppetDoubleQuote, RegexpQuote                                *)

Definition hex_digit_upper (d : N) : N := if d <? 10 then 48 + d else 55 + d.
(* fmt's %X of a rune below 0x20 (one or two digits; the general case is not needed: strings.go:197) *)
Definition hex_upper_small (c : N) : str :=
  if c <? 16 then [hex_digit_upper c] else [hex_digit_upper (c / 16); hex_digit_upper (c mod 16)].

(* strings.go:182-206 — one rune of puppetDoubleQuote *)
Definition dq_escape (c : N) : str :=
  if c =? 9 then [92; 116]            (* \t *)
  else if c =? 10 then [92; 110]      (* \n *)
  else if c =? 13 then [92; 114]      (* \r *)
  else if c =? 34 then [92; 34]       (* backslash, double quote *)
  else if c =? 92 then [92; 92]       (* \\ *)
  else if c =? 36 then [92; 36]       (* \$ *)
  else if c <? 32 then [92; 117; 123] ++ hex_upper_small c ++ [125]   (* \u{X} *)
  else encode_rune c.

(* strings.go:166-176 — one rune of the single quoted form *)
Definition sq_escape (c : N) : str :=
  if c =? 39 then [92; 39]
  else if c =? 92 then [92; 92]
  else encode_rune c.

(* strings.go:156 PuppetQuote *)
Definition puppet_quote (s : str) : str :=
  let rs := runes s in
  if existsb (fun c => c <? 32) rs
  then 34 :: flat_map dq_escape rs ++ [34]        (* strings.go:180 puppetDoubleQuote *)
  else 39 :: flat_map sq_escape rs ++ [39].

(* strings.go:132 RegexpQuote — the loop, `escaped` is the state *)
Fixpoint regexp_quote_loop (rs : list N) (escaped : bool) : str :=
  match rs with
  | [] => []
  | c :: rs' =>
    if escaped then encode_rune c ++ regexp_quote_loop rs' false
    else if c =? 92 then encode_rune c ++ regexp_quote_loop rs' true
    else if c =? 47 then 92 :: encode_rune c ++ regexp_quote_loop rs' false
    else if c =? 10 then 92 :: 110 :: regexp_quote_loop rs' false
    else if c =? 0 then [92; 120; 48; 48] ++ regexp_quote_loop rs' false
    else encode_rune c ++ regexp_quote_loop rs' false
  end.
Definition regexp_quote (s : str) : str := 47 :: regexp_quote_loop (runes s) false ++ [47].

(* ------------------------------------------------------------------------------------------ *)
(* strconv.FormatInt(i, 10) and strconv.ParseInt(s, 0, 64)                                      *)

Fixpoint dec_digits_fuel (f : nat) (n : N) (acc : str) : str :=
  match f with
  | O => acc
  | S f' => let acc' := (48 + n mod 10) :: acc in
            if n <? 10 then acc' else dec_digits_fuel f' (n / 10) acc'
  end.
(* 20 digits are enough below 2^64 *)
Definition dec_digits (n : N) : str := dec_digits_fuel 20 n [].

(* integertype.go:438 strconv.FormatInt(int64(iv), 10) *)
Definition format_int (z : Z) : str :=
  match z with
  | Zneg p => 45 :: dec_digits (Npos p)
  | _ => dec_digits (Z.to_N z)
  end.

Definition is_digit (r : N) : bool := (48 <=? r) && (r <=? 57).
Definition is_hex (r : N) : bool :=
  is_digit r || ((65 <=? r) && (r <=? 70)) || ((97 <=? r) && (r <=? 102)).
Definition hex_val (r : N) : N :=
  if is_digit r then r - 48 else if r <=? 70 then r - 55 else r - 87.

(* digits in the given base, None when a character is not a digit of that base or the text is empty *)
Fixpoint digits_val (base : N) (l : str) (acc : N) : option N :=
  match l with
  | [] => Some acc
  | d :: l' => if is_hex d && (hex_val d <? base) then digits_val base l' (acc * base + hex_val d) else None
  end.
Definition digits_val_ne (base : N) (l : str) : option N :=
  match l with [] => None | _ => digits_val base l 0 end.

(* parser.go:326 strconv.ParseInt(t.s, 0, 64) on a token text of the lexer: optional sign, then 0x/0X and
   hexadecimal digits, or a leading 0 and octal digits, or decimal digits (the lexer produces no other
   prefix and no underscore); None = strconv's syntax or range error *)
Definition parse_int0 (s : str) : option Z :=
  let '(neg, d) := match s with
                   | 43 :: t => (false, t)
                   | 45 :: t => (true, t)
                   | _ => (false, s)
                   end in
  let mag := match d with
             | 48 :: 120 :: h | 48 :: 88 :: h => digits_val_ne 16 h
             | 48 :: (_ :: _) as o => digits_val_ne 8 o
             | _ => digits_val_ne 10 d
             end in
  match mag with
  | None => None
  | Some m => if neg then (if m <=? 9223372036854775808 then Some (- Z.of_N m)%Z else None)
              else (if m <? 9223372036854775808 then Some (Z.of_N m) else None)
  end.

(* ------------------------------------------------------------------------------------------ *)
(* types/lexer.go                                                                               *)

Inductive lerr :=
| EUnterminatedString | EUnterminatedRegexp | EBadToken | EIllegalEscape | EMalformedUnicode
| EUnexpectedEnd | EUnicode | ENotThisToken (* the input does not start the token kind asked for *).

Inductive lres (A : Type) :=
| LOk (a : A) (rest : str)
| LErr (e : lerr)
| LOutOfFuel.
Arguments LOk {A}. Arguments LErr {A}. Arguments LOutOfFuel {A}.

Definition lerr_eqb (a b : lerr) : bool :=
  match a, b with
  | EUnterminatedString, EUnterminatedString | EUnterminatedRegexp, EUnterminatedRegexp
  | EBadToken, EBadToken | EIllegalEscape, EIllegalEscape | EMalformedUnicode, EMalformedUnicode
  | EUnexpectedEnd, EUnexpectedEnd | EUnicode, EUnicode | ENotThisToken, ENotThisToken => true
  | _, _ => false
  end.

(* lexer.go:366 consumeUnicodeEscape, the loop after '{': n = digits still allowed (6 - digits.Len()),
   cnt = digits.Len(), acc = their value. The loop ends at the latest after seven characters: a seventh
   digit, the end of the input (0) and any other character are all "malformed". *)
Fixpoint cue_digits (n : nat) (s : str) (acc : N) (cnt : nat) : lres N :=
  let (r, s1) := sr_next s in
  if r =? 125 then
    match cnt with
    | O => LErr EMalformedUnicode                       (* ParseUint("") fails *)
    | _ => if valid_rune acc then LOk acc s1 else LErr EMalformedUnicode
    end
  else if is_hex r then
    match n with
    | O => LErr EMalformedUnicode                       (* digits.Len() == 6 *)
    | S n' => cue_digits n' s1 (acc * 16 + hex_val r) (S cnt)
    end
  else LErr EMalformedUnicode.

Definition consume_unicode_escape (s : str) : lres N :=
  let (r, s1) := sr_next s in
  if r =? 123 then cue_digits 6 s1 0 0 else LErr EIllegalEscape.

(* lexer.go:321 consumeString *)
Fixpoint consume_string (fuel : nat) (s : str) (endq : N) (buf : str) : lres str :=
  match fuel with
  | O => LOutOfFuel
  | S f =>
    let (r, s1) := sr_next s in
    if r =? endq then LOk buf s1
    else if r =? 0 then LErr EUnterminatedString
    else if r =? rune_error then LErr EBadToken
    else if r =? 92 then
      let (r2, s2) := sr_next s1 in
      if r2 =? 0 then LErr EUnterminatedString
      else if r2 =? rune_error then LErr EBadToken
      else if r2 =? 110 then consume_string f s2 endq (buf ++ [10])
      else if r2 =? 114 then consume_string f s2 endq (buf ++ [13])
      else if r2 =? 116 then consume_string f s2 endq (buf ++ [9])
      else if r2 =? 117 then
        match consume_unicode_escape s2 with
        | LOk r3 s3 => consume_string f s3 endq (buf ++ encode_rune r3)
        | LErr e => LErr e
        | LOutOfFuel => LOutOfFuel
        end
      else if (r2 =? 92) || (r2 =? 36) then consume_string f s2 endq (buf ++ encode_rune r2)
      else if r2 =? endq then consume_string f s2 endq (buf ++ encode_rune r2)
      else LErr EIllegalEscape
    else if r =? 10 then LErr EUnterminatedString
    else consume_string f s1 endq (buf ++ encode_rune r)
  end.

(* lexer.go:291 consumeRegexp *)
Fixpoint consume_regexp (fuel : nat) (s : str) (buf : str) : lres str :=
  match fuel with
  | O => LOutOfFuel
  | S f =>
    let (r, s1) := sr_next s in
    if r =? rune_error then LErr EBadToken
    else if r =? 47 then LOk buf s1
    else if r =? 92 then
      let (r2, s2) := sr_next s1 in
      if (r2 =? 0) || (r2 =? 10) then LErr EUnterminatedRegexp
      else if r2 =? rune_error then LErr EBadToken
      else if r2 =? 47 then consume_regexp f s2 (buf ++ encode_rune r2)
      else consume_regexp f s2 (buf ++ 92 :: encode_rune r2)
    else if (r =? 0) || (r =? 10) then LErr EUnterminatedRegexp
    else consume_regexp f s1 (buf ++ encode_rune r)
  end.

Inductive numkind := KInteger | KFloat.
Definition numkind_eqb (a b : numkind) : bool :=
  match a, b with KInteger, KInteger | KFloat, KFloat => true | _, _ => false end.

Section Numbers.
  (* unicode.IsLetter (lexer.go:193): an oracle for the characters above ASCII *)
  Variable is_letter : N -> bool.

  (* lexer.go:176 consumeUnsignedInteger *)
  Fixpoint consume_unsigned (fuel : nat) (s : str) (buf : str) : lres str :=
    match fuel with
    | O => LOutOfFuel
    | S f =>
      let r := sr_peek s in
      if r =? rune_error then LErr EUnicode
      else if r =? 0 then LOk buf s
      else if r =? 46 then LErr EBadToken
      else if is_digit r then consume_unsigned f (snd (sr_next s)) (buf ++ encode_rune r)
      else if is_letter r then LErr EBadToken
      else LOk buf s
    end.

  (* lexer.go:202 consumeExponent (the `for` never iterates twice) *)
  Definition consume_exponent (fuel : nat) (s : str) (buf : str) : lres str :=
    let (r, s1) := sr_next s in
    if r =? 0 then LErr EUnexpectedEnd
    else if (r =? 43) || (r =? 45) then
      let (r2, s2) := sr_next s1 in
      if is_digit r2 then consume_unsigned fuel s2 (buf ++ encode_rune r ++ encode_rune r2)
      else LErr EBadToken
    else if is_digit r then consume_unsigned fuel s1 (buf ++ encode_rune r)
    else LErr EBadToken.

  (* lexer.go:223 consumeHexInteger *)
  Fixpoint consume_hex (fuel : nat) (s : str) (buf : str) : lres str :=
    match fuel with
    | O => LOutOfFuel
    | S f =>
      let r := sr_peek s in
      if r =? 0 then LOk buf s
      else if is_hex r then consume_hex f (snd (sr_next s)) (buf ++ encode_rune r)
      else LOk buf s
    end.

  (* lexer.go:240 consumeNumber after `buf.WriteRune(start)`; first_zero = (t != float && start == '0') *)
  Fixpoint consume_number_loop (fuel : nat) (s : str) (buf : str) (t : numkind) (first_zero : bool)
    : lres (numkind * str) :=
    match fuel with
    | O => LOutOfFuel
    | S f =>
      let r := sr_peek s in
      let s1 := snd (sr_next s) in
      if r =? 0 then LOk (t, buf) s
      else if r =? 48 then consume_number_loop f s1 (buf ++ encode_rune r) t first_zero
      else if (r =? 101) || (r =? 69) then
        match consume_exponent f s1 (buf ++ encode_rune r) with
        | LOk b rest => LOk (KFloat, b) rest
        | LErr e => LErr e
        | LOutOfFuel => LOutOfFuel
        end
      else if (r =? 120) || (r =? 88) then
        if first_zero then
          let (r2, s2) := sr_next s1 in
          if is_hex r2 then
            match consume_hex f s2 (buf ++ encode_rune r ++ encode_rune r2) with
            | LOk b rest => LOk (t, b) rest
            | LErr e => LErr e
            | LOutOfFuel => LOutOfFuel
            end
          else LErr EBadToken
        else LErr EBadToken
      else if r =? 46 then
        match t with
        | KFloat => LErr EBadToken
        | KInteger =>
          let (r2, s2) := sr_next s1 in
          if is_digit r2
          then consume_number_loop f s2 (buf ++ encode_rune r ++ encode_rune r2) KFloat false
          else LErr EBadToken
        end
      else if is_digit r then consume_number_loop f s1 (buf ++ encode_rune r) t first_zero
      else LOk (t, buf) s
    end.

  Definition consume_number (fuel : nat) (s : str) (start : N) (buf : str) (t : numkind)
    : lres (numkind * str) :=
    consume_number_loop fuel s (buf ++ encode_rune start) t
                        (match t with KFloat => false | KInteger => start =? 48 end).

  (* lexer.go:135-147 the arms of nextToken that read a number; fuel: one unit per character *)
  Definition lex_number (s : str) : lres (numkind * str) :=
    let fuel := S (length s) in
    let (r, s1) := sr_next s in
    if (r =? 45) || (r =? 43) then
      let (n, s2) := sr_next s1 in
      if is_digit n then consume_number fuel s2 n (encode_rune r) KInteger else LErr EBadToken
    else if is_digit r then consume_number fuel s1 r [] KInteger
    else LErr ENotThisToken.
End Numbers.

(* letters of ASCII only: the instance used for the theorems about printed integers, where the oracle is
   never consulted *)
Definition ascii_letter (r : N) : bool := ((65 <=? r) && (r <=? 90)) || ((97 <=? r) && (r <=? 122)).

(* lexer.go:107 nextToken on a string literal: the token text *)
Definition lex_string (s : str) : lres str :=
  let (r, s1) := sr_next s in
  if (r =? 39) || (r =? 34) then consume_string (S (length s)) s1 r [] else LErr ENotThisToken.

(* lexer.go:109 nextToken on a regexp literal *)
Definition lex_regexp (s : str) : lres str :=
  let (r, s1) := sr_next s in
  if r =? 47 then consume_regexp (S (length s)) s1 [] else LErr ENotThisToken.

(* ------------------------------------------------------------------------------------------ *)
(* guards of the theorems                                                                       *)

(* no U+FFFD character: the lexer cannot tell it from an invalid byte (open finding
   C05-lexer-rejects-replacement-character) *)
Definition no_replacement (s : str) : bool := negb (existsb (fun c => c =? rune_error) (runes s)).

(* a regexp source that RegexpQuote can write so that the lexer reads the same source back: no line feed
   and no NUL character (they are written as the escapes \n and \x00, which the lexer keeps as escapes),
   no backslash followed by '/' (the lexer drops that backslash), no backslash at the very end
   (open finding C05-regexp-source-not-representable) *)
Fixpoint rx_escapes_ok (rs : list N) (escaped : bool) : bool :=
  match rs with
  | [] => negb escaped
  | c :: rs' =>
    negb ((c =? 10) || (c =? 0)) &&
    (if escaped then negb (c =? 47) && rx_escapes_ok rs' false
     else rx_escapes_ok rs' (c =? 92))
  end.
Definition regexp_printable (s : str) : bool := rx_escapes_ok (runes s) false.

(* what may follow a number: the end of the input or an ASCII character that neither continues the number
   nor is rejected right after one (in printed types and values: ',', ']', '}', ')', ' ', line feed) *)
Definition num_stop (k : str) : bool :=
  match k with
  | [] => true
  | b :: _ => (b <? 128) && negb (is_digit b || (b =? 46) || (b =? 101) || (b =? 69) || (b =? 120) || (b =? 88))
  end.
