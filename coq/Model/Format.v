(* Format.v — executable model of pcore's string formatting (property C20).

   One Gallina function per Go method, same order of tests, Go file:line in comments
   (/repo as of the fix: commits listed in design_notes/C20.md).

     types/format.go      parseFormat, hasDelimOnce, unParse/goFormat, ApplyStringFlags,
                          newFormatContext3, NewFormatMap, FormatFromHash, mergeFormats, merge,
                          the Default*Format tables, indentation
     px/format.go         FormatPattern, GetFormat
     types/integertype.go integerValue.ToString, intFromConvertible, the Integer constructor
     types/floattype.go   floatValue.ToString, floatGFormat, padFloat
     types/stringtype.go booleantype.go binarytype.go defaulttype.go undeftype.go regexptype.go
     types/arraytype.go   Array.ToString2, childToString, isContainer
     types/hashtype.go    Hash.ToString2, HashEntry.ToString
     Go's fmt             fmtInteger, fmtS, pad, fmtFloat (format.go of go1.23) — the reference
                          rendering of the C-printf directives, written out over digit lists

   Modelled rather than verified (oracle tables supplied with every case, see `oracle`):
     strconv float digit generation, int64<->float64 conversion, utils.PuppetQuote on strings that
     are not plain printable ASCII, utils.RegexpQuote, Unicode case mapping beyond ASCII, and the
     type inference + assignability of NESTED container values against the inferred type of the
     top value (the only key a context built from a directive string has; properties C01/C04).

   Results: `obs` = text or error class.  Go runtime fault sites are explicit (`EFault`), the
   recursion over containers and over nested format maps uses fuel (`None` = out of fuel). *)
From Coq Require Import Ascii String.
From Coq Require Import ZArith NArith Bool Lia List.
From PcoreV Require Import Model.Base.
Import ListNotations.
Open Scope Z_scope.

(* ------------------------------------------------------------------------------------------ *)
(* bytes and literals *)

Definition lit (s : string) : str := List.map N_of_ascii (list_ascii_of_string s).

Definition mem (c : N) (l : str) : bool := existsb (N.eqb c) l.
Definition len (s : str) : Z := Z.of_nat (List.length s).
Definition between (lo hi b : N) : bool := (N.leb lo b) && (N.leb b hi).
Definition is_digit (c : N) : bool := between 48 57 c.
Definition is_letter (c : N) : bool := between 65 90 c || between 97 122 c.
Definition lower_b (c : N) : N := if between 65 90 c then (c + 32)%N else c.
Definition upper_b (c : N) : N := if between 97 122 c then (c - 32)%N else c.
Definition spaces (n : Z) : str := repeat 32%N (Z.to_nat n).
Definition zeros (n : Z) : str := repeat 48%N (Z.to_nat n).

Fixpoint span (p : N -> bool) (s : str) : str * str :=
  match s with
  | c :: r => if p c then let (a, b) := span p r in (c :: a, b) else ([], s)
  | [] => ([], [])
  end.

Fixpoint drop_while (p : N -> bool) (s : str) : str :=
  match s with
  | c :: r => if p c then drop_while p r else s
  | [] => []
  end.

Fixpoint is_prefix (p s : str) : bool :=
  match p, s with
  | [], _ => true
  | a :: p', b :: s' => N.eqb a b && is_prefix p' s'
  | _, [] => false
  end.

Fixpoint assoc {A B : Type} (eqb : A -> A -> bool) (k : A) (l : list (A * B)) : option B :=
  match l with
  | [] => None
  | (k', v) :: r => if eqb k k' then Some v else assoc eqb k r
  end.

(* ------------------------------------------------------------------------------------------ *)
(* UTF-8 as Go decodes it (unicode/utf8: an invalid or truncated sequence is one rune of width 1) *)

Definition cont (b : N) : bool := between 128 191 b.

Definition rune_width (s : str) : nat :=
  match s with
  | [] => 0%nat
  | b0 :: r =>
    if N.ltb b0 128 then 1%nat
    else if between 194 223 b0 then
      match r with b1 :: _ => if cont b1 then 2%nat else 1%nat | _ => 1%nat end
    else if between 224 239 b0 then
      match r with
      | b1 :: b2 :: _ =>
        let lo := if N.eqb b0 224 then 160%N else 128%N in
        let hi := if N.eqb b0 237 then 159%N else 191%N in
        if between lo hi b1 && cont b2 then 3%nat else 1%nat
      | _ => 1%nat
      end
    else if between 240 244 b0 then
      match r with
      | b1 :: b2 :: b3 :: _ =>
        let lo := if N.eqb b0 240 then 144%N else 128%N in
        let hi := if N.eqb b0 244 then 143%N else 191%N in
        if between lo hi b1 && cont b2 && cont b3 then 4%nat else 1%nat
      | _ => 1%nat
      end
    else 1%nat
  end.

(* rune count: utf8.RuneCountInString.  `skip` = bytes of the current rune still to pass *)
Fixpoint rc (skip : nat) (s : str) : nat :=
  match s with
  | [] => 0%nat
  | _ :: r => match skip with
              | S k => rc k r
              | O => S (rc (rune_width s - 1) r)
              end
  end.
Definition rune_count (s : str) : nat := rc 0 s.
Definition rlen (s : str) : Z := Z.of_nat (rune_count s).

(* the first n runes: fmt.truncateString (format.go:327) *)
Fixpoint take_runes (skip : nat) (n : nat) (s : str) : str :=
  match s with
  | [] => []
  | b :: r => match skip with
              | S k => b :: take_runes k n r
              | O => match n with
                     | O => []
                     | S m => b :: take_runes (rune_width s - 1) m r
                     end
              end
  end.

(* utf8.Valid *)
Fixpoint utf8_valid_from (skip : nat) (s : str) : bool :=
  match s with
  | [] => true
  | b :: r => match skip with
              | S k => utf8_valid_from k r
              | O => if N.ltb b 128 then utf8_valid_from 0 r
                     else match rune_width s with
                          | S (S k) => utf8_valid_from (S k) r
                          | _ => false
                          end
              end
  end.
Definition utf8_valid (s : str) : bool := utf8_valid_from 0 s.

(* bytes.Buffer.WriteRune(rune(int64)): int64 -> int32 truncation, invalid runes become U+FFFD *)
Definition wrap32 (z : Z) : Z := ((z + 2147483648) mod 4294967296) - 2147483648.
Definition encode_rune (r : Z) : str :=
  if (0 <=? r) && (r <? 128) then [Z.to_N r]
  else if (r <? 0) || (1114111 <? r) || ((55296 <=? r) && (r <=? 57343)) then [239; 191; 189]%N
  else if r <? 2048 then [Z.to_N (192 + r / 64); Z.to_N (128 + r mod 64)]
  else if r <? 65536 then [Z.to_N (224 + r / 4096); Z.to_N (128 + (r / 64) mod 64); Z.to_N (128 + r mod 64)]
  else [Z.to_N (240 + r / 262144); Z.to_N (128 + (r / 4096) mod 64); Z.to_N (128 + (r / 64) mod 64); Z.to_N (128 + r mod 64)].

(* ------------------------------------------------------------------------------------------ *)
(* the universe *)

Inductive value :=
| VUndef | VDefault | VBool (b : bool) | VInt (z : Z)
| VFloat (bits : Z)                 (* IEEE-754 bits as an unsigned 64 bit number *)
| VStr (s : str) | VRegexp (s : str) | VBinary (s : str)
| VArr (es : list value) | VHash (es : list (value * value)).

(* key types of per-type format maps (harness: keyTypes); KSelf = "the inferred type of the value
   being formatted", the key of the context that newFormatContext3 builds from a directive string *)
Inductive tkey :=
| KAny | KScalar | KScalarData | KNumeric | KInteger | KFloat | KString | KBoolean | KUndef | KDefault
| KRegexp | KBinary | KCollection | KArray | KHash | KObject | KType | KSelf.

Inductive fent :=
| FEStr (s : str)
| FEHash (fmt : str) (sep sep2 : option str) (sf : option (list (tkey * fent))).

Inductive fspec := FDefault | FStr (s : str) | FMap (m : list (tkey * fent)).

Inductive kind := KdInteger | KdFloat | KdString | KdBoolean | KdArray | KdHash | KdBinary | KdDefault
                | KdUndef | KdRegexp.

Inductive err :=
| EUnsupported (c : N) (k : kind)     (* px.UnsupportedStringFormat: letter, Type.Name() *)
| EInvalidSpec | ERepeatedFlag | EDelimiter | EFailure
| EFault                               (* Go runtime fault *)
| EOther
| EOracle.                             (* an oracle table lacks an entry (never observed) *)

Inductive R (A : Type) := ROk (a : A) | RErr (e : err).
Arguments ROk {A} a.
Arguments RErr {A} e.
Definition obs := R str.
Notation OText := (@ROk str).
Notation OErr := (@RErr str).

Definition bind {A B} (x : R A) (k : A -> R B) : R B :=
  match x with ROk a => k a | RErr e => RErr e end.

Fixpoint value_eqb (a b : value) {struct a} : bool :=
  match a, b with
  | VUndef, VUndef => true
  | VDefault, VDefault => true
  | VBool x, VBool y => Bool.eqb x y
  | VInt x, VInt y => Z.eqb x y
  | VFloat x, VFloat y => Z.eqb x y
  | VStr x, VStr y => str_eqb x y
  | VRegexp x, VRegexp y => str_eqb x y
  | VBinary x, VBinary y => str_eqb x y
  | VArr xs, VArr ys =>
    (fix go (xs ys : list value) : bool :=
       match xs, ys with
       | [], [] => true
       | x :: xs', y :: ys' => value_eqb x y && go xs' ys'
       | _, _ => false
       end) xs ys
  | VHash xs, VHash ys =>
    (fix go (xs ys : list (value * value)) : bool :=
       match xs, ys with
       | [], [] => true
       | (k, v) :: xs', (k', v') :: ys' => value_eqb k k' && value_eqb v v' && go xs' ys'
       | _, _ => false
       end) xs ys
  | _, _ => false
  end.

Record oracle := mkOracle {
  o_quote : list (str * str);          (* utils.PuppetQuote, strings that are not plain *)
  o_rquote : list (str * str);         (* utils.RegexpQuote *)
  o_cases : list ((N * str) * str);    (* 'u' ToUpper 'd' ToLower 'c' CapitalizeSegment 'C' CapitalizeSegments 't' TrimSpace, non-ASCII *)
  o_fdig : list ((Z * N * Z) * str);   (* (bits, verb, precision) -> strconv.FormatFloat(|x|, verb, precision, 64) *)
  o_i2f : list (Z * Z);                (* float64(int64) bits *)
  o_f2i : list (Z * Z);                (* int64(float64) *)
  o_self : list (value * bool)         (* IsAssignable(top.PType(), nested container.PType()) *)
}.

(* ------------------------------------------------------------------------------------------ *)
(* formats (types/format.go:18) *)

Inductive cfmap_ (F : Type) :=
| CfNone                               (* containerFormats == nil *)
| CfDefault                            (* the (cyclic) DefaultContainerFormats, format.go:147 *)
| CfMap (m : list (tkey * F)).
Arguments CfNone {F}.
Arguments CfDefault {F}.
Arguments CfMap {F} m.

(* origFmt is not modelled: it is observable through Format.String() only *)
Inductive format :=
  mkFormat (alt left zero : bool) (char plus : N) (prec width : Z) (delim : N)
           (sep sep2 : option str)     (* None = NoString *)
           (cf : cfmap_ format).
Definition cfmap := cfmap_ format.
Definition fmap := list (tkey * format).

Definition f_alt f := let 'mkFormat a _ _ _ _ _ _ _ _ _ _ := f in a.
Definition f_left f := let 'mkFormat _ a _ _ _ _ _ _ _ _ _ := f in a.
Definition f_zero f := let 'mkFormat _ _ a _ _ _ _ _ _ _ _ := f in a.
Definition f_char f := let 'mkFormat _ _ _ a _ _ _ _ _ _ _ := f in a.
Definition f_plus f := let 'mkFormat _ _ _ _ a _ _ _ _ _ _ := f in a.
Definition f_prec f := let 'mkFormat _ _ _ _ _ a _ _ _ _ _ := f in a.
Definition f_width f := let 'mkFormat _ _ _ _ _ _ a _ _ _ _ := f in a.
Definition f_delim f := let 'mkFormat _ _ _ _ _ _ _ a _ _ _ := f in a.
Definition f_sep f := let 'mkFormat _ _ _ _ _ _ _ _ a _ _ := f in a.
Definition f_sep2 f := let 'mkFormat _ _ _ _ _ _ _ _ _ a _ := f in a.
Definition f_cf f := let 'mkFormat _ _ _ _ _ _ _ _ _ _ a := f in a.

(* format.go:693 ReplaceFormatChar, :701 WithoutWidth *)
Definition replace_char (f : format) (c : N) : format :=
  mkFormat (f_alt f) (f_left f) (f_zero f) c (f_plus f) (f_prec f) (f_width f) (f_delim f) (f_sep f) (f_sep2 f) (f_cf f).
Definition without_width (f : format) : format :=
  mkFormat false false false (f_char f) (f_plus f) (f_prec f) (-1) (f_delim f) (f_sep f) (f_sep2 f) (f_cf f).

Definition with_prec (f : format) (p : Z) : format :=
  mkFormat (f_alt f) (f_left f) (f_zero f) (f_char f) (f_plus f) p (f_width f) (f_delim f) (f_sep f) (f_sep2 f) (f_cf f).

(* format.go:467 simpleFormat, :471 basicFormat (separator "," always, leftDelimiter as given) *)
Definition basic_format (c : N) (sep2 : option str) (delim : N) (cf : cfmap) : format :=
  mkFormat false false false c 0%N (-1) (-1) delim (Some [44%N]) sep2 cf.
Definition simple_format (c : N) : format := basic_format c None 91%N CfNone.

Definition s_comma : str := [44%N].
Definition s_arrow : str := Eval vm_compute in lit " => ".

(* format.go:147 DefaultContainerFormats, one unfolding *)
Definition default_container_formats : fmap :=
  [ (KObject, basic_format 112 (Some s_arrow) 40 CfDefault);
    (KType, basic_format 112 (Some s_arrow) 40 CfDefault);
    (KFloat, simple_format 112);
    (KNumeric, simple_format 112);
    (KArray, basic_format 112 (Some s_comma) 91 CfDefault);
    (KHash, basic_format 112 (Some s_arrow) 123 CfDefault);
    (KBinary, simple_format 112);
    (KAny, simple_format 112) ].

(* format.go:136 DefaultFormats *)
Definition default_formats : fmap :=
  [ (KObject, basic_format 112 (Some s_arrow) 40 CfDefault);
    (KType, basic_format 112 (Some s_arrow) 40 CfDefault);
    (KFloat, simple_format 102);
    (KNumeric, simple_format 100);
    (KArray, basic_format 97 (Some s_comma) 91 CfDefault);
    (KHash, basic_format 104 (Some s_arrow) 123 CfDefault);
    (KBinary, simple_format 66);
    (KAny, simple_format 115) ].

(* px.DefaultFormat = DefaultAnyFormat (format.go:79, :98) *)
Definition default_any_format : format := simple_format 115.

Definition cf_entries (c : cfmap) : fmap :=
  match c with CfNone => [] | CfDefault => default_container_formats | CfMap m => m end.
Definition cf_empty (c : cfmap) : bool :=
  match c with CfNone => true | CfDefault => false | CfMap [] => true | CfMap _ => false end.

(* ------------------------------------------------------------------------------------------ *)
(* the directive grammar: px/format.go:54 FormatPattern, anchored at both ends:
     '%', any number of flag characters (white space \t \n \f \r ' ', and [ + # 0 { < ( | -),
     an optional width [1-9][0-9]..., an optional '.' followed by at least one digit, one ASCII letter *)

Definition flag_chars : str := Eval vm_compute in lit " [+#0{<(|-".
Definition is_flag (c : N) : bool := mem c flag_chars || mem c [9; 10; 12; 13]%N.

Definition parse_directive (s : str) : option (str * option str * option str * N) :=
  match s with
  | 37%N :: r =>
    let (flags, r1) := span is_flag r in
    let '(w, r2) := match r1 with
                    | d :: _ => if between 49 57 d then let (ds, r') := span is_digit r1 in (Some ds, r') else (None, r1)
                    | [] => (None, r1)
                    end in
    let '(p, r3, okp) := match r2 with
                         | 46%N :: r' => let (ds, r'') := span is_digit r' in
                                         match ds with [] => (None, r2, false) | _ => (Some ds, r'', true) end
                         | _ => (None, r2, true)
                         end in
    if okp then match r3 with
                | [c] => if is_letter c then Some (flags, w, p, c) else None
                | _ => None
                end
    else None
  | _ => None
  end.

Fixpoint of_digits_acc (base : Z) (ds : list Z) (acc : Z) : Z :=
  match ds with [] => acc | d :: r => of_digits_acc base r (acc * base + d) end.
Definition of_digits (base : Z) (ds : list Z) : Z := of_digits_acc base ds 0.

(* strconv.Atoi with the error dropped (format.go:532): saturates at MaxInt64 *)
Definition atoi_sat (ds : str) : Z :=
  Z.min (of_digits 10 (List.map (fun c => Z.of_N c - 48) ds)) max_int64.

Definition count_c (c : N) (s : str) : nat := List.length (filter (N.eqb c) s).

(* format.go:592 hasDelimOnce *)
Definition once (flags : str) (c : N) : R bool :=
  match count_c c flags with
  | O => ROk false
  | S O => ROk true
  | _ => RErr ERepeatedFlag
  end.

(* format.go:515-523 *)
Fixpoint find_delim (flags : str) (ds : list N) (found : N) : R N :=
  match ds with
  | [] => ROk found
  | d :: r => bind (once flags d) (fun b =>
                if b then (if N.eqb found 0 then find_delim flags r d else RErr EDelimiter)
                else find_delim flags r found)
  end.
Definition delimiters : list N := [91; 123; 40; 60; 124]%N.

(* format.go:498 parseFormat *)
Definition parse_format (s : str) (sep sep2 : option str) (cf : cfmap) : R format :=
  match parse_directive s with
  | None => RErr EInvalidSpec
  | Some (flags, w, p, c) =>
    bind (once flags 32) (fun space =>
    bind (once flags 43) (fun plusf =>
    let plus := if plusf then 43%N else if space then 32%N else 0%N in
    bind (find_delim flags delimiters 0) (fun found =>
    let found := if N.eqb found 0 && space then 32%N else found in
    let width := match w with Some ds => atoi_sat ds | None => -1 end in
    let prc := match p with Some ds => atoi_sat ds | None => -1 end in
    bind (once flags 45) (fun left =>
    bind (once flags 35) (fun alt =>
    bind (once flags 48) (fun zero =>
    ROk (mkFormat alt left zero c plus prc width found sep sep2 cf)))))))
  end.

(* ------------------------------------------------------------------------------------------ *)
(* Go's fmt: padding, strings, integers *)

(* fmt.pad / padString / writePadding (format.go:66-126): `zero` is f.zero at the time of the call *)
Definition fmt_pad (wid : Z) (minus zero : bool) (s : str) : str :=
  if wid <=? 0 then s
  else let n := wid - rlen s in
       if minus then s ++ spaces n
       else (if zero then zeros n else spaces n) ++ s.

(* fmt.fmtS (format.go:360) *)
Definition fmt_s (wid prec : Z) (minus zero : bool) (s : str) : str :=
  fmt_pad wid minus zero (if 0 <=? prec then take_runes 0 (Z.to_nat prec) s else s).

Definition digit_char (upper : bool) (d : Z) : N :=
  if d <? 10 then Z.to_N (48 + d) else Z.to_N ((if upper then 55 else 87) + d).

Fixpoint digits_f (fuel : nat) (base : Z) (upper : bool) (u : Z) (acc : str) : str :=
  match fuel with
  | O => acc
  | S k => if u <? base then digit_char upper u :: acc
           else digits_f k base upper (u / base) (digit_char upper (u mod base) :: acc)
  end.
(* the digits of u (0 <= u < 2^64) in radix 2, 8, 10 or 16 *)
Definition digits (base : Z) (upper : bool) (u : Z) : str := digits_f 64 base upper u [].

(* fmt.fmtInteger (format.go:197); wid < 0 / prec < 0 = not present *)
Definition fmt_integer (sharp zero plus space minus : bool) (wid prec : Z) (base : Z) (upper : bool) (n : Z) : str :=
  let negative := n <? 0 in
  let u := Z.abs n in
  if (0 <=? prec) && (prec =? 0) && (u =? 0) then spaces wid
  else
    let prec' := if 0 <=? prec then prec
                 else if zero && negb minus && (0 <=? wid)
                      then wid - (if negative || plus || space then 1 else 0) else 0 in
    let ds := digits base upper u in
    let ds := zeros (prec' - len ds) ++ ds in
    let ds := if sharp then
                if base =? 2 then 48%N :: 98%N :: ds
                else if base =? 8 then (match ds with 48%N :: _ => ds | _ => 48%N :: ds end)
                else if base =? 16 then 48%N :: (if upper then 88%N else 120%N) :: ds
                else ds
              else ds in
    let ds := if negative then 45%N :: ds else if plus then 43%N :: ds else if space then 32%N :: ds else ds in
    fmt_pad wid minus false ds.

(* goFormat(f) (format.go:583) handed to fmt with an int64: the flags fmt sees are the format's fields *)
Definition go_fmt_int (f : format) (verb : N) (n : Z) : str :=
  let base := if N.eqb verb 100 then 10 else if N.eqb verb 111 then 8 else if N.eqb verb 98 then 2 else 16 in
  fmt_integer (f_alt f) (f_zero f) (N.eqb (f_plus f) 43) (N.eqb (f_plus f) 32) (f_left f) (f_width f) (f_prec f)
              base (N.eqb verb 88) n.

(* strconv.FormatInt(n, 10) *)
Definition dec (n : Z) : str := (if n <? 0 then [45%N] else []) ++ digits 10 false (Z.abs n).

(* strings.Replace(s, "0b", "0B", 1) *)
Fixpoint replace_0b (s : str) : str :=
  match s with
  | a :: r => match r with
              | b :: r' => if N.eqb a 48 && N.eqb b 98 then 48%N :: 66%N :: r' else a :: replace_0b r
              | [] => s
              end
  | [] => []
  end.

(* ------------------------------------------------------------------------------------------ *)
(* quoting and case mapping (oracles beyond plain ASCII) *)

Definition is_ascii (s : str) : bool := forallb (fun c => N.ltb c 128) s.
(* printable ASCII without ' and \ : utils.PuppetQuote(s) = 's' *)
Definition is_plain (s : str) : bool :=
  forallb (fun c => between 32 126 c && negb (N.eqb c 39) && negb (N.eqb c 92)) s.

Definition quote (o : oracle) (s : str) : R str :=
  if is_plain s then ROk (39%N :: s ++ [39%N])
  else match assoc str_eqb s (o_quote o) with Some q => ROk q | None => RErr EOracle end.

Definition case_key_eqb (a b : N * str) : bool := N.eqb (fst a) (fst b) && str_eqb (snd a) (snd b).
Definition case_op (o : oracle) (op : N) (ascii_fn : str -> str) (s : str) : R str :=
  if is_ascii s then ROk (ascii_fn s)
  else match assoc case_key_eqb (op, s) (o_cases o) with Some q => ROk q | None => RErr EOracle end.

(* utils/strings.go:100 capitalizeSegment on ASCII *)
Definition cap_segment (s : str) : str :=
  match s with [] => [] | b :: r => upper_b b :: List.map lower_b r end.

(* regexp `::` Split(s, -1) *)
Fixpoint split_cc (s : str) (cur : str) : list str :=
  match s with
  | [] => [rev cur]
  | a :: r => match r with
              | b :: r' => if N.eqb a 58 && N.eqb b 58 then rev cur :: split_cc r' [] else split_cc r (a :: cur)
              | [] => [rev (a :: cur)]
              end
  end.
Definition s_cc : str := [58; 58]%N.
Fixpoint join (sep : str) (l : list str) : str :=
  match l with [] => [] | [x] => x | x :: r => x ++ sep ++ join sep r end.
(* utils/strings.go:114 CapitalizeSegments on ASCII *)
Definition cap_segments (s : str) : str := join s_cc (List.map cap_segment (split_cc s [])).

Definition is_space_b (c : N) : bool := between 9 13 c || N.eqb c 32.
Definition trim_space (s : str) : str := rev (drop_while is_space_b (rev (drop_while is_space_b s))).

(* ------------------------------------------------------------------------------------------ *)
(* format.go:609 ApplyStringFlags *)
Definition apply_string_flags (o : oracle) (f : format) (s : str) (quoted : bool) : obs :=
  bind (if quoted then quote o s else ROk s) (fun s' =>
    if f_left f || (0 <=? f_width f) || (0 <=? f_prec f)
    then OText (fmt_s (f_width f) (f_prec f) (f_left f) false s')
    else OText s').

(* ------------------------------------------------------------------------------------------ *)
(* floats: fmt.fmtFloat (format.go:494) over the digit string of strconv *)

Definition f_signbit (bits : Z) : bool := 9223372036854775808 <=? bits.
Definition f_exp (bits : Z) : Z := (bits / 4503599627370496) mod 2048.
Definition f_mant (bits : Z) : Z := bits mod 4503599627370496.
Definition f_is_nan (bits : Z) : bool := (f_exp bits =? 2047) && negb (f_mant bits =? 0).
Definition f_is_inf (bits : Z) : bool := (f_exp bits =? 2047) && (f_mant bits =? 0).

Definition fdig_key_eqb (a b : Z * N * Z) : bool :=
  let '(a1, a2, a3) := a in let '(b1, b2, b3) := b in Z.eqb a1 b1 && N.eqb a2 b2 && Z.eqb a3 b3.

(* the '#' flag of fmtFloat (format.go:526-581): scan of num[1:] *)
Fixpoint sharp_scan (verb : N) (l : str) (digits : Z) (hp saw : bool) (acc : str) : str * str * Z * bool :=
  match l with
  | [] => (rev acc, [], digits, hp)
  | c :: r =>
    if N.eqb c 46 then sharp_scan verb r digits true saw (c :: acc)
    else if N.eqb c 112 || N.eqb c 80 then (rev acc, l, digits, hp)
    else if (N.eqb c 101 || N.eqb c 69) && negb (N.eqb verb 120) && negb (N.eqb verb 88) then (rev acc, l, digits, hp)
    else let saw' := saw || negb (N.eqb c 48) in
         sharp_scan verb r (if saw' then digits - 1 else digits) hp saw' (c :: acc)
  end.

Definition sharp_fix (verb : N) (prec : Z) (num : str) : str :=
  let digits0 := if N.eqb verb 103 || N.eqb verb 71 || N.eqb verb 120
                 then (if prec =? -1 then 6 else prec) else 0 in
  let '(body, tail, digits, hp) := sharp_scan verb num digits0 false false [] in
  let '(body, digits) := if hp then (body, digits)
                         else (body ++ [46%N], if str_eqb body [48%N] then digits - 1 else digits) in
  body ++ zeros digits ++ tail.

Definition fmt_float (o : oracle) (sharp zero plus space minus : bool) (wid prec : Z) (verb : N) (bits : Z) : obs :=
  let p := if 0 <=? prec then prec
           else if N.eqb verb 101 || N.eqb verb 69 || N.eqb verb 102 then 6 else -1 in
  match assoc fdig_key_eqb (bits, verb, p) (o_fdig o) with
  | None => OErr EOracle
  | Some ds0 =>
    (* strconv writes the sign itself; the oracle carries |x|, "+Inf" for the infinities *)
    let ds := match ds0 with 43%N :: r => r | _ => ds0 end in
    let sgn := if f_is_nan bits then 43%N else if f_signbit bits then 45%N else 43%N in
    let sgn := if space && N.eqb sgn 43 && negb plus then 32%N else sgn in
    match ds with
    | [] => OErr EFault                                   (* num[1]: index out of range *)
    | d0 :: _ =>
      if N.eqb d0 73 || N.eqb d0 78 then
        let num := if N.eqb d0 78 && negb space && negb plus then ds else sgn :: ds in
        OText (fmt_pad wid minus false num)
      else
        let ds := if sharp then sharp_fix verb p ds else ds in
        if plus || negb (N.eqb sgn 43) then
          if zero && negb minus && (0 <=? wid) && (len ds + 1 <? wid)
          then OText (sgn :: zeros (wid - (len ds + 1)) ++ ds)
          else OText (fmt_pad wid minus zero (sgn :: ds))
        else OText (fmt_pad wid minus zero ds)
    end
  end.

Definition go_fmt_float (o : oracle) (f : format) (verb : N) (bits : Z) : obs :=
  fmt_float o (f_alt f) (f_zero f) (N.eqb (f_plus f) 43) (N.eqb (f_plus f) 32) (f_left f) (f_width f) (f_prec f) verb bits.

(* floattype.go:386 padFloat *)
Definition pad_float (f : format) (s : str) : str :=
  let pad := f_width f - len s in
  if pad <=? 0 then s
  else if f_left f then s ++ spaces pad
  else if f_zero f && negb (mem 73 s || mem 78 s) then
    match s with
    | c :: r => if N.eqb c 45 || N.eqb c 43 || N.eqb c 32 then c :: zeros pad ++ r else zeros pad ++ s
    | [] => zeros pad
    end
  else spaces pad ++ s.

(* floattype.go:330 floatGFormat *)
Definition float_g (o : oracle) (f : format) (bits : Z) : obs :=
  bind (go_fmt_float o (without_width f) (f_char f) bits) (fun s =>
    let sc := if N.eqb (f_char f) 71 then 69%N else 101%N in
    if mem sc s || f_is_nan bits || f_is_inf bits then OText (pad_float f s)
    else match s with
         | [] => OErr EFault                               (* str[0] *)
         | c0 :: _ =>
           let tot := len s - (if N.eqb c0 45 || N.eqb c0 43 || N.eqb c0 32 then 1 else 0) in
           let prc := if (f_prec f <? 0) && negb (f_alt f) then 6 else f_prec f in
           let dot := mem 46 s in
           let missing := if 0 <=? prc then (if dot then prc - (tot - 1) else prc - tot) else 0 in
           (* forced scientific notation with prc significant digits: %e precision prc - 1 (floattype.go:359-366) *)
           if (0 <=? prc) && negb dot && (missing =? 0) then go_fmt_float o (with_prec (replace_char f sc) (prc - 1)) sc bits
           else OText (pad_float f (s ++ (if dot then [] else 46%N :: (if missing =? 0 then [48%N] else [])) ++ zeros missing))
         end).

(* floattype.go:293 defaultFormatP = %g, defaultFormatS = %#g *)
Definition default_format_p : format := mkFormat false false false 103 0 (-1) (-1) 0 None None CfNone.
Definition default_format_s : format := mkFormat true false false 103 0 (-1) (-1) 0 None None CfNone.

(* ------------------------------------------------------------------------------------------ *)
(* the scalar ToString methods.  Each `switch f.FormatChar()` is the same chain of tests, the
   default arm raises UnsupportedFormat with the type name and the documented set. *)

Definition set_integer : str := Eval vm_compute in lit "dxXobBeEfgGaAspc".
Definition set_float : str := Eval vm_compute in lit "dxXobBeEfgGaAsp".
Definition set_string : str := Eval vm_compute in lit "cCudspt".
Definition set_boolean : str := Eval vm_compute in lit "tTyYdxXobBeEfgGaAsp".
Definition set_array : str := Eval vm_compute in lit "asp".
Definition set_hash : str := Eval vm_compute in lit "hasp".
Definition set_binary : str := Eval vm_compute in lit "bButTsp".
Definition set_default : str := Eval vm_compute in lit "dDsp".

(* the documented sets = the strings of the UnsupportedFormat calls; Undef and Regexp never raise *)
Definition supported (k : kind) (c : N) : bool :=
  match k with
  | KdInteger => mem c set_integer
  | KdFloat => mem c set_float
  | KdString => mem c set_string
  | KdBoolean => mem c set_boolean
  | KdArray => mem c set_array
  | KdHash => mem c set_hash
  | KdBinary => mem c set_binary
  | KdDefault => mem c set_default
  | KdUndef | KdRegexp => true
  end.

Definition l_xXodb : str := Eval vm_compute in lit "xXodb".
Definition l_dxXobB : str := Eval vm_compute in lit "dxXobB".
Definition l_efg : str := Eval vm_compute in lit "eEfgGaA".
Definition l_eEf : str := Eval vm_compute in lit "eEf".
Definition l_gG : str := Eval vm_compute in lit "gG".
Definition l_aA : str := Eval vm_compute in lit "aA".
Definition l_dsp : str := Eval vm_compute in lit "dsp".
Definition l_sp : str := Eval vm_compute in lit "sp".
Definition l_hsp : str := Eval vm_compute in lit "hsp".

(* integertype.go:427 integerValue.ToString; float_cb = floatValue.ToString under
   NewFormatContext(DefaultFloatType(), f, ..) (the unbounded Float type accepts the type of every float, so GetFormat gives f) *)
Definition render_integer (o : oracle) (float_cb : format -> Z -> obs) (f : format) (n : Z) : obs :=
  let c := f_char f in
  if mem c l_xXodb then OText (go_fmt_int f c n)
  else if N.eqb c 66 then OText (replace_0b (go_fmt_int f 98 n))
  else if N.eqb c 112 then apply_string_flags o f (dec n) false
  else if mem c l_efg then
    match assoc Z.eqb n (o_i2f o) with Some bits => float_cb f bits | None => OErr EOracle end
  else if N.eqb c 99 then apply_string_flags o f (encode_rune (wrap32 n)) (f_alt f)
  else if N.eqb c 115 then apply_string_flags o f (dec n) (f_alt f)
  else OErr (EUnsupported c KdInteger).

(* floattype.go:296 floatValue.ToString; int_cb = integerValue.ToString under
   NewFormatContext(DefaultIntegerType(), f, ..) *)
Definition render_float (o : oracle) (int_cb : format -> Z -> obs) (f : format) (bits : Z) : obs :=
  let c := f_char f in
  if mem c l_dxXobB then
    match assoc Z.eqb bits (o_f2i o) with Some n => int_cb f n | None => OErr EOracle end
  else if N.eqb c 112 then bind (float_g o default_format_p bits) (fun s => apply_string_flags o f s false)
  else if mem c l_eEf then go_fmt_float o f c bits
  else if mem c l_gG then float_g o f bits
  else if N.eqb c 115 then bind (float_g o default_format_s bits) (fun s => apply_string_flags o f s (f_alt f))
  else if mem c l_aA then go_fmt_float o f (if N.eqb c 65 then 88%N else 120%N) bits
  else OErr (EUnsupported c KdFloat).

Definition no_cb (_ : format) (_ : Z) : obs := OErr EFault.   (* unreachable second conversion *)
Definition render_int_top o := render_integer o (render_float o no_cb).
Definition render_float_top o := render_float o (render_integer o no_cb).

Definition s_true : str := Eval vm_compute in lit "true".
Definition s_false : str := Eval vm_compute in lit "false".
Definition s_True : str := Eval vm_compute in lit "True".
Definition s_False : str := Eval vm_compute in lit "False".
Definition s_yes : str := Eval vm_compute in lit "yes".
Definition s_no : str := Eval vm_compute in lit "no".
Definition s_Yes : str := Eval vm_compute in lit "Yes".
Definition s_No : str := Eval vm_compute in lit "No".
Definition s_undef : str := Eval vm_compute in lit "undef".
Definition s_default : str := Eval vm_compute in lit "default".
Definition s_Default : str := Eval vm_compute in lit "Default".
Definition s_Binary : str := Eval vm_compute in lit "Binary".
Definition s_BINARY : str := Eval vm_compute in lit "BINARY".
Definition s_BinaryQ : str := Eval vm_compute in lit "Binary('".
Definition s_QP : str := Eval vm_compute in lit "')".

Definition bits_one : Z := 4607182418800017408.   (* 1.0 *)

(* booleantype.go:288 stringVal *)
Definition bool_str (b alt : bool) (yes no : str) : str :=
  let s := if b then yes else no in if alt then firstn 1 s else s.

(* booleantype.go:266 *)
Definition render_boolean (o : oracle) (f : format) (b : bool) : obs :=
  let c := f_char f in
  if N.eqb c 116 then apply_string_flags o f (bool_str b (f_alt f) s_true s_false) false
  else if N.eqb c 84 then apply_string_flags o f (bool_str b (f_alt f) s_True s_False) false
  else if N.eqb c 121 then apply_string_flags o f (bool_str b (f_alt f) s_yes s_no) false
  else if N.eqb c 89 then apply_string_flags o f (bool_str b (f_alt f) s_Yes s_No) false
  else if mem c l_dxXobB then render_integer o no_cb f (if b then 1 else 0)
  else if mem c l_efg then render_float o no_cb f (if b then bits_one else 0)
  else if mem c l_sp then apply_string_flags o f (bool_str b false s_true s_false) false
  else OErr (EUnsupported c KdBoolean).

(* stringtype.go:556; 's' goes through fmt with goFormat(f): zero padding, precision, width *)
Definition render_string (o : oracle) (f : format) (s : str) : obs :=
  let c := f_char f in
  if N.eqb c 115 then OText (fmt_s (f_width f) (f_prec f) (f_left f) (f_zero f) s)
  else if N.eqb c 112 then apply_string_flags o f s true
  else if N.eqb c 99 then bind (case_op o 99 cap_segment s) (fun v => apply_string_flags o f v (f_alt f))
  else if N.eqb c 67 then bind (case_op o 67 cap_segments s) (fun v => apply_string_flags o f v (f_alt f))
  else if N.eqb c 117 then bind (case_op o 117 (List.map upper_b) s) (fun v => apply_string_flags o f v (f_alt f))
  else if N.eqb c 100 then bind (case_op o 100 (List.map lower_b) s) (fun v => apply_string_flags o f v (f_alt f))
  else if N.eqb c 116 then bind (case_op o 116 trim_space s) (fun v => apply_string_flags o f v (f_alt f))
  else OErr (EUnsupported c KdString).

(* encoding/base64 StdEncoding / URLEncoding (with padding) *)
Definition b64_char (url : bool) (i : N) : N :=
  if N.ltb i 26 then (65 + i)%N else if N.ltb i 52 then (97 + (i - 26))%N
  else if N.ltb i 62 then (48 + (i - 52))%N
  else if N.eqb i 62 then (if url then 45%N else 43%N) else (if url then 95%N else 47%N).
Fixpoint b64 (url : bool) (s : str) : str :=
  match s with
  | [] => []
  | [a] => [b64_char url (a / 4); b64_char url ((a mod 4) * 16); 61; 61]%N
  | [a; b] => [b64_char url (a / 4); b64_char url ((a mod 4) * 16 + b / 16); b64_char url ((b mod 16) * 4); 61]%N
  | a :: b :: c :: r => [b64_char url (a / 4); b64_char url ((a mod 4) * 16 + b / 16);
                         b64_char url ((b mod 16) * 4 + c / 64); b64_char url (c mod 64)]%N ++ b64 url r
  end.

(* binarytype.go:271 *)
Definition render_binary (o : oracle) (f : format) (bs : str) : obs :=
  let c := f_char f in
  bind (if N.eqb c 115 then (if utf8_valid bs then ROk bs else RErr EFailure)
        else if N.eqb c 112 then ROk (s_BinaryQ ++ b64 false bs ++ s_QP)
        else if N.eqb c 98 then ROk (b64 false bs ++ [10%N])
        else if N.eqb c 66 then ROk (b64 false bs)
        else if N.eqb c 117 then ROk (b64 true bs)
        else if N.eqb c 116 then ROk s_Binary
        else if N.eqb c 84 then ROk s_BINARY
        else RErr (EUnsupported c KdBinary))
       (fun s => apply_string_flags o f s (f_alt f)).

(* defaulttype.go:93 *)
Definition render_default (o : oracle) (f : format) : obs :=
  let c := f_char f in
  if mem c l_dsp then apply_string_flags o f s_default false
  else if N.eqb c 68 then apply_string_flags o f s_Default false
  else OErr (EUnsupported c KdDefault).

(* undeftype.go:117 *)
Definition render_undef (o : oracle) (f : format) : obs := apply_string_flags o f s_undef false.

(* regexptype.go:268 *)
Definition render_regexp (o : oracle) (f : format) (s : str) : obs :=
  match assoc str_eqb s (o_rquote o) with
  | Some q => apply_string_flags o f q false
  | None => OErr EOracle
  end.

Definition is_container (v : value) : bool := match v with VArr _ | VHash _ => true | _ => false end.

Definition kind_of (v : value) : kind :=
  match v with
  | VUndef => KdUndef | VDefault => KdDefault | VBool _ => KdBoolean | VInt _ => KdInteger | VFloat _ => KdFloat
  | VStr _ => KdString | VRegexp _ => KdRegexp | VBinary _ => KdBinary | VArr _ => KdArray | VHash _ => KdHash
  end.

(* a scalar under the format chosen for it *)
Definition render_scalar (o : oracle) (f : format) (v : value) : obs :=
  match v with
  | VUndef => render_undef o f
  | VDefault => render_default o f
  | VBool b => render_boolean o f b
  | VInt n => render_int_top o f n
  | VFloat b => render_float_top o f b
  | VStr s => render_string o f s
  | VRegexp s => render_regexp o f s
  | VBinary s => render_binary o f s
  | VArr _ | VHash _ => OErr EFault
  end.

(* ------------------------------------------------------------------------------------------ *)
(* px.GetFormat (px/format.go:67): the first entry whose key type accepts the value's type *)

Definition tkey_eqb (a b : tkey) : bool :=
  match a, b with
  | KAny, KAny | KScalar, KScalar | KScalarData, KScalarData | KNumeric, KNumeric | KInteger, KInteger
  | KFloat, KFloat | KString, KString | KBoolean, KBoolean | KUndef, KUndef | KDefault, KDefault
  | KRegexp, KRegexp | KBinary, KBinary | KCollection, KCollection | KArray, KArray | KHash, KHash
  | KObject, KObject | KType, KType | KSelf, KSelf => true
  | _, _ => false
  end.

(* IsAssignable(default type of the key, v.PType()).  Float is the unbounded Float type Float[-Inf, +Inf]
   (floattype.go:26): it accepts the type of every float - of the infinities, and of NaN, whose type it is
   (floattype.go:408); Numeric and Scalar go by kind (numerictype.go:86, scalartype.go:33), ScalarData asks Float
   (scalardatatype.go:33).  KSelf on a scalar is only asked for the value itself: T accepts T; on containers it
   is the oracle. *)
Definition key_accepts (o : oracle) (k : tkey) (v : value) : R bool :=
  match k with
  | KAny => ROk true
  | KSelf => match v with
             | VArr _ | VHash _ =>
               match assoc value_eqb v (o_self o) with Some b => ROk b | None => RErr EOracle end
             | _ => ROk true
             end
  | KObject | KType => ROk false
  | _ =>
    ROk (match v with
         | VInt _ => match k with KScalar | KScalarData | KNumeric | KInteger => true | _ => false end
         | VFloat b => match k with KScalar | KNumeric | KScalarData | KFloat => true | _ => false end
         | VStr _ => match k with KScalar | KScalarData | KString => true | _ => false end
         | VBool _ => match k with KScalar | KScalarData | KBoolean => true | _ => false end
         | VUndef => match k with KUndef => true | _ => false end
         | VDefault => match k with KDefault => true | _ => false end
         | VRegexp _ => match k with KScalar | KRegexp => true | _ => false end
         | VBinary _ => match k with KBinary => true | _ => false end
         | VArr _ => match k with KCollection | KArray => true | _ => false end
         | VHash _ => match k with KCollection | KHash => true | _ => false end
         end)
  end.

Fixpoint get_format (o : oracle) (m : fmap) (v : value) : R format :=
  match m with
  | [] => ROk default_any_format
  | (k, f) :: r => bind (key_accepts o k v) (fun b => if b then ROk f else get_format o r v)
  end.

(* ------------------------------------------------------------------------------------------ *)
(* per-type format maps: NewFormatMap (format.go:318), FormatFromHash (:341), mergeFormats (:210) *)

(* IsAssignable(a, b) between the default key types *)
Definition key_sub (a b : tkey) : bool :=
  tkey_eqb a b ||
  match a, b with
  | KSelf, _ | _, KSelf => false
  | KAny, _ => true
  | KScalar, (KScalarData | KNumeric | KInteger | KFloat | KString | KBoolean | KRegexp) => true
  | KScalarData, (KInteger | KFloat | KString | KBoolean) => true
  | KNumeric, (KInteger | KFloat) => true
  | KCollection, (KArray | KHash) => true
  | _, _ => false
  end.

(* format.go:294 typeRank *)
Definition key_rank (k : tkey) : Z :=
  match k with KNumeric | KInteger | KFloat => 13 | KString => 12 | KArray => 4 | KHash => 2 | _ => 0 end.

Definition key_name (k : tkey) : str :=
  match k with
  | KAny => lit "Any" | KScalar => lit "Scalar" | KScalarData => lit "ScalarData" | KNumeric => lit "Numeric"
  | KInteger => lit "Integer" | KFloat => lit "Float" | KString => lit "String" | KBoolean => lit "Boolean"
  | KUndef => lit "Undef" | KDefault => lit "Default" | KRegexp => lit "Regexp" | KBinary => lit "Binary"
  | KCollection => lit "Collection" | KArray => lit "Array" | KHash => lit "Hash" | KObject => lit "Object"
  | KType => lit "Type" | KSelf => lit "Self"
  end.

(* the comparison of the sort.Slice call, format.go:241-264 *)
Definition key_less (a b : tkey) : bool :=
  if tkey_eqb a b then false
  else let ab := key_sub b a in
       let ba := key_sub a b in
       if ab && negb ba then true
       else if negb ab && ba then false
       else let ra := key_rank a in
            let rb := key_rank b in
            if ra <? rb then true else if rb <? ra then false else str_ltb (key_name a) (key_name b).

(* sort.Slice on at most 12 elements is insertionSortLessFunc (sort/zsortfunc.go): element i moves
   left while it is less than its left neighbour.  `pre` is the sorted prefix, reversed. *)
Fixpoint ins_rev {A} (less : A -> A -> bool) (x : A) (pre : list A) : list A :=
  match pre with
  | y :: r => if less x y then y :: ins_rev less x r else x :: pre
  | [] => [x]
  end.
Definition insertion_sort {A} (less : A -> A -> bool) (l : list A) : list A :=
  rev (fold_left (fun pre x => ins_rev less x pre) l []).

Fixpoint uniq_keys (l : list tkey) (seen : list tkey) : list tkey :=
  match l with
  | [] => []
  | k :: r => if existsb (tkey_eqb k) seen then uniq_keys r seen else k :: uniq_keys r (k :: seen)
  end.

Definition to_sep (s : option str) : option str :=
  match s with Some [0%N] => None | _ => s end.          (* NoString = "\x00", types.go:22 *)

(* NewFormatMap / FormatFromHash: string_formats first, then the directive *)
Fixpoint fent_format (e : fent) : R format :=
  match e with
  | FEStr s => parse_format s None None CfNone
  | FEHash fmt sep sep2 sf =>
    bind (match sf with
          | None => ROk CfNone
          | Some m =>
            bind ((fix go (m : list (tkey * fent)) : R fmap :=
                     match m with
                     | [] => ROk []
                     | (k, e') :: r => bind (fent_format e') (fun f => bind (go r) (fun r' => ROk ((k, f) :: r')))
                     end) m) (fun fm => ROk (CfMap fm))
          end) (fun cf => parse_format fmt (to_sep sep) (to_sep sep2) cf)
  end.

Fixpoint new_format_map (m : list (tkey * fent)) : R fmap :=
  match m with
  | [] => ROk []
  | (k, e) :: r => bind (fent_format e) (fun f => bind (new_format_map r) (fun r' => ROk ((k, f) :: r')))
  end.

Definition opt_or {A} (a b : option A) : option A := match a with Some _ => a | None => b end.

(* merge (format.go:268) of the formats that both maps hold for a key, and the loop of
   mergeFormats over the united keys (format.go:227-239); rec = mergeFormats on the container formats *)
Definition merge_format (cf : cfmap) (low high : format) : format :=
  mkFormat (f_alt high) (f_left high) (f_zero high) (f_char high) (f_plus high)
           (f_prec high) (f_width high) (f_delim high)
           (opt_or (f_sep high) (f_sep low)) (opt_or (f_sep2 high) (f_sep2 low)) cf.

Fixpoint merge_keys (rec : cfmap -> cfmap -> option cfmap) (norm hi : fmap) (ks : list tkey) : option fmap :=
  match ks with
  | [] => Some []
  | k :: r =>
    match merge_keys rec norm hi r with
    | None => None
    | Some r' =>
      match assoc tkey_eqb k norm, assoc tkey_eqb k hi with
      | Some low, Some high =>
        match rec (f_cf low) (f_cf high) with
        | None => None
        | Some cf => Some ((k, merge_format cf low high) :: r')
        end
      | Some low, None => Some ((k, low) :: r')
      | None, Some high => Some ((k, high) :: r')
      | None, None => Some r'
      end
    end
  end.

(* mergeFormats (format.go:210); None = out of fuel *)
Fixpoint merge_formats (n : nat) (lower higher : cfmap) : option cfmap :=
  match n with
  | O => None
  | S n' =>
    if cf_empty lower then Some higher
    else if cf_empty higher then Some lower
    else
      let lo := cf_entries lower in
      let hi := cf_entries higher in
      let hkeys := List.map fst hi in
      let norm := filter (fun le => negb (existsb (fun hk => negb (tkey_eqb hk (fst le)) && key_sub hk (fst le)) hkeys)) lo in
      let keys := uniq_keys (List.map fst norm ++ hkeys) [] in
      match merge_keys (merge_formats n') norm hi keys with
      | None => None
      | Some l => Some (CfMap (insertion_sort (fun a b => key_less (fst a) (fst b)) l))
      end
  end.

Fixpoint fent_depth (e : fent) : nat :=
  match e with
  | FEStr _ => 1%nat
  | FEHash _ _ _ None => 1%nat
  | FEHash _ _ _ (Some m) =>
    S ((fix go (m : list (tkey * fent)) : nat :=
          match m with [] => 0%nat | (_, e') :: r => Nat.max (fent_depth e') (go r) end) m)
  end.
Fixpoint fmap_depth (m : list (tkey * fent)) : nat :=
  match m with [] => 0%nat | (_, e) :: r => Nat.max (fent_depth e) (fmap_depth r) end.

(* newFormatContext3 (format.go:187): the format map of the context; None = mergeFormats out of fuel *)
Definition context_of (spec : fspec) : option (R fmap) :=
  match spec with
  | FDefault => Some (ROk default_formats)
  | FStr s => Some (bind (parse_format s None None CfNone) (fun f => ROk [(KSelf, f)]))
  | FMap m =>
    match new_format_map m with
    | RErr e => Some (RErr e)
    | ROk hm =>
      match merge_formats (S (S (fmap_depth m))) (CfMap default_formats) (CfMap hm) with
      | None => None
      | Some c => Some (ROk (cf_entries c))
      end
    end
  end.

(* ------------------------------------------------------------------------------------------ *)
(* indentation (format.go:39, :416-460) *)

Record indentation := mkInd { i_first : bool; i_indenting : bool; i_level : nat }.
Definition default_indentation := mkInd true false 0.
Definition i_breaks (i : indentation) : bool := i_indenting i && negb (Nat.eqb (i_level i) 0) && negb (i_first i).
Definition i_increase (i : indentation) (indenting : bool) := mkInd true indenting (S (i_level i)).
Definition i_set_indenting (i : indentation) (b : bool) := mkInd (i_first i) b (i_level i).
Definition i_subsequent (i : indentation) := mkInd false (i_indenting i) (i_level i).
Definition i_padding (i : indentation) : str := repeat 32%N (2 * i_level i).

(* format.go:159 delimiterPairs; an unknown key gives the zero value *)
Definition delim_pair (d : N) : N * N :=
  if N.eqb d 91 then (91, 93)%N else if N.eqb d 123 then (123, 125)%N else if N.eqb d 40 then (40, 41)%N
  else if N.eqb d 60 then (60, 62)%N else if N.eqb d 124 then (124, 124)%N else if N.eqb d 32 then (0, 0)%N
  else if N.eqb d 0 then (91, 93)%N else (0, 0)%N.
Definition opt_byte (b : N) : str := if N.eqb b 0 then [] else [b].

Definition sep_or (s : option str) (dflt : str) : str := match s with Some x => x | None => dflt end.

(* arraytype.go:678-692 *)
Fixpoint sz_break (w : Z) (items : list (bool * str)) (widest : Z) : bool :=
  match items with
  | [] => false
  | (ah, s) :: r => if ah then sz_break w r 0
                    else let widest' := widest + len s in
                         if w <? widest' then true else sz_break w r widest'
  end.

(* arraytype.go:695-715, the elements after the first: separator, then a line break, a space or nothing *)
Fixpoint arr_rest (alt szb : bool) (pad sep : str) (rest : list (bool * str)) (prev : bool) : str :=
  match rest with
  | [] => []
  | (ah, s) :: r =>
    sep ++ (if negb ah && (szb || alt && prev) then 10%N :: pad
            else if negb (alt && ah) then [32%N] else []) ++ s ++ arr_rest alt szb pad sep r ah
  end.

(* arraytype.go:645-720 with the children already rendered: (is array or hash, text) *)
Definition arr_layout (f : format) (ind : indentation) (delim : N) (items : list (bool * str)) : str :=
  let indent := i_set_indenting ind (f_alt f || i_indenting ind) in
  let pre := if i_breaks indent then 10%N :: i_padding indent else [] in
  let '(dl, dr) := delim_pair (if N.eqb (f_delim f) 0 then delim else f_delim f) in
  let cind := i_increase indent (f_alt f) in
  let szb := f_alt f && (0 <=? f_width f) && sz_break (f_width f) items 0 in
  let sep := sep_or (f_sep f) s_comma in
  let body :=
      match items with
      | [] => []
      | (ah0, s0) :: rest =>
        (if szb && negb ah0 then [32%N] else []) ++ s0 ++ arr_rest (f_alt f) szb (i_padding cind) sep rest ah0
      end in
  pre ++ opt_byte dl ++ body ++ opt_byte dr.

(* hashtype.go:1274-1347 with keys and values already rendered *)
Definition hash_layout (f : format) (ind : indentation) (items : list (str * str)) : str :=
  let indent := i_set_indenting ind (f_alt f || i_indenting ind) in
  let pre := if i_breaks indent then 10%N :: i_padding indent else [] in
  let '(dl, dr) := delim_pair (if N.eqb (f_delim f) 0 then 123%N else f_delim f) in
  let sep := sep_or (f_sep f) s_comma ++ (if f_alt f then [10%N] else [32%N]) in
  let assoc_s := sep_or (f_sep2 f) s_arrow in
  let cind := i_increase indent (f_alt f) in
  let padding := if f_alt f then i_padding cind else [] in
  pre ++ opt_byte dl ++ (if f_alt f then [10%N] else []) ++
  join sep (List.map (fun kv => padding ++ fst kv ++ assoc_s ++ snd kv) items) ++
  (if f_alt f then 10%N :: i_padding indent else []) ++ opt_byte dr.

Definition obind {A B} (x : option (R A)) (k : A -> option (R B)) : option (R B) :=
  match x with
  | None => None
  | Some (RErr e) => Some (RErr e)
  | Some (ROk a) => k a
  end.

Fixpoint map_m {A B} (f : A -> option (R B)) (l : list A) : option (R (list B)) :=
  match l with
  | [] => Some (ROk [])
  | x :: r => obind (f x) (fun y => obind (map_m f r) (fun ys => Some (ROk (y :: ys))))
  end.

Definition entry_array (kv : value * value) : value := VArr [fst kv; snd kv].

Definition cf_or_default (f : format) : fmap :=
  match f_cf f with CfNone => default_container_formats | c => cf_entries c end.

(* Value.ToString under the context (ind, m).  None = out of fuel.
   Array.ToString2 (arraytype.go:631), childToString (:744), Hash.ToString2 (hashtype.go:1260);
   `entries` = the array is WrapArray3(hash): its elements are HashEntry values, which isContainer
   (arraytype.go:756) does not count as containers and which render as the array [key, value]. *)
Fixpoint render (n : nat) (o : oracle) (ind : indentation) (m : fmap) (entries : bool) (v : value) {struct n} : option obs :=
  match n with
  | O => None
  | S n' =>
    match v with
    | VArr es =>
      match get_format o m v with
      | RErr e => Some (RErr e)
      | ROk f =>
        if negb (mem (f_char f) set_array) then Some (OErr (EUnsupported (f_char f) KdArray))
        else
          let indent := i_set_indenting ind (f_alt f || i_indenting ind) in
          let cind := i_subsequent (i_increase indent (f_alt f)) in
          let cf := cf_or_default f in
          obind (map_m (fun e =>
                          let ah := negb entries && is_container e in
                          obind (render n' o cind (if ah then m else cf) false e) (fun s => Some (ROk (ah, s)))) es)
                (fun items => Some (OText (arr_layout f ind 91 items)))
      end
    | VHash es =>
      match get_format o m v with
      | RErr e => Some (RErr e)
      | ROk f =>
        if N.eqb (f_char f) 97 then render n' o ind m true (VArr (List.map entry_array es))
        else if negb (mem (f_char f) l_hsp) then Some (OErr (EUnsupported (f_char f) KdHash))
        else
          let indent := i_set_indenting ind (f_alt f || i_indenting ind) in
          let cind := i_increase indent (f_alt f) in
          let cf := cf_or_default f in
          obind (map_m (fun kv =>
                          obind (render n' o cind (if is_container (fst kv) then m else cf) false (fst kv)) (fun ks =>
                          obind (render n' o cind (if is_container (snd kv) then m else cf) false (snd kv)) (fun vs =>
                          Some (ROk (ks, vs))))) es)
                (fun items => Some (OText (hash_layout f ind items)))
      end
    | _ => Some (bind (get_format o m v) (fun f => render_scalar o f v))
    end
  end.

Fixpoint vdepth (v : value) : nat :=
  match v with
  | VArr es => S (fold_right (fun e a => Nat.max (vdepth e) a) 0%nat es)
  | VHash es => S (S (S (fold_right (fun kv a => Nat.max (Nat.max (vdepth (fst kv)) (vdepth (snd kv))) a) 0%nat es)))
  | _ => 1%nat
  end.

(* px.NewFormatContext3(value, spec) then px.ToString2(value, ctx); None = out of fuel (excluded by
   format_total) *)
Definition format_value (o : oracle) (v : value) (spec : fspec) : option obs :=
  match context_of spec with
  | None => None
  | Some (RErr e) => Some (OErr e)
  | Some (ROk m) => render (S (vdepth v)) o default_indentation m false v
  end.

(* ------------------------------------------------------------------------------------------ *)
(* the Integer constructor with radix: integertype.go:55-135 *)

Definition is_hex (c : N) : bool := is_digit c || between 65 70 c || between 97 102 c.
Definition is_ws (c : N) : bool := mem c [9; 10; 12; 13; 32]%N.
Definition nonempty_all (p : N -> bool) (s : str) : bool :=
  match s with [] => false | _ => forallb p s end.

(* IntegerDec: 0 or [1-9] followed by digits | IntegerHex: 0[xX][0-9A-Fa-f]+ | IntegerOct: 0[0-7]+ |
   IntegerBin: 0[bB][01]+ ; anchored at both ends (types.go:43-53) *)
Definition int_body (s : str) : bool :=
  match s with
  | [] => false
  | 48%N :: r =>
    match r with
    | [] => true
    | c :: r' =>
      ((N.eqb c 120 || N.eqb c 88) && nonempty_all is_hex r')
      || nonempty_all (between 48 55) r
      || ((N.eqb c 98 || N.eqb c 66) && nonempty_all (between 48 49) r')
    end
  | c :: r => between 49 57 c && forallb is_digit r
  end.

Definition strip_sign (s : str) : str :=
  match s with c :: r => if N.eqb c 43 || N.eqb c 45 then r else s | [] => [] end.

(* the Convertible pattern of the constructor: IntegerPattern or \A[+-]?[0-9A-Fa-f]+\z *)
Definition convertible (s : str) : bool :=
  let r := strip_sign s in
  int_body (drop_while is_ws r) || nonempty_all is_hex r.

Definition digit_val (c : N) : option Z :=
  if is_digit c then Some (Z.of_N c - 48)
  else if between 97 122 c then Some (Z.of_N c - 87)
  else if between 65 90 c then Some (Z.of_N c - 55)
  else None.

Fixpoint digit_vals (base : Z) (s : str) : option (list Z) :=
  match s with
  | [] => Some []
  | c :: r => match digit_val c with
              | Some d => if d <? base then match digit_vals base r with Some ds => Some (d :: ds) | None => None end
                          else None
              | None => None
              end
  end.

(* strconv.ParseInt(s, base, 64), err != nil -> None *)
Definition parse_int (s : str) (base : Z) : option Z :=
  match s with
  | [] => None
  | c :: r =>
    let neg := N.eqb c 45 in
    let body := if N.eqb c 43 || neg then r else s in
    match body with
    | [] => None
    | _ => match digit_vals base body with
           | None => None
           | Some ds => let un := of_digits base ds in
                        let n := if neg then - un else un in
                        if in_int64 n then Some n else None
           end
    end
  end.

(* integertype.go:110 intFromConvertible on a string, after the dispatcher accepted it *)
Definition int_new (s : str) (radix : Z) : option Z :=
  if convertible s then
    let ds := drop_while (fun c => N.eqb c 43 || N.eqb c 45) s in
    let s' := match ds with
              | 48%N :: c :: (_ :: _) as rest =>
                if ((radix =? 16) && N.eqb (lower_b c) 120) || ((radix =? 2) && N.eqb (lower_b c) 98)
                then firstn (List.length s - List.length ds) s ++ rest else s
              | _ => s
              end in
    parse_int s' radix
  else None.

Definition radix_of (verb : N) : Z :=
  if N.eqb verb 98 || N.eqb verb 66 then 2 else if N.eqb verb 111 then 8
  else if N.eqb verb 120 || N.eqb verb 88 then 16 else 10.

(* the two dispatches of the constructor (integertype.go:63-106):
     Integer.new(Convertible, Optional Radix, Optional Boolean)                     positional
     Integer.new(Struct[{from => Convertible, Optional[radix] => Radix, Optional[abs] => Boolean}])   named
   Both demand the Convertible pattern of the string and a Radix out of {2, 8, 10, 16} (anything else is
   no call: argument mismatch), call intFromConvertible(from, radix) and negate a negative result
   under abs => true (int64 negation wraps at MinInt64). *)
Inductive ctor_form := CPositional | CNamed.

Definition radix_ok (r : Z) : bool := (r =? 2) || (r =? 8) || (r =? 10) || (r =? 16).

Definition int_ctor (form : ctor_form) (s : str) (radix : Z) (abs : option bool) : option Z :=
  if radix_ok radix then
    match int_new s radix with
    | Some n =>
      let a := match abs with Some true => true | _ => false end in
      Some (if a && (n <? 0) then wrap64 (- n) else n)
    | None => None
    end
  else None.
