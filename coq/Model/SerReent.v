(* SerReent.v — the Serializer OBJECT and conversions that overlap on it (property C10).  Definitions only.

   Go sources mirrored:
     serialization/serializer.go:19-22   "A Serializer is a re-entrant fully configured serializer"
     serialization/serializer.go:24-30   rdSerializer {context, richData, messagePrefix, dedupLevel}: written by
                                         NewSerializer only, read by Convert and by the conversion (c.config)
     serialization/serializer.go:42-54   NewSerializer
     serialization/serializer.go:62-70   Convert: `c := context{config: t, values: make(map[px.Value]int, 63),
                                         refIndex: 0, consumer: consumer, path: ..., dedupLevel: t.dedupLevel}` -
                                         the map value -> position, refIndex, the path and the (possibly lowered)
                                         de-duplication level live in a context made by THIS call; the lowering
                                         for a consumer without complex keys (:66-68) is written to c, not to t

   What Model/Ser.v calls `serialize o c x` is NewSerializer followed by one Convert.  Here the two are
   separated: a serializer object is made once and any number of conversions are started on it, each
   delivering its events to its own consumer one at a time, in any order relative to the others (a second
   Convert called from inside a consumer callback of the first - the LIFO schedules -, or from another
   goroutine while the first is held).  The world consists of the object (no step writes it) and, per
   conversion, the events already delivered and those still to come. *)
From Coq Require Import ZArith NArith Bool.
From PcoreV Require Import Model.Base Model.Ser.
From Coq Require Import List.
Import ListNotations.
Local Open Scope nat_scope.

Section Reent.
Context {payload : Type}.
Context (to_s : str -> payload -> str).

(* serializer.go:24-30 (the context handle and the message prefix do not reach the stream) *)
Record sobj := mksobj { so_rich : bool; so_dedup : N }.

(* serializer.go:42-54 *)
Definition new_serializer (o : opts) : sobj :=
  mksobj (rich_data o) (if local_reference o then dedup_level o else 0%N).

(* serializer.go:63-68: the configuration of ONE conversion: the object's fields and this consumer's capabilities *)
Definition convert_env (s : sobj) (c : caps) : env :=
  mkenv (so_rich s)
        (if (2 <=? so_dedup s)%N && negb (can_complex_keys c) then 1%N else so_dedup s)
        (can_binary c) (can_complex_keys c) (threshold c).

(* serializer.go:63-70: a fresh values map and refIndex 0 for every call *)
Definition convert (s : sobj) (c : caps) (x : @rvalue payload) : list (@event payload) :=
  snd (to_data to_s (convert_env s c) lv x (mksctx [] 0)).

(* one conversion under way: its consumer's capabilities, its value, what its consumer has received (oldest
   first) and what is still to be delivered *)
Record conv := mkconv { cv_caps : caps; cv_val : @rvalue payload;
                        cv_done : list (@event payload); cv_todo : list (@event payload) }.

Record world := mkworld { w_ser : sobj; w_convs : list conv }.

Inductive action :=
| Start (c : caps) (x : @rvalue payload)   (* Convert(x, consumer) is entered on the object *)
| Deliver (i : nat).                        (* conversion i (in order of entry) makes its next consumer call *)

Fixpoint deliver_nth (i : nat) (l : list conv) : option (list conv) :=
  match l, i with
  | [], _ => None
  | cv :: l', O =>
      match cv_todo cv with
      | [] => None                          (* the conversion has returned: nothing to deliver *)
      | ev :: t => Some (mkconv (cv_caps cv) (cv_val cv) (cv_done cv ++ [ev]) t :: l')
      end
  | cv :: l', S i' => option_map (cons cv) (deliver_nth i' l')
  end.

Definition step (w : world) (a : action) : option world :=
  match a with
  | Start c x => Some (mkworld (w_ser w) (w_convs w ++ [mkconv c x [] (convert (w_ser w) c x)]))
  | Deliver i => option_map (mkworld (w_ser w)) (deliver_nth i (w_convs w))
  end.

Fixpoint run (w : world) (acts : list action) : option world :=
  match acts with
  | [] => Some w
  | a :: acts' => match step w a with Some w' => run w' acts' | None => None end
  end.

(* the world NewSerializer leaves: the object, no conversion entered yet *)
Definition world0 (o : opts) : world := mkworld (new_serializer o) [].

Definition finished (cv : conv) : bool := match cv_todo cv with [] => true | _ => false end.

(* the schedules in which the second conversion runs from inside a consumer call of the first: conversion
   `x` receives `k` events, `y` is converted completely, `x` receives the rest *)
Definition nested_schedule (cx : caps) (x : @rvalue payload) (k : nat) (cy : caps) (y : @rvalue payload)
           (ny nrest : nat) : list action :=
  Start cx x :: repeat (Deliver 0) k ++ Start cy y :: repeat (Deliver 1) ny ++ repeat (Deliver 0) nrest.

End Reent.

Arguments Deliver {payload} i.
Arguments world0 {payload} o.
