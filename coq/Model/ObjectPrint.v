(* ObjectPrint.v — property C05, Object types printed in full: the attributes of an Object type against its
   init hash.
     InitFromHash              types/objecttype.go:363   (the part :431-481: constants, attributes)
     newAttribute / initialize types/attribute.go:34,40  (+ annotatedMember.initialize annotatedmember.go:18)
     assertOverride            types/annotatedmember.go:77 (without a parent: override => true is an error)
     initHash                  types/objecttype.go:1270-1288 (attributes divided into `constants` and the others)
     attribute.initHash        types/attribute.go:116    (+ annotatedMember.initHash annotatedmember.go:59)
     compressedMembersHash     types/objecttype.go:1348  (a hash with the type alone is written as the type)
   Types and values are abstract: T = types up to px.Equals, V = values up to Equals; what the code asks about them
   is an oracle (px.Equals on types, px.Generalize(v.PType()), `_, ok := t.( *OptionalType)`, NewOptionalType,
   v.Equals(undef), `_, ok := v.( *DefaultValue)`, px.IsInstance). The printing and parsing of the types and values
   themselves are the other layers of this property (TypePrint.v, QuoteLex.v, ValuePrint.v).
   Modelled: an Object type without parent (parentMembers empty); annotations and go_name are left out (Equals and
   the printed text of an attribute do not depend on go_name; annotations need Annotation types).
   Definitions only. *)
From Coq Require Import NArith Bool List.
From PcoreV Require Import Model.Base.
Import ListNotations.

Inductive akind := KDefault | KConstant | KDerived | KGivenOrDerived | KReference.

Definition akind_eqb (a b : akind) : bool :=
  match a, b with
  | KDefault, KDefault | KConstant, KConstant | KDerived, KDerived
  | KGivenOrDerived, KGivenOrDerived | KReference, KReference => true
  | _, _ => false
  end.

(* the issues InitFromHash / newAttribute report (px issue codes) *)
Inductive oerr :=
| EConstantWithFinal          (* attribute.go:46  PCORE_CONSTANT_WITH_FINAL *)
| EIllegalKindValue           (* attribute.go:53  PCORE_ILLEGAL_KIND_VALUE_COMBINATION *)
| ETypeMismatch               (* attribute.go:58  PCORE_TYPE_MISMATCH *)
| EConstantRequiresValue      (* attribute.go:62  PCORE_CONSTANT_REQUIRES_VALUE *)
| EBothConstantAndAttribute   (* objecttype.go:442 PCORE_BOTH_CONSTANT_AND_ATTRIBUTE *)
| EOverriddenNotFound         (* annotatedmember.go:82 PCORE_OVERRIDDEN_NOT_FOUND *)
| EAttributeHasNoValue.       (* attribute.go:139 PCORE_ATTRIBUTE_HAS_NO_VALUE *)

Inductive ores (A : Type) :=
| OOk (a : A)
| OErr (e : oerr).
Arguments OOk {A}. Arguments OErr {A}.

Section Object.
  Variables T V : Type.

  Record oracle := {
    teq : T -> T -> bool;            (* px.Equals(t1, t2, nil) *)
    gen_type : V -> T;               (* px.Generalize(v.PType()) *)
    is_optional : T -> bool;         (* _, ok := t.( *OptionalType) *)
    optional_of : T -> T;            (* NewOptionalType(t) *)
    is_undef : V -> bool;            (* v.Equals(undef, nil) *)
    is_default : V -> bool;          (* _, ok := v.( *DefaultValue) *)
    is_instance : T -> V -> bool;    (* px.IsInstance(t, v) *)
    undef : V                        (* px.Undef *)
  }.
  Variable O : oracle.

  (* an attribute of an Object type: attribute{annotatedMember{name, typ, override, final}, kind, value} *)
  Record attr := {
    a_name : str; a_type : T; a_kind : akind; a_value : option V; a_final : bool; a_override : bool }.

  (* the init hash of a member: Struct[type, Optional[final], Optional[override], Optional[kind], Optional[value]] *)
  Record aspec := {
    s_type : T; s_final : option bool; s_override : option bool; s_kind : option akind; s_value : option V }.

  (* an entry of `attributes`: the type alone, or the hash *)
  Inductive mspec := MBare (t : T) | MHash (s : aspec).

  (* the init hash of the Object type, as far as attributes go *)
  Record ihash := { h_attributes : list (str * mspec); h_constants : list (str * V) }.

  Definition bool_arg (o : option bool) (d : bool) : bool := match o with Some b => b | None => d end.

  Definition kind_takes_no_value (k : akind) : bool :=
    match k with KDerived | KGivenOrDerived => true | _ => false end.

  (* attribute.go:40 initialize *)
  Definition new_attribute (name : str) (s : aspec) : ores attr :=
    let typ := s_type s in                                             (* annotatedmember.go:22-28 *)
    let override := bool_arg (s_override s) false in                   (* :29 *)
    let final0 := bool_arg (s_final s) false in                        (* :30 *)
    let kind := match s_kind s with Some k => k | None => KDefault end in (* attribute.go:43 *)
    let final :=                                                        (* :44-49 final is implied *)
      if akind_eqb kind KConstant
      then match s_final s with Some false => None | _ => Some true end
      else Some final0 in
    match final with
    | None => OErr EConstantWithFinal
    | Some final =>
      match s_value s with
      | Some v =>                                                       (* :51 *)
        if kind_takes_no_value kind then OErr EIllegalKindValue        (* :52 *)
        else if is_default O v || is_instance O typ v                   (* :55 *)
        then OOk {| a_name := name; a_type := typ; a_kind := kind; a_value := Some v; a_final := final; a_override := override |}
        else OErr ETypeMismatch
      | None =>
        if akind_eqb kind KConstant then OErr EConstantRequiresValue   (* :61 *)
        else
          let typ :=                                                    (* :64 the type is always optional *)
            if akind_eqb kind KGivenOrDerived && negb (is_instance O typ (undef O)) then optional_of O typ else typ in
          let value := if is_optional O typ then Some (undef O) else None in  (* :70 implicit value undef *)
          OOk {| a_name := name; a_type := typ; a_kind := kind; a_value := value; a_final := final; a_override := override |}
      end
    end.

  (* objecttype.go:459-474: the type alone stands for {type => T} (+ value => undef for an Optional type) *)
  Definition bare_spec (t : T) : aspec :=
    {| s_type := t; s_final := None; s_override := None; s_kind := None;
       s_value := if is_optional O t then Some (undef O) else None |}.

  Definition spec_of (m : mspec) : aspec := match m with MBare t => bare_spec t | MHash s => s end.

  (* objecttype.go:445-450: an entry of `constants`; override = parentMembers.Includes(key) = false without parent *)
  Definition const_spec (v : V) : aspec :=
    {| s_type := gen_type O v; s_final := None; s_override := Some false; s_kind := Some KConstant; s_value := Some v |}.

  Definition has_name (n : str) (l : list (str * aspec)) : bool := existsb (fun p => str_eqb (fst p) n) l.

  (* objecttype.go:438-452: the constants are added to the attribute specs, a name of both is an error *)
  Fixpoint add_constants (cs : list (str * V)) (acc : list (str * aspec)) : ores (list (str * aspec)) :=
    match cs with
    | [] => OOk acc
    | (k, v) :: cs' =>
      if has_name k acc then OErr EBothConstantAndAttribute
      else add_constants cs' (acc ++ [(k, const_spec v)])
    end.

  (* objecttype.go:456-478: newAttribute then assertOverride (no parent: annotatedmember.go:81) for each spec *)
  Fixpoint new_attributes (l : list (str * aspec)) : ores (list attr) :=
    match l with
    | [] => OOk []
    | (k, s) :: l' =>
      match new_attribute k s with
      | OErr e => OErr e
      | OOk a =>
        if a_override a then OErr EOverriddenNotFound
        else match new_attributes l' with
             | OErr e => OErr e
             | OOk r => OOk (a :: r)
             end
      end
    end.

  Definition init_from_hash (h : ihash) : ores (list attr) :=
    match add_constants (h_constants h) (map (fun p => (fst p, spec_of (snd p))) (h_attributes h)) with
    | OErr e => OErr e
    | OOk specs => new_attributes specs
    end.

  (* ---- printing ---- *)

  (* objecttype.go:1276: a constant whose declared type EQUALS the generalized type of its value goes to `constants`.
     None: a.Value() of an attribute without value (attribute.go:139) *)
  Definition short_const (a : attr) : option bool :=
    if akind_eqb (a_kind a) KConstant
    then match a_value a with
         | Some v => Some (teq O (a_type a) (gen_type O v))
         | None => None
         end
    else Some false.

  (* annotatedmember.go:59 + attribute.go:116: the value undef of an Optional attribute is implied, except for a
     constant (fix 33f28f4) *)
  Definition attr_spec (a : attr) : aspec :=
    {| s_type := a_type a;
       s_final := if a_final a then Some true else None;
       s_override := if a_override a then Some true else None;
       s_kind := if akind_eqb (a_kind a) KDefault then None else Some (a_kind a);
       s_value := match a_value a with
                  | Some v =>
                    if negb (akind_eqb (a_kind a) KConstant) && is_undef O v && is_optional O (a_type a) then None
                    else Some v
                  | None => None
                  end |}.

  (* objecttype.go:1348 compressedMembersHash: fh.Len() == 1 (the type is always there) *)
  Definition compress (s : aspec) : mspec :=
    match s_final s, s_override s, s_kind s, s_value s with
    | None, None, None, None => MBare (s_type s)
    | _, _, _, _ => MHash s
    end.

  Fixpoint init_hash_go (l : list attr) (others : list (str * mspec)) (consts : list (str * V)) : ores ihash :=
    match l with
    | [] => OOk {| h_attributes := others; h_constants := consts |}
    | a :: l' =>
      match short_const a, a_value a with
      | None, _ => OErr EAttributeHasNoValue
      | Some true, Some v => init_hash_go l' others (consts ++ [(a_name a, v)])
      | Some true, None => OErr EAttributeHasNoValue
      | Some false, _ => init_hash_go l' (others ++ [(a_name a, compress (attr_spec a))]) consts
      end
    end.

  Definition init_hash (l : list attr) : ores ihash := init_hash_go l [] [].

  (* ---- what the theorems speak about ---- *)

  Definition is_short (a : attr) : bool := match short_const a with Some true => true | _ => false end.

  (* the attributes in the order in which the printed init hash is read back: the others, then the constants *)
  Definition reorder (l : list attr) : list attr := filter (fun a => negb (is_short a)) l ++ filter is_short l.

  (* what InitFromHash establishes for every attribute of a type without parent *)
  Definition wf_attr (a : attr) : Prop :=
    a_override a = false /\
    (a_kind a = KConstant -> a_final a = true /\ a_value a <> None) /\
    (a_kind a = KGivenOrDerived -> is_instance O (a_type a) (undef O) = true) /\
    (a_value a = None -> is_optional O (a_type a) = false) /\
    (forall v, a_value a = Some v ->
       (is_default O v || is_instance O (a_type a) v = true) /\
       (kind_takes_no_value (a_kind a) = true -> v = undef O /\ is_optional O (a_type a) = true)).

  (* what the lattice and Equals guarantee about the oracle *)
  Definition oracle_ok : Prop :=
    (forall a b, teq O a b = true -> a = b) /\
    (forall v, is_undef O v = true -> v = undef O) /\
    is_undef O (undef O) = true /\
    (forall t, is_optional O t = true -> is_instance O t (undef O) = true).

End Object.

Arguments OOk {A}. Arguments OErr {A}.

Arguments a_name {T V} _. Arguments a_type {T V} _. Arguments a_kind {T V} _. Arguments a_value {T V} _.
Arguments a_final {T V} _. Arguments a_override {T V} _.
Arguments s_type {T V} _. Arguments s_final {T V} _. Arguments s_override {T V} _. Arguments s_kind {T V} _.
Arguments s_value {T V} _.
Arguments h_attributes {T V} _. Arguments h_constants {T V} _.
Arguments teq {T V} _. Arguments gen_type {T V} _. Arguments is_optional {T V} _. Arguments optional_of {T V} _.
Arguments is_undef {T V} _. Arguments is_default {T V} _. Arguments is_instance {T V} _. Arguments undef {T V} _.
Arguments MBare {T V} _. Arguments MHash {T V} _.
Arguments new_attribute {T V} _ _ _. Arguments bare_spec {T V} _ _. Arguments spec_of {T V} _ _.
Arguments const_spec {T V} _ _. Arguments has_name {T V} _ _. Arguments add_constants {T V} _ _ _.
Arguments new_attributes {T V} _ _. Arguments init_from_hash {T V} _ _. Arguments short_const {T V} _ _.
Arguments attr_spec {T V} _ _. Arguments compress {T V} _. Arguments init_hash_go {T V} _ _ _ _.
Arguments init_hash {T V} _ _. Arguments is_short {T V} _ _. Arguments reorder {T V} _ _.
Arguments wf_attr {T V} _ _. Arguments oracle_ok {T V} _. Arguments kind_takes_no_value _ : simpl nomatch.
