(* Lattice.v — executable model of assignability and instance-of (C01–C04, C19).

   `asg a b`  mirrors  types.GuardedIsAssignable(a, b)  (types/types.go:111) followed by the receiver's
   IsAssignable method (one match arm per types/*type.go, same order of tests), and
   `inst t v` mirrors  t.IsInstance(v).

   Shape of the definition.  The Go code recurses on pairs (a, b) whose combined size decreases; the
   model is a nested structural fixpoint (outer on a, inner on b) which Coq's guard checker accepts
   — its acceptance IS the termination proof of the modelled decision procedure.  Two families of
   calls of the Go code are not on sub-terms and are modelled by separate structural functions,
   proved below (LatticeProofs.asg_undef_nullable, asg_flat_spec) to coincide with `asg` itself:
     * GuardedIsAssignable(x, Undef)            ~>  nullable x
     * GuardedIsAssignable(<flat receiver>, b)   ~>  flat c b   (String, Numeric, Boolean, Integer,
                                                     Float, Regexp, Undef: receivers without type parameters)
   Pointer identity (`a == b`, comparisons with default singletons) is not observable in a
   value-level model: `a == anyTypeDefault` is `is_any a`; the `a == b` shortcut is justified by the
   reflexivity theorem (C03_refl).  Regular expression matching (Go package regexp) is the oracle
   `rx : pattern -> subject -> bool`. *)
From Coq Require Import ZArith NArith Bool List.
From PcoreV Require Import Model.Base Model.Ty.
Import ListNotations.
Open Scope Z_scope.

Definition in_size (lo hi n : Z) : bool := (lo <=? n) && (n <=? hi).            (* IntegerType.IsInstance3 *)
Definition size_sub (lo hi lo' hi' : Z) : bool := (lo <=? lo') && (hi' <=? hi). (* IntegerType.IsAssignable *)
Definition zlen {A} (l : list A) : Z := Z.of_nat (length l).

(* Float bounds and values are order keys (types.VerifFloatKey: the IEEE image, negated below zero): every
   non-NaN float has a key in [-InfF, InfF], the infinities have the keys -InfF and InfF *)
Definition InfF : Z := 9218868437227405312.          (* order key of math.Inf(1), 0x7FF0000000000000 *)
(* floattype.go:210 IsUnbounded: min is -Inf and max is +Inf (on order keys: min <= key(-Inf), key(+Inf) <= max) *)
Definition float_unbounded (lo hi : Z) : bool := (lo <=? - InfF) && (InfF <=? hi).

Definition is_any (t : ty) : bool := match t with TAny => true | _ => false end.
Definition is_undef (t : ty) : bool := match t with TUndef => true | _ => false end.
Definition mem_str (s : str) (l : list str) : bool := existsb (str_eqb s) l.

(* enumtype.go:163 EnumType.IsInstance on a string *)
Definition enum_inst (ci : bool) (vs : list str) (s : str) : bool :=
  match vs with
  | [] => true
  | _ => mem_str (if ci then lower_ascii s else s) vs
  end.

Section Lattice.
  Variable rx : str -> str -> bool.     (* Go: regexp.MustCompile(p).MatchString(s) *)
  Variable hs : bool.                   (* true = the code; false = the by-specification rule
                                           "a Struct accepts a Hash type" (structtype.go:277) disabled *)

  (* utils.MatchesString *)
  Definition matches_any (rxs : list str) (s : str) : bool := existsb (fun p => rx p s) rxs.

  (* GuardedIsAssignable(x, undefTypeDefault): does x accept Undef *)
  Fixpoint nullable (x : ty) : bool :=
    match x with
    | TAny | TUnit | TUndef => true
    | TOptional _ => true                      (* Undef accepts Undef *)
    | TVariant ts => existsb nullable ts
    | _ => false                               (* NotUndef: !asg(Undef,Undef) = false; all others reject *)
    end.

  (* receivers without parameters that are called with a right operand which is not a sub-term *)
  Inductive flatk := FString | FNumeric | FBoolean | FInteger | FFloat | FRegexp | FUndef.

  Definition flat_recv (c : flatk) (b : ty) : bool :=
    match c, b with
    | FString, (TString | TStringSz _ _ | TStringVal _ | TEnum _ _ | TPattern _) => true
    | FNumeric, (TInteger _ _ | TFloat _ _ | TNumeric) => true   (* Numeric: the singleton, a == b *)
    | FBoolean, TBoolean _ => true
    | FInteger, TInteger _ _ => true
    | FFloat, TFloat lo hi => size_sub (- InfF) InfF lo hi       (* floatTypeDefault = Float[-Inf, +Inf] *)
    | FRegexp, TRegexp _ => true
    | FUndef, TUndef => true
    | _, _ => false
    end.

  Fixpoint flat (c : flatk) (b : ty) : bool :=
    match b with
    | TUnit => true
    | TNotUndef nt => if nullable nt then false else flat c nt
    | TOptional ot => match c with FUndef => flat c ot | _ => false end
    | TVariant ts => forallb (flat c) ts
    | _ => flat_recv c b
    end.

  Definition key_optional (k : ty) : bool := nullable k.
  Definition actual_key (k : ty) : ty := match k with TOptional t => t | _ => k end.  (* structtype.go:132 *)
  Definition struct_required (ms : list (str * (ty * ty))) : Z :=
    zlen (filter (fun m => negb (key_optional (fst (snd m)))) ms).

  Fixpoint find_member (n : str) (ms : list (str * (ty * ty))) : option (ty * ty) :=
    match ms with
    | [] => None
    | (n', kv) :: r => if str_eqb n n' then Some kv else find_member n r
    end.

  Fixpoint asg (a : ty) : ty -> bool :=
    fix asg_a (b : ty) : bool :=
      if is_any a then true else                                   (* types.go:112 *)
      let recv :=                                                   (* a.IsAssignable(b, g) *)
        match a with
        | TAny | TUnit => true
        | TUndef => is_undef b
        | TDefault => match b with TDefault => true | _ => false end
        | TBoolean v =>
            match b with
            | TBoolean w => match v with None => true | Some x => option_eqb Bool.eqb (Some x) w end
            | _ => false
            end
        | TInteger lo hi => match b with TInteger lo' hi' => size_sub lo hi lo' hi' | _ => false end
        | TFloat lo hi => match b with TFloat lo' hi' => size_sub lo hi lo' hi' | _ => false end
        | TNumeric => match b with TInteger _ _ | TFloat _ _ | TNumeric => true | _ => false end  (* TNumeric: a == b, Numeric is a singleton *)
        | TScalar =>
            match b with
            | TScalar | TScalarData => true
            | _ => flat FString b || flat FNumeric b || flat FBoolean b || flat FRegexp b
            end
        | TScalarData =>
            match b with
            | TScalarData => true
            | _ => flat FString b || flat FInteger b || flat FBoolean b || flat FFloat b
            end
        | TString =>
            match b with TString | TStringSz _ _ | TStringVal _ | TEnum _ _ | TPattern _ => true | _ => false end
        | TStringSz lo hi =>
            match b with
            | TStringVal s => in_size lo hi (rune_count s)
            | TStringSz lo' hi' => size_sub lo hi lo' hi'
            | TEnum _ vs => negb (Nat.eqb (length vs) 0) && forallb (fun s => in_size lo hi (rune_count s)) vs
            | _ => false
            end
        | TStringVal s => match b with TStringVal s' => str_eqb s s' | _ => false end
        | TEnum ci vs =>
            match vs with
            | [] => match b with TString | TStringSz _ _ | TStringVal _ | TEnum _ _ | TPattern _ => true | _ => false end
            | _ =>
              match b with
              | TStringVal s => enum_inst ci vs s
              | TEnum ci' vs' =>
                  negb (Nat.eqb (length vs') 0) && (ci || negb ci') && forallb (enum_inst ci vs) vs'
              | _ => false
              end
            end
        | TPattern rxs =>
            match rxs with
            | [] =>      (* patterntype.go:97: no patterns = whatever String accepts *)
                match b with TString | TStringSz _ _ | TStringVal _ | TEnum _ _ | TPattern _ => true | _ => false end
            | _ =>
                match b with
                | TPattern rxs' => negb (Nat.eqb (length rxs') 0) && forallb (fun p => mem_str p rxs) rxs'
                | TStringVal s => matches_any rxs s
                | TEnum ci vs => negb ci && negb (Nat.eqb (length vs) 0) && forallb (matches_any rxs) vs
                | _ => false
                end
            end
        | TRegexp p => match b with TRegexp p' => str_eqb p [] || str_eqb p p' | _ => false end
        | TBinary => match b with TBinary => true | _ => false end
        | TCollection lo hi =>
            match b with
            | TCollection lo' hi' | TArray _ lo' hi' | THash _ _ lo' hi' | TTuple _ _ lo' hi' => size_sub lo hi lo' hi'
            | TStruct ms => size_sub lo hi (struct_required ms) (zlen ms)
            | _ => false
            end
        | TArray e lo hi =>             (* arraytype.go:192,197: `max <= 0` = at most the empty array, the element types
                                           do not matter (fix a793d34; sizes with negative bounds construct) *)
            match b with
            | TArray e' lo' hi' => size_sub lo hi lo' hi' && ((hi' <=? 0) || asg e e')
            | TTuple ts _ lo' hi' =>
                size_sub lo hi lo' hi' &&
                ((hi' <=? 0) ||
                 match ts with
                 | [] => asg e TAny
                 | _ => forallb (asg e) ts
                 end)
            | _ => false
            end
        | THash k v lo hi =>
            match b with
            | THash k' v' lo' hi' => size_sub lo hi lo' hi' && ((hi' <=? 0) || (asg k k' && asg v v'))   (* hashtype.go:287 *)
            | TStruct ms =>
                size_sub lo hi (struct_required ms) (zlen ms) &&
                forallb (fun m => asg k (actual_key (fst (snd m))) && asg v (snd (snd m))) ms
            | _ => false
            end
        | TTuple ts _ lo hi =>
            match b with
            | TArray e' lo' hi' => size_sub lo hi lo' hi' && ((hi' <=? 0) || forallb (fun t => asg t e') ts)  (* tupletype.go:244 *)
            | TTuple os _ lo' hi' =>
                size_sub lo hi lo' hi' &&
                match ts with
                | [] => true
                | _ =>
                  (hi' <=? 0) ||                                    (* tupletype.go:260: slots only if max > 0 *)
                  match os with
                  | [] => forallb (fun t => asg t TAny) ts
                  | _ =>
                    (fix pairs (ts : list ty) (os : list ty) {struct ts} : bool :=
                       match ts, os with
                       | [], _ => true
                       | _, [] => true
                       | [t], o :: os' => asg t o && forallb (asg t) os'
                       | t :: ts', [o] => asg t o && forallb (fun t' => asg t' o) ts'
                       | t :: ts', o :: os' => asg t o && pairs ts' os'
                       end) ts os
                  end
                end
            | _ => false
            end
        | TStruct ms =>
            match b with
            | TStruct ms' =>
                forallb (fun m => match find_member (fst m) ms' with
                                  | None => key_optional (fst (snd m))
                                  | Some (k', v') => asg (fst (snd m)) k' && asg (snd (snd m)) v'
                                  end) ms &&
                Z.eqb (zlen (filter (fun m => match find_member (fst m) ms' with Some _ => true | None => false end) ms))
                      (zlen ms')
            | THash k' v' lo' hi' =>
                hs &&
                forallb (fun m => key_optional (fst (snd m)) || asg (snd (snd m)) v') ms &&
                (Z.eqb (struct_required ms) 0 || flat FString k') &&
                size_sub (struct_required ms) (zlen ms) lo' hi'
            | _ => false
            end
        | TVariant ts => existsb (fun t => asg t b) ts
        | TOptional t => flat FUndef b || asg t b
        | TNotUndef t => negb (nullable b) && asg t b
        | TType t => match b with TType t' => asg t t' | _ => false end
        | TSensitive t => match b with TSensitive t' => asg t t' | _ => false end
        | TOther _ => false
        end in
      match b with                                                  (* types.go:115 *)
      | TUnit => true
      | TNotUndef nt => if asg_a nt then true else if nullable nt then recv else false   (* types.go:120 *)
      | TOptional ot => if nullable a then asg_a ot else false
      | TVariant ts => forallb asg_a ts
      | _ => recv
      end.

  (* ---- instance-of ---- *)

  Fixpoint hash_get (k : value -> bool) (es : list (value * value)) : option value :=
    match es with
    | [] => None
    | (k', v) :: r => if k k' then Some v else hash_get k r
    end.
  Definition is_vstr (s : str) (v : value) : bool := match v with VStr s' => str_eqb s s' | _ => false end.

  Fixpoint inst (t : ty) (v : value) {struct t} : bool :=
    match t with
    | TAny | TUnit => true
    | TUndef => match v with VUndef => true | _ => false end
    | TDefault => match v with VDefault => true | _ => false end
    | TBoolean w => match v with VBool b => match w with None => true | Some x => Bool.eqb b x end | _ => false end
    | TInteger lo hi => match v with VInt z => in_size lo hi z | _ => false end
    | TFloat lo hi =>                                   (* floattype.go:160: NaN is inside no range, the unbounded type has it *)
        match v with
        | VFloat k => in_size lo hi k || float_unbounded lo hi
        | VNaN => float_unbounded lo hi
        | _ => false
        end
    | TNumeric => match v with VInt _ | VFloat _ | VNaN => true | _ => false end
    | TScalar => match v with VStr _ | VInt _ | VFloat _ | VNaN | VBool _ | VRegexp _ => true | _ => false end
    | TScalarData => match v with VStr _ | VInt _ | VFloat _ | VNaN | VBool _ => true | _ => false end
    | TString => match v with VStr _ => true | _ => false end
    | TStringSz lo hi => match v with VStr s => in_size lo hi (rune_count s) | _ => false end
    | TStringVal s => match v with VStr s' => str_eqb s s' | _ => false end
    | TEnum ci vs => match v with VStr s => enum_inst ci vs s | _ => false end
    | TPattern rxs => match v with VStr s => Nat.eqb (length rxs) 0 || matches_any rxs s | _ => false end
    | TRegexp p => match v with VRegexp p' => str_eqb p [] || str_eqb p p' | _ => false end
    | TBinary => match v with VBinary _ => true | _ => false end
    | TCollection lo hi =>
        match v with VArr vs => in_size lo hi (zlen vs) | VHash es => in_size lo hi (zlen es) | _ => false end
    | TArray e lo hi =>
        match v with
        | VArr vs => in_size lo hi (zlen vs) && (is_any e || forallb (inst e) vs)
        | _ => false
        end
    | THash k x lo hi =>
        match v with
        | VHash es => in_size lo hi (zlen es) && forallb (fun e => inst k (fst e) && inst x (snd e)) es
        | _ => false
        end
    | TTuple ts _ lo hi =>
        match v with
        | VArr vs =>
            in_size lo hi (zlen vs) &&
            (fix walk (ts : list ty) (vs : list value) {struct ts} : bool :=
               match ts, vs with
               | [], _ => true
               | _, [] => true
               | [t], v :: vs' => inst t v && forallb (inst t) vs'
               | t :: ts', v :: vs' => inst t v && walk ts' vs'
               end) ts vs
        | _ => false
        end
    | TStruct ms =>
        match v with
        | VHash es =>
            forallb (fun m => match hash_get (is_vstr (fst m)) es with
                              | None => key_optional (fst (snd m))
                              | Some x => inst (snd (snd m)) x
                              end) ms &&
            Z.eqb (zlen (filter (fun m => match hash_get (is_vstr (fst m)) es with Some _ => true | None => false end) ms))
                  (zlen es)
        | _ => false
        end
    | TVariant ts => existsb (fun t => inst t v) ts
    | TOptional t => match v with VUndef => true | _ => inst t v end
    | TNotUndef t => match v with VUndef => false | _ => inst t v end
    | TType t => match v with VType u => asg t u | _ => false end
    | TSensitive t => match v with VSensitive x => inst t x | _ => false end
    | TOther _ => false
    end.
End Lattice.
