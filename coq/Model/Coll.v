(* Coll.v — the pure layer of the List / OrderedMap operations of pcore (types/arraytype.go, types/hashtype.go):
   what every operation returns, as a function of the CONTENTS of the receiver and the arguments.
   (Backing arrays, capacities and sharing are the subject of Model/Heap.v + Model/CollHeap.v, property C08.)

   Universe (harness/collh/pv.go): undef, booleans, integers, strings, arrays, hashes, free hash entries.
   A history is a list of operations over a pool of values; step n appends its result (undef when the step
   failed) to the pool, so an operation may use any earlier value or result as receiver or argument
   (harness/collh/ops.go, impl.go: ApplyImpl).

   Definitions only.  Go file:line refer to /repo/types. *)
From Coq Require Import ZArith NArith Bool List.
From PcoreV Require Import Model.Base.
Import ListNotations.
Open Scope Z_scope.

Inductive pv :=
| PUndef
| PBool (b : bool)
| PInt (z : Z)
| PStr (s : str)
| PArr (l : list pv)
| PHash (es : list (pv * pv))      (* entries in order: Hash.entries, hashtype.go:31 *)
| PEntry (k v : pv)                (* a HashEntry outside a hash (it is a two element List) *)
| PNil | PCut | PBad.              (* only in OBSERVED snapshots of a defective tree: Go nil element, cyclic value, foreign kind *)

Inductive pred := PdEq (x : nat) | PdInt.             (* elem.Equals(pool[x]) | elem is an Integer *)
Inductive mapper := MpId | MpWrap | MpConst (x : nat). (* x -> x | x -> [x] | x -> pool[x] *)

Inductive op :=
| OLit (p : pv)                    (* WrapValues / WrapHash of exactly sized fresh slices *)
| OBuild (cap : nat) (p : pv)      (* BuildArray / BuildHash with the given capacity, arraytype.go:286, hashtype.go:589 *)
| OParse (p : pv)                  (* types.Parse of the literal text of p *)
| OAdd (r x : nat) | OAddAll (r x : nat) | ODelete (r x : nat) | ODeleteAll (r x : nat)
| OMerge (r x : nat) | OGet (r x : nat) | OIncludes (r x : nat) | OEquals (r x : nat)
| OSlice (r : nat) (i j : Z) | OAt (r : nat) (i : Z) | OEachSlice (r n j : nat)
| OSelect (r : nat) (p : pred) | OReject (r : nat) (p : pred) | OFind (r : nat) (p : pred)
| OSelectPairs (r : nat) (p : pred) | ORejectPairs (r : nat) (p : pred)
| OMap (r : nat) (m : mapper) | OMapValues (r : nat) (m : mapper)
| OSort (r : nat) | OFlatten (r : nat) | OUnique (r : nat) | OLen (r : nat) | OKeys (r : nat) | OValues (r : nat)
| OHashFromArray (r : nat) | OKey (r : nat) | OValue (r : nat) | OTouch (r : nat) | OAsArray (r : nat).

(* error classes of the projection (harness/collh/impl.go: classify) *)
Inductive err :=
| EFault         (* Go runtime error: slice bounds out of range *)
| EUnsupported   (* panic "Operation not supported" *)
| EIssue         (* a reported pcore issue (illegal arguments) *)
| EBadType       (* the harness would have to make an ill-typed Go call; it does not make the call *)
| EOther.
Inductive out := RVal (v : pv) | RErr (e : err).

(* ---------------------------------------------------------------------------------------------- *)
(* Equality: Equals of the value kinds.
   arraytype.go:455 Array.Equals (element-wise; a two element array equals a hash entry),
   hashtype.go:462 HashEntry.Equals, hashtype.go:1041 Hash.Equals (same length, every key of the
   receiver is found in the other hash through its index and the two entries are equal).
   For a hash that holds a key twice (reachable only through the open finding on literal text) the
   index keeps the LAST entry of the key; Equals of such hashes is not modelled (the first is taken). *)
Fixpoint veq (a b : pv) {struct a} : bool :=
  match a with
  | PUndef => match b with PUndef => true | _ => false end
  | PBool x => match b with PBool y => Bool.eqb x y | _ => false end
  | PInt x => match b with PInt y => Z.eqb x y | _ => false end
  | PStr x => match b with PStr y => str_eqb x y | _ => false end
  | PArr la =>
      match b with
      | PArr lb =>
          (fix go (la lb : list pv) : bool :=
             match la, lb with
             | [], [] => true
             | x :: la', y :: lb' => veq x y && go la' lb'
             | _, _ => false
             end) la lb
      | PEntry k v =>                                        (* arraytype.go:466 *)
          match la with
          | [x; y] => veq x k && veq y v
          | _ => false
          end
      | _ => false
      end
  | PEntry k v =>
      match b with
      | PEntry k' v' => veq k k' && veq v v'                 (* hashtype.go:463 *)
      | PArr [x; y] => veq k x && veq v y                    (* hashtype.go:466 *)
      | _ => false
      end
  | PHash ea =>
      match b with
      | PHash eb =>
          Nat.eqb (length ea) (length eb) &&
          (fix all (ea : list (pv * pv)) : bool :=
             match ea with
             | [] => true
             | (k, v) :: ea' =>
                 (fix find (eb : list (pv * pv)) : bool :=
                    match eb with
                    | [] => false
                    | (k', v') :: eb' => if veq k k' then veq v v' else find eb'
                    end) eb
                 && all ea'
             end) ea
      | _ => false
      end
  | PNil | PCut | PBad => false
  end.

(* Hash-key equality: px.ToKey(a) == px.ToKey(b).  After the C07 fixes (bacc28c, febac86, 1ff1401, 105d506) the
   key of a value determines it up to Equals on this universe (an entry has the key of its two element array, the
   keys of the entries of a hash are written in sorted order); that is property C07 (key_iff_eq), used here. *)
Definition keq (a b : pv) : bool := veq a b.

(* ---------------------------------------------------------------------------------------------- *)
(* list helpers *)

Fixpoint set_nth {A} (i : nat) (x : A) (l : list A) : list A :=
  match l, i with
  | [], _ => []
  | _ :: t, O => x :: t
  | h :: t, S i' => h :: set_nth i' x t
  end.

Fixpoint remove_nth {A} (i : nat) (l : list A) : list A :=
  match l, i with
  | [], _ => []
  | _ :: t, O => t
  | h :: t, S i' => h :: remove_nth i' t
  end.

(* Operations on entry lists, generic in the representation E of an entry (`key` gives the observed key): the
   pure layer takes E = pv * pv, the slice-level model (Model/CollHeap.v) takes the stored entry values. *)
Section Keyed.
  Context {E : Type} (key : E -> pv).

  (* Hash.valueIndex, hashtype.go:1419: key -> position; a later entry overwrites an earlier one with an
     equal key, so the index holds the LAST position of a key *)
  Fixpoint hfindG (es : list E) (k : pv) : option nat :=
    match es with
    | [] => None
    | e :: t =>
        match hfindG t k with
        | Some i => Some (S i)
        | None => if keq (key e) k then Some O else None
        end
    end.

  (* mergeEntries, hashtype.go:1156: a copy of the receiver's entries; every entry of the operand replaces the
     entry at the indexed position of its key (index of the RECEIVER), or is appended *)
  Definition merge_entriesG (hv oh : list E) : list E :=
    fold_left (fun all e => match hfindG hv (key e) with
                            | Some i => set_nth i e all
                            | None => all ++ [e]
                            end) oh hv.

  (* uniqueEntries, hashtype.go:672 (fix fba5ff4): one entry per key, a later entry replaces the earlier one in place *)
  Definition put_entryG (es : list E) (e : E) : list E :=
    match hfindG es (key e) with
    | Some i => set_nth i e es
    | None => es ++ [e]
    end.
  Definition unique_entriesG (es : list E) : list E := fold_left put_entryG es [].

  (* Hash.Delete, hashtype.go:826 (fix 68749c8): the indexed entry is left out of a new slice *)
  Definition hash_deleteG (es : list E) (k : pv) : list E :=
    match hfindG es k with
    | Some i => remove_nth i es
    | None => es
    end.

  (* Hash.DeleteAll, hashtype.go:836 (fix b787052): the indexed positions of all given keys are left out *)
  Definition doomed_ofG (es : list E) (keys : list pv) : list nat :=
    flat_map (fun k => match hfindG es k with Some i => [i] | None => [] end) keys.

  (* Array.Unique, arraytype.go:711: the first element of every hash key *)
  Fixpoint unique_accG (seen : list pv) (l : list E) : list E :=
    match l with
    | [] => []
    | x :: t => if existsb (fun y => keq (key x) y) seen then unique_accG seen t
                else x :: unique_accG (key x :: seen) t
    end.
End Keyed.

Fixpoint remove_positions {A} (doomed : list nat) (i : nat) (l : list A) : list A :=
  match l with
  | [] => []
  | x :: t => if existsb (Nat.eqb i) doomed then remove_positions doomed (S i) t
              else x :: remove_positions doomed (S i) t
  end.

Definition hfind : list (pv * pv) -> pv -> option nat := hfindG fst.

Definition entry_of (e : pv * pv) : pv := PEntry (fst e) (snd e).

(* the elements of a list-like value as List.At / Each enumerate them: hashtype.go:801 (entries), :416 (key, value) *)
Definition elems (p : pv) : option (list pv) :=
  match p with
  | PArr l => Some l
  | PHash es => Some (map entry_of es)
  | PEntry k v => Some [k; v]
  | _ => None
  end.

Definition merge_entries : list (pv * pv) -> list (pv * pv) -> list (pv * pv) := merge_entriesG fst.
Definition unique_entries : list (pv * pv) -> list (pv * pv) := unique_entriesG fst.

Fixpoint pairs_flat (l : list pv) : list (pv * pv) :=
  match l with
  | k :: v :: t => (k, v) :: pairs_flat t
  | _ => []
  end.

Definition is_pairlike (p : pv) : bool := match p with PArr _ | PEntry _ _ => true | _ => false end.

(* all the pairs [k, v]; None when one of them does not have two elements *)
Fixpoint pairs_of (l : list pv) : option (list (pv * pv)) :=
  match l with
  | [] => Some []
  | p :: t =>
      match elems p with
      | Some [k; v] => match pairs_of t with Some r => Some ((k, v) :: r) | None => None end
      | _ => None
      end
  end.

(* WrapHashFromArray, hashtype.go:688.  The element type of the array (its reduced type: the common type of
   the element types) is an Array type exactly when the array is not empty and every element is an Array or
   a HashEntry (whose type is Array[..,2,2], hashtype.go:557) *)
Definition hash_from_array (l : list pv) : out :=
  if negb (Nat.eqb (length l) 0) && forallb is_pairlike l then
    match pairs_of l with
    | Some es => RVal (PHash (unique_entries es))
    | None => RErr EIssue                                    (* hashtype.go:697 *)
    end
  else if Nat.odd (length l) then RErr EIssue                (* hashtype.go:704 *)
  else RVal (PHash (unique_entries (pairs_flat l))).

(* flattenElements, arraytype.go:488: arrays and hash entries are flattened recursively, hashes are not *)
Fixpoint flatten1 (p : pv) : list pv :=
  match p with
  | PArr l => (fix go (l : list pv) : list pv := match l with [] => [] | x :: t => flatten1 x ++ go t end) l
  | PEntry k v => flatten1 k ++ flatten1 v
  | _ => [p]
  end.
Definition flatten (l : list pv) : list pv := flat_map flatten1 l.

Fixpoint kv_list (es : list (pv * pv)) : list pv :=
  match es with
  | [] => []
  | (k, v) :: t => k :: v :: kv_list t
  end.

Definition unique_acc : list pv -> list pv -> list pv := unique_accG (fun x => x).

(* sort.Sort with the comparator "both are integers and a < b" on integers / integer keys: equal integers are
   indistinguishable, so the result is the stable insertion sort *)
Definition int_of (p : pv) : Z := match p with PInt z => z | _ => 0 end.
Fixpoint insert_by {A} (key : A -> Z) (x : A) (l : list A) : list A :=
  match l with
  | [] => [x]
  | y :: t => if Z.ltb (key x) (key y) then x :: l else y :: insert_by key x t
  end.
Definition sort_by {A} (key : A -> Z) (l : list A) : list A := fold_left (fun acc x => insert_by key x acc) l [].
Definition is_int (p : pv) : bool := match p with PInt _ => true | _ => false end.

(* EachSlice, arraytype.go:440 / hashtype.go:856: the j-th chunk of n elements *)
Definition chunk {A} (n j : nat) (l : list A) : option (list A) :=
  if Nat.leb (length l) (j * n) then None else Some (firstn n (skipn (j * n) l)).

(* av.elements[:n:n][i:j], arraytype.go:570 / hashtype.go:1190 (fix e557231): the bounds are checked against the length *)
Definition zslice {A} (i j : Z) (l : list A) : option (list A) :=
  if (i <? 0) || (j <? i) || (Z.of_nat (length l) <? j) then None
  else Some (firstn (Z.to_nat (j - i)) (skipn (Z.to_nat i) l)).

Definition at_z {A} (i : Z) (l : list A) : option A :=
  if i <? 0 then None else nth_error l (Z.to_nat i).

(* ---------------------------------------------------------------------------------------------- *)
(* one step *)

Definition pool_at (pool : list pv) (i : nat) : pv := nth i pool PUndef.

Definition eval_pred (pool : list pv) (pd : pred) (v : pv) : bool :=
  match pd with
  | PdEq x => veq v (pool_at pool x)
  | PdInt => is_int v
  end.

Definition eval_mapper (pool : list pv) (m : mapper) (v : pv) : pv :=
  match m with
  | MpId => v
  | MpWrap => PArr [v]
  | MpConst x => pool_at pool x
  end.

Definition bad := RErr EBadType.

Definition hash_delete : list (pv * pv) -> pv -> list (pv * pv) := hash_deleteG fst.
Definition hash_delete_all (es : list (pv * pv)) (keys : list pv) : list (pv * pv) :=
  remove_positions (doomed_ofG fst es keys) 0 es.

(* the operations that the harness applies to a free HashEntry receiver (harness/collh/ref.go: EntryOps) *)
Definition entry_op (o : op) : bool :=
  match o with
  | OAdd _ _ | OAddAll _ _ | ODelete _ _ | ODeleteAll _ _ | OAt _ _ | OLen _ | OFlatten _ => true
  | _ => false
  end.

Definition step (pool : list pv) (o : op) : out :=
  let P := pool_at pool in
  match o with
  | OLit p | OBuild _ p => RVal p
  | OParse p => RVal p                                        (* basiccollector.go:36 AddHash appends every pair *)
  | OEquals r x => RVal (PBool (veq (P r) (P x)))
  | OTouch _ => RVal PUndef
  | OKey r => match P r with PEntry k _ => RVal k | _ => bad end
  | OValue r => match P r with PEntry _ v => RVal v | _ => bad end
  | OHashFromArray r => match P r with PArr l => hash_from_array l | _ => bad end
  | OAsArray r =>
      match P r with
      | PHash es => RVal (PArr (map (fun e => PArr [fst e; snd e]) es))    (* hashtype.go:811 *)
      | PEntry k v => RVal (PArr [k; v])
      | _ => bad
      end
  (* OrderedMap operations *)
  | OMerge r x =>
      match P r, P x with
      | PHash hv, PHash oh => RVal (PHash (merge_entries hv oh))           (* hashtype.go:1170 *)
      | _, _ => bad
      end
  | OGet r x =>
      match P r with
      | PHash es => match hfind es (P x) with                              (* hashtype.go:1119 *)
                    | Some i => RVal (snd (nth i es (PUndef, PUndef)))
                    | None => RVal PUndef
                    end
      | _ => bad
      end
  | OIncludes r x =>
      match P r with
      | PHash es => RVal (PBool (match hfind es (P x) with Some _ => true | None => false end))
      | _ => bad
      end
  | OKeys r => match P r with PHash es => RVal (PArr (map fst es)) | _ => bad end
  | OValues r => match P r with PHash es => RVal (PArr (map snd es)) | _ => bad end
  | OMapValues r m =>
      match P r with
      | PHash es => RVal (PHash (map (fun e => (fst e, eval_mapper pool m (snd e))) es))
      | _ => bad
      end
  | OSelectPairs r pd =>
      match P r with
      | PHash es => RVal (PHash (filter (fun e => eval_pred pool pd (fst e)) es))
      | _ => bad
      end
  | ORejectPairs r pd =>
      match P r with
      | PHash es => RVal (PHash (filter (fun e => negb (eval_pred pool pd (fst e))) es))
      | _ => bad
      end
  (* List operations *)
  | _ =>
      match P (match o with
               | OAdd r _ | OAddAll r _ | ODelete r _ | ODeleteAll r _ | OSlice r _ _ | OAt r _ | OEachSlice r _ _
               | OSelect r _ | OReject r _ | OFind r _ | OMap r _ | OSort r | OFlatten r | OUnique r | OLen r => r
               | _ => O
               end) with
      | PArr l =>
          match o with
          | OAdd _ x => RVal (PArr (l ++ [P x]))                           (* arraytype.go:347 *)
          | OAddAll _ x => match elems (P x) with                          (* arraytype.go:354 *)
                           | Some xs => RVal (PArr (l ++ xs))
                           | None => bad
                           end
          | OSlice _ i j => match zslice i j l with Some s => RVal (PArr s) | None => RErr EFault end
          | ODelete _ x => RVal (PArr (filter (fun e => negb (veq e (P x))) l))       (* arraytype.go:389 *)
          | ODeleteAll _ x =>
              match elems (P x) with                                       (* arraytype.go:395 *)
              | Some xs => RVal (PArr (filter (fun e => negb (existsb (fun d => veq e d) xs)) l))
              | None => bad
              end
          | OSelect _ pd => RVal (PArr (filter (eval_pred pool pd) l))
          | OReject _ pd => RVal (PArr (filter (fun e => negb (eval_pred pool pd e)) l))
          | OFind _ pd => match find (eval_pred pool pd) l with Some v => RVal v | None => RVal PUndef end
          | OMap _ m => RVal (PArr (map (eval_mapper pool m) l))
          | OSort _ => if forallb is_int l then RVal (PArr (sort_by int_of l)) else bad
          | OFlatten _ => RVal (PArr (flatten l))                          (* arraytype.go:478 *)
          | OUnique _ => RVal (PArr (unique_acc [] l))
          | OAt _ i => match at_z i l with Some v => RVal v | None => RVal PUndef end
          | OLen _ => RVal (PInt (Z.of_nat (length l)))
          | OEachSlice _ n j =>
              if Nat.eqb n 0 then bad
              else match chunk n j l with Some c => RVal (PArr c) | None => RVal PUndef end
          | _ => bad
          end
      | PHash es =>
          match o with
          | OAdd _ x =>                                                    (* hashtype.go:733 *)
              match P x with
              | PEntry k v => RVal (PHash (merge_entries es [(k, v)]))
              | PArr [k; v] => RVal (PHash (merge_entries es [(k, v)]))
              | _ => RErr EUnsupported
              end
          | OAddAll _ x =>                                                 (* hashtype.go:745 *)
              match P x with
              | PHash oh => RVal (PHash (merge_entries es oh))
              | PArr l => match hash_from_array l with
                          | RVal (PHash oh) => RVal (PHash (merge_entries es oh))
                          | r => r
                          end
              | PEntry _ _ => RErr EUnsupported
              | _ => bad
              end
          | OSlice _ i j => match zslice i j es with Some s => RVal (PHash s) | None => RErr EFault end
          | ODelete _ x => RVal (PHash (hash_delete es (P x)))
          | ODeleteAll _ x =>
              match elems (P x) with
              | Some ks => RVal (PHash (hash_delete_all es ks))
              | None => bad
              end
          | OSelect _ pd => RVal (PHash (filter (fun e => eval_pred pool pd (entry_of e)) es))
          | OReject _ pd => RVal (PHash (filter (fun e => negb (eval_pred pool pd (entry_of e))) es))
          | OFind _ pd => match find (fun e => eval_pred pool pd (entry_of e)) es with
                          | Some e => RVal (entry_of e)
                          | None => RVal PUndef
                          end
          | OMap _ m => RVal (PArr (map (fun e => eval_mapper pool m (entry_of e)) es))
          | OSort _ => if forallb (fun e => is_int (fst e)) es
                       then RVal (PHash (sort_by (fun e => int_of (fst e)) es)) else bad
          | OFlatten _ => RVal (PArr (flatten (kv_list es)))               (* hashtype.go:900 *)
          | OUnique _ => RVal (PHash es)                                   (* hashtype.go:1357 *)
          | OAt _ i => match at_z i es with Some e => RVal (entry_of e) | None => RVal PUndef end
          | OLen _ => RVal (PInt (Z.of_nat (length es)))
          | OEachSlice _ n j =>
              if Nat.eqb n 0 then bad
              else match chunk n j es with Some c => RVal (PArr (map entry_of c)) | None => RVal PUndef end
          | _ => bad
          end
      | PEntry k v =>
          if negb (entry_op o) then bad else
          match o with
          | OAdd _ _ | ODelete _ _ => RErr EUnsupported                    (* hashtype.go:396, :427 *)
          | OAddAll _ x | ODeleteAll _ x => match elems (P x) with Some _ => RErr EUnsupported | None => bad end
          | OAt _ i => RVal (if i =? 0 then k else if i =? 1 then v else PUndef)   (* hashtype.go:416 *)
          | OLen _ => RVal (PInt 2)
          | OFlatten _ => RVal (PArr (flatten [k; v]))                     (* hashtype.go:482 *)
          | _ => bad
          end
      | _ => bad
      end
  end.

Definition val_of (r : out) : pv := match r with RVal v => v | RErr _ => PUndef end.

(* a history from a given pool; the projected results of every step *)
Fixpoint run_from (pool : list pv) (ops : list op) : list out :=
  match ops with
  | [] => []
  | o :: t => let r := step pool o in r :: run_from (pool ++ [val_of r]) t
  end.
Definition run (ops : list op) : list out := run_from [] ops.

(* the pool after a history *)
Fixpoint pool_after (pool : list pv) (ops : list op) : list pv :=
  match ops with
  | [] => pool
  | o :: t => pool_after (pool ++ [val_of (step pool o)]) t
  end.

(* ---------------------------------------------------------------------------------------------- *)
(* structural equality of the projections (what the correspondence compares) *)

Fixpoint pv_eqb (a b : pv) {struct a} : bool :=
  match a, b with
  | PUndef, PUndef | PNil, PNil | PCut, PCut | PBad, PBad => true
  | PBool x, PBool y => Bool.eqb x y
  | PInt x, PInt y => Z.eqb x y
  | PStr x, PStr y => str_eqb x y
  | PArr la, PArr lb =>
      (fix go (la lb : list pv) : bool :=
         match la, lb with
         | [], [] => true
         | x :: la', y :: lb' => pv_eqb x y && go la' lb'
         | _, _ => false
         end) la lb
  | PHash ea, PHash eb =>
      (fix go (ea eb : list (pv * pv)) : bool :=
         match ea, eb with
         | [], [] => true
         | (k, v) :: ea', (k', v') :: eb' => pv_eqb k k' && pv_eqb v v' && go ea' eb'
         | _, _ => false
         end) ea eb
  | PEntry k v, PEntry k' v' => pv_eqb k k' && pv_eqb v v'
  | _, _ => false
  end.

Definition err_eqb (a b : err) : bool :=
  match a, b with
  | EFault, EFault | EUnsupported, EUnsupported | EIssue, EIssue | EBadType, EBadType | EOther, EOther => true
  | _, _ => false
  end.

Definition out_eqb (a b : out) : bool :=
  match a, b with
  | RVal x, RVal y => pv_eqb x y
  | RErr x, RErr y => err_eqb x y
  | _, _ => false
  end.
