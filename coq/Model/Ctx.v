(* Ctx.v — model of the goroutine-local current context of pcore (property C14).

   Mirrors, function by function (after the fix: commits 68e2806, 67b3430, 7600e7d):
     threadlocal/gid.go      Init / Cleanup / Get / Initialized / Delete / Set          -> tl_*
     px/context.go:147       DoWithContext (save, or Delete, or Init+Cleanup; Set; actor) -> dwc_enter / run_dact
     px/context.go:166       CurrentContext                                              -> tl_get
     px/context.go:174       Fork (c.Fork() in the caller; go { defer Cleanup; Init; Set; doer }) -> PFork, KStart, KEnd
     px/context.go:188       Go = Fork(CurrentContext(), f)                              -> PGo
     threadlocal/gid.go:75   Go (go { defer Cleanup; Init; f })                          -> PTlGo
     internal/context.go:90  pxContext.DoWithLoader (save loader, defer restore)         -> PDoLoader / XLoader
     internal/context.go:106 pxContext.Fork (copy stack and vars, parented loader)       -> fork_ctx
     internal/context.go:122..227 Get/Set/Delete/SetLoader/Stack/StackPush/StackPop      -> PSet .. PPop
     internal/runtime.go:239 rt.Do / Try / DoWithParent                                  -> PDo
     internal/runtime.go:250 rt.DoWithParent(c px.Context, actor) = c.Fork() made current -> PDoCtx _ CFork
     threadlocal/gid.go:14   getg (the index of the table)                               -> Model/CtxGid.v
     runtime.Goexit()        (t.FailNow-style end of a goroutine: deferred functions only)      -> PGoexit, notry, exit_stack
     loader/loader.go:67     load; :113 basicLoader.SetEntry; :166 parentedLoader.LoadEntry -> load_entry / set_entry

   The machine is an interleaving machine: `step g c` performs ONE atomic step of goroutine g (one statement,
   one scope entry, one scope exit = the deferred functions of that scope, one goroutine prologue or epilogue);
   `run sched c` performs the steps named by the schedule.  Every theorem of Properties/C14.v quantifies over
   ALL schedules.  Contexts and loaders live in heaps (they are mutable Go objects reachable through
   pointers); the goroutine-local storage `tls` is a global table indexed by goroutine id.
   Definitions only. *)
From Coq Require Import ZArith NArith Bool List.
From PcoreV Require Import Model.Base.
Import ListNotations.
Local Open Scope nat_scope.

Definition gid := nat.       (* the goroutine.  gid.go indexes the table by threadlocal/gid.go:14 getg(): modelled in
                                Model/CtxGid.v, injective by C14_getg_keys_distinct (Proofs/CtxGidProofs.v) *)
Definition addr := nat.      (* address of a *pxContext in the heap *)
Definition laddr := nat.     (* address of a loader in the heap *)
Definition label := N.       (* name given by the program node that creates a context / loader / observation *)
Definition key := N.
Definition val := Z.
Definition name := N.
Definition loc := N.

Definition unknown_label : label := 999999%N.   (* contexts the program never gets hold of (rt.Do's root) *)

(* ---- programs ------------------------------------------------------------------------------------------ *)

Inductive cexp := CFork | CNew | CUp (k : nat).
Inductive lexp := LChild | LParent | LBase.

Inductive prog :=
| PDo (lbl : label) (try : bool) (body : list prog)        (* pcore.Do / pcore.Try *)
| PDoCtx (lbl : label) (ce : cexp) (body : list prog)      (* px.DoWithContext(ce, body) *)
| PDoLoader (lbl : label) (le : lexp) (body : list prog)   (* lexical.DoWithLoader(le, body) *)
| PFork (lbl : label) (body : list prog)                   (* px.Fork(lexical, body) *)
| PGo (lbl : label) (body : list prog)                     (* px.Go(body) *)
| PTlGo (body : list prog)                                 (* threadlocal.Go(body) *)
| PTry (body : list prog)                                  (* func(){ defer recover(); body }() *)
| PSet (k : key) (v : val)
| PDel (k : key)
| PPush (l : loc)
| PPop
| PSetLoader (lbl : label) (le : lexp)
| PDefine (n : name) (v : val)
| PObserve (lbl : label)
| PPanic
| PGoexit.                                                 (* runtime.Goexit() (also t.FailNow / t.SkipNow) *)

(* ---- heap objects ---------------------------------------------------------------------------------------- *)

(* internal/context.go:13 pxContext (logger and implRegistry are not modelled) *)
Record ctxo := { c_label : label; c_loader : laddr; c_stack : list loc; c_vars : list (key * val) }.
(* loader/loader.go:23 parentedLoader: own entries + parent.  Address 0 is the environment loader. *)
Record ldr := { l_label : label; l_parent : option laddr; l_ents : list (name * val) }.

Definition set_loader (l : laddr) (c : ctxo) : ctxo :=
  {| c_label := c_label c; c_loader := l; c_stack := c_stack c; c_vars := c_vars c |}.
Definition set_stack (s : list loc) (c : ctxo) : ctxo :=
  {| c_label := c_label c; c_loader := c_loader c; c_stack := s; c_vars := c_vars c |}.
Definition set_vars (v : list (key * val)) (c : ctxo) : ctxo :=
  {| c_label := c_label c; c_loader := c_loader c; c_stack := c_stack c; c_vars := v |}.

(* Go maps as association lists *)
Fixpoint alist_get (k : N) (l : list (N * Z)) : option Z :=
  match l with
  | [] => None
  | (k', v) :: l' => if N.eqb k k' then Some v else alist_get k l'
  end.
Fixpoint alist_del (k : N) (l : list (N * Z)) : list (N * Z) :=
  match l with
  | [] => []
  | (k', v) :: l' => if N.eqb k k' then alist_del k l' else (k', v) :: alist_del k l'
  end.
Definition alist_set (k : N) (v : Z) (l : list (N * Z)) : list (N * Z) := (k, v) :: alist_del k l.

(* update of the i-th element (no-op when out of range) *)
Fixpoint upd {A} (i : nat) (x : A) (l : list A) : list A :=
  match l, i with
  | [], _ => []
  | _ :: l', O => x :: l'
  | y :: l', S i' => y :: upd i' x l'
  end.

(* ---- the goroutine-local storage: threadlocal/gid.go ----------------------------------------------------- *)

(* tls[gid]: None = no table; Some None = a table without the key "puppet.context"; Some (Some a) = current context a.
   (Only that key is modelled.)  Indexed by goroutine id. *)
Definition table := option addr.
Definition tlsmap := list (option table).

Definition tl_find (g : gid) (t : tlsmap) : option table := nth g t None.
Definition tl_init (g : gid) (t : tlsmap) : tlsmap := upd g (Some None) t.                 (* gid.go:41 Init *)
Definition tl_cleanup (g : gid) (t : tlsmap) : tlsmap := upd g None t.                     (* gid.go:50 Cleanup *)
Definition tl_initialized (g : gid) (t : tlsmap) : bool :=                                  (* gid.go:58 Initialized *)
  match tl_find g t with Some _ => true | None => false end.
Definition tl_get (g : gid) (t : tlsmap) : option addr :=                                   (* gid.go:67 Get(key) *)
  match tl_find g t with Some (Some a) => Some a | _ => None end.
Definition tl_delete (g : gid) (t : tlsmap) : tlsmap :=                                     (* gid.go:92 Delete(key) *)
  match tl_find g t with Some _ => upd g (Some None) t | None => t end.
Definition tl_set (g : gid) (a : addr) (t : tlsmap) : option tlsmap :=                      (* gid.go:104 Set; None = panic *)
  match tl_find g t with Some _ => Some (upd g (Some (Some a)) t) | None => None end.
(* verif hook threadlocal.LiveTables *)
Definition live_tables (t : tlsmap) : nat :=
  length (filter (fun x => match x with Some _ => true | None => false end) t).

(* ---- events, frames, goroutines, configurations ------------------------------------------------------------ *)

(* why control leaves a statement abnormally: the classes of panics, and PExit = runtime.Goexit (not a panic: no
   recover point sees it, the goroutine ends after its deferred functions have run) *)
Inductive pcls := PUser | PNoCtx | PNoCurrent | PRedefine | PFault | PNoTable | POther | PExit.
Inductive lres := LFound (v : val) | LMissing | LOutOfFuel.

(* what an Observe sees of its lexical context (the one handed to the enclosing body) *)
Record lexobs := LO { lo_ctx : label; lo_loader : label; lo_vars : list (option val); lo_stack : list loc;
                      lo_loads : list lres }.
Inductive event :=
| EObs (l : label) (cur : option label) (lex : option lexobs)   (* cur: label of px.CurrentContext() *)
| EPanic (c : pcls)
| EEnd.

(* deferred actions *)
Inductive dact :=
| XRestore (saved : addr)         (* px/context.go:149 defer threadlocal.Set(key, saveCtx) *)
| XDelete                         (* px/context.go:154 defer threadlocal.Delete(key) *)
| XCleanup                        (* px/context.go:158 defer threadlocal.Cleanup() *)
| XLoader (c : addr) (l : laddr). (* internal/context.go:92 defer c.loader = saveLoader *)

Inductive frame :=
| KSeq (env : list addr) (ps : list prog)   (* rest of a body; env = the lexical contexts, innermost first *)
| KDefer (acts : list dact)                 (* the deferred functions of one scope, in execution order *)
| KTry                                      (* a recover point *)
| KStart (cf : option addr)                 (* goroutine prologue: Init; Set(key, cf) *)
| KEnd (cleanup : bool).                    (* goroutine epilogue: recover (harness); deferred Cleanup *)

Record gstate := { g_stack : list frame; g_panic : bool; g_trace : list event (* newest first *) }.

Record shared := { tls : tlsmap; cheap : list ctxo; lheap : list ldr }.
Record config := { sh : shared; gs : list gstate }.

Definition with_tls (t : tlsmap) (s : shared) : shared := {| tls := t; cheap := cheap s; lheap := lheap s |}.
Definition with_cheap (h : list ctxo) (s : shared) : shared := {| tls := tls s; cheap := h; lheap := lheap s |}.
Definition with_lheap (h : list ldr) (s : shared) : shared := {| tls := tls s; cheap := cheap s; lheap := h |}.

(* ---- contexts and loaders ---------------------------------------------------------------------------------- *)

(* px.NewParentedLoader(parent) *)
Definition new_loader (lbl : label) (parent : laddr) (lh : list ldr) : laddr * list ldr :=
  (length lh, lh ++ [{| l_label := lbl; l_parent := Some parent; l_ents := [] |}]).

(* internal/context.go:106 pxContext.Fork: stack and vars are copied, the loader is a new child of the loader *)
Definition fork_ctx (lbl : label) (c : ctxo) (lh : list ldr) : ctxo * list ldr :=
  let '(l, lh') := new_loader lbl (c_loader c) lh in
  ({| c_label := lbl; c_loader := l; c_stack := c_stack c; c_vars := c_vars c |}, lh').

Definition alloc_ctx (c : ctxo) (s : shared) : addr * shared := (length (cheap s), with_cheap (cheap s ++ [c]) s).

(* loader/loader.go:113 basicLoader.SetEntry (placeholders are not modelled: unobservable through Load/SetEntry).
   None = panic AttemptToRedefine *)
Definition set_entry (n : name) (v : val) (l : ldr) : option ldr :=
  match alist_get n (l_ents l) with
  | Some ov => if Z.eqb ov v then Some l else None
  | None => Some {| l_label := l_label l; l_parent := l_parent l; l_ents := l_ents l ++ [(n, v)] |}
  end.

(* loader/loader.go:166 parentedLoader.LoadEntry: the parent first, then the own entries.  The parent of a loader
   is older than the loader, so `S (length lh)` levels suffice (Proofs: load_enough_fuel). *)
Fixpoint load_entry (fuel : nat) (lh : list ldr) (l : laddr) (n : name) : lres :=
  match fuel with
  | O => LOutOfFuel
  | S f =>
    match nth_error lh l with
    | None => LMissing
    | Some ld =>
      let own := match alist_get n (l_ents ld) with Some v => LFound v | None => LMissing end in
      match l_parent ld with
      | Some p => match load_entry f lh p n with
                  | LFound v => LFound v
                  | LMissing => own
                  | LOutOfFuel => LOutOfFuel
                  end
      | None => own
      end
    end
  end.
Definition load (lh : list ldr) (l : laddr) (n : name) : lres := load_entry (S (length lh)) lh l n.

(* loader expressions of DoWithLoader / SetLoader, for the context c *)
Definition eval_lexp (lbl : label) (le : lexp) (c : ctxo) (lh : list ldr) : laddr * list ldr :=
  match le with
  | LChild => new_loader lbl (c_loader c) lh
  | LParent => match nth_error lh (c_loader c) with
               | Some ld => match l_parent ld with Some p => (p, lh) | None => (c_loader c, lh) end
               | None => (c_loader c, lh)
               end
  | LBase => (0, lh)
  end.

(* ---- px.DoWithContext ---------------------------------------------------------------------------------------- *)

(* the deferred functions; the bool says "panicked" (threadlocal.Set without a table) *)
Definition run_dact (g : gid) (x : dact) (s : shared) : shared * bool :=
  match x with
  | XRestore saved => match tl_set g saved (tls s) with
                      | Some t => (with_tls t s, false)
                      | None => (s, true)
                      end
  | XDelete => (with_tls (tl_delete g (tls s)) s, false)
  | XCleanup => (with_tls (tl_cleanup g (tls s)) s, false)
  | XLoader a l => match nth_error (cheap s) a with
                   | Some c => (with_cheap (upd a (set_loader l c) (cheap s)) s, false)
                   | None => (s, true)
                   end
  end.

Fixpoint run_dacts (g : gid) (xs : list dact) (s : shared) : shared * list event :=
  match xs with
  | [] => (s, [])
  | x :: xs' =>
    let '(s1, p) := run_dact g x s in
    let '(s2, evs) := run_dacts g xs' s1 in
    (s2, (if p then [EPanic PNoTable] else []) ++ evs)
  end.

(* px/context.go:147 up to the call of the actor.  Result: the new table and the deferred function; None: the
   Set panicked (no table although Init was called: only for a goroutine id outside the table) *)
Definition dwc_enter (g : gid) (c : addr) (t : tlsmap) : tlsmap * dact * bool :=
  let '(t1, x) :=
    match tl_get g t with
    | Some saved => (t, XRestore saved)
    | None => if tl_initialized g t then (t, XDelete) else (tl_init g t, XCleanup)
    end in
  match tl_set g c t1 with
  | Some t2 => (t2, x, true)
  | None => (t1, x, false)
  end.

(* ---- one statement ---------------------------------------------------------------------------------------------- *)

(* result of a statement / scope entry *)
Record sres := { r_sh : shared; r_push : list frame; r_spawn : option (list frame); r_events : list event;
                 r_panic : bool }.

Definition ok (s : shared) : sres := {| r_sh := s; r_push := []; r_spawn := None; r_events := []; r_panic := false |}.
Definition raise (s : shared) (c : pcls) : sres :=
  {| r_sh := s; r_push := []; r_spawn := None; r_events := [EPanic c]; r_panic := true |}.
Definition enter (s : shared) (fs : list frame) : sres :=
  {| r_sh := s; r_push := fs; r_spawn := None; r_events := []; r_panic := false |}.
Definition spawn (s : shared) (fs : list frame) : sres :=
  {| r_sh := s; r_push := []; r_spawn := Some fs; r_events := []; r_panic := false |}.

(* the lexical context: the one handed to the innermost enclosing body; none: the harness panics (PNoCtx) *)
Definition with_lex (env : list addr) (s : shared) (f : addr -> ctxo -> sres) : sres :=
  match env with
  | [] => raise s PNoCtx
  | a :: _ => match nth_error (cheap s) a with
              | Some c => f a c
              | None => raise s PFault    (* nil dereference: never (Proofs: wf) *)
              end
  end.

Definition put_ctx (a : addr) (c : ctxo) (s : shared) : shared := with_cheap (upd a c (cheap s)) s.

Definition obs_keys : list key := [0; 1; 2]%N.
Definition obs_names : list name := [0; 1; 2]%N.

Definition observe (g : gid) (env : list addr) (lbl : label) (s : shared) : event :=
  let cur := match tl_get g (tls s) with
             | Some a => match nth_error (cheap s) a with Some c => Some (c_label c) | None => Some unknown_label end
             | None => None
             end in
  let lex := match env with
             | [] => None
             | a :: _ =>
               match nth_error (cheap s) a with
               | None => None
               | Some c =>
                 Some {| lo_ctx := c_label c;
                         lo_loader := match nth_error (lheap s) (c_loader c) with Some l => l_label l | None => unknown_label end;
                         lo_vars := map (fun k => alist_get k (c_vars c)) obs_keys;
                         lo_stack := c_stack c;
                         lo_loads := map (fun n => load (lheap s) (c_loader c) n) obs_names |}
               end
             end in
  EObs lbl cur lex.

(* establish context a for the body (px.DoWithContext) *)
Definition do_with_context (g : gid) (a : addr) (env : list addr) (body : list prog) (s : shared) : sres :=
  let '(t, x, fine) := dwc_enter g a (tls s) in
  if fine then enter (with_tls t s) [KSeq (a :: env) body; KDefer [x]]
  else (* threadlocal.Set panicked inside DoWithContext: its deferred function runs *)
    let '(s1, _) := run_dact g x (with_tls t s) in raise s1 PNoTable.

Definition exec_stmt (g : gid) (env : list addr) (p : prog) (s : shared) : sres :=
  match p with
  | PSet k v =>                                                       (* internal/context.go:197 *)
    with_lex env s (fun a c => ok (put_ctx a (set_vars (alist_set k v (c_vars c)) c) s))
  | PDel k =>                                                         (* :84 *)
    with_lex env s (fun a c => ok (put_ctx a (set_vars (alist_del k (c_vars c)) c) s))
  | PPush l =>                                                        (* :223 *)
    with_lex env s (fun a c => ok (put_ctx a (set_stack (c_stack c ++ [l]) c) s))
  | PPop =>                                                           (* :219 c.stack[:len(c.stack)-1] *)
    with_lex env s (fun a c =>
      match c_stack c with
      | [] => raise s PFault                                          (* slice bounds out of range [:-1] *)
      | _ => ok (put_ctx a (set_stack (removelast (c_stack c)) c) s)
      end)
  | PSetLoader lbl le =>                                              (* :205 *)
    with_lex env s (fun a c =>
      let '(l, lh) := eval_lexp lbl le c (lheap s) in
      ok (put_ctx a (set_loader l c) (with_lheap lh s)))
  | PDefine n v =>                                                    (* c.DefiningLoader().SetEntry(n, v): :66, loader.go:113 *)
    with_lex env s (fun a c =>
      match nth_error (lheap s) (c_loader c) with
      | None => raise s PFault
      | Some ld => match set_entry n v ld with
                   | Some ld' => ok (with_lheap (upd (c_loader c) ld' (lheap s)) s)
                   | None => raise s PRedefine
                   end
      end)
  | PObserve lbl =>
    {| r_sh := s; r_push := []; r_spawn := None; r_events := [observe g env lbl s]; r_panic := false |}
  | PPanic => raise s PUser
  | PGoexit => raise s PExit                                          (* the stack below: exit_stack, in step_g *)
  | PTry body => enter s [KSeq env body; KTry]
  | PDoLoader lbl le body =>                                          (* internal/context.go:90 *)
    with_lex env s (fun a c =>
      let '(l, lh) := eval_lexp lbl le c (lheap s) in
      enter (put_ctx a (set_loader l c) (with_lheap lh s)) [KSeq env body; KDefer [XLoader a (c_loader c)]])
  | PDoCtx lbl ce body =>                                             (* px/context.go:147 *)
    match ce with
    | CFork =>
      with_lex env s (fun a c =>
        let '(fc, lh) := fork_ctx lbl c (lheap s) in
        let '(fa, s1) := alloc_ctx fc (with_lheap lh s) in
        do_with_context g fa env body s1)
    | CNew =>                                                         (* pcore.NewContext(NewParentedLoader(base), logger) *)
      let '(l, lh) := new_loader lbl 0 (lheap s) in
      let '(na, s1) := alloc_ctx {| c_label := lbl; c_loader := l; c_stack := []; c_vars := [] |} (with_lheap lh s) in
      do_with_context g na env body s1
    | CUp k =>
      match nth_error env k with
      | Some a => do_with_context g a env body s
      | None => raise s PNoCtx
      end
    end
  | PDo lbl try body =>                                               (* internal/runtime.go:239 Do, :264 Try *)
    (* DoWithParent(context.Background(), ...): root context on the environment loader, made current *)
    let '(ra, s1) := alloc_ctx {| c_label := unknown_label; c_loader := 0; c_stack := []; c_vars := [] |} s in
    let '(t1, x1, fine1) := dwc_enter g ra (tls s1) in
    if negb fine1 then let '(s2, _) := run_dact g x1 (with_tls t1 s1) in raise s2 PNoTable else
    (* DoWithParent(root, actor): ec.Fork(), made current *)
    let '(fc, lh) := fork_ctx lbl {| c_label := unknown_label; c_loader := 0; c_stack := []; c_vars := [] |} (lheap s1) in
    let '(fa, s2) := alloc_ctx fc (with_lheap lh (with_tls t1 s1)) in
    let '(t2, x2, fine2) := dwc_enter g fa (tls s2) in
    if negb fine2 then let '(s3, _) := run_dacts g [x2; x1] (with_tls t2 s2) in raise s3 PNoTable else
    enter (with_tls t2 s2) ([KSeq (fa :: env) body; KDefer [x2; x1]] ++ (if try then [KTry] else []))
  | PFork lbl body =>                                                 (* px/context.go:174 *)
    with_lex env s (fun a c =>
      let '(fc, lh) := fork_ctx lbl c (lheap s) in
      let '(fa, s1) := alloc_ctx fc (with_lheap lh s) in
      spawn s1 [KStart (Some fa); KSeq [fa] body; KEnd true])
  | PGo lbl body =>                                                   (* px/context.go:188 Fork(CurrentContext(), f) *)
    match tl_get g (tls s) with
    | None => raise s PNoCurrent
    | Some a =>
      match nth_error (cheap s) a with
      | None => raise s PFault
      | Some c =>
        let '(fc, lh) := fork_ctx lbl c (lheap s) in
        let '(fa, s1) := alloc_ctx fc (with_lheap lh s) in
        spawn s1 [KStart (Some fa); KSeq [fa] body; KEnd true]
      end
    end
  | PTlGo body => spawn s [KStart None; KSeq [] body; KEnd true]     (* threadlocal/gid.go:75 *)
  end.

(* ---- control: normal completion and unwinding -------------------------------------------------------------------- *)

(* normal mode: finished bodies and recover points that were not needed are left silently *)
Fixpoint settle (K : list frame) : list frame :=
  match K with
  | KSeq _ [] :: K' => settle K'
  | KTry :: K' => settle K'
  | _ => K
  end.

(* panicking: bodies are abandoned; deferred functions run (each is a step); a recover point ends the panic.
   The goroutine epilogue recovers too (the harness' wrapper; an unrecovered panic would end the process). *)
Fixpoint unwind (K : list frame) : bool * list frame :=
  match K with
  | KSeq _ _ :: K' => unwind K'
  | KStart _ :: K' => unwind K'
  | KTry :: K' => (false, settle K')
  | KDefer _ :: _ => (true, K)
  | KEnd _ :: _ => (false, K)
  | [] => (true, [])
  end.

Definition resume (panicking : bool) (K : list frame) : bool * list frame :=
  if panicking then unwind K else (false, settle K).

(* runtime.Goexit (go1.x runtime/panic.go Goexit): the goroutine runs ALL its deferred functions and ends; recover()
   returns nil in them, so no recover point stops it, and the functions never return to their callers.  The model
   keeps the unwinding machinery of a panic and makes the recover points of the goroutine inert at the moment
   Goexit is called: they are removed from its stack (`notry`).  What remains stops the unwinding only at deferred
   functions (KDefer: one step each, as for a panic) and at the goroutine epilogue (KEnd: the deferred Cleanup of
   px.Fork / threadlocal.Go, px/context.go:177, gid.go:77). *)
Fixpoint notry (K : list frame) : list frame :=
  match K with
  | [] => []
  | KTry :: K' => notry K'
  | f :: K' => f :: notry K'
  end.

Definition is_goexit (p : prog) : bool := match p with PGoexit => true | _ => false end.
(* the frames below the statement p once p has been executed *)
Definition exit_stack (p : prog) (K : list frame) : list frame := if is_goexit p then notry K else K.

(* ---- one step of goroutine g ---------------------------------------------------------------------------------------- *)

(* result of a step of one goroutine: new shared state, its new state, a spawned goroutine *)
Definition step_g (g : gid) (s : shared) (st : gstate) : shared * gstate * option gstate :=
  match g_stack st with
  | [] => (s, st, None)
  | KSeq env (p :: ps) :: K =>
    let r := exec_stmt g env p s in
    let '(pn, K') := resume (r_panic r) (r_push r ++ KSeq env ps :: exit_stack p K) in
    (r_sh r,
     {| g_stack := K'; g_panic := pn; g_trace := rev (r_events r) ++ g_trace st |},
     match r_spawn r with
     | Some fs => Some {| g_stack := fs; g_panic := false; g_trace := [] |}
     | None => None
     end)
  | KSeq _ [] :: K | KTry :: K =>          (* not reachable: `resume` never leaves these on top *)
    let '(pn, K') := resume (g_panic st) K in
    (s, {| g_stack := K'; g_panic := pn; g_trace := g_trace st |}, None)
  | KDefer xs :: K =>
    let '(s1, evs) := run_dacts g xs s in
    let panicking := g_panic st || negb (match evs with [] => true | _ => false end) in
    let '(pn, K') := resume panicking K in
    (s1, {| g_stack := K'; g_panic := pn; g_trace := rev evs ++ g_trace st |}, None)
  | KStart cfo :: K =>                     (* px/context.go:178 threadlocal.Init(); Set(key, cf) *)
    let t1 := tl_init g (tls s) in
    match cfo with
    | None => let '(pn, K') := resume false K in
              (with_tls t1 s, {| g_stack := K'; g_panic := pn; g_trace := g_trace st |}, None)
    | Some cf =>
      match tl_set g cf t1 with
      | Some t2 => let '(pn, K') := resume false K in
                   (with_tls t2 s, {| g_stack := K'; g_panic := pn; g_trace := g_trace st |}, None)
      | None => let '(pn, K') := resume true K in
                (with_tls t1 s, {| g_stack := K'; g_panic := pn; g_trace := EPanic PNoTable :: g_trace st |}, None)
      end
    end
  | KEnd cleanup :: K =>                   (* px/context.go:177 defer threadlocal.Cleanup() *)
    let s1 := if cleanup then with_tls (tl_cleanup g (tls s)) s else s in
    (s1, {| g_stack := K; g_panic := false; g_trace := EEnd :: g_trace st |}, None)
  end.

Definition step (g : gid) (c : config) : config :=
  match nth_error (gs c) g with
  | None => c
  | Some st =>
    let '(s1, st1, sp) := step_g g (sh c) st in
    match sp with
    | None => {| sh := s1; gs := upd g st1 (gs c) |}
    | Some child =>     (* the new goroutine gets the next id; it has no table yet *)
      {| sh := with_tls (tls s1 ++ [None]) s1; gs := upd g st1 (gs c) ++ [child] |}
    end
  end.

Definition run (sched : list gid) (c : config) : config := fold_left (fun c g => step g c) sched c.

(* ---- initial configuration: root goroutines started with a plain `go` (no table, no context) ---------------------- *)

Definition base_loader : ldr := {| l_label := 0%N; l_parent := None; l_ents := [] |}.

Definition root_gstate (ps : list prog) : gstate :=
  {| g_stack := settle [KSeq [] ps; KEnd false]; g_panic := false; g_trace := [] |}.

Definition init_config (roots : list (list prog)) : config :=
  {| sh := {| tls := map (fun _ => None) roots; cheap := []; lheap := [base_loader] |};
     gs := map root_gstate roots |}.

Definition traces (c : config) : list (list event) := map (fun st => rev (g_trace st)) (gs c).
Definition finished (c : config) : bool := forallb (fun st => match g_stack st with [] => true | _ => false end) (gs c).

(* ---- decidable equality of events (for the correspondence) ---------------------------------------------------------- *)

Definition pcls_eqb (a b : pcls) : bool :=
  match a, b with
  | PUser, PUser | PNoCtx, PNoCtx | PNoCurrent, PNoCurrent | PRedefine, PRedefine
  | PFault, PFault | PNoTable, PNoTable | POther, POther | PExit, PExit => true
  | _, _ => false
  end.
Definition lres_eqb (a b : lres) : bool :=
  match a, b with
  | LFound x, LFound y => Z.eqb x y
  | LMissing, LMissing | LOutOfFuel, LOutOfFuel => true
  | _, _ => false
  end.
Definition lexobs_eqb (a b : lexobs) : bool :=
  N.eqb (lo_ctx a) (lo_ctx b) && N.eqb (lo_loader a) (lo_loader b) &&
  list_eqb (option_eqb Z.eqb) (lo_vars a) (lo_vars b) && list_eqb N.eqb (lo_stack a) (lo_stack b) &&
  list_eqb lres_eqb (lo_loads a) (lo_loads b).
Definition event_eqb (a b : event) : bool :=
  match a, b with
  | EObs l c x, EObs l' c' x' => N.eqb l l' && option_eqb N.eqb c c' && option_eqb lexobs_eqb x x'
  | EPanic c, EPanic c' => pcls_eqb c c'
  | EEnd, EEnd => true
  | _, _ => false
  end.
