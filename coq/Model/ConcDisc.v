(* C13 - Discover with a predicate that asks the loader it is discovering, next to goroutines that define names.

   Go code mirrored (loader/loader.go, tree after the hook commit 1272915):
     basicLoader.Discover :90, boundKeys :104 (one RLock section: the bound keys are copied, the lock is released),
     parentedLoader.Discover :176 (the parent's Discover first; then its own keys, those that the parent has
     by then are left out; the predicate is called for the others), basicLoader.SetEntry :133 (Lock),
     basicLoader/parentedLoader.HasEntry :125, :194.
   Loaders that are not file based (the Discover of a file based loader walks its index: not modelled).

   The predicate is user code.  `ask = true`: for a name of its interest (`ns`) it asks the loader that is being
   discovered about the name it is offered (HasEntry / LoadEntry / px.Load: for a name that is offered all three read
   the chain of l under the read locks and answer "bound"); the harness parks the goroutine inside the predicate,
   right before that question (yield point "discover.callback").  `ask = false`: it looks at the name only.

   A segment: from the start of the operation, or from a parked predicate, to the next parked predicate or the end.

   The lock basicLoader.lock is a sync.RWMutex: a writer that waits keeps later readers out, also readers that
   already hold the lock once more.  Who holds and who waits is a function of where the threads are parked:
   * dmode CbOutside - the code: the predicate runs with no lock held (boundKeys has released it), so a parked
     thread holds nothing, no writer ever has to wait, and nobody is ever kept out;
   * dmode CbUnderLock - the variant that iterates the map and calls the predicate inside the read lock (seeded
     change C13-m5): a thread parked in the predicate of level d holds the read lock of d; a Define of d then waits
     (DWaitW), and the question of the predicate waits for that writer: ConcDiscProofs.callback_under_lock_deadlocks. *)
From Coq Require Import NArith Arith Bool List.
From PcoreV Require Import Model.Conc.
Import ListNotations.

Inductive dmode := CbOutside | CbUnderLock.

Inductive dop :=
| DDiscover (l : lid) (ask : bool) (ns : list key)   (* l.Discover(c, predicate) *)
| DDefine (l : lid) (n : key) (v : val)              (* l.SetEntry(n, NewLoaderEntry(v)) *)
| DHas (l : lid) (n : key).                          (* l.HasEntry(n) *)

Inductive dres :=
| DNames (ks : list key)      (* the names of ns that Discover returned (in the order in which they were accepted) *)
| DDefined (v : val)
| DBool (b : bool)
| DErr                        (* panic AttemptToRedefine *)
| DFault.

Inductive dpc :=
| DIdle
| DWaitW (l : lid) (n : key) (v : val)     (* inside l.lock.Lock() of SetEntry: readers hold the lock *)
| DCb (l : lid) (ns : list key) (d : lid) (k : key) (pend : list key) (rest : list lid) (found : list key).
     (* parked in the predicate, which level d called with name k; pend: the keys of d's copy still to come;
        rest: the levels below d; found: accepted so far *)

Record dthread := mkDT { d_pc : dpc; d_todo : list dop }.
Inductive devent := DEv (t : tid) (o : dop) (r : dres).
Record dstate := mkDSt { ds_sh : shared; ds_thr : tid -> dthread; ds_log : list devent }.

Definition dprog := list (list dop).

(* ---- reading the loaders ------------------------------------------------------------------------------------ *)

Definition bound (sh : shared) (d : lid) (k : key) : bool :=
  match get sh d k with RdVal _ => true | _ => false end.
(* l.parent.HasEntry(k) as level d asks it (loader.go:181); the static loader has no parent *)
Definition anc_has (cfg : config) (sh : shared) (d : lid) (k : key) : bool :=
  existsb (fun a => bound sh a k) (removelast (chain cfg d)).
(* what the predicate, and HasEntry, learn about k from loader l *)
Definition chain_has (cfg : config) (sh : shared) (l : lid) (k : key) : bool :=
  existsb (fun a => bound sh a k) (chain cfg l).

(* the loop over the copied keys of level d (loader.go:179-187): up to the first call of a predicate that parks *)
Fixpoint offer (cfg : config) (sh : shared) (askb : bool) (d : lid) (pend found : list key)
  : option (key * list key) * list key :=
  match pend with
  | [] => (None, found)
  | k :: p => if anc_has cfg sh d k then offer cfg sh askb d p found
              else if askb then (Some (k, p), found)
              else offer cfg sh askb d p (found ++ [k])
  end.

(* the levels still to come, outermost first: each copies its bound keys (boundKeys: those of ns matter) *)
Fixpoint levels (cfg : config) (sh : shared) (askb : bool) (ns : list key) (rest : list lid) (found : list key)
  : option (lid * key * list key * list lid) * list key :=
  match rest with
  | [] => (None, found)
  | d :: rest' =>
      match offer cfg sh askb d (filter (bound sh d) ns) found with
      | (Some (k, p), f) => (Some (d, k, p, rest'), f)
      | (None, f) => levels cfg sh askb ns rest' f
      end
  end.

Definition disc_go (t : tid) (l : lid) (askb : bool) (ns : list key)
  (r : option (lid * key * list key * list lid) * list key) : dpc * list devent :=
  match r with
  | (Some (d, k, p, rest), f) => (DCb l ns d k p rest f, [])
  | (None, f) => (DIdle, [DEv t (DDiscover l askb ns) (DNames f)])
  end.

Definition define_res (r : option entry) : dres :=
  match r with
  | Some (Some v) => DDefined v
  | Some None => DFault
  | None => DErr
  end.

(* ---- the read/write locks of the loaders, as a function of where the threads are ------------------------------ *)

Definition reads_lock (m : dmode) (p : dpc) (d : lid) : bool :=
  match m with
  | CbOutside => false
  | CbUnderLock => match p with DCb _ _ d' _ _ _ _ => Nat.eqb d' d | _ => false end
  end.
Definition waits_lock (p : dpc) (d : lid) : bool :=
  match p with DWaitW l _ _ => Nat.eqb l d | _ => false end.

Definition others (nt : nat) (t : tid) : list tid := filter (fun u => negb (Nat.eqb u t)) (seq 0 nt).

(* another thread holds the read lock of d: Lock() has to wait *)
Definition read_held (m : dmode) (thr : tid -> dthread) (nt : nat) (t : tid) (d : lid) : bool :=
  existsb (fun u => reads_lock m (d_pc (thr u)) d) (others nt t).
(* another thread waits inside Lock() of d: RLock() has to wait *)
Definition writer_waits (thr : tid -> dthread) (nt : nat) (t : tid) (d : lid) : bool :=
  existsb (fun u => waits_lock (d_pc (thr u)) d) (others nt t).
(* thread t gets the read locks of the chain of l *)
Definition can_read (cfg : config) (thr : tid -> dthread) (nt : nat) (t : tid) (l : lid) : bool :=
  negb (existsb (writer_waits thr nt t) (chain cfg l)).

(* ---- steps -------------------------------------------------------------------------------------------------- *)

Definition dmove (st : dstate) (t : tid) (sh' : shared) (p' : dpc) (todo' : list dop) (evs : list devent) : dstate :=
  mkDSt sh' (upd1 (ds_thr st) t (mkDT p' todo')) (ds_log st ++ evs).

Definition do_define (st : dstate) (t : tid) (l : lid) (n : key) (v : val) (todo' : list dop) : dstate :=
  let '(sh', r) := set_entry (ds_sh st) l n (Some v) in
  dmove st t sh' DIdle todo' [DEv t (DDefine l n v) (define_res r)].

Definition dstep (m : dmode) (cfg : config) (nt : nat) (st : dstate) (t : tid) : dstate :=
  let th := ds_thr st t in
  let sh := ds_sh st in
  match d_pc th with
  | DIdle =>
      match d_todo th with
      | [] => st
      | DDiscover l askb ns :: todo =>
          if can_read cfg (ds_thr st) nt t l then
            let '(p', evs) := disc_go t l askb ns (levels cfg sh askb ns (chain cfg l) []) in
            dmove st t sh p' todo evs
          else st
      | DDefine l n v :: todo =>
          if read_held m (ds_thr st) nt t l then dmove st t sh (DWaitW l n v) todo []
          else do_define st t l n v todo
      | DHas l n :: todo =>
          if can_read cfg (ds_thr st) nt t l
          then dmove st t sh DIdle todo [DEv t (DHas l n) (DBool (chain_has cfg sh l n))]
          else st
      end
  | DWaitW l n v =>
      if read_held m (ds_thr st) nt t l then st else do_define st t l n v (d_todo th)
  | DCb l ns d k pend rest found =>
      if can_read cfg (ds_thr st) nt t l then
        let found' := if chain_has cfg sh l k then found ++ [k] else found in
        let r := match offer cfg sh true d pend found' with
                 | (Some (k', p'), f) => (Some (d, k', p', rest), f)
                 | (None, f) => levels cfg sh true ns rest f
                 end in
        let '(p', evs) := disc_go t l true ns r in
        dmove st t sh p' (d_todo th) evs
      else st
  end.

Definition dinit (p : dprog) : dstate :=
  mkDSt init_shared (fun t => mkDT DIdle (nth t p [])) [].

Definition dexec (m : dmode) (cfg : config) (p : dprog) (s : sched) : dstate :=
  fold_left (dstep m cfg (length p)) s (dinit p).

Definition denabled (m : dmode) (cfg : config) (nt : nat) (st : dstate) (t : tid) : bool :=
  let th := ds_thr st t in
  match d_pc th with
  | DIdle =>
      match d_todo th with
      | [] => false
      | DDiscover l _ _ :: _ => can_read cfg (ds_thr st) nt t l
      | DDefine _ _ _ :: _ => true
      | DHas l _ :: _ => can_read cfg (ds_thr st) nt t l
      end
  | DWaitW l _ _ => negb (read_held m (ds_thr st) nt t l)
  | DCb l _ _ _ _ _ _ => can_read cfg (ds_thr st) nt t l
  end.

Definition ddone (th : dthread) : bool :=
  match d_pc th, d_todo th with DIdle, [] => true | _, _ => false end.

Fixpoint dall_done (st : dstate) (k : nat) : bool :=
  match k with
  | 0 => true
  | S k' => ddone (ds_thr st k') && dall_done st k'
  end.

Fixpoint dresults_of (t : tid) (log : list devent) : list dres :=
  match log with
  | [] => []
  | DEv t' _ r :: log' => if Nat.eqb t' t then r :: dresults_of t log' else dresults_of t log'
  end.
