(* Parser.v — model of types/parser.go (ParseFile and the recursive descent below it) over the token stream of
   Model/Lexer.v, with the collector of types/basiccollector.go as an explicit stack, as the code is after the fix:
   commits 230c872, ac76485, fcae60e, 0e012d2.

   Definitions only.  One Gallina function per Go method, same order of tests, Go file:line in the comment.
   Result: POk v | PErr line col (the PARSE_ERROR that the deferred recover of ParseFile, parser.go:96-103, makes of
   every panic(error), located by parser.location, parser.go:146-152) | PFault (a Go runtime fault: index out of
   range, slice bounds, failed type assertion, nil dereference — raw or wrapped) | POutOfFuel.

   Every implicit fault site of parser.go / basiccollector.go is an explicit PFault branch:
     hm.stack[top] with an empty stack, hm.values[:len-1] with no values, hm.stack[0][0] with an empty bottom
     frame, st[i+1] with an odd number of values in a hash frame (basiccollector.go), d.PopLast().(ptr Array)
     (parser.go:230,275,402,416).
   Oracles (arguments): pf = strconv.ParseFloat(text, 64) as Some bits / None (range error);
     rx = regexp.Compile(text) succeeds.  strconv.ParseInt(text, 0, 64) is modelled (parse_int) on the token shapes
     the lexer produces. *)
From Coq Require Import ZArith NArith Bool List.
From PcoreV Require Import Model.Base Model.Lexer.
Import ListNotations.
Open Scope Z_scope.

(* px.Value as built by the parser *)
Inductive pv :=
  | PNil                                        (* a nil px.Value (PopLast on an empty frame) *)
  | PUndef | PDefault
  | PBool (b : bool)
  | PInt (z : Z)
  | PFloat (bits : Z)                           (* IEEE-754 bits *)
  | PStr (s : str)
  | PRegexp (s : str)
  | PType (name : str) (params : option (list pv))     (* *DeferredType{tn, params} *)
  | PCall (name : str) (args : list pv)                (* *deferred (NewDeferred) *)
  | PEntry (k v : pv)                                  (* *HashEntry *)
  | PArr (l : list pv)
  | PHash (es : list (pv * pv))
  | PNamed (name : str) (kind : nat).                  (* NamedType: 0 alias, 1 object, 2 type set *)

Fixpoint pv_eqb (a b : pv) {struct a} : bool :=
  let fix l_eqb (x y : list pv) {struct x} : bool :=
    match x, y with
    | [], [] => true
    | p :: x', q :: y' => pv_eqb p q && l_eqb x' y'
    | _, _ => false
    end in
  let fix e_eqb (x y : list (pv * pv)) {struct x} : bool :=
    match x, y with
    | [], [] => true
    | (k, v) :: x', (k', v') :: y' => pv_eqb k k' && pv_eqb v v' && e_eqb x' y'
    | _, _ => false
    end in
  match a, b with
  | PNil, PNil | PUndef, PUndef | PDefault, PDefault => true
  | PBool x, PBool y => Bool.eqb x y
  | PInt x, PInt y => Z.eqb x y
  | PFloat x, PFloat y => Z.eqb x y
  | PStr x, PStr y => str_eqb x y
  | PRegexp x, PRegexp y => str_eqb x y
  | PType n None, PType m None => str_eqb n m
  | PType n (Some x), PType m (Some y) => str_eqb n m && l_eqb x y
  | PCall n x, PCall m y => str_eqb n m && l_eqb x y
  | PEntry k v, PEntry k' v' => pv_eqb k k' && pv_eqb v v'
  | PArr x, PArr y => l_eqb x y
  | PHash x, PHash y => e_eqb x y
  | PNamed n k, PNamed m j => str_eqb n m && Nat.eqb k j
  | _, _ => false
  end.

Inductive pres (A : Type) :=
  | POk (a : A)
  | PErr (line col : Z)
  | PFault
  | POutOfFuel.
Arguments POk {A} a.
Arguments PErr {A} line col.
Arguments PFault {A}.
Arguments POutOfFuel {A}.

Definition pbind {A B} (r : pres A) (f : A -> pres B) : pres B :=
  match r with
  | POk a => f a
  | PErr l c => PErr l c
  | PFault => PFault
  | POutOfFuel => POutOfFuel
  end.
Notation "'do' x <- e ; k" := (pbind e (fun x => k)) (at level 200, x pattern, e at level 100, k at level 200).

(* parser{d, sr, v, lt} (parser.go:136-141) with the collector BasicCollector{values, stack} (basiccollector.go:6-9):
   ps_toks/ps_end: what is left of the token stream (the reader);
   ps_coll: hm.stack, top frame first, every frame with its last added value first; ps_nvals: len(hm.values);
   ps_v: the name of p.v; ps_lt: p.lt *)
Record pstate := mkPstate {
  ps_toks : list ptok; ps_end : lex_end;
  ps_coll : list (list pv); ps_nvals : nat;
  ps_v : option str; ps_lt : option ptok }.

Definition set_coll (st : pstate) (c : list (list pv)) (n : nat) : pstate :=
  mkPstate (ps_toks st) (ps_end st) c n (ps_v st) (ps_lt st).
Definition set_v (st : pstate) (v : option str) : pstate :=
  mkPstate (ps_toks st) (ps_end st) (ps_coll st) (ps_nvals st) v (ps_lt st).

(* parser.location, parser.go:146-152: the reader's line, and its column minus the length in characters of the
   last token.  lt is nil outside nextToken only before the first token, where the reader stands at (1, 0). *)
Definition location (st : pstate) : Z * Z :=
  match ps_lt st with
  | Some t => (pt_line t, pt_col t - rune_count (pt_text t))
  | None => (1, 0)
  end.

(* panic(error) anywhere below ParseFile outside the lexer: recovered and reported at location *)
Definition perr {A} (st : pstate) : pres A := let '(l, c) := location st in PErr l c.

(* parser.nextToken, parser.go:154-159.  A panic of the lexer leaves lt nil: the location is the reader's.
   The stream stops at the first end token; reading on is outside this model (POutOfFuel) — parse_total shows
   that the parser never does. *)
Definition p_next (st : pstate) : pres (ptok * pstate) :=
  match ps_toks st with
  | t :: ts => POk (t, mkPstate ts (ps_end st) (ps_coll st) (ps_nvals st) (ps_v st) (Some t))
  | [] =>
    match ps_end st with
    | ELexErr l c => PErr l c
    | ELexFault => PFault
    | ELexOutOfFuel => POutOfFuel
    | EEnd => POutOfFuel
    end
  end.

(* ------------------------------------------------------------------------------------------------ *)
(* types/basiccollector.go *)

(* Add, basiccollector.go:54-58 *)
Definition c_add (v : pv) (st : pstate) : pres pstate :=
  match ps_coll st with
  | [] => PFault                                              (* hm.stack[top], top = -1 *)
  | fr :: rest => POk (set_coll st ((v :: fr) :: rest) (S (ps_nvals st)))
  end.

(* PopLast, basiccollector.go:73-84: nil when the top frame is empty *)
Definition c_pop (st : pstate) : pres (pv * pstate) :=
  match ps_coll st with
  | [] => PFault                                              (* hm.stack[top], top = -1 *)
  | [] :: _ => POk (PNil, st)
  | (v :: fr) :: rest =>
    match ps_nvals st with
    | O => PFault                                             (* hm.values[:len(hm.values)-1] *)
    | S n => POk (v, set_coll st (fr :: rest) n)
    end
  end.

(* AddArray / AddHash up to the call of doer (basiccollector.go:26-29, 38-41): the new collection is added to the
   current frame (its content is filled in afterwards, see c_end_array and c_end_hash) and a new frame is pushed *)
Definition c_begin (st : pstate) : pres pstate :=
  match ps_coll st with
  | [] => PFault
  | _ => POk (set_coll st ([] :: ps_coll st) (S (ps_nvals st)))
  end.

(* AddArray after doer (basiccollector.go:31-33): the frame becomes the elements of the array that was added to the
   frame below.  (The frame below is not touched while doer runs: Add and PopLast work on the top frame only.) *)
Definition c_end_array (st : pstate) : pres pstate :=
  match ps_coll st with
  | fr :: parent :: rest => POk (set_coll st ((PArr (rev fr) :: parent) :: rest) (ps_nvals st))
  | _ => PFault                                               (* hm.stack[top] *)
  end.

Inductive he_res := HEOk (es : list (pv * pv)) | HEErr | HEFault.

(* WrapHashEntry, hashtype.go:379-387: a nil key or value is an error (issue NilHashKey / NilHashValue) *)
Definition wrap_entry_ok (k v : pv) : bool :=
  match k, v with
  | PNil, _ => false
  | _, PNil => false
  | _, _ => true
  end.

(* the loop of AddHash, basiccollector.go:47-50, over the frame in order of addition *)
Fixpoint hash_entries (l : list pv) : he_res :=
  match l with
  | [] => HEOk []
  | [_] => HEFault                                            (* st[i+1] *)
  | k :: v :: t =>
    if wrap_entry_ok k v then
      match hash_entries t with
      | HEOk es => HEOk ((k, v) :: es)
      | r => r
      end
    else HEErr
  end.

(* AddHash after doer, basiccollector.go:43-51 *)
Definition c_end_hash (st : pstate) : pres pstate :=
  match ps_coll st with
  | fr :: parent :: rest =>
    match hash_entries (rev fr) with
    | HEOk es => POk (set_coll st ((PHash es :: parent) :: rest) (ps_nvals st))
    | HEErr => perr st
    | HEFault => PFault
    end
  | _ => PFault
  end.

(* Value, basiccollector.go:90-92: hm.stack[0][0] *)
Definition c_value (st : pstate) : pres pv :=
  match rev (ps_coll st) with
  | [] => PFault
  | bottom :: _ =>
    match rev bottom with
    | [] => PFault
    | v :: _ => POk v
    end
  end.

(* ------------------------------------------------------------------------------------------------ *)
(* strconv.ParseInt(s, 0, 64) on the integer tokens of the lexer: [+-] digits | [+-] 0 [xX] hexdigits *)

Fixpoint digits_val (base : Z) (ds : list N) (acc : Z) : option Z :=
  match ds with
  | [] => Some acc
  | d :: t =>
    let v := if is_digit d then Z.of_N d - 48
             else if in_rng 97 102 d then Z.of_N d - 87
             else if in_rng 65 70 d then Z.of_N d - 55 else 99 in
    if v <? base then digits_val base t (acc * base + v) else None
  end.

Definition parse_uint (s : str) : option Z :=
  match s with
  | [] => None
  | 48%N :: x :: d :: t =>
    if (N.eqb x 120 || N.eqb x 88)%bool then digits_val 16 (d :: t) 0      (* 0x / 0X *)
    else digits_val 8 (x :: d :: t) 0
  | 48%N :: t => digits_val 8 t 0
  | _ => digits_val 10 s 0
  end.

Definition parse_int (s : str) : option Z :=
  let '(neg, body) := match s with
                      | 43%N :: t => (false, t)
                      | 45%N :: t => (true, t)
                      | _ => (false, s)
                      end in
  match parse_uint body with
  | None => None
  | Some u =>
    if neg then (if u <=? 9223372036854775808 then Some (- u) else None)
    else (if u <=? 9223372036854775807 then Some u else None)
  end.

(* ------------------------------------------------------------------------------------------------ *)
(* types/parser.go *)

Definition s_true : str := [116; 114; 117; 101]%N.
Definition s_false : str := [102; 97; 108; 115; 101]%N.
Definition s_default : str := [100; 101; 102; 97; 117; 108; 116]%N.
Definition s_undef : str := [117; 110; 100; 101; 102]%N.
Definition s_type : str := [116; 121; 112; 101]%N.
Definition s_new : str := [110; 101; 119]%N.
Definition s_Deferred : str := [68; 101; 102; 101; 114; 114; 101; 100]%N.
Definition s_Struct : str := [83; 116; 114; 117; 99; 116]%N.
Definition s_TypeSet : str := [84; 121; 112; 101; 83; 101; 116]%N.

Definition is_kind (t : ptok) (k : tkind) : bool := tkind_eqb (pt_kind t) k.

(* convertHashEntries, parser.go:364-387: consecutive hash entries of an array become one hash *)
Fixpoint convert_hash_entries (l : list pv) (en : option (list (pv * pv))) : list pv :=
  match l with
  | [] => match en with Some es => [PHash (rev es)] | None => [] end
  | PEntry k v :: t =>
    convert_hash_entries t (Some ((k, v) :: match en with Some es => es | None => [] end))
  | x :: t =>
    match en with
    | Some es => PHash (rev es) :: x :: convert_hash_entries t None
    | None => x :: convert_hash_entries t None
    end
  end.

Definition is_nil (v : pv) : bool := match v with PNil => true | _ => false end.

Section WithOracles.
  Variable pf : str -> option Z.       (* strconv.ParseFloat(text, 64): bits, None = error *)
  Variable rx : str -> bool.           (* regexp.Compile(text) succeeds *)

  (* element (parser.go:317-360), hash (279-315), array and params (190-277; they differ in the closing token
     only), handleTypeArgs (391-440), mutually recursive; every call passes the fuel's predecessor *)
  Fixpoint element (n : nat) (st : pstate) (t : ptok) {struct n} : pres (option ptok * pstate) :=
    match n with
    | O => POutOfFuel
    | S n' =>
      match pt_kind t with
      | TLBrace => do s <- hash n' st; POk (None, s)
      | TLBracket => do s <- array n' TRBracket st; POk (None, s)
      | TLParen => do s <- array n' TRParen st; POk (None, s)
      | TInteger =>
        match parse_int (pt_text t) with
        | Some i => do s <- c_add (PInt i) st; POk (None, s)
        | None => perr st                                                    (* panic(err) *)
        end
      | TFloat =>
        match pf (pt_text t) with
        | Some b => do s <- c_add (PFloat b) st; POk (None, s)
        | None => perr st
        end
      | TIdent =>
        let v := if str_eqb (pt_text t) s_true then PBool true
                 else if str_eqb (pt_text t) s_false then PBool false
                 else if str_eqb (pt_text t) s_default then PDefault
                 else if str_eqb (pt_text t) s_undef then PUndef
                 else PStr (pt_text t) in
        do s <- c_add v st; POk (None, s)
      | TString => do s <- c_add (PStr (pt_text t)) st; POk (None, s)
      | TRegexp =>
        if rx (pt_text t) then do s <- c_add (PRegexp (pt_text t)) st; POk (None, s)
        else perr st                                                         (* WrapRegexp panics with an issue *)
      | TName => POk (None, set_v st (Some (pt_text t)))                     (* p.v = &DeferredType{tn: t.s} *)
      | _ => POk (Some t, st)
      end
    end

  with hash (n : nat) (st : pstate) {struct n} : pres pstate :=
    match n with
    | O => POutOfFuel
    | S n' =>
      do st1 <- c_begin st;
      do st2 <- hash_loop n' st1;
      c_end_hash st2
    end

  (* the `for` of hash, parser.go:282-313 *)
  with hash_loop (n : nat) (st : pstate) {struct n} : pres pstate :=
    match n with
    | O => POutOfFuel
    | S n' =>
      do (t, st1) <- p_next st;
      do (tk, st2) <- element n' st1 t;
      match tk with
      | Some tk => if is_kind tk TRBrace then POk st2 else perr st2            (* exHashFirst *)
      | None =>
        do (tk, st3) <- handle_type_args n' st2;
        if negb (is_kind tk TRocket) then perr st3                            (* exRocket *)
        else
          do (t2, st4) <- p_next st3;
          do (tk2, st5) <- element n' st4 t2;
          match tk2 with
          | Some _ => perr st5                                                (* exValue *)
          | None =>
            do (tk3, st6) <- handle_type_args n' st5;
            if is_kind tk3 TRBrace then POk st6
            else if is_kind tk3 TComma then hash_loop n' st6
            else perr st6                                                     (* exHashComma *)
          end
      end
    end

  (* array, parser.go:190-232 and params, parser.go:235-277 *)
  with array (n : nat) (close : tkind) (st : pstate) {struct n} : pres pstate :=
    match n with
    | O => POutOfFuel
    | S n' =>
      do st1 <- c_begin st;
      do (st2, array_hash) <- array_loop n' close st1 PNil false;
      do st3 <- c_end_array st2;
      if array_hash : bool then
        do (v, st4) <- c_pop st3;
        match v with
        | PArr l => c_add (PArr (convert_hash_entries l None)) st4
        | _ => PFault                                                         (* d.PopLast().(ptr Array) *)
        end
      else POk st3
    end

  (* the `for` of array / params, parser.go:196-225 / 241-270; rock_lhs = PNil is the nil interface *)
  with array_loop (n : nat) (close : tkind) (st : pstate) (rock_lhs : pv) (array_hash : bool) {struct n}
    : pres (pstate * bool) :=
    match n with
    | O => POutOfFuel
    | S n' =>
      do (t, st1) <- p_next st;
      do (tk, st2) <- element n' st1 t;
      match tk with
      | Some tk => if is_kind tk close then POk (st2, array_hash) else perr st2    (* exListFirst / exParamsFirst *)
      | None =>
        do (tk, st3) <- handle_type_args n' st2;
        do (st4, array_hash') <-
          (if is_nil rock_lhs then POk (st3, array_hash)
           else
             do (v, s) <- c_pop st3;
             if wrap_entry_ok rock_lhs v then do s' <- c_add (PEntry rock_lhs v) s; POk (s', true)
             else perr s);
        if is_kind tk close then POk (st4, array_hash')
        else if is_kind tk TComma then array_loop n' close st4 PNil array_hash'
        else if is_kind tk TRocket then
          do (v, st5) <- c_pop st4; array_loop n' close st5 v array_hash'
        else perr st4                                                          (* exListComma / exParamsComma *)
      end
    end

  (* handleTypeArgs, parser.go:391-440 *)
  with handle_type_args (n : nat) (st : pstate) {struct n} : pres (ptok * pstate) :=
    match n with
    | O => POutOfFuel
    | S n' =>
      do (tk, st1) <- p_next st;
      match ps_v st1 with
      | None => POk (tk, st1)
      | Some tn =>
        let st2 := set_v st1 None in
        match pt_kind tk with
        | TLBracket =>
          do st3 <- array n' TRBracket st2;
          do (v, st4) <- c_pop st3;
          match v with
          | PArr [] => perr st4                                  (* an empty type parameter list is not permitted *)
          | PArr ll => do st5 <- c_add (PType tn (Some ll)) st4; p_next st5
          | _ => PFault                                          (* p.d.PopLast().(ptr Array) *)
          end
        | TLBrace =>
          do st3 <- hash n' st2;
          do (v, st4) <- c_pop st3;
          do st5 <- c_add (PType tn (Some [v])) st4; p_next st5
        | TLParen =>
          do st3 <- array n' TRParen st2;
          do (v, st4) <- c_pop st3;
          match v with
          | PArr ll =>
            if negb (str_eqb tn s_Deferred) then
              do st5 <- c_add (PCall s_new (PStr tn :: ll)) st4; p_next st5
            else
              match ll with
              | [] => perr st4                                   (* Deferred() *)
              | PStr nm :: args => do st5 <- c_add (PCall nm args) st4; p_next st5
              | _ => perr st4                                    (* the name is not a string *)
              end
          | _ => PFault                                          (* p.d.PopLast().(ptr Array) *)
          end
        | _ => do st3 <- c_add (PType tn None) st2; POk (tk, st3)
        end
      end
    end.

  (* parser.parse, parser.go:161-188 *)
  Definition parse (n : nat) (st : pstate) (t : ptok) : pres pstate :=
    do (tk, st1) <- element n st t;
    match tk with
    | Some tk => if negb (is_kind tk TEnd) then perr st1 else c_add PUndef st1       (* exListComma *)
    | None =>
      do (tk, st2) <- handle_type_args n st1;
      do (tk', st') <-
        (if is_kind tk TRocket then
           (* top level x => y is a singleton hash *)
           do (key, st3) <- c_pop st2;
           do (t2, st4) <- p_next st3;
           do (tk2, st5) <- element n st4 t2;
           match tk2 with
           | None =>
             do (tk3, st6) <- handle_type_args n st5;
             if is_kind tk3 TEnd then
               do (v, st7) <- c_pop st6;
               if wrap_entry_ok key v then do st8 <- c_add (PHash [(key, v)]) st7; POk (tk3, st8)
               else perr st7                                                         (* singleMap: WrapHashEntry *)
             else POk (tk3, st6)
           | Some _ => perr st5                                                      (* exValue *)
           end
         else POk (tk, st2));
      if negb (is_kind tk' TEnd) then perr st' else POk st'                          (* exEnd *)
    end.

  (* NamedType, types.go:914-941 *)
  Definition named_type (name : str) (v : pv) : option pv :=
    match v with
    | PType tn ps =>
      match ps with
      | Some [PHash _] =>
        if str_eqb tn s_Struct then Some (PNamed name 0)
        else if str_eqb tn s_TypeSet then Some (PNamed name 2)
        else Some (PNamed name 1)
      | _ => Some (PNamed name 0)
      end
    | PHash _ => Some (PNamed name 1)
    | _ => None
    end.

  Definition init_state (toks : list ptok) (e : lex_end) : pstate :=
    mkPstate toks e [[]] 0 None None.                       (* NewCollector: one empty frame; p.v, p.lt nil *)

  (* ParseFile, parser.go:91-134 *)
  Definition parse_file (n : nat) (toks : list ptok) (e : lex_end) : pres pv :=
    let finish (tn : option str) (st : pstate) : pres pv :=
      do dv <- c_value st;
      match tn with
      | None => POk dv
      | Some name => match named_type name dv with Some ty => POk ty | None => perr st end
      end in
    do (t, st1) <- p_next (init_state toks e);
    if (is_kind t TIdent && str_eqb (pt_text t) s_type)%bool then
      do (t2, st2) <- p_next st1;
      match pt_kind t2 with
      | TName =>
        do (t3, st3) <- p_next st2;
        if negb (is_kind t3 TEqual) then perr st3                                    (* exEqual *)
        else do (t4, st4) <- p_next st3; do st5 <- parse n st4 t4; finish (Some (pt_text t2)) st5
      | TRocket =>
        (* type => <something> as top level expression *)
        do (t3, st3) <- p_next st2;
        do st4 <- parse n st3 t3;
        do (v, st5) <- c_pop st4;
        if is_nil v then perr st5                                                    (* WrapHashEntry2 *)
        else do st6 <- c_add (PHash [(PStr s_type, v)]) st5; finish None st6
      | _ => perr st2                                                                (* exName *)
      end
    else do st2 <- parse n st1 t; finish None st2.

  (* the fuel that suffices for every token stream (Proofs/ParserProofs.v) *)
  Definition parse_fuel (toks : list ptok) : nat := (4 * length toks + 8)%nat.

  (* types.Parse on a byte string *)
  Definition parse_string (ol : N -> bool) (s : str) : pres pv :=
    let '(toks, e) := lex ol s in parse_file (parse_fuel toks) toks e.
End WithOracles.
