(* LoaderSpec.v — the abstract specification of property C12, written from the property statement:
     * every loader owns a WRITE-ONCE partial map from canonical (lower-cased) key to value — there are
       no cached misses, no placeholders, nothing is ever overwritten or removed;
     * a lookup through a loader answers with the binding of the outermost ancestor that has one,
       otherwise with the loader's own binding, otherwise not-found; a type-set loader answers with
       the types of its (immutable) type set first, then like its parent, then resolves a name that is
       qualified by the type set's name relative to it; it defines into its parent;
     * discovery = the bound names (attributed to the outermost loader that resolves them) satisfying
       the predicate, sorted.
   Definitions only; the refinement proof is in Proofs/LoaderProofs.v. *)
From Coq Require Import NArith Bool List.
From PcoreV Require Import Model.Base Model.Loader.
Import ListNotations.

Record anode := mkA { akind : lkind; abind : list (str * val) }.
Definition astate := list anode.

Definition spec_init (cfg : config) : astate := [mkA KBasic (cfg_static cfg)].

Definition own_binds (a : astate) (l : nat) : list (str * val) :=
  match nth_error a l with Some nd => abind nd | None => [] end.

(* None = ill-formed tree / out of fuel (never, see LoaderProofs.spec_resolve_not_stuck) *)
Fixpoint spec_resolve (fuel : nat) (a : astate) (l : nat) (n : tname) : option (option val) :=
  match fuel with
  | O => None
  | S f =>
    match nth_error a l with
    | None => None
    | Some nd =>
      match akind nd with
      | KBasic | KDep => Some (assoc (map_key n) (abind nd))
      | KParented p =>
        match spec_resolve f a p n with
        | Some (Some v) => Some (Some v)                        (* the outermost ancestor that has a binding *)
        | Some None => Some (assoc (map_key n) (abind nd))      (* otherwise the own binding, otherwise not found *)
        | None => None
        end
      | KTypeSet p ts =>
        match ts_get_type ts n with
        | Some tp => Some (Some tp)
        | None =>
          match spec_resolve f a p n with
          | Some (Some v) => Some (Some v)
          | Some None =>
            match relative_to n (ts_typed_name ts) with
            | Some child => spec_resolve f a l child
            | None => Some None
            end
          | None => None
          end
        end
      end
    end
  end.

Definition spec_resolve_top (a : astate) (l : nat) (n : tname) : option (option val) :=
  spec_resolve (fuel_of l n) a l n.

Definition spec_has (a : astate) (l : nat) (n : tname) : bool :=
  match spec_resolve_top a l n with Some (Some _) => true | _ => false end.

(* the loader that receives the definitions made through l *)
Fixpoint def_target (fuel : nat) (a : astate) (l : nat) : option nat :=
  match fuel with
  | O => None
  | S f =>
    match nth_error a l with
    | None => None
    | Some nd => match akind nd with KTypeSet p _ => def_target f a p | _ => Some l end
    end
  end.

Fixpoint set_binds (a : astate) (l : nat) (bs : list (str * val)) : astate :=
  match a, l with
  | [], _ => []
  | nd :: a', O => mkA (akind nd) bs :: a'
  | nd :: a', S l' => nd :: set_binds a' l' bs
  end.

(* write-once: a new name is bound; an equal value is a no-op answering the existing binding; a different
   value is rejected with a reported error *)
Definition spec_define (a : astate) (l : nat) (n : tname) (v : val) : astate * out :=
  match def_target (S l) a l with
  | None => (a, RStuck)
  | Some t =>
    let bs := own_binds a t in
    match assoc (map_key n) bs with
    | None => (set_binds a t (bs ++ [(map_key n, v)]), RDefined v)
    | Some old =>
      (a, if val_same old v || val_equals old v then RDefined old
          else if vty old && vty v then RErr ERedefineType else RErr ERedefine)
    end
  end.

(* the bound keys of a map whose typed name satisfies P *)
Definition key_sat (P : tname -> bool) (k : str) : bool :=
  match tn_of_key k with Some tn => P tn | None => false end.
Definition keys_sat (P : tname -> bool) (bs : list (str * val)) : list str :=
  filter (key_sat P) (map fst bs).

Fixpoint spec_discover (fuel : nat) (a : astate) (l : nat) (P : tname -> bool) : option (list str) :=
  match fuel with
  | O => None
  | S f =>
    match nth_error a l with
    | None => None
    | Some nd =>
      match akind nd with
      | KBasic | KDep => Some (sort_keys (keys_sat P (abind nd)))
      | KParented p =>
        match spec_discover f a p P with
        | Some found =>
          Some (sort_keys (found ++ keys_sat (fun tn => negb (spec_has a p tn) && P tn) (abind nd)))
        | None => None
        end
      | KTypeSet p ts =>
        let tns := map (fun kv => new_typed_name ns_type (fst kv) (ts_auth ts)) (ts_types ts) in
        let inset := map map_key tns in
        match spec_discover f a p (fun tn => negb (mem_key (map_key tn) inset) && P tn) with
        | Some pf => Some (sort_keys (map map_key (filter P tns) ++ pf))
        | None => None
        end
      end
    end
  end.

Definition spec_add (a : astate) (k : lkind) : astate * out := (a ++ [mkA k []], RNew (length a)).

Definition eobs_of_val (v : option val) : eobs := match v with Some x => EVal x | None => ENone end.

Definition spec_step (cfg : config) (a : astate) (o : op) : astate * out :=
  match o with
  | ONewDep => spec_add a KDep
  | ONewParented l | OFork l =>
    if Nat.ltb l (length a) then spec_add a (KParented l) else (a, RBadLoader)
  | ONewTypeSet l t =>
    if Nat.ltb l (length a) then
      match nth_error (cfg_tsets cfg) t with
      | Some ts => spec_add a (KTypeSet l ts)
      | None => (a, RBadLoader)
      end
    else (a, RBadLoader)
  | ODefine l n0 v =>
    if Nat.ltb l (length a) then spec_define a l (norm n0) v else (a, RBadLoader)
  | OLoad l n0 =>
    if Nat.ltb l (length a) then
      let n := norm n0 in
      (a, if negb (str_eqb (tn_auth n) (cfg_auth cfg)) then RFound None   (* a name of a foreign authority is not found *)
          else match spec_resolve_top a l n with Some r => RFound r | None => RStuck end)
    else (a, RBadLoader)
  | OLoadEntry l n0 =>
    if Nat.ltb l (length a) then
      (a, match spec_resolve_top a l (norm n0) with Some r => REntry (eobs_of_val r) | None => RStuck end)
    else (a, RBadLoader)
  | OGetEntry l n0 =>
    if Nat.ltb l (length a) then (a, REntry (eobs_of_val (assoc (map_key (norm n0)) (own_binds a l))))
    else (a, RBadLoader)
  | OHas l n0 =>
    if Nat.ltb l (length a) then
      (a, match spec_resolve_top a l (norm n0) with Some (Some _) => RBool true | Some None => RBool false | None => RStuck end)
    else (a, RBadLoader)
  | ODiscover l p =>
    if Nat.ltb l (length a) then
      (a, match spec_discover (S l) a l (pred_eval p) with Some ks => RNames ks | None => RStuck end)
    else (a, RBadLoader)
  end.

Fixpoint spec_run_from (cfg : config) (a : astate) (ops : list op) : astate * list out :=
  match ops with
  | [] => (a, [])
  | o :: ops' =>
    let '(a1, r) := spec_step cfg a o in
    let '(a2, rs) := spec_run_from cfg a1 ops' in
    (a2, r :: rs)
  end.

Definition spec_run (cfg : config) (ops : list op) : astate * list out := spec_run_from cfg (spec_init cfg) ops.
Definition spec_outs (cfg : config) (ops : list op) : list out := snd (spec_run cfg ops).

(* what the specification can see of a concrete result: a cached miss and an absent entry are both a miss *)
Definition project (r : out) : out :=
  match r with REntry EPlaceholder => REntry ENone | _ => r end.

(* the kind of result every operation has: in particular never a runtime fault, never stuck, and a
   reported error only from a definition (AttemptToRedefine / AttemptToRedefineType) *)
Definition out_ok (o : op) (r : out) : bool :=
  match r with
  | RBadLoader => true
  | _ =>
    match o, r with
    | (ONewDep | ONewParented _ | OFork _ | ONewTypeSet _ _), RNew _ => true
    | ODefine _ _ _, (RDefined _ | RErr ERedefine | RErr ERedefineType) => true
    | OLoad _ _, RFound _ => true
    | (OLoadEntry _ _ | OGetEntry _ _), REntry _ => true
    | OHas _ _, RBool _ => true
    | ODiscover _ _, RNames _ => true
    | _, _ => false
    end
  end.

(* ---------------------------------------------------------------------------------------------- *)
(* Well-formed configurations: the content of the static loader is keyed by proper map keys, once each;
   a type set has a well-formed name and simple, case-insensitively distinct type names. *)
Definition key_ok (k : str) : bool :=
  match tn_of_key k with Some tn => str_eqb (map_key tn) k && tn_wf tn | None => false end.

Fixpoint nodup_keys (l : list str) : bool :=
  match l with [] => true | k :: l' => negb (mem_key k l') && nodup_keys l' end.

(* the type set has a well-formed, lower-case authority (authorities are URIs; a map key carries the authority
   in lower case and typeSet.GetType compares it as it is), simple well-formed type names, and no two
   type names with the same map key *)
Definition ts_tn (ts : tset) (kv : str * val) : tname := new_typed_name ns_type (fst kv) (ts_auth ts).
Definition ts_wf (ts : tset) : bool :=
  tn_wf (ts_typed_name ts) && str_eqb (to_lower (ts_auth ts)) (ts_auth ts)
  && forallb (fun kv => tn_wf (ts_tn ts kv) && negb (is_qualified (ts_tn ts kv)) && negb (starts_cc (fst kv))) (ts_types ts)
  && nodup_keys (map (fun kv => map_key (ts_tn ts kv)) (ts_types ts)).

Definition cfg_wf (cfg : config) : bool :=
  forallb key_ok (map fst (cfg_static cfg)) && nodup_keys (map fst (cfg_static cfg))
  && forallb ts_wf (cfg_tsets cfg).

(* ---------------------------------------------------------------------------------------------- *)
(* Notions used in the statements of the corollaries (Properties/C12.v) *)

(* the result of operation o after the history ops *)
Definition result_after (cfg : config) (ops : list op) (o : op) : out := snd (step cfg (fst (run cfg ops)) o).

Definition parent_of (k : lkind) : option nat :=
  match k with KParented p | KTypeSet p _ => Some p | _ => None end.

(* proper ancestors of a loader *)
Inductive ancestor (a : astate) : nat -> nat -> Prop :=
| anc_parent l nd p : nth_error a l = Some nd -> parent_of (akind nd) = Some p -> ancestor a l p
| anc_step l nd p q : nth_error a l = Some nd -> parent_of (akind nd) = Some p -> ancestor a p q -> ancestor a l q.

(* the binding the loader that receives l's definitions owns for the name *)
Definition spec_own_binding (a : astate) (l : nat) (n : tname) : option val :=
  match def_target (S l) a l with Some t => assoc (map_key n) (own_binds a t) | None => None end.

(* names that differ only in the letter case of the name part *)
Definition tn_case_variant (n n' : tname) : bool :=
  str_eqb (tn_auth n) (tn_auth n') && str_eqb (tn_ns n) (tn_ns n') && str_eqb (to_lower (tn_name n)) (to_lower (tn_name n')).

Definition op_case_variant (o o' : op) : bool :=
  match o, o' with
  | ODefine l n v, ODefine l' n' v' => Nat.eqb l l' && tn_case_variant (norm n) (norm n') && val_eqb v v'
  | OLoad l n, OLoad l' n' | OLoadEntry l n, OLoadEntry l' n' | OGetEntry l n, OGetEntry l' n' | OHas l n, OHas l' n' =>
      Nat.eqb l l' && tn_case_variant (norm n) (norm n')
  | _, _ => false
  end.

(* strictly increasing in the byte order of Go's string comparison (hence without duplicates) *)
Fixpoint strictly_sorted (l : list str) : Prop :=
  match l with
  | [] => True
  | x :: l' => match l' with [] => True | y :: _ => str_ltb x y = true /\ strictly_sorted l' end
  end.

(* the typed names a loader lists: the names it binds itself unless its parent resolves them, and the names
   its parent lists; for a type-set loader the types of its set and the names its parent lists that the
   set does not shadow *)
Inductive listed (a : astate) : nat -> tname -> Prop :=
| listed_root l nd k tn : nth_error a l = Some nd -> parent_of (akind nd) = None ->
    In k (map fst (abind nd)) -> tn_of_key k = Some tn -> listed a l tn
| listed_parent l nd p tn : nth_error a l = Some nd -> akind nd = KParented p -> listed a p tn -> listed a l tn
| listed_own l nd p k tn : nth_error a l = Some nd -> akind nd = KParented p ->
    In k (map fst (abind nd)) -> tn_of_key k = Some tn -> spec_has a p tn = false -> listed a l tn
| listed_tset l nd p ts kv : nth_error a l = Some nd -> akind nd = KTypeSet p ts -> In kv (ts_types ts) ->
    listed a l (ts_tn ts kv)
| listed_tset_parent l nd p ts tn : nth_error a l = Some nd -> akind nd = KTypeSet p ts -> listed a p tn ->
    mem_key (map_key tn) (map (fun kv => map_key (ts_tn ts kv)) (ts_types ts)) = false -> listed a l tn.

(* neither the loader nor any of its ancestors is a type-set loader *)
Definition plain_chain (a : astate) (l : nat) : Prop :=
  forall q nd p ts, (q = l \/ ancestor a l q) -> nth_error a q = Some nd -> akind nd <> KTypeSet p ts.
