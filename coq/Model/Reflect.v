(* Reflect.v — executable model of the Go reflection bridge of pcore (property C18).

   Go side:  gty  = the Go types assembled with reflect.SliceOf/MapOf/PtrTo/StructOf over the scalar kinds,
             gval = their values (nil and empty slices / maps are distinct; a Go map is the list of its
                    entries in the native order of the keys, which makes reflect.DeepEqual = structural equality).
   pcore side: a small concrete fragment `value` / `ty` with a boolean instance predicate `inst`
             (only what the bridge produces: Integer, Float, String, Boolean, Binary, Array, Hash, Optional,
             Object by name, Any).
   One definition per Go function, same order of tests, Go file:line in the comment.  Every Go runtime
   fault site (reflect panics on a wrong kind, Addr of an unaddressable value, ...) is an explicit `Fault`.
   Definitions only.  *)
From Coq Require Import ZArith NArith Bool List.
From PcoreV Require Import Model.Base.
Import ListNotations.
Open Scope Z_scope.

(* ------------------------------------------------------------------------------------------------ *)
(** * Go types and values *)

Inductive ikind := KInt | KInt8 | KInt16 | KInt32 | KInt64 | KUint | KUint8 | KUint16 | KUint32 | KUint64.

Definition ik_signed (k : ikind) : bool :=
  match k with KInt | KInt8 | KInt16 | KInt32 | KInt64 => true | _ => false end.
(* int and uint are 64 bit wide on the platform of the harness *)
Definition ik_bits (k : ikind) : Z :=
  match k with
  | KInt8 | KUint8 => 8 | KInt16 | KUint16 => 16 | KInt32 | KUint32 => 32
  | KInt | KInt64 | KUint | KUint64 => 64
  end.
Definition ik_min (k : ikind) : Z := if ik_signed k then - 2 ^ (ik_bits k - 1) else 0.
Definition ik_max (k : ikind) : Z := if ik_signed k then 2 ^ (ik_bits k - 1) - 1 else 2 ^ (ik_bits k) - 1.

Definition ikind_eqb (a b : ikind) : bool :=
  match a, b with
  | KInt, KInt | KInt8, KInt8 | KInt16, KInt16 | KInt32, KInt32 | KInt64, KInt64
  | KUint, KUint | KUint8, KUint8 | KUint16, KUint16 | KUint32, KUint32 | KUint64, KUint64 => true
  | _, _ => false
  end.

(* default value literal of a `puppet:"value=>..."` tag *)
Inductive lit := LInt (z : Z) | LStr (s : str) | LBool (b : bool) | LFloat (bits : Z).

Inductive gty :=
| GInt (k : ikind) | GFloat32 | GFloat64 | GString | GBool
| GSlice (e : gty) | GMap (k v : gty) | GPtr (e : gty)
| GStruct (name : str) (fs : list gfield)      (* name: the object type registered for this struct type *)
| GIface                                       (* interface{} *)
with gfield := GField (goname : str) (tname : option str) (tvalue : option lit) (t : gty).

Definition f_goname (f : gfield) := let 'GField n _ _ _ := f in n.
Definition f_tname (f : gfield) := let 'GField _ n _ _ := f in n.
Definition f_tvalue (f : gfield) := let 'GField _ _ v _ := f in v.
Definition f_ty (f : gfield) := let 'GField _ _ _ t := f in t.

Inductive gval :=
| GVInt (z : Z)                               (* every integer kind: the mathematical value *)
| GVFloat (bits : Z)                          (* IEEE-754 binary64 image (float32: of its exact float64 value) *)
| GVStr (s : str)
| GVBool (b : bool)
| GVSlice (o : option (list gval))            (* None = nil slice *)
| GVMap (o : option (list (gval * gval)))     (* None = nil map; entries strictly sorted by the native key order *)
| GVPtr (o : option gval)
| GVStruct (fs : list gval)
| GVIface (o : option (gty * gval))           (* dynamic type and value *)
| GVOutside.                                  (* a Go value the model does not describe (never a well-typed input) *)

(* ------------------------------------------------------------------------------------------------ *)
(** * pcore values and types (the fragment the bridge produces) *)

Inductive value :=
| VUndef | VBool (b : bool) | VInt (z : Z) | VFloat (bits : Z) | VStr (s : str)
| VBinary (o : option str)                    (* types.Binary; None = its byte slice is nil *)
| VArr (vs : list value)
| VHash (es : list (value * value))           (* insertion ordered *)
| VObj (name : str) (addr : bool) (payload : gval)
      (* types.reflectedObject of the object type `name`: it KEEPS the Go value (a struct or a pointer to
         one); addr = reflect.Value.CanAddr of a struct payload *)
| VRuntime (t : gty) (v : gval)               (* types.RuntimeValue holding an arbitrary Go value *)
| VOther.

Inductive ty :=
| TAny | TInteger (lo hi : Z) | TFloat (lo hi : Z) | TString | TBoolean | TBinary
| TArray (e : ty) | THash (k v : ty) | TOptional (t : ty) | TObject (name : str) | TOther.

Inductive perr := EWrongKind | EUnsettable | EUnreflectable | EInvalidSource | EArgs | EOther.
Inductive res (A : Type) := Ok (a : A) | Err (e : perr) | Fault.
Arguments Ok {A} a.
Arguments Err {A} e.
Arguments Fault {A}.

Definition rbind {A B} (r : res A) (f : A -> res B) : res B :=
  match r with Ok a => f a | Err e => Err e | Fault => Fault end.

Definition rmap {A B} (f : A -> res B) : list A -> res (list B) :=
  fix go (l : list A) : res (list B) :=
    match l with
    | [] => Ok []
    | x :: l' => rbind (f x) (fun y => rbind (go l') (fun ys => Ok (y :: ys)))
    end.

(* ------------------------------------------------------------------------------------------------ *)
(** * Integers and floats *)

Definition two64 : Z := 18446744073709551616.
Definition two63 : Z := 9223372036854775808.

(* Go conversion of an int64 / uint64 to the integer kind k: truncation to the width, re-signed *)
Definition trunc_to (k : ikind) (z : Z) : Z :=
  let m := 2 ^ ik_bits k in
  if ik_signed k then ((z + m / 2) mod m) - m / 2 else z mod m.

(* float64 bit images *)
Definition f_sign (b : Z) : Z := b / two63.
Definition f_exp (b : Z) : Z := (b / 4503599627370496) mod 2048.
Definition f_mant (b : Z) : Z := b mod 4503599627370496.
Definition f_is_nan (b : Z) : bool := (f_exp b =? 2047) && negb (f_mant b =? 0).
Definition f_is_inf (b : Z) : bool := (f_exp b =? 2047) && (f_mant b =? 0).
Definition f_finite (b : Z) : bool := negb (f_exp b =? 2047).
(* order preserving image of the non-NaN doubles, -0 and +0 coincide (Go: -0 == +0) *)
Definition f_key (b : Z) : Z := if f_sign b =? 1 then - (b - two63) else b.
(* Go `<=` on float64: false as soon as one side is NaN *)
Definition f_le (a b : Z) : bool := negb (f_is_nan a) && negb (f_is_nan b) && (f_key a <=? f_key b).

Definition inf_bits : Z := 9218868437227405312.              (* 0x7FF0000000000000, math.Inf(1) *)
Definition neg_inf_bits : Z := 18442240474082181120.         (* 0xFFF0000000000000, math.Inf(-1) *)
(* floattype.go:210 IsUnbounded: min is -Inf and max is +Inf *)
Definition f_unbounded (lo hi : Z) : bool := (lo =? neg_inf_bits) && (hi =? inf_bits).
Definition max_float32_bits : Z := 5183643170566569984.      (* 0x47EFFFFFE0000000 *)
Definition neg_max_float32_bits : Z := 14407015207421345792.  (* 0xC7EFFFFFE0000000 *)

(* is the double exactly representable as a float32 (so that float32(x) does not round)?
   zero, infinities, NaN images, float32 normals (exponent -126..127, 23 mantissa bits) and float32
   subnormals (k * 2^-149: doubles with exponent -149..-127 whose mantissa has at most e+149 bits) *)
Definition is_f32 (b : Z) : bool :=
  (0 <=? b) && (b <? two64) &&
  let e := f_exp b in let m := f_mant b in
  if e =? 0 then m =? 0
  else if e =? 2047 then m mod 536870912 =? 0
  else if (897 <=? e) && (e <=? 1150) then m mod 536870912 =? 0
  else if (874 <=? e) && (e <=? 896) then m mod 2 ^ (52 - (e - 874)) =? 0
  else false.

(* decimal text of an int64 (fmt %d) *)
Fixpoint digits_fuel (n : nat) (z : Z) (acc : str) : str :=
  match n with
  | O => acc
  | S n' => let acc' := Z.to_N (48 + z mod 10) :: acc in
            if z <? 10 then acc' else digits_fuel n' (z / 10) acc'
  end.
Definition Z_to_str (z : Z) : str :=
  if z <? 0 then 45%N :: digits_fuel 20 (- z) [] else digits_fuel 20 z [].

(* ------------------------------------------------------------------------------------------------ *)
(** * Go -> pcore: wrap / wrapReflected / WrapPrimitive (types/types.go:591-778) *)

Definition is_struct_ty (t : gty) : bool := match t with GStruct _ _ => true | _ => false end.
Definition elem_ty (t : gty) : gty :=
  match t with GSlice e => e | GPtr e => e | GMap _ v => v | _ => GIface end.
Definition key_ty (t : gty) : gty := match t with GMap k _ => k | _ => GIface end.
Definition struct_name (t : gty) : str := match t with GStruct n _ => n | _ => [] end.

Section WithFloatFormat.
  (* Go's fmt "%v" of a float64 (strconv shortest representation): an oracle, used ONLY to order the
     entries of a Hash wrapped from a map with float keys (types/hashtype.go:649 sortedMap) *)
  Variable ffmt : Z -> str.

  (* String() of a wrapped map key *)
  Definition key_text (v : value) : str :=
    match v with
    | VStr s => s
    | VInt z => Z_to_str z
    | VBool true => [116; 114; 117; 101]%N
    | VBool false => [102; 97; 108; 115; 101]%N
    | VFloat b => ffmt b
    | _ => []
    end.

  (* types/hashtype.go:649 sortedMap: sort.Slice by key.String() (keys of a Go map are distinct) *)
  Fixpoint sm_insert (e : value * value) (l : list (value * value)) : list (value * value) :=
    match l with
    | [] => [e]
    | x :: l' => if str_ltb (key_text (fst e)) (key_text (fst x)) then e :: l else x :: sm_insert e l'
    end.
  Definition sorted_map (l : list (value * value)) : list (value * value) := fold_right sm_insert [] l.

  (* types.go:754 WrapPrimitive *)
  Definition wrap_primitive (t : gty) (v : gval) : option value :=
    match t, v with
    | GString, GVStr s => Some (VStr s)
    | GInt k, GVInt z => Some (VInt (if ik_signed k then z else wrap64 z))
        (* signed: integerValue(vr.Int()); unsigned: integerValue(int64(vr.Uint())) "Possible loss for very large numbers" *)
    | GBool, GVBool b => Some (VBool b)
    | GFloat32, GVFloat b | GFloat64, GVFloat b => Some (VFloat b)
    | _, _ => None
    end.

  Definition bytes_of (es : list gval) : str :=
    map (fun e => match e with GVInt z => Z.to_N z | _ => 0%N end) es.

  (* the typed fast paths of the type switch in wrap (types.go:591): []int, []string, []interface{} *)
  Definition fast_slice_elem (e : gty) : bool :=
    match e with GInt KInt | GString | GIface => true | _ => false end.
  (* map[string]interface{}, map[string]string *)
  Definition fast_map (k e : gty) : bool :=
    match k, e with GString, GString | GString, GIface => true | _, _ => false end.

  (* wrapx true  t v = wrap(c, v)           types.go:591, v an interface{} of dynamic type t
     wrapx false t v = wrapReflected(c, v)  types.go:666, v a reflect.Value of type t
     (one function, because wrap falls through to wrapReflected on the same value) *)
  Fixpoint wrapx (w : bool) (t : gty) (v : gval) {struct v} : value :=
    match v with
    | GVSlice None =>
        (* wrap: case []byte -> WrapBinary(nil); []int, []string, []interface{} -> an EMPTY Array;
           wrapReflected :679 IsNil -> undef *)
        if w && (match elem_ty t with GInt KUint8 => true | _ => false end) then VBinary None
        else if w && fast_slice_elem (elem_ty t) then VArr []
        else VUndef
    | GVSlice (Some es) =>
        (* wrap: case []byte -> WrapBinary; wrapReflected :735: []byte is among the wellKnown types (zinit.go,
           fix 61e98a6), a well-known that is not a px.Value is handed to wrap *)
        if (match elem_ty t with GInt KUint8 => true | _ => false end) then VBinary (Some (bytes_of es))
        else (* :714 els[i] = wrap(c, interfaceOrNil(vr.Index(i))) — also what WrapInts/WrapStrings/WrapInterfaces do *)
          VArr (map (wrapx true (elem_ty t)) es)
    | GVMap None =>
        if w && fast_map (key_ty t) (elem_ty t) then VHash [] else VUndef
    | GVMap (Some kvs) =>
        (* :721 *)
        VHash (sorted_map (map (fun kv => (wrapx true (key_ty t) (fst kv), wrapx true (elem_ty t) (snd kv))) kvs))
    | GVPtr None => VUndef
    | GVPtr (Some x) =>
        (* :699 a pointer to a registered struct is looked up in the implementation registry first *)
        if is_struct_ty (elem_ty t) then VObj (struct_name (elem_ty t)) false v
        else (* :727 *) wrapx false (elem_ty t) x
    | GVStruct _ => (* :699 FromReflectedValue: objecttype.go:278 NewReflectedValue keeps the Go value *)
        VObj (struct_name t) false v
    | GVIface None => VUndef
    | GVIface (Some (d, x)) =>
        if w then (* the interface{} handed to wrap IS the dynamic value *) wrapx true d x
        else (* a reflect.Value of Kind Interface (struct field): no primitive, :744 WrapRuntime *)
          if is_struct_ty d then VObj (struct_name d) false x else VRuntime d x
    | GVOutside => VOther
    | _ => match wrap_primitive t v with Some pv => pv | None => VOther end
    end.

  Definition wrap (t : gty) (v : gval) : value := wrapx true t v.
  Definition wrap_reflected (t : gty) (v : gval) : value := wrapx false t v.

End WithFloatFormat.

(* ------------------------------------------------------------------------------------------------ *)
(** * Go type -> pcore type: wrapReflectedType (types.go:794), primitivePTypes (zinit.go:13) *)

Definition primitive_ptype (k : ikind) : ty :=
  match k with
  | KInt | KInt64 => TInteger min_int64 max_int64          (* DefaultIntegerType *)
  | KInt8 => TInteger (-128) 127 | KInt16 => TInteger (-32768) 32767 | KInt32 => TInteger (-2147483648) 2147483647
  | KUint8 => TInteger 0 255 | KUint16 => TInteger 0 65535 | KUint32 => TInteger 0 4294967295
  | KUint | KUint64 => TInteger 0 max_int64                (* integerTypeU64 = IntegerTypePositive: "MaxUInt64 isn't supported" *)
  end.

Fixpoint ptype_of (t : gty) : ty :=
  match t with
  | GInt k => primitive_ptype k
  | GFloat32 => TFloat neg_max_float32_bits max_float32_bits
  | GFloat64 => TFloat neg_inf_bits inf_bits               (* DefaultFloatType: Float[-Inf, +Inf], the unbounded type *)
  | GString => TString
  | GBool => TBoolean
  | GSlice (GInt KUint8) => TBinary         (* :843 wellKnown[[]byte] (zinit.go, fix 61e98a6) *)
  | GSlice e => TArray (ptype_of e)
  | GMap k v => THash (ptype_of k) (ptype_of v)
  | GPtr e => TOptional (ptype_of e)       (* also :806: a registered *struct -> Optional[its object type] *)
  | GStruct n _ => TObject n                (* :806 loadFromImplRegistry *)
  | GIface => TAny
  end.

(* IsInstance of the types above (integertype.go:233, floattype.go:157, arraytype.go:193, hashtype.go:295,
   optionaltype.go:99, objecttype.go:686; String/Boolean/Binary/Any: by the Go type of the value) *)
Fixpoint inst (t : ty) (v : value) {struct t} : bool :=
  match t with
  | TAny => true
  | TInteger lo hi => match v with VInt z => (lo <=? z) && (z <=? hi) | _ => false end
  | TFloat lo hi => match v with VFloat b => (f_le lo b && f_le b hi) || f_unbounded lo hi | _ => false end   (* NaN: the unbounded type only *)
  | TString => match v with VStr _ => true | _ => false end
  | TBoolean => match v with VBool _ => true | _ => false end
  | TBinary => match v with VBinary _ => true | _ => false end
  | TArray e => match v with VArr vs => forallb (inst e) vs | _ => false end
  | THash k e => match v with VHash es => forallb (fun kv => inst k (fst kv) && inst e (snd kv)) es | _ => false end
  | TOptional t' => match v with VUndef => true | _ => inst t' v end
  | TObject n => match v with VObj n' _ _ => str_eqb n n' | _ => false end
  | TOther => false
  end.

(* ------------------------------------------------------------------------------------------------ *)
(** * pcore -> Go: Reflector.Reflect2 / ReflectTo (types/reflector.go:98,117) and the ReflectTo methods *)

(* reflect.Zero(t) *)
Fixpoint zero_of (t : gty) : gval :=
  match t with
  | GInt _ => GVInt 0 | GFloat32 | GFloat64 => GVFloat 0 | GString => GVStr [] | GBool => GVBool false
  | GSlice _ => GVSlice None | GMap _ _ => GVMap None | GPtr _ => GVPtr None | GIface => GVIface None
  | GStruct _ fs => GVStruct (map (fun f => zero_of (f_ty f)) fs)
  end.

(* native order of map keys (only to LIST the entries of a Go map canonically) *)
Definition gkey_ltb (a b : gval) : bool :=
  match a, b with
  | GVInt x, GVInt y => x <? y
  | GVStr x, GVStr y => str_ltb x y
  | GVBool x, GVBool y => negb x && y
  | GVFloat x, GVFloat y => (if f_sign x =? 1 then - x else x) <? (if f_sign y =? 1 then - y else y)
  | _, _ => false
  end.
Definition gkey_eqb (a b : gval) : bool :=
  match a, b with
  | GVInt x, GVInt y => x =? y
  | GVStr x, GVStr y => str_eqb x y
  | GVBool x, GVBool y => Bool.eqb x y
  | GVFloat x, GVFloat y => x =? y
  | _, _ => false
  end.
(* reflect.Value.SetMapIndex *)
Fixpoint map_put (k v : gval) (m : list (gval * gval)) : list (gval * gval) :=
  match m with
  | [] => [(k, v)]
  | (k', v') :: m' =>
      if gkey_eqb k k' then (k, v) :: m'
      else if gkey_ltb k k' then (k, v) :: m
      else (k', v') :: map_put k v m'
  end.

(* src.Reflect(c): the Go value whose type is derived from the source (integertype.go:342 int64,
   floattype.go:244 float64, stringtype.go:479, booleantype.go:219, undeftype.go:92 the invalid Value,
   binarytype.go:231 []byte, runtimetype.go:275).  Arrays, hashes and objects reflect to types derived
   from their inferred pcore type, which the model does not describe: GVOutside. *)
Definition reflect_any (v : value) : option (gty * gval) :=
  match v with
  | VUndef => None
  | VInt z => Some (GInt KInt64, GVInt z)
  | VFloat b => Some (GFloat64, GVFloat b)
  | VStr s => Some (GString, GVStr s)
  | VBool b => Some (GBool, GVBool b)
  | VBinary o => Some (GSlice (GInt KUint8),
                       GVSlice (match o with None => None | Some bs => Some (map (fun x => GVInt (Z.of_N x)) bs) end))
  | VRuntime d x => Some (d, x)
  | _ => Some (GIface, GVOutside)
  end.

Fixpoint gty_eqb (a b : gty) {struct a} : bool :=
  match a, b with
  | GInt x, GInt y => ikind_eqb x y
  | GFloat32, GFloat32 | GFloat64, GFloat64 | GString, GString | GBool, GBool | GIface, GIface => true
  | GSlice x, GSlice y | GPtr x, GPtr y => gty_eqb x y
  | GMap k v, GMap k' v' => gty_eqb k k' && gty_eqb v v'
  | GStruct n _, GStruct n' _ => str_eqb n n'     (* one object type name per struct type *)
  | _, _ => false
  end.

Definition is_iface (t : gty) : bool := match t with GIface => true | _ => false end.

Definition bytes_gval (o : option str) : gval :=
  GVSlice (match o with None => None | Some bs => Some (map (fun x => GVInt (Z.of_N x)) bs) end).

(* binarytype.go:243: switch value.Type().Elem().Kind() *)
Definition binary_to (t : gty) (o : option str) : res gval :=
  match t with
  | GSlice (GInt KUint8) => Ok (bytes_gval o)
  | GSlice (GInt KInt8) | GPtr (GInt KInt8) | GPtr (GInt KUint8) | GMap _ (GInt KInt8) | GMap _ (GInt KUint8) => Fault  (* SetBytes *)
  | GSlice GIface | GPtr GIface | GMap _ GIface => Fault      (* value.Set([]byte) *)
  | GSlice _ | GPtr _ | GMap _ _ => Err EWrongKind
  | _ => Fault                                                (* Elem of a type without element *)
  end.

(* hashtype.go:957 the loop over the entries: rk / rv are Reflect2 into the key / value type
   :975 rv = Reflect2(e.value, valueType) (undef into interface{}: the nil interface, fix 377213a);
        m.SetMapIndex(Reflect2(e.key, keyType), rv) *)
Definition hash_build (rk rv : value -> res gval) : list (value * value) -> list (gval * gval) -> res (list (gval * gval)) :=
  fix go (l : list (value * value)) (m : list (gval * gval)) {struct l} : res (list (gval * gval)) :=
    match l with
    | [] => Ok m
    | (k, x) :: l' => rbind (rv x) (fun gx => rbind (rk k) (fun gk => go l' (map_put gk gx m)))
    end.

(* reflect_to t v  =  Reflector.Reflect2(v, t): a fresh settable destination of type t, then ReflectTo *)
Fixpoint reflect_to (t : gty) (v : value) {struct v} : res gval :=
  match t with
  | GIface =>
      (* reflector.go:129 destination is interface{}: dest.Set(src.Reflect(c)); the invalid Value of undef
         gives the nil interface (fix f501e9f) *)
      match reflect_any v with
      | Some (GIface, GVOutside) => Ok GVOutside
      | o => Ok (GVIface o)
      end
  | _ =>
  match v with
  | VUndef => (* undeftype.go:96 *) Ok (zero_of t)
  | VInt z => (* integertype.go:346 *)
      match t with
      | GInt k => Ok (GVInt (trunc_to k z))            (* SetInt(int64) / SetUint(uint64(iv)) truncate to the width *)
      | GPtr (GInt k) => Ok (GVPtr (Some (GVInt (trunc_to k z))))
      | _ => Err EWrongKind
      end
  | VFloat b => (* floattype.go:248 *)
      match t with
      | GFloat64 => Ok (GVFloat b)
      | GFloat32 => if is_f32 b then Ok (GVFloat b) else Ok GVOutside     (* float32(x) rounds: not modelled *)
      | GPtr GFloat64 => Ok (GVPtr (Some (GVFloat b)))
      | GPtr GFloat32 => if is_f32 b then Ok (GVPtr (Some (GVFloat b))) else Ok GVOutside
      | _ => Err EWrongKind
      end
  | VStr s => (* stringtype.go:483 *)
      match t with
      | GPtr GString => Ok (GVPtr (Some (GVStr s)))
      | GPtr _ => Fault                                  (* value.Set(reflect.ValueOf(&s)): not assignable *)
      | GString => Ok (GVStr s)
      | _ => Fault                                       (* value.SetString on another kind *)
      end
  | VBool b => (* booleantype.go:233 *)
      match t with
      | GPtr GBool => Ok (GVPtr (Some (GVBool b)))
      | GPtr _ => Fault
      | GBool => Ok (GVBool b)
      | _ => Fault
      end
  | VBinary o =>
      match t with
      | GPtr (GSlice e) => (* binarytype.go:236 a pointer to a slice: reflect into a new slice and point to it (fix 61e98a6) *)
          rbind (binary_to (GSlice e) o) (fun s => Ok (GVPtr (Some s)))
      | _ => binary_to t o
      end
  | VArr vs => (* arraytype.go:530 *)
      match t with
      | GSlice e => rbind (rmap (reflect_to e) vs) (fun es => Ok (GVSlice (Some es)))
      | GPtr (GSlice e) => rbind (rmap (reflect_to e) vs) (fun es => Ok (GVPtr (Some (GVSlice (Some es)))))
      | _ => Fault                                       (* reflect.MakeSlice of a non-slice type *)
      end
  | VHash es => (* hashtype.go:946 *)
      let build kt et := hash_build (reflect_to kt) (reflect_to et) in
      match t with
      | GMap kt et => rbind (build kt et es []) (fun m => Ok (GVMap (Some m)))
      | GPtr (GMap kt et) => rbind (build kt et es []) (fun m => Ok (GVPtr (Some (GVMap (Some m)))))
      | GPtr GIface => Ok GVOutside                      (* :952 map type derived from the inferred hash type *)
      | _ => Fault                                       (* ht.Key() of a non-map type *)
      end
  | VObj n addr payload => (* objectvalue.go:266 *)
      match t, payload with
      | GPtr (GStruct n' _), GVStruct _ =>
          if str_eqb n n' then (if addr then Ok (GVPtr (Some payload)) else Fault (* o.value.Addr() *)) else Fault
      | GStruct n' _, GVStruct _ => if str_eqb n n' then Ok payload else Fault    (* value.Set(o.value) *)
      | GPtr (GStruct n' _), GVPtr _ => if str_eqb n n' then Ok payload else Fault
      | _, _ => Fault
      end
  | VRuntime d x => (* runtimetype.go:283 *)
      if gty_eqb d t then Ok x else Err EWrongKind
  | VOther => Err EOther
  end
  end.

(* ------------------------------------------------------------------------------------------------ *)
(** * Well-typed Go values of reflectable shapes *)

Definition is_scalar_ty (t : gty) : bool :=
  match t with GInt _ | GFloat32 | GFloat64 | GString | GBool => true | _ => false end.

Fixpoint sorted_keys (l : list (gval * gval)) : bool :=
  match l with
  | [] => true
  | (k, _) :: l' => match l' with [] => true | (k', _) :: _ => gkey_ltb k k' && sorted_keys l' end
  end.

(* a float map key: not NaN (a NaN key cannot be looked up again) and not -0 (Go identifies it with +0; the
   canonical listing uses +0) *)
Definition ok_float_key (v : gval) : bool :=
  match v with GVFloat b => negb (f_is_nan b) && negb (b =? two63) | _ => true end.

Fixpoint has_type (v : gval) (t : gty) {struct v} : bool :=
  match v, t with
  | GVInt z, GInt k => (ik_min k <=? z) && (z <=? ik_max k)
  | GVFloat b, GFloat64 => (0 <=? b) && (b <? two64)
  | GVFloat b, GFloat32 => is_f32 b
  | GVStr s, GString => forallb (fun c => (c <? 256)%N) s
  | GVBool _, GBool => true
  | GVSlice None, GSlice _ => true
  | GVSlice (Some es), GSlice e => forallb (fun x => has_type x e) es
  | GVMap None, GMap k _ => is_scalar_ty k
  | GVMap (Some kvs), GMap k e =>
      is_scalar_ty k && sorted_keys kvs &&
      forallb (fun kv => has_type (fst kv) k && ok_float_key (fst kv) && has_type (snd kv) e) kvs
  | GVPtr None, GPtr e => negb (is_iface e)
  | GVPtr (Some x), GPtr e => negb (is_iface e) && has_type x e
  | GVStruct vs, GStruct _ fs =>
      (fix go (vs : list gval) (fs : list gfield) {struct vs} : bool :=
         match vs, fs with
         | [], [] => true
         | x :: vs', f :: fs' => has_type x (f_ty f) && go vs' fs'
         | _, _ => false
         end) vs fs
  | GVIface None, GIface => true
  | GVIface (Some (d, x)), GIface => is_scalar_ty d && has_type x d
  | _, _ => false
  end.

(* structural equality of Go values = reflect.DeepEqual on well-typed values (floats by bits; the harness
   treats NaN as equal to itself) *)
Fixpoint gval_eqb (a b : gval) {struct a} : bool :=
  match a, b with
  | GVInt x, GVInt y => x =? y
  | GVFloat x, GVFloat y => x =? y
  | GVStr x, GVStr y => str_eqb x y
  | GVBool x, GVBool y => Bool.eqb x y
  | GVSlice None, GVSlice None | GVMap None, GVMap None | GVPtr None, GVPtr None | GVIface None, GVIface None => true
  | GVSlice (Some xs), GVSlice (Some ys) | GVStruct xs, GVStruct ys =>
      (fix go (xs ys : list gval) {struct xs} : bool :=
         match xs, ys with
         | [], [] => true
         | x :: xs', y :: ys' => gval_eqb x y && go xs' ys'
         | _, _ => false
         end) xs ys
  | GVMap (Some xs), GVMap (Some ys) =>
      (fix go (xs ys : list (gval * gval)) {struct xs} : bool :=
         match xs, ys with
         | [], [] => true
         | (k, x) :: xs', (k', y) :: ys' => gval_eqb k k' && gval_eqb x y && go xs' ys'
         | _, _ => false
         end) xs ys
  | GVPtr (Some x), GVPtr (Some y) => gval_eqb x y
  | GVIface (Some (d, x)), GVIface (Some (d', y)) => gty_eqb d d' && gval_eqb x y
  | _, _ => false
  end.

(* ------------------------------------------------------------------------------------------------ *)
(** * The input classes of the open findings (known_findings/C18.json), as boolean guards *)

Definition is_u8 (t : gty) : bool := match t with GInt KUint8 => true | _ => false end.
Definition is_ptr_ty (t : gty) : bool := match t with GPtr _ => true | _ => false end.
(* interface{} content that Reflect gives back with the same dynamic type *)
Definition canonical_dyn (d : gty) : bool :=
  match d with GInt KInt64 | GFloat64 | GString | GBool => true | _ => false end.
Definition is_nil_coll (v : gval) : bool := match v with GVSlice None | GVMap None => true | _ => false end.

(* rt_ok w t v: the value contains none of the input classes on which the ROUND TRIP is known to fail:
   nil-fastpath-empty, ptr-to-ptr, ptr-to-nil-collection; and interface{} content has a canonical dynamic
   type (interfaces are not among the shapes the property lists).  w as in wrapx. *)
Fixpoint rt_ok (w : bool) (t : gty) (v : gval) {struct v} : bool :=
  match v with
  | GVSlice None => negb (w && fast_slice_elem (elem_ty t))
  | GVSlice (Some es) => forallb (rt_ok true (elem_ty t)) es
  | GVMap None => negb (w && fast_map (key_ty t) (elem_ty t))
  | GVMap (Some kvs) => forallb (fun kv => rt_ok true (elem_ty t) (snd kv)) kvs
  | GVPtr (Some x) =>
      is_struct_ty (elem_ty t) ||
      (negb (is_ptr_ty (elem_ty t)) && negb (is_nil_coll x) && rt_ok false (elem_ty t) x)
  | GVIface (Some (d, x)) => canonical_dyn d
  | _ => true
  end.

(* acc_ok w t v: none of the input classes on which the derived type is known to REJECT the wrapped value:
   uint64-ge-2^63, float32-nonfinite (a float32 that is NaN or an infinity: its type is the range of the finite
   float32 values; float64 has no exclusion), nil-slice-map-undef *)
Fixpoint acc_ok (w : bool) (t : gty) (v : gval) {struct v} : bool :=
  match v with
  | GVInt z => match t with GInt KUint | GInt KUint64 => z <? two63 | _ => true end
  | GVFloat b => match t with GFloat32 => f_finite b | _ => true end
  | GVSlice None => w && (fast_slice_elem (elem_ty t) || is_u8 (elem_ty t))
  | GVSlice (Some es) => forallb (acc_ok true (elem_ty t)) es
  | GVMap None => w && fast_map (key_ty t) (elem_ty t)
  | GVMap (Some kvs) => forallb (fun kv => acc_ok true (key_ty t) (fst kv) && acc_ok true (elem_ty t) (snd kv)) kvs
  | GVPtr (Some x) =>
      is_struct_ty (elem_ty t) ||
      match x with
      | GVSlice None | GVMap None | GVPtr None => true       (* undef: accepted by the Optional *)
      | _ => acc_ok false (elem_ty t) x
      end
  | _ => true
  end.

(* ------------------------------------------------------------------------------------------------ *)
(** * Struct <-> object: the object type derived from a struct (reflector.go TypeFromReflect / InitializerFromTagged /
      ReflectFieldTags), the reflected object of a struct (objectvalue.go reflectedObject) and the positional
      constructor of the derived type (objecttype.go:1126 createNewFunction) *)

(* issue.FirstToLower of an exported field name (ASCII names: the first letter is lower-cased) *)
Definition first_to_lower (s : str) : str :=
  match s with
  | c :: s' => (if (65 <=? c)%N && (c <=? 90)%N then (c + 32)%N else c) :: s'
  | [] => []
  end.

(* reflector.go:355 ReflectFieldTags *)
Definition attr_name (f : gfield) : str :=
  match f_tname f with Some n => n | None => first_to_lower (f_goname f) end.      (* :361 name tag, :419 *)
Definition attr_ty (f : gfield) : ty := ptype_of (f_ty f).                          (* :383 WrapReflectedType(f.Type) *)
Definition attr_has_value (f : gfield) : bool :=
  match f_tvalue f with
  | Some _ => true                       (* :367 a value tag *)
  | None => is_ptr_ty (f_ty f)           (* :388 the type is an Optional: the implicit value undef *)
  end.

(* objecttype.go:1050 createAttributesInfo: positional order = the attributes without a value, then those
   with one, each group in declaration order; (index of the field, field) *)
Definition indexed_fields (fs : list gfield) : list (nat * gfield) := combine (seq 0 (length fs)) fs.
Definition attr_order (fs : list gfield) : list (nat * gfield) :=
  filter (fun p => negb (attr_has_value (snd p))) (indexed_fields fs) ++
  filter (fun p => attr_has_value (snd p)) (indexed_fields fs).

Definition obj_attr_names (fs : list gfield) : list str := map (fun p => attr_name (snd p)) (attr_order fs).

(* a struct taken out of an addressable struct (the pointee of a pointer, a freshly allocated object) is
   addressable itself *)
Definition set_addr (a : bool) (v : value) : value :=
  match v with VObj n _ (GVStruct fs) => VObj n a (GVStruct fs) | _ => v end.

(* objectvalue.go:329 reflectedObject.Get(name) = wrap(nil, structVal().FieldByName(goName)) = wrapReflected of the
   field; per attribute in positional order.  a = the struct is addressable (the object holds a pointer) *)
Definition obj_gets (ffmt : Z -> str) (a : bool) (fs : list gfield) (vs : list gval) : list value :=
  map (fun p => set_addr a (wrap_reflected ffmt (f_ty (snd p)) (nth (fst p) vs GVOutside))) (attr_order fs).

Fixpoint set_nth {A} (i : nat) (x : A) (l : list A) : list A :=
  match l, i with
  | [], _ => []
  | _ :: l', O => x :: l'
  | y :: l', S i' => y :: set_nth i' x l'
  end.

(* ---- declared defaults (reflector.go:367 the value tag of the field, :392 the implicit undef of an Optional) *)
Definition lit_value (l : lit) : value :=
  match l with LInt z => VInt z | LStr s => VStr s | LBool b => VBool b | LFloat b => VFloat b end.
Definition attr_default (f : gfield) : option value :=
  match f_tvalue f with
  | Some l => Some (lit_value l)
  | None => if is_ptr_ty (f_ty f) then Some VUndef else None
  end.
(* a.Value() where the attribute has one, else undef (objectvalue.go:308) *)
Definition default_or_undef (f : gfield) : value :=
  match attr_default f with Some d => d | None => VUndef end.

(* Go == on float64 bit images: NaN differs from everything, -0 == +0 *)
Definition f_is_zero (b : Z) : bool := (b =? 0) || (b =? two63).
Definition f_eq (a b : Z) : bool :=
  negb (f_is_nan a) && negb (f_is_nan b) && ((a =? b) || (f_is_zero a && f_is_zero b)).
(* px.Value.Equals between a declared default (a scalar or undef) and a value: integertype.go:335, floattype.go:229,
   stringtype.go:449, booleantype.go:198, undeftype.go:85 - each only equals a value of its own Go type *)
Definition default_eqb (d v : value) : bool :=
  match d, v with
  | VUndef, VUndef => true
  | VInt x, VInt y => x =? y
  | VFloat x, VFloat y => f_eq x y
  | VStr x, VStr y => str_eqb x y
  | VBool x, VBool y => Bool.eqb x y
  | _, _ => false
  end.
(* attribute.go:93 Default(value) = a.value != nil && a.value.Equals(value) *)
Definition is_default (f : gfield) (v : value) : bool :=
  match attr_default f with Some d => default_eqb d v | None => false end.

(* objecttype.go createAttributesInfo: the number of attributes without a value (they come first) *)
Definition required_count (fs : list gfield) : nat :=
  length (filter (fun p => negb (attr_has_value (snd p))) (indexed_fields fs)).

(* the parameters of the positional creator (objecttype.go:1186): one per attribute, those from RequiredCount on are
   optional; every argument given must be an instance of the type of its attribute *)
Fixpoint args_ok (order : list (nat * gfield)) (args : list value) : bool :=
  match order, args with
  | _, [] => true
  | p :: order', a :: args' => inst (attr_ty (snd p)) a && args_ok order' args'
  | [], _ :: _ => false
  end.

(* objectvalue.go:298 setValues: rf.ReflectTo(v, struct.FieldByName(attrs[i].GoName())) in positional order, where
   v = values[i] while i < len(values), and beyond that the attribute's value, or undef when it has none (:304-:311).
   objectvalue.go:103 fillValueSlice, called before (:290), only replaces positions that were NOT given (nil): a given
   value, undef included, stays as it is; the positional creator never hands over a nil. *)
Fixpoint set_values (order : list (nat * gfield)) (args : list value) (acc : list gval) : res (list gval) :=
  match order with
  | [] => Ok acc
  | p :: order' =>
      let a := match args with a :: _ => a | [] => default_or_undef (snd p) end in
      rbind (reflect_to (f_ty (snd p)) a) (fun x => set_values order' (tl args) (set_nth (fst p) x acc))
  end.

(* px.New(type, args...) through the positional creator (objecttype.go:1157 NewObjectValue; the dispatcher reports
   IllegalArguments unless RequiredCount <= len(args) <= len(attributes) and every argument is an instance of the type
   of its attribute): objectvalue.go:43 AllocObjectValue = the zero struct (addressable), :285 Initialize -> setValues. *)
Definition obj_new (n : str) (fs : list gfield) (args : list value) : res value :=
  if (required_count fs <=? length args)%nat && args_ok (attr_order fs) args then
    rbind (set_values (attr_order fs) args (map (fun f => zero_of (f_ty f)) fs))
          (fun vs => Ok (VObj n true (GVStruct vs)))
  else Err EArgs.

(* attributesinfo.go:55-61 (also what a caller does who leaves out optional arguments): the longest run of trailing
   values, at positions >= RequiredCount, that equal the default of their attribute is cut off.  i = position of the
   head of order. *)
Fixpoint cut_defaults (i req : nat) (order : list (nat * gfield)) (va : list value) : list value :=
  match order, va with
  | p :: order', v :: va' =>
      match cut_defaults (S i) req order' va' with
      | [] => if (req <=? i)%nat && is_default (snd p) v then [] else [v]
      | r => v :: r
      end
  | _, _ => []
  end.

(* objectvalue.go:372 reflectedObject.InitHash: name => wrapReflected(field) for the attributes, in positional order,
   whose value does not equal the declared default (:392) *)
Definition obj_init_hash (ffmt : Z -> str) (a : bool) (fs : list gfield) (vs : list gval) : list (value * value) :=
  flat_map (fun p => let v := set_addr a (wrap_reflected ffmt (f_ty (snd p)) (nth (fst p) vs GVOutside)) in
                     if is_default (snd p) v then [] else [(VStr (attr_name (snd p)), v)])
           (attr_order fs).

(* Hash.Get4(name) *)
Definition hash_get (k : str) (h : list (value * value)) : option value :=
  match find (fun e => match fst e with VStr s => str_eqb s k | _ => false end) h with
  | Some e => Some (snd e)
  | None => None
  end.

(* the parameter of the named-argument creator is the init type (objecttype.go:1090 createInitType, a Struct type):
   the key of an attribute with a value is optional, of one without required; the value of a key is an instance of the
   attribute's type; the hash has no other keys *)
Definition init_hash_ok (order : list (nat * gfield)) (h : list (value * value)) : bool :=
  forallb (fun p => match hash_get (attr_name (snd p)) h with
                    | Some v => inst (attr_ty (snd p)) v
                    | None => attr_has_value (snd p)
                    end) order &&
  forallb (fun e => match fst e with
                    | VStr k => existsb (fun p => str_eqb (attr_name (snd p)) k) order
                    | _ => false
                    end) h.

(* attributesinfo.go:47 PositionalFromHash: the values by attribute name, fillValueSlice (a name that is absent gets the
   attribute's value; one that is present keeps what was given, undef included), then the trailing defaults are cut *)
Definition positional_from_hash (fs : list gfield) (h : list (value * value)) : list value :=
  cut_defaults 0 (required_count fs) (attr_order fs)
    (map (fun p => match hash_get (attr_name (snd p)) h with Some v => v | None => default_or_undef (snd p) end)
         (attr_order fs)).

(* px.New(type, hash): the named-argument creator comes first in the dispatch (objecttype.go:1174); it takes a hash
   that is an instance of the init type (:1161 coerceTo returns an instance unchanged; newObjectValue2 -> InitFromHash
   -> setValues(PositionalFromHash)); any other hash is an ordinary single positional argument *)
Definition obj_new_hash (n : str) (fs : list gfield) (h : list (value * value)) : res value :=
  if init_hash_ok (attr_order fs) h then
    rbind (set_values (attr_order fs) (positional_from_hash fs h) (map (fun f => zero_of (f_ty f)) fs))
          (fun vs => Ok (VObj n true (GVStruct vs)))
  else obj_new n fs [VHash h].

(* a float default that is a zero equals (Go ==) the zero of the other sign, which the model's values keep apart *)
Definition defaults_ok (fs : list gfield) : bool :=
  forallb (fun f => match f_tvalue f with Some (LFloat b) => negb (f_is_zero b) | _ => true end) fs.

(* ---- a destination that was used before *)

(* Reflector.ReflectTo(v, dest) where dest, of type t, holds d (reflector.go:117).  Every ReflectTo method builds the
   Go value anew and assigns it: integertype.go:360 SetInt / :372 Set(&v), arraytype.go:557 MakeSlice ... :568 Set,
   hashtype.go:997 MakeMapWithSize ... :1016 Set, objectvalue.go:278 Set, undeftype.go:96 Set(Zero): what the
   destination held is never read, so d does not occur on the right. *)
Definition reflect_into (t : gty) (d : gval) (v : value) : res gval := reflect_to t v.

(* the destination after ReflectTo: a ReflectTo that fails panics before its final assignment *)
Definition dest_after (t : gty) (d : gval) (v : value) : gval :=
  match reflect_into t d v with Ok x => x | _ => d end.
(* ... after a sequence of ReflectTo calls *)
Definition reflect_hist (t : gty) (d : gval) (vs : list value) : gval := fold_left (dest_after t) vs d.

(* the fields are outside the input classes of the open findings (interface{} fields hold anything) *)
Fixpoint obj_ok (fs : list gfield) (vs : list gval) {struct fs} : bool :=
  match fs, vs with
  | [], [] => true
  | f :: fs', v :: vs' =>
      (is_iface (f_ty f) || (rt_ok false (f_ty f) v && acc_ok false (f_ty f) v)) && obj_ok fs' vs'
  | _, _ => false
  end.

(* no member of an input class of an open finding (and no interface content of a non-canonical dynamic type)
   anywhere in the value: the guards rt_ok / acc_ok hold whatever the position *)
Fixpoint plain_value (t : gty) (v : gval) {struct v} : bool :=
  match v with
  | GVInt z => match t with GInt KUint | GInt KUint64 => z <? two63 | _ => true end
  | GVFloat b => match t with GFloat32 => f_finite b | _ => true end
  | GVSlice None | GVMap None => false
  | GVSlice (Some es) => forallb (plain_value (elem_ty t)) es
  | GVMap (Some kvs) => forallb (fun kv => plain_value (key_ty t) (fst kv) && plain_value (elem_ty t) (snd kv)) kvs
  | GVPtr (Some x) => is_struct_ty (elem_ty t) || (negb (is_ptr_ty (elem_ty t)) && plain_value (elem_ty t) x)
  | GVIface (Some (d, x)) => canonical_dyn d
  | _ => true
  end.
