(* SerEq.v — the structural equality test on the consumer-side universe pvalue (property C10) and the boolean
   checkers of the hypotheses of the attribute-route / object-instance theorems.  Definitions only.

   pv_eqb is the instance of `veq` (Value.Equals of the consumer, Model/SerStruct.v: attribute.go:93-95
   `a.value != nil && a.value.Equals(v)`) that the correspondence run uses, and the comparison by which every
   observed result is compared with the model's (Corr/CorrC10.v: pvalue_eqb := pv_eqb str_eqb).  In the universe
   pvalue (no identities, Sensitive compared by content, floats by their bits, rich scalars by type name and
   serialization string) Value.Equals IS structural equality: Proofs/SerEqProofs.v proves
   pv_eqb peqb a b = true <-> a = b for every payload test that decides equality. *)
From Coq Require Import ZArith NArith Bool List.
From PcoreV Require Import Model.Base Model.Ser Model.SerAttrs.
Import ListNotations.

Section Eq.
Context {payload : Type}.
Variable peqb : payload -> payload -> bool.

Fixpoint pv_eqb (a b : @pvalue payload) {struct a} : bool :=
  match a, b with
  | PUndef, PUndef => true
  | PDefault, PDefault => true
  | PBool x, PBool y => Bool.eqb x y
  | PInt x, PInt y => Z.eqb x y
  | PFloat x, PFloat y => Z.eqb x y
  | PStr x, PStr y => str_eqb x y
  | PArr x, PArr y =>
      (fix go (x y : list (@pvalue payload)) : bool :=
         match x, y with
         | [], [] => true
         | a :: x', b :: y' => pv_eqb a b && go x' y'
         | _, _ => false
         end) x y
  | PHash x, PHash y =>
      (fix go (x y : list (@pvalue payload * @pvalue payload)) : bool :=
         match x, y with
         | [], [] => true
         | (a, c) :: x', (b, d) :: y' => pv_eqb a b && pv_eqb c d && go x' y'
         | _, _ => false
         end) x y
  | PSens x, PSens y => pv_eqb x y
  | PRich t x, PRich u y => str_eqb t u && peqb x y
  | PObj t x, PObj u y =>
      pv_eqb t u &&
      (fix go (x y : list (@pvalue payload * @pvalue payload)) : bool :=
         match x, y with
         | [], [] => true
         | (a, c) :: x', (b, d) :: y' => pv_eqb a b && pv_eqb c d && go x' y'
         | _, _ => false
         end) x y
  | _, _ => false
  end.

(* ---- the hypotheses of C10_trim_fill / C10_init_hash_fill / C10_struct_roundtrip as boolean checkers ---- *)

Fixpoint forallb2 {A B} (f : A -> B -> bool) (x : list A) (y : list B) : bool :=
  match x, y with
  | [], [] => true
  | a :: x', b :: y' => f a b && forallb2 f x' y'
  | _, _ => false
  end.

Fixpoint nodupb (l : list str) : bool :=
  match l with
  | [] => true
  | s :: l' => negb (existsb (str_eqb s) l') && nodupb l'
  end.

(* same name, and a set default flag means the value held equals the declared default *)
Definition isdef_soundb (a : attr payload) (d : decl payload) : bool :=
  str_eqb (d_name d) (a_name a) &&
  (negb (a_isdef a) ||
   match d_default d with Some dv => pv_eqb dv (erase (a_val a)) | None => false end).

Definition attr_hyps_okb (l : list (attr payload)) (ds : list (decl payload)) : bool :=
  forallb2 isdef_soundb l ds && nodupb (map a_name l).

End Eq.
