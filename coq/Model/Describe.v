(* Describe.v — executable model of the type mismatch describer (C19).

   Mirrors /repo/internal/typemismatchdescriber.go AS IT IS NOW (after the fix: commits 02ea9b7 and 2f30deb):
     describe / internalDescribe / describeByKind            (:856-914)
     describeOptionalType, describeEnumType, describePatternType, describeArrayType, describeHashType,
     describeStructType, describeTupleType/describeTuple, describeAnyType   (:606-855)
     describeVariantType / mergeDescriptions / unique / chopPath / canonicalPath   (:135-147, :231-239, :916-991)
     px.DescribeMismatch (:996), px.AssertType / px.AssertInstance / MismatchError (px/types.go:289-316)
   for the type kinds of Model/Ty.v.  describeCallableType is modelled in Model/DescribeCallable.v (Callable
   types over this universe).  Not in the fragment (so never sent to the model): Init, TypeAlias,
   TypeReference expected types (describeInitType, describeTypeAliasType, the unresolved-reference walk
   of `describe`).

   A mismatch is abstracted to (class, path): the expected/actual types a mismatch carries are used by the
   code only to word the message (text(), mergeMismatch's setExpected), never to decide which mismatches
   are reported — mergeDescriptions looks at class() and canonicalPath() only.  Path keys made by
   strconv.Itoa(i) are `KNum i` (injective, so pathEquals is preserved).

   Runtime fault sites of the modelled code are explicit `Fault` results:
     FTupleIndex   expected.Types()[ex]        (describeTuple, :788)
     FMergeFirst   mismatches[0]               (mergeDescriptions, :955)
     FNilType      a nil expected/actual type in a mismatch whose text() is worded from them (:365, :470, :529;
                   used by Model/DescribeCallable.v, which tracks the presence of the carried types)
   (the type assertions to IntegerType in basicSizeMismatch.from/to cannot fail by Go typing: a size
   mismatch is only built from *IntegerType values and mergeMismatch's `case sizeMismatch` precedes the
   `case expectedActualMismatch` that could store another type.)

   Oracles (Section variables): `rx` Go regexp (through asg), `teq` TupleType.Equals in describeTuple
   (:771).  Modelled rather than mirrored: `unique` (:979) compares mismatches by pointer; every mismatch
   in a description list is a fresh allocation (new…Mismatch / copyMismatch), so it is the identity.
   The iteration order of the Go map in describeStructType (:721 `for key := range h2`) is not
   observable in (class, path): all extraneous-key mismatches of one Struct have the same image. *)
From Coq Require Import ZArith NArith Bool List Arith.
From PcoreV Require Import Model.Base Model.Ty Model.Lattice.
Import ListNotations.
Open Scope Z_scope.

(* ---- paths and mismatches (typemismatchdescriber.go:17-103) ---- *)

Inductive pkind := PSubject | PEntry | PEntryKey | PParameter | PReturn | PBlock | PIndex | PVariant | PSignature.
Inductive pkey := KName (s : str) | KNum (n : N).
Definition pelem := (pkind * pkey)%type.
Definition path := list pelem.

Inductive mclass :=
| CCount | CMissingKey | CMissingRequiredBlock | CExtraneousKey | CPattern | CSize | CType | CUnexpectedBlock
| CUnresolvedTypeReference.
Definition mismatch := (mclass * path)%type.

Inductive fsite := FTupleIndex | FMergeFirst | FNilType.
Inductive res (A : Type) := Ok (a : A) | Fault (s : fsite).
Arguments Ok {A} a.
Arguments Fault {A} s.

Definition bind {A B} (r : res A) (f : A -> res B) : res B :=
  match r with Ok a => f a | Fault s => Fault s end.
(* descriptions = append(descriptions, <call>...) evaluated left to right *)
Definition app_res (x y : res (list mismatch)) : res (list mismatch) :=
  bind x (fun a => bind y (fun b => Ok (a ++ b))).

Definition pkind_eqb (a b : pkind) : bool :=
  match a, b with
  | PSubject, PSubject | PEntry, PEntry | PEntryKey, PEntryKey | PParameter, PParameter | PReturn, PReturn
  | PBlock, PBlock | PIndex, PIndex | PVariant, PVariant | PSignature, PSignature => true
  | _, _ => false
  end.
Definition pkey_eqb (a b : pkey) : bool :=
  match a, b with
  | KName s, KName s' => str_eqb s s'
  | KNum n, KNum n' => N.eqb n n'
  | _, _ => false
  end.
Definition pelem_eqb (a b : pelem) : bool := pkind_eqb (fst a) (fst b) && pkey_eqb (snd a) (snd b).
Definition path_eqb (a b : path) : bool := list_eqb pelem_eqb a b.                 (* pathEquals :799 *)
Definition mclass_eqb (a b : mclass) : bool :=
  match a, b with
  | CCount, CCount | CMissingKey, CMissingKey | CMissingRequiredBlock, CMissingRequiredBlock
  | CExtraneousKey, CExtraneousKey | CPattern, CPattern | CSize, CSize | CType, CType
  | CUnexpectedBlock, CUnexpectedBlock | CUnresolvedTypeReference, CUnresolvedTypeReference => true
  | _, _ => false
  end.
Definition mismatch_eqb (a b : mismatch) : bool := mclass_eqb (fst a) (fst b) && path_eqb (snd a) (snd b).

(* pathWith :812 *)
Definition pw (p : path) (k : pkind) (key : pkey) : path := p ++ [(k, key)].
Definition kidx (i : nat) : pkey := KNum (N.of_nat i).                             (* strconv.Itoa(i) *)

(* basicMismatch.canonicalPath :231 *)
Definition canonical (p : path) : path :=
  filter (fun pe => match fst pe with PVariant | PSignature => false | _ => true end) p.

(* chopPath :135 *)
Fixpoint remove_nth {A} (i : nat) (l : list A) : list A :=
  match l with
  | [] => []
  | x :: r => match i with O => r | S i' => x :: remove_nth i' r end
  end.
Definition chop_path (m : mismatch) (index : nat) : mismatch :=
  if (length (snd m) <=? index)%nat then m else (fst m, remove_nth index (snd m)).

(* unique :979 — pointer comparison of freshly allocated mismatches: see the header *)
Definition unique (v : list mismatch) : list mismatch := v.

(* mergeDescriptions :940, one round of the loop over mClass (:946-971):
   Some prev = "descriptions = []mismatch{prev}; break", None = next class.
   mergeMismatch(prev, curr, prev.path()) keeps prev's class and path (:149). *)
Definition merge_class_try (c : mclass) (ds : list mismatch) : res (option mismatch) :=
  let mismatches := filter (fun d => mclass_eqb (fst d) c) ds in
  if Nat.eqb (length mismatches) (length ds) then
    match mismatches with
    | [] => Fault FMergeFirst                                                     (* mismatches[0] *)
    | prev :: rest =>
        if forallb (fun curr => path_eqb (canonical (snd prev)) (canonical (snd curr))) rest
        then Ok (Some prev) else Ok None
    end
  else Ok None.

Fixpoint merge_loop (cs : list mclass) (ds : list mismatch) : res (list mismatch) :=
  match cs with
  | [] => Ok ds
  | c :: cs' =>
      match merge_class_try c ds with
      | Fault s => Fault s
      | Ok (Some prev) => Ok [prev]
      | Ok None => merge_loop cs' ds
      end
  end.

Definition merge_descriptions (varying : nat) (sm : mclass) (ds : list mismatch) : res (list mismatch) :=
  match ds with
  | [] => Ok []                                                                   (* :942 *)
  | _ =>
      bind (merge_loop [sm; CMissingRequiredBlock; CUnexpectedBlock; CType] ds)
           (fun ds' => match unique ds' with
                       | [d] => Ok [chop_path d varying]                          (* :974 *)
                       | ds'' => Ok ds''
                       end)
  end.

(* StructType.HashedMembersCloned (structtype.go:251): a Go map from member name to element *)
Definition members := list (str * (ty * ty)).
Fixpoint map_put (n : str) (kv : ty * ty) (h : members) : members :=
  match h with
  | [] => [(n, kv)]
  | (n', kv') :: r => if str_eqb n n' then (n, kv) :: r else (n', kv') :: map_put n kv r
  end.
Definition hashed_members (ms : members) : members :=
  fold_left (fun h m => map_put (fst m) (snd m) h) ms [].
Fixpoint map_delete (n : str) (h : members) : members :=
  match h with
  | [] => []
  | (n', kv') :: r => if str_eqb n n' then r else (n', kv') :: map_delete n r
  end.

Definition is_optional_ty (t : ty) : bool := match t with TOptional _ => true | _ => false end.

Section Describe.
  Variable rx : str -> str -> bool.       (* Go regexp *)
  Variable teq : ty -> ty -> bool.        (* TupleType.Equals (tupletype.go:188), consulted at :771 *)
  Notation asg := (asg rx true).          (* px.IsAssignable *)

  (* a describer closed over its expected type: actual -> path -> result *)
  Definition dfun := ty -> path -> res (list mismatch).

  (* internalDescribe :872 around describeByKind: nothing when assignable; when the describer of the kind
     found nothing, the plain type mismatch *)
  Definition guarded (e a : ty) (p : path) (by_kind : res (list mismatch)) : res (list mismatch) :=
    if asg e a then Ok [] else
    match by_kind with
    | Ok [] => Ok [(CType, p)]
    | r => r
    end.

  (* describeAnyType :849 *)
  Definition describe_any (e a : ty) (p : path) : res (list mismatch) :=
    if asg e a then Ok [] else Ok [(CType, p)].
  (* describeEnumType :617, describePatternType :638 *)
  Definition describe_pattern (e a : ty) (p : path) : res (list mismatch) :=
    if asg e a then Ok [] else Ok [(CPattern, p)].

  (* internalDescribe for an expected type without a describer of its own (used for the Undef that
     describeVariantType appends, which is not a sub-term) *)
  Definition desc_flat (e : ty) : dfun := fun a p => guarded e a p (describe_any e a p).

  (* describeOptionalType :606; d = internalDescribe(expected.ContainedType(), expected, ·, ·) *)
  Definition describe_optional (d : dfun) (a : ty) (p : path) : res (list mismatch) :=
    match a with
    | TUndef => Ok []
    | _ => d a p
    end.

  (* describeArrayType :649; d = internalDescribe(et, et, ·, ·) *)
  Fixpoint array_tuple_loop (et : ty) (d : dfun) (p : path) (ats : list ty) (ax : nat) : res (list mismatch) :=
    match ats with
    | [] => Ok []
    | at_ :: r =>
        app_res (if negb (asg et at_) then d at_ (pw p PIndex (kidx ax)) else Ok [])
                (array_tuple_loop et d p r (S ax))
    end.
  Definition describe_array (e et : ty) (d : dfun) (lo hi : Z) (a : ty) (p : path) : res (list mismatch) :=
    match a with
    | TTuple ats _ lo' hi' =>
        if size_sub lo hi lo' hi' then array_tuple_loop et d p ats 0 else Ok [(CSize, p)]
    | TArray _ lo' hi' =>
        if negb (asg e a) then
          if size_sub lo hi lo' hi' then Ok [(CType, p)] else Ok [(CSize, p)]
        else Ok []
    | _ => Ok [(CType, p)]
    end.

  (* describeHashType :676; dk = internalDescribe(kt, kt, ·, ·), dv = internalDescribe(vt, vt, ·, ·) *)
  Fixpoint hash_struct_loop (dk dv : dfun) (p : path) (ms : members) : res (list mismatch) :=
    match ms with
    | [] => Ok []
    | (n, (k, v)) :: r =>
        app_res (dk k (pw p PEntryKey (KName n)))
                (app_res (dv v (pw p PEntry (KName n))) (hash_struct_loop dk dv p r))
    end.
  Definition describe_hash (e : ty) (dk dv : dfun) (lo hi : Z) (a : ty) (p : path) : res (list mismatch) :=
    match a with
    | TStruct ms =>
        if size_sub lo hi (struct_required ms) (zlen ms) then hash_struct_loop dk dv p ms else Ok [(CSize, p)]
    | THash _ _ lo' hi' =>
        if negb (asg e a) then
          if size_sub lo hi lo' hi' then Ok [(CType, p)] else Ok [(CSize, p)]
        else Ok []
    | _ => Ok [(CType, p)]
    end.

  (* describeStructType :703.  An expected element is (name, Optional()?, describer of its ActualKeyType,
     describer of its value type) *)
  Definition selem := (str * bool * dfun * dfun)%type.
  Fixpoint struct_struct_loop (p : path) (es : list selem) (h2 : members) : res (list mismatch) :=
    match es with
    | [] => Ok (map (fun _ => (CExtraneousKey, p)) h2)                             (* :721 *)
    | (n, opt, dk, dv) :: r =>
        match find_member n h2 with
        | Some (k2, v2) =>
            app_res (dk (actual_key k2) (pw p PEntryKey (KName n)))
                    (app_res (dv v2 (pw p PEntry (KName n)))
                             (struct_struct_loop p r (map_delete n h2)))
        | None =>
            app_res (Ok (if opt then [] else [(CMissingKey, p)])) (struct_struct_loop p r h2)
        end
    end.
  Definition describe_struct (e : ty) (ms : members) (es : list selem) (a : ty) (p : path) : res (list mismatch) :=
    match a with
    | TStruct ms' => struct_struct_loop p es (hashed_members ms')
    | THash _ _ lo' hi' =>
        if negb (asg e a) then
          if size_sub (struct_required ms) (zlen ms) lo' hi' then Ok [(CType, p)] else Ok [(CSize, p)]
        else Ok []
    | _ => Ok [(CType, p)]
    end.

  (* describeTuple :746 with sm = newCountMismatch; ds = one describer per expected slot *)
  Fixpoint tuple_array_loop (ds : list dfun) (p : path) (ea : ty) (ex : nat) : res (list mismatch) :=
    match ds with
    | [] => Ok []
    | d :: r => app_res (d ea (pw p PIndex (kidx ex))) (tuple_array_loop r p ea (S ex))
    end.
  Fixpoint tuple_tuple_loop (ds : list dfun) (p : path) (ats : list ty) (ax : nat) : res (list mismatch) :=
    match ats with
    | [] => Ok []
    | at_ :: r =>
        app_res (if (length ds <=? ax)%nat then
                   match nth_error ds (length ds - 1) with                          (* expected.Types()[exl-1] *)
                   | None => Fault FTupleIndex
                   | Some d => d at_ (pw p PIndex (kidx ax))
                   end
                 else Ok [])
                (tuple_tuple_loop ds p r (S ax))
    end.
  Definition describe_tuple (e : ty) (ds : list dfun) (lo hi : Z) (a : ty) (p : path) : res (list mismatch) :=
    match a with
    | TArray ea lo' hi' =>
        if Nat.eqb (length ds) 0 || asg e a then Ok [] else
        if is_any ea then Ok [(CType, p)] else
        if negb (size_sub lo hi lo' hi') then Ok [(CCount, p)] else
        tuple_array_loop ds p ea 0
    | TTuple ats _ lo' hi' =>
        if teq e a || asg e a then Ok [] else
        if negb (size_sub lo hi lo' hi') then Ok [(CCount, p)] else
        if Nat.eqb (length ds) 0 then Ok [] else
        tuple_tuple_loop ds p ats 0
    | _ => Ok [(CType, p)]
    end.

  (* describeVariantType :916; ts = (member type, its describer); None = the early `return NoMismatch` *)
  Fixpoint variant_loop (a : ty) (p : path) (ts : list (ty * dfun)) (ex : nat) (vs : list mismatch)
    : res (option (list mismatch)) :=
    match ts with
    | [] => Ok (Some vs)
    | (vt, d) :: r =>
        if asg vt a then Ok None else
        match d a (pw p PVariant (kidx ex)) with
        | Fault s => Fault s
        | Ok dd => variant_loop a p r (S ex) (vs ++ dd)
        end
    end.
  Definition describe_variant (orig_optional : bool) (ts : list (ty * dfun)) (a : ty) (p : path) : res (list mismatch) :=
    let ts' := if orig_optional then ts ++ [(TUndef, desc_flat TUndef)] else ts in   (* :920 CopyAppend *)
    match variant_loop a p ts' 0 [] with
    | Fault s => Fault s
    | Ok None => Ok []
    | Ok (Some vs) => merge_descriptions (length p) CSize vs                      (* :931 *)
    end.

  (* internalDescribe(expected, original, actual, path); of `original` only "is an OptionalType" is used
     (describeVariantType :919) *)
  Fixpoint idesc (e : ty) (orig_optional : bool) (a : ty) (p : path) {struct e} : res (list mismatch) :=
    guarded e a p
      match e with
      | TVariant ts =>
          describe_variant orig_optional (map (fun vt => (vt, idesc vt (is_optional_ty vt))) ts) a p
      | TStruct ms =>
          describe_struct e ms
            (map (fun m => match m with
                           | (n, (k, v)) =>
                               (n, is_optional_ty k,
                                match k with                                       (* e1.ActualKeyType() *)
                                | TOptional t => idesc t (is_optional_ty t)
                                | _ => idesc k (is_optional_ty k)
                                end,
                                idesc v (is_optional_ty v))
                           end) ms) a p
      | THash kt vt lo hi =>
          describe_hash e (idesc kt (is_optional_ty kt)) (idesc vt (is_optional_ty vt)) lo hi a p
      | TTuple ts _ lo hi =>
          describe_tuple e (map (fun t => idesc t (is_optional_ty t)) ts) lo hi a p
      | TArray et lo hi =>
          describe_array e et (idesc et (is_optional_ty et)) lo hi a p
      | TOptional t => describe_optional (idesc t true) a p                         (* original = expected :612 *)
      | TPattern _ | TEnum _ _ => describe_pattern e a p
      | _ => describe_any e a p
      end.

  (* describe :856 (no TypeReference in the fragment; Normalize is the identity, types.go:84) *)
  Definition describe (e a : ty) (p : path) : res (list mismatch) := idesc e (is_optional_ty e) a p.

  (* px.DescribeMismatch :995: the subject path element *)
  Definition fn_prefix : str := [102; 117; 110; 99; 116; 105; 111; 110; 32]%N.     (* "function " *)
  Definition subject_path (name : str) : path := [(PSubject, KName (fn_prefix ++ name ++ [58]%N))].
  Definition describe_mismatch (name : str) (e a : ty) : res (list mismatch) := describe e a (subject_path name).

  (* px.AssertType / px.AssertInstance / MismatchError / TypeMismatchError (px/types.go:289-316).  `dt` is
     px.DetailedValueType(value): the inference is modelled by property C04 (Model/Infer.v); here it is an
     input.  When the description of (expected, dt) is empty although the value is not an instance,
     MismatchError words a type mismatch of the subject itself (px/types.go:305-310): its image is
     (CType, subject path). *)
  Inductive issue_code := TypeMismatchIssue.                                       (* px.TypeMismatch *)
  Inductive outcome := Returns | Raises (c : issue_code) (detail : list mismatch).
  Definition type_mismatch_error (name : str) (e a : ty) : res outcome :=
    bind (describe_mismatch name e a) (fun ms => Ok (Raises TypeMismatchIssue ms)).
  Definition mismatch_error (name : str) (e dt : ty) : res outcome :=
    bind (describe_mismatch name e dt)
         (fun ms => Ok (Raises TypeMismatchIssue (match ms with [] => [(CType, subject_path name)] | _ => ms end))).
  Definition assert_type (name : str) (e a : ty) : res outcome :=
    if asg e a then Ok Returns else type_mismatch_error name e a.
  Definition assert_instance (name : str) (e : ty) (v : value) (dt : ty) : res outcome :=
    if inst rx true e v then Ok Returns else mismatch_error name e dt.
End Describe.
