(* StrBytes.v — strings as BYTES (C02): the byte-level layer under String[min,max] and Enum's flag.

   A Go string is an arbitrary byte sequence; `str = list N` holds its bytes.  This file models, on bytes,
     * utf8.RuneCountInString        (unicode/utf8/utf8.go:437)  ~>  utf8_rune_count
     * utf8.DecodeRuneInString iterated (`for _, r := range s`, utf8.go:205)  ~>  steps / decode
       (total: every byte that does not start a well-formed sequence is one rune U+FFFD of width 1 —
        bytes 0x80..0xC1 and 0xF5..0xFF, truncated sequences, overlong forms E0 80..9F / F0 80..8F,
        surrogates ED A0..BF, code points above U+10FFFF F4 90..)
     * the IsInstance of the string types on a stringValue  ~>  instB, with the size test of
       stringtype.go:244 `t.size.IsInstance3(utf8.RuneCountInString(string(str)))` on the bytes
     * strings.ToLower (strings/strings.go:673) as EnumType.IsInstance calls it (enumtype.go:176): the ASCII
       fast path is `lower_ascii` (Model/Ty.v); beyond ASCII it is Map(unicode.ToLower, s) = decode, map
       every code point through unicode.ToLower (ORACLE `lc`, a table supplied with the cases), encode
       (invalid bytes become U+FFFD = EF BF BD)  ~>  to_lower_b
   `Ty.rune_count` (non-continuation bytes) is the count for VALID UTF-8 only; Proofs/StrBytesProofs.v shows
   that the two coincide there, so `Lattice.inst` is the byte-level model on valid text. *)
From Coq Require Import ZArith NArith Bool List.
From PcoreV Require Import Model.Base Model.Ty Model.Lattice Model.Spec.
Import ListNotations.
Open Scope Z_scope.

Definition RuneError : N := 65533%N.                                    (* utf8.go:17 U+FFFD *)
Definition in_rng (lo hi b : N) : bool := (N.leb lo b && N.leb b hi)%bool.
Definition is_cont (b : N) : bool := in_rng 128 191 b.                  (* locb..hicb, utf8.go:40 *)

(* utf8.go:64 first[256] with acceptRanges (utf8.go:94): class of a lead byte *)
Inductive lead := LAscii | LInvalid | LMulti (size : nat) (lo hi : N).
Definition first (b : N) : lead :=
  if N.ltb b 128 then LAscii                         (* as *)
  else if N.ltb b 194 then LInvalid                  (* 0x80..0xC1: xx *)
  else if N.ltb b 224 then LMulti 2 128 191          (* 0xC2..0xDF: s1 *)
  else if N.eqb b 224 then LMulti 3 160 191          (* 0xE0: s2 (no overlong) *)
  else if N.ltb b 237 then LMulti 3 128 191          (* 0xE1..0xEC: s3 *)
  else if N.eqb b 237 then LMulti 3 128 159          (* 0xED: s4 (no surrogates) *)
  else if N.ltb b 240 then LMulti 3 128 191          (* 0xEE, 0xEF: s3 *)
  else if N.eqb b 240 then LMulti 4 144 191          (* 0xF0: s5 (no overlong) *)
  else if N.ltb b 244 then LMulti 4 128 191          (* 0xF1..0xF3: s6 *)
  else if N.eqb b 244 then LMulti 4 128 143          (* 0xF4: s7 (at most U+10FFFF) *)
  else LInvalid.                                     (* 0xF5..0xFF: xx *)

Definition cp2 (b0 b1 : N) : N := ((b0 mod 32) * 64 + b1 mod 64)%N.
Definition cp3 (b0 b1 b2 : N) : N := ((b0 mod 16) * 4096 + (b1 mod 64) * 64 + b2 mod 64)%N.
Definition cp4 (b0 b1 b2 b3 : N) : N := ((b0 mod 8) * 262144 + (b1 mod 64) * 4096 + (b2 mod 64) * 64 + b3 mod 64)%N.

(* One entry per iteration of `for i, r := range s`: the rune and the number of bytes it took
   (DecodeRuneInString, utf8.go:205).  Structural: the recursive calls are on tails of s. *)
Fixpoint steps (s : str) : list (N * nat) :=
  match s with
  | [] => []
  | b0 :: r =>
    match first b0 with
    | LAscii => (b0, 1%nat) :: steps r
    | LInvalid => (RuneError, 1%nat) :: steps r
    | LMulti sz lo hi =>
      match r with
      | [] => (RuneError, 1%nat) :: steps r                         (* short *)
      | b1 :: r1 =>
        if negb (in_rng lo hi b1) then (RuneError, 1%nat) :: steps r
        else match sz with
        | 2%nat => (cp2 b0 b1, 2%nat) :: steps r1
        | _ =>
          match r1 with
          | [] => (RuneError, 1%nat) :: steps r
          | b2 :: r2 =>
            if negb (is_cont b2) then (RuneError, 1%nat) :: steps r
            else match sz with
            | 3%nat => (cp3 b0 b1 b2, 3%nat) :: steps r2
            | _ =>
              match r2 with
              | [] => (RuneError, 1%nat) :: steps r
              | b3 :: r3 =>
                if negb (is_cont b3) then (RuneError, 1%nat) :: steps r
                else (cp4 b0 b1 b2 b3, 4%nat) :: steps r3
              end
            end
          end
        end
      end
    end
  end.

(* the decoded text: the code points `for range` yields *)
Definition decode (s : str) : list N := map fst (steps s).

(* utf8.RuneCountInString (utf8.go:437), its own loop: n++ per iteration, i advances by 1 or by the size *)
Fixpoint utf8_rune_count (s : str) : Z :=
  match s with
  | [] => 0
  | b0 :: r =>
    match first b0 with
    | LAscii => 1 + utf8_rune_count r                                (* :441 *)
    | LInvalid => 1 + utf8_rune_count r                              (* :447 *)
    | LMulti sz lo hi =>
      match r with
      | [] => 1 + utf8_rune_count r                                  (* :452 i+size > ns *)
      | b1 :: r1 =>
        if negb (in_rng lo hi b1) then 1 + utf8_rune_count r         (* :457 *)
        else match sz with
        | 2%nat => 1 + utf8_rune_count r1                            (* :459 *)
        | _ =>
          match r1 with
          | [] => 1 + utf8_rune_count r
          | b2 :: r2 =>
            if negb (is_cont b2) then 1 + utf8_rune_count r          (* :460 *)
            else match sz with
            | 3%nat => 1 + utf8_rune_count r2                        (* :462 *)
            | _ =>
              match r2 with
              | [] => 1 + utf8_rune_count r
              | b3 :: r3 =>
                if negb (is_cont b3) then 1 + utf8_rune_count r      (* :463 *)
                else 1 + utf8_rune_count r3
              end
            end
          end
        end
      end
    end
  end.

(* utf8.ValidString: no iteration yields (RuneError, 1) *)
Definition err_step (st : N * nat) : bool := (N.eqb (fst st) RuneError && Nat.eqb (snd st) 1)%bool.
Definition valid_utf8 (s : str) : bool := forallb (fun st => negb (err_step st)) (steps s).
Definition is_ascii (s : str) : bool := forallb (fun b => N.ltb b 128) s.

(* utf8.EncodeRune / AppendRune (utf8.go:344): surrogates and values above U+10FFFF encode U+FFFD *)
Definition encode_rune (c : N) : str :=
  if N.ltb c 128 then [c]
  else if N.ltb c 2048 then [192 + c / 64; 128 + c mod 64]%N
  else if (N.ltb 1114111 c || (N.leb 55296 c && N.leb c 57343))%bool then [239; 191; 189]%N
  else if N.ltb c 65536 then [224 + c / 4096; 128 + (c / 64) mod 64; 128 + c mod 64]%N
  else [240 + c / 262144; 128 + (c / 4096) mod 64; 128 + (c / 64) mod 64; 128 + c mod 64]%N.
Definition encode (cs : list N) : str := flat_map encode_rune cs.

(* ASCII folding of a code point *)
Definition lower_ascii_cp (c : N) : N := lower_ascii_byte c.

Section Bytes.
  Variable rx : str -> str -> bool.          (* Go regexp *)
  Variable lc : N -> N.                      (* unicode.ToLower on a code point (oracle beyond ASCII) *)

  (* strings.ToLower (strings.go:673): ASCII fast path bytewise; otherwise strings.Map(unicode.ToLower, s)
     (strings.go:483: a negative result drops the rune — unicode.ToLower never returns one) *)
  Definition to_lower_b (s : str) : str :=
    if is_ascii s then lower_ascii s else encode (map lc (decode s)).

  (* strings.Map(mapping, s) as written (strings.go:483), mapping = lc.  Phase 1 scans `for i, c := range s` for the
     first rune that the mapping changes or that stands for an invalid byte (`r == c && c != RuneError` continues; for
     c == RuneError the rune is decoded again and `width != 1 && r == c` continues); nothing found: the ARGUMENT is
     returned.  Phase 2: the unchanged prefix s[:i], WriteRune(r), then `for _, c := range s[i+width:]` WriteRune(mapping(c)).
     map_scan walks the iterations (st = those of `range s` still ahead, s = the bytes still ahead); None = unchanged. *)
  Fixpoint map_scan (st : list (N * nat)) (s : str) : option str :=
    match st with
    | [] => None
    | (c, w) :: st' =>
        if (N.eqb (lc c) c && negb (err_step (c, w)))%bool
        then match map_scan st' (skipn w s) with
             | None => None
             | Some out => Some (firstn w s ++ out)
             end
        else Some (encode_rune (lc c) ++ encode (map lc (decode (skipn w s))))
    end.
  Definition go_map (s : str) : str := match map_scan (steps s) s with None => s | Some out => out end.
  (* strings.ToLower as written: to_lower_b is its reading as decode / map / encode (Proofs/StrBytesMap.v: equal) *)
  Definition to_lower_go (s : str) : str := if is_ascii s then lower_ascii s else go_map s.

  (* EnumType.IsInstance on a stringValue (enumtype.go:170) *)
  Definition enum_inst_b (ci : bool) (vs : list str) (s : str) : bool :=
    match vs with
    | [] => true
    | _ => mem_str (if ci then to_lower_b s else s) vs
    end.

  (* t.IsInstance(stringValue(s)) for every type of the fragment; the three places where the BYTES of the
     value matter beyond equality are String[lo,hi] (rune count), Enum with the flag (ToLower) and Pattern
     (the regexp oracle gets the bytes).  Variant/Optional/NotUndef pass the value on (a string is not undef). *)
  Fixpoint instB (t : ty) (s : str) {struct t} : bool :=
    match t with
    | TStringSz lo hi => in_size lo hi (utf8_rune_count s)          (* stringtype.go:244 *)
    | TEnum ci vs => enum_inst_b ci vs s                            (* enumtype.go:170 *)
    | TVariant ts => existsb (fun t' => instB t' s) ts
    | TOptional t' => instB t' s
    | TNotUndef t' => instB t' s
    | _ => inst rx true t (VStr s)
    end.

  (* the set, written on the decoded text: a size is a number of code points; the case-insensitive Enum holds
     the strings whose lower-cased text is listed *)
  Fixpoint denB (t : ty) (s : str) {struct t} : Prop :=
    match t with
    | TStringSz lo hi => between lo hi (zlen (decode s))
    | TEnum ci vs => vs = [] \/ In (if ci then to_lower_b s else s) vs
    | TVariant ts => (fix any (l : list ty) : Prop := match l with [] => False | t' :: r => denB t' s \/ any r end) ts
    | TOptional t' => denB t' s
    | TNotUndef t' => denB t' s
    | _ => den rx (asg rx true) t (VStr s)
    end.
End Bytes.
