(* KeysRich.v — C07: the types whose parameters are rich values: Timestamp[from, to] (types/timestamptype.go, after the
   fixes 31351c7 and 748affa), Timespan[from, to] (types/timespantype.go), Runtime[runtime, name, pattern] and the Go
   runtime types (types/runtimetype.go, after the fixes 1a8db06, 1709491, 403c461).  Definitions only; the lemmas are
   in Proofs/KeysRichProofs.v.

   What is NOT modelled and enters as an oracle (a function argument of the model, given by the implementation itself
   in the correspondence run; the theorems state what they assume of it): the text of a Timestamp in UTC
   (Timestamp.String()), the text %p of the address of a
   reflect.Type, reflect.Type.PkgPath() and reflect.Type.String(); the parsing of a bound given as text / hash. *)
From Coq Require Import ZArith NArith Bool String List.
From PcoreV Require Import Model.Base Model.Keys.
From PcoreV Require Model.CtxGid.
Import ListNotations.
Open Scope Z_scope.

(* ------------------------------------------------------------------------------------------ *)
(* time.Time: the instant (nanoseconds since the Unix epoch, not bounded: MaxTime is beyond int64 nanoseconds), the
   offset of its location, the monotonic clock reading (time.Now and what is derived from it by Add) *)
Record gotime := mkTime { t_inst : Z; t_zone : Z; t_mono : option Z }.

Definition mk_inst (sec ns : Z) : Z := sec * 1000000000 + ns.

(* time.Time.Equal: two times that both carry a monotonic reading are compared by the readings alone *)
Definition time_equal (a b : gotime) : bool :=
  match t_mono a, t_mono b with
  | Some x, Some y => x =? y
  | _, _ => t_inst a =? t_inst b
  end.
(* t.Round(0): strips the monotonic reading; t.UTC(): strips it and sets the location *)
Definition round0 (a : gotime) : gotime := mkTime (t_inst a) (t_zone a) None.
Definition utc (a : gotime) : gotime := mkTime (t_inst a) 0 None.

(* timestamptype.go:29-31 MinTime = time.Time{} (year 1), MaxTime = time.Unix(MaxInt64 - 62135596800, 999999999) *)
Definition min_time : gotime := mkTime (mk_inst (-62135596800) 0) 0 None.
Definition max_time : gotime := mkTime (mk_inst (9223372036854775807 - 62135596800) 999999999) 0 None.

Record tstype := mkTs { ts_min : gotime; ts_max : gotime }.

(* timestamptype.go:132 NewTimestampType (fix 748affa: Round(0)) *)
Definition new_timestamp_type (lo hi : gotime) : tstype := mkTs (round0 lo) (round0 hi).
(* timestamptype.go:128 *)
Definition default_timestamp_type : tstype := mkTs min_time max_time.

(* a bound handed to Timestamp[...] / the meta type: timestamptype.go:157 convertArg.
   BValue g: a Timestamp value wrapped from the time g (WrapTimestamp strips the reading, f601c93);
   BParsed g: a String or a Hash, g is what TimeFromString / TimeFromHash parse (oracle; a parsed time has no reading);
   BInt n: time.Unix(n, 0) in the local zone lz;  BDefault: MinTime as the first, MaxTime as the second argument.
   (Float: math.Modf and the float product are not modelled; the routes int / float are tied as BParsed.) *)
Inductive bound :=
 | BValue (g : gotime)
 | BParsed (inst zone : Z)
 | BInt (n lz : Z)
 | BDefault.

Definition convert_arg (first : bool) (b : bound) : gotime :=
  match b with
  | BValue g => round0 g
  | BParsed i z => mkTime i z None
  | BInt n lz => mkTime (mk_inst n 0) lz None
  | BDefault => if first then min_time else max_time
  end.

(* timestamptype.go:149 newTimestampType2 with one or two arguments *)
Definition new_timestamp_type2 (lo : bound) (hi : option bound) : tstype :=
  mkTs (convert_arg true lo) (match hi with Some h => convert_arg false h | None => max_time end).

(* timestamptype.go:206 Equals *)
Definition ts_equals (t ot : tstype) : bool :=
  time_equal (ts_min t) (ts_min ot) && time_equal (ts_max t) (ts_max ot).

(* timestamptype.go:247 Parameters (fix 31351c7: the text of tm.UTC()); render g = WrapTimestamp(g).String() *)
Definition ts_params (render : gotime -> str) (t : tstype) : list value :=
  let text g := VStr (render (utc g)) in
  if time_equal (ts_max t) max_time then
    if time_equal (ts_min t) min_time then [] else [text (ts_min t)]
  else if time_equal (ts_min t) min_time then [VDefault; text (ts_max t)]
  else [text (ts_min t); text (ts_max t)].

(* types.go:580 appendKey for a type: 1 't' name, appendTypeParamKey of every parameter, 4 *)
Definition ts_key (render : gotime -> str) (t : tstype) : list N :=
  k_type (bytes_of "Timestamp") (map vkey (ts_params render t)).

(* the invariant of the two fields: no monotonic reading (established by every constructor, see the proofs) *)
Definition ts_ok (t : tstype) : Prop := t_mono (ts_min t) = None /\ t_mono (ts_max t) = None.
Definition ts_okb (t : tstype) : bool :=
  match t_mono (ts_min t), t_mono (ts_max t) with None, None => true | _, _ => false end.

(* ------------------------------------------------------------------------------------------ *)
(* Timespan types: two time.Duration (int64 nanoseconds) *)
Record sptype := mkSp { sp_min : Z; sp_max : Z }.

Definition wrap64 (z : Z) : Z := (z + 9223372036854775808) mod two64 - 9223372036854775808.

(* a bound handed to Timespan[...]: timespantype.go:183 convertArg.  SValue d: a Timespan value; SParsed d: a String or
   a Hash (parseDuration / fromHash: oracle); SInt n: time.Duration(n * 1000000000) (int64 product, wraps);
   SDefault: math.MinInt64 first, math.MaxInt64 second. *)
Inductive sbound := SValue (d : Z) | SParsed (d : Z) | SInt (n : Z) | SDefault.

Definition sconvert_arg (first : bool) (b : sbound) : Z :=
  match b with
  | SValue d => d
  | SParsed d => d
  | SInt n => wrap64 (n * 1000000000)
  | SDefault => if first then min_int64 else max_int64
  end.

(* timespantype.go:170 NewTimespanType, :174 newTimespanType2 *)
Definition new_timespan_type (lo hi : Z) : sptype := mkSp lo hi.
Definition new_timespan_type2 (lo : sbound) (hi : option sbound) : sptype :=
  mkSp (sconvert_arg true lo) (match hi with Some h => sconvert_arg false h | None => max_int64 end).

(* timespantype.go:230 Equals *)
Definition sp_equals (t ot : sptype) : bool := (sp_min t =? sp_min ot) && (sp_max t =? sp_max ot).

(* timespantype.go:260 Parameters; render d = WrapTimespan(d).SerializationString() *)
Definition sp_params (render : Z -> str) (t : sptype) : list value :=
  if sp_max t =? max_int64 then
    if sp_min t =? min_int64 then [] else [VStr (render (sp_min t))]
  else if sp_min t =? min_int64 then [VDefault; VStr (render (sp_max t))]
  else [VStr (render (sp_min t)); VStr (render (sp_max t))].

Definition sp_key (render : Z -> str) (t : sptype) : list N :=
  k_type (bytes_of "Timespan") (map vkey (sp_params render t)).

(* timespantype.go Timespan.SerializationString(): fmt.Sprintf("%s%d.%09d", sign, u/NsecsPerSec, u%NsecsPerSec) with
   u = |tv| as a uint64 (for MinInt64: 2^63).  %d of a uint64: CtxGid.digits (decimal, most significant digit first);
   %09d of a number below 10^9: nine digits *)
Fixpoint ddigits (k : nat) (n : N) : list N :=
  match k with
  | O => []
  | S k' => (48 + n mod 10)%N :: ddigits k' (n / 10)%N
  end.
Definition pad9 (n : N) : list N := rev (ddigits 9 n).
Definition sp_text (d : Z) : str :=
  let u := Z.to_N (Z.abs d) in
  (if d <? 0 then [45%N] else []) ++ CtxGid.digits (u / 1000000000)%N ++ 46%N :: pad9 (u mod 1000000000)%N.

Definition sp_wf (t : sptype) : bool := in_int64 (sp_min t) && in_int64 (sp_max t).

(* ------------------------------------------------------------------------------------------ *)
(* Runtime types.  goType: a reflect.Type as an opaque identity (interface comparison `==` of two reflect.Type
   is identity of the type descriptor); pattern: the source of the *RegexpType (RegexpType.Equals compares the
   sources: Keys.v ty_eqb on TRegexp) *)
Record rttype := mkRt { rt_runtime : str; rt_name : str; rt_pattern : option str; rt_gotype : option nat }.

(* what the code reads of a reflect.Type: String(), PkgPath(), and the text %p of its address *)
Record gooracle := mkGo { go_text : nat -> str; go_pkg : nat -> str; go_ptr : nat -> str }.

Definition default_runtime_type : rttype := mkRt [] [] None None.

Definition is_empty (s : str) : bool := match s with [] => true | _ => false end.
Definition is_nil {A} (o : option A) : bool := match o with None => true | _ => false end.

(* runtimetype.go:56 NewRuntimeType; None = the reported error GoRuntimeTypeWithoutGoType *)
Definition new_runtime_type (runtime name : str) (pattern : option str) : option rttype :=
  if is_empty runtime && is_empty name && is_nil pattern then Some default_runtime_type
  else if str_eqb runtime (bytes_of "go") && negb (is_empty name) then None
  else Some (mkRt runtime name pattern None).

(* runtimetype.go:66 newRuntimeType2 (the parsed text Runtime[...] and the meta type): one, two or three arguments; the
   name defaults to the empty string, a pattern needs a name in front of it *)
Definition new_runtime_type2 (runtime : str) (name : option str) (pattern : option str) : option rttype :=
  match name with
  | None => new_runtime_type runtime [] None
  | Some n => new_runtime_type runtime n pattern
  end.

(* runtimetype.go:107 NewGoRuntimeType (value / reflect.Type / reflect.Value: the same reflect.Type) *)
Definition new_go_runtime_type (o : gooracle) (id : nat) : rttype :=
  mkRt (bytes_of "go") (go_text o id) None (Some id).

Definition opt_nat_eqb (a b : option nat) : bool :=
  match a, b with
  | None, None => true
  | Some x, Some y => Nat.eqb x y
  | _, _ => false
  end.

(* runtimetype.go:131 Equals (fix 1a8db06: a nil pattern on either side; fix 403c461: the reflect.Type decides) *)
Definition rt_equals (t ot : rttype) : bool :=
  if str_eqb (rt_runtime t) (rt_runtime ot) && str_eqb (rt_name t) (rt_name ot) && opt_nat_eqb (rt_gotype t) (rt_gotype ot) then
    match rt_pattern t, rt_pattern ot with
    | Some p, Some q => ty_eqb (TRegexp p) (TRegexp q)
    | a, b => is_nil a && is_nil b
    end
  else false.

(* runtimetype.go:235 Parameters (fix 1709491: only the default type has none) *)
Definition rt_params (t : rttype) : list value :=
  if is_empty (rt_runtime t) && is_empty (rt_name t) && is_nil (rt_pattern t) then []
  else [VStr (rt_runtime t)] ++
       (if is_empty (rt_name t) then [] else [VStr (rt_name t)]) ++
       (match rt_pattern t with Some p => [VType (TRegexp p)] | None => [] end).

(* runtimetype.go:145 ToKey: 1 't' "Runtime", the parameter keys, for a Go type PkgPath() '#' %p, 4 *)
Definition rt_suffix (o : gooracle) (t : rttype) : list N :=
  match rt_gotype t with
  | Some id => go_pkg o id ++ 35%N :: go_ptr o id
  | None => []
  end.
Definition rt_key (o : gooracle) (t : rttype) : list N :=
  (1 :: 116 :: bytes_of "Runtime" ++ concat (map vkey (rt_params t)) ++ rt_suffix o t ++ [4])%N.

Definition rt_wf (t : rttype) : bool :=
  lenok (rt_runtime t) && lenok (rt_name t) && match rt_pattern t with Some p => lenok p | None => true end.
