(* C19 — Type-mismatch reporting is total and agrees with the lattice.
   Statements only; the proofs are in Proofs/DescribeProofs.v, the model in Model/Describe.v (it mirrors
   internal/typemismatchdescriber.go and px/types.go:289-316 after the fix commits 02ea9b7, 2f30deb, 566d566).

   All theorems hold for every regexp oracle `rx`, every verdict `teq` of TupleType.Equals, ALL types of the
   model universe (no well-formedness or size restriction) and all paths.  `asg rx true` is the model of
   px.IsAssignable (Model/Lattice.v, the code with the by-specification Struct<-Hash rule enabled) and
   `inst rx true` of px.IsInstance.

   The detailed type of a value is an argument `dt` of assert_instance and the theorems hold for every `dt`;
   C19_detailed_never_fails instantiates it with the model of px.DetailedValueType that property C04 owns
   (Model/Infer.v infer_detailed, a total function tied to the code by C04's correspondence).  The harness of
   C19 checks px.DetailedValueType on every pool value and feeds the implementation's inferred type to the model. *)
From Coq Require Import ZArith NArith Bool List.
From PcoreV Require Import Model.Base Model.Ty Model.Lattice Model.Describe Model.Infer Proofs.DescribeProofs Proofs.DescribeInfer.
From PcoreV Require Import Model.DescribeCallable Proofs.DescribeCallableProofs.
Import ListNotations.
Open Scope Z_scope.

(* the description is produced without a runtime fault: neither expected.Types()[i] nor mismatches[0] is
   ever out of range *)
Theorem C19_describe_total :
  forall rx teq (e a : ty) (p : path), exists ms, describe rx teq e a p = Ok ms.
Proof. exact describe_total. Qed.
Print Assumptions C19_describe_total.

(* it is empty exactly when the actual type is assignable to the expected type *)
Theorem C19_empty_iff_assignable :
  forall rx teq (e a : ty) (p : path), describe rx teq e a p = Ok [] <-> asg rx true e a = true.
Proof. exact describe_empty_iff. Qed.
Print Assumptions C19_empty_iff_assignable.

(* every mismatch lies at or below the path that was given (chopPath never cuts into it) ... *)
Theorem C19_describe_below :
  forall rx teq (e a : ty) (p : path) ms,
    describe rx teq e a p = Ok ms -> Forall (fun m => exists r, snd m = p ++ r) ms.
Proof. exact describe_below. Qed.
Print Assumptions C19_describe_below.

(* ... so the subject heads the path of every mismatch: a non-empty description names the subject *)
Theorem C19_names_subject :
  forall rx teq (e a : ty) (subj : pelem) (p : path) ms,
    describe rx teq e a (subj :: p) = Ok ms -> Forall (fun m => hd_error (snd m) = Some subj) ms.
Proof. exact describe_names_subject. Qed.
Print Assumptions C19_names_subject.

(* AssertInstance: never a fault; returns exactly on instances; raises the reported type mismatch issue with a
   non-empty detail exactly on non-instances — whatever type `dt` was inferred for the value *)
Theorem C19_assert_instance_total :
  forall rx teq name e v dt, exists o, assert_instance rx teq name e v dt = Ok o.
Proof. exact assert_instance_total. Qed.
Print Assumptions C19_assert_instance_total.

Theorem C19_assert_raises_iff_not_instance :
  forall rx teq name e v dt,
    (assert_instance rx teq name e v dt = Ok Returns <-> inst rx true e v = true) /\
    ((exists m ms, assert_instance rx teq name e v dt = Ok (Raises TypeMismatchIssue (m :: ms)))
     <-> inst rx true e v = false).
Proof. exact assert_instance_raises_iff. Qed.
Print Assumptions C19_assert_raises_iff_not_instance.

Theorem C19_assert_names_subject :
  forall rx teq name e v dt c ms,
    assert_instance rx teq name e v dt = Ok (Raises c ms) ->
    Forall (fun m => hd_error (snd m) = Some (PSubject, KName (fn_prefix ++ name ++ [58%N]))) ms.
Proof. exact assert_instance_names_subject. Qed.
Print Assumptions C19_assert_names_subject.

(* when the inferred type is not accepted (which C04's precision theorem gives for non-instances), the detail
   is the description of the two types, not the generic fallback of MismatchError *)
Theorem C19_assert_detail_is_description :
  forall rx teq name e v dt,
    inst rx true e v = false -> asg rx true e dt = false ->
    exists m ms, describe_mismatch rx teq name e dt = Ok (m :: ms) /\
                 assert_instance rx teq name e v dt = Ok (Raises TypeMismatchIssue (m :: ms)).
Proof. exact assert_instance_detail. Qed.
Print Assumptions C19_assert_detail_is_description.

(* with the inferred detailed type of C04's model in place: an instance assertion on ANY value never faults
   (neither the inference nor the description), returns exactly on instances and raises the type mismatch
   issue, naming the subject, exactly on non-instances *)
Theorem C19_detailed_never_fails :
  forall rx teq name e v, exists o, assert_instance rx teq name e v (infer_detailed rx v) = Ok o.
Proof. exact assert_inferred_total. Qed.
Print Assumptions C19_detailed_never_fails.

Theorem C19_assert_inferred_raises_iff_not_instance :
  forall rx teq name e v,
    (assert_instance rx teq name e v (infer_detailed rx v) = Ok Returns <-> inst rx true e v = true) /\
    ((exists m ms, assert_instance rx teq name e v (infer_detailed rx v) = Ok (Raises TypeMismatchIssue (m :: ms)) /\
                   Forall (fun m' => hd_error (snd m') = Some (PSubject, KName (fn_prefix ++ name ++ [58%N]))) (m :: ms))
     <-> inst rx true e v = false).
Proof. exact assert_inferred_raises_iff. Qed.
Print Assumptions C19_assert_inferred_raises_iff_not_instance.

(* AssertType: the same for a type *)
Theorem C19_assert_type_total :
  forall rx teq name e a, exists o, assert_type rx teq name e a = Ok o.
Proof. exact assert_type_total. Qed.
Print Assumptions C19_assert_type_total.

Theorem C19_assert_type_raises_iff_not_assignable :
  forall rx teq name e a,
    (assert_type rx teq name e a = Ok Returns <-> asg rx true e a = true) /\
    ((exists m ms, assert_type rx teq name e a = Ok (Raises TypeMismatchIssue (m :: ms)))
     <-> asg rx true e a = false).
Proof. exact assert_type_raises_iff. Qed.
Print Assumptions C19_assert_type_raises_iff_not_assignable.

Theorem C19_assert_type_names_subject :
  forall rx teq name e a c ms,
    assert_type rx teq name e a = Ok (Raises c ms) ->
    Forall (fun m => hd_error (snd m) = Some (PSubject, KName (fn_prefix ++ name ++ [58%N]))) ms.
Proof. exact assert_type_names_subject. Qed.
Print Assumptions C19_assert_type_names_subject.

(* ---- expected Callable types (Model/DescribeCallable.v: describeCallableType, CallableType.IsAssignable) ----
   For every regexp oracle, every verdict of TupleType.Equals, ALL Callable types over the lattice universe
   (parameter tuple and return type of Model/Ty.v; block absent, Callable or Optional[Callable], to any depth)
   as expected type, every such Callable or lattice type as actual type, all paths.  A mismatch of this model
   also records whether the expected and the actual type it carries are present (non-nil): text() of a type,
   pattern, size or count mismatch dereferences both, so px.DescribeMismatch (describe + formatMismatch) is
   describe_mismatch_callable, which faults (FNilType) on a mismatch with a nil type. *)

(* the description AND the formatting of the message are produced without a fault: in particular the return
   type mismatch (:842) gets the defaulted actual return type and the block mismatch (:840) a block that exists *)
Theorem C19_callable_describe_total :
  forall rx teq name (e : cty) (a : actual),
    exists ms, describe_mismatch_callable rx teq name e a = Ok ms /\
               idesc_callable rx teq e a (subject_path name) = Ok ms.
Proof. exact describe_mismatch_callable_total. Qed.
Print Assumptions C19_callable_describe_total.

Theorem C19_callable_types_present :
  forall rx teq (e : cty) (a : actual) (p : path) ms,
    idesc_callable rx teq e a p = Ok ms -> forallb text_ok ms = true.
Proof. exact idesc_callable_text_ok. Qed.
Print Assumptions C19_callable_types_present.

(* empty exactly when the actual type is assignable (casg: CallableType.IsAssignable; callable_accepts: the
   decomposition of a lattice actual by GuardedIsAssignable) *)
Theorem C19_callable_empty_iff_assignable :
  forall rx teq name (e : cty) (a : actual),
    describe_mismatch_callable rx teq name e a = Ok [] <-> casg_actual rx e a = true.
Proof. exact describe_mismatch_callable_empty_iff. Qed.
Print Assumptions C19_callable_empty_iff_assignable.

Theorem C19_callable_describe_below :
  forall rx teq (e : cty) (a : actual) (p : path) ms,
    idesc_callable rx teq e a p = Ok ms -> Forall (fun m => exists r, snd (fst m) = p ++ r) ms.
Proof. exact idesc_callable_below. Qed.
Print Assumptions C19_callable_describe_below.

Theorem C19_callable_names_subject :
  forall rx teq name (e : cty) (a : actual) ms,
    describe_mismatch_callable rx teq name e a = Ok ms ->
    Forall (fun m => hd_error (snd (fst m)) = Some (PSubject, KName (fn_prefix ++ name ++ [58%N]))) ms.
Proof. exact describe_mismatch_callable_names_subject. Qed.
Print Assumptions C19_callable_names_subject.

Theorem C19_callable_assert_type_total :
  forall rx teq name (e : cty) (a : actual), exists o, assert_type_callable rx teq name e a = Ok o.
Proof. exact assert_type_callable_total. Qed.
Print Assumptions C19_callable_assert_type_total.

Theorem C19_callable_assert_type_raises_iff_not_assignable :
  forall rx teq name (e : cty) (a : actual),
    (assert_type_callable rx teq name e a = Ok Returns <-> casg_actual rx e a = true) /\
    ((exists m ms, assert_type_callable rx teq name e a = Ok (Raises TypeMismatchIssue (m :: ms)))
     <-> casg_actual rx e a = false).
Proof. exact assert_type_callable_raises_iff. Qed.
Print Assumptions C19_callable_assert_type_raises_iff_not_assignable.

(* casg reads like CallableType.IsAssignable (callabletype.go:216-248): the block types are compared in reverse *)
Theorem C19_callable_assignable_unfold :
  forall rx (e a : cty),
    casg rx e a =
    (is_bare e ||
     (casg_head rx e a &&
      match cblock e, cblock a with
      | None, None => true
      | Some (eo, eb), Some (ao, ab) => implb eo ao && casg rx ab eb
      | _, _ => false
      end)).
Proof. exact casg_unfold. Qed.
Print Assumptions C19_callable_assignable_unfold.

(* ---- non-vacuity: the model computes non-trivial descriptions ---- *)

Definition rx0 : str -> str -> bool := fun _ _ => false.
Definition teq0 : ty -> ty -> bool := fun _ _ => false.
Definition TInt := TInteger (-9223372036854775808) 9223372036854775807.
Definition sa : str := [97]%N.
Definition sb : str := [98]%N.
Definition sc : str := [99]%N.
Definition subj : path := [(PSubject, KName sa)].

(* Struct[{a => Tuple[Integer,String], Optional[b] => Variant[Integer, Enum[a]]}]
   vs Struct[{a => Tuple[Integer,String,Integer], b => Float, c => Integer}]:
   a count mismatch in entry a, the two variants of entry b, an extraneous key *)
Definition ex_e1 :=
  TStruct [(sa, (TStringVal sa, TTuple [TInt; TString] false 2 2));
           (sb, (TOptional (TStringVal sb), TVariant [TInt; TEnum false [sa]]))].
Definition ex_a1 :=
  TStruct [(sa, (TStringVal sa, TTuple [TInt; TString; TInt] false 3 3));
           (sb, (TStringVal sb, TFloat 0 1)); (sc, (TStringVal sc, TInt))].
Example C19_ex_struct :
  describe rx0 teq0 ex_e1 ex_a1 subj =
  Ok [(CCount, subj ++ [(PEntry, KName sa)]);
      (CType, subj ++ [(PEntry, KName sb); (PVariant, KNum 0)]);
      (CPattern, subj ++ [(PEntry, KName sb); (PVariant, KNum 1)]);
      (CExtraneousKey, subj)].
Proof. vm_compute. reflexivity. Qed.

(* Optional[Variant[Array[Integer,1,2], Array[String,4,5]]]: the Undef of the Optional is described as a third
   variant; a tuple of four strings is accepted (the description is empty and asg holds); with integers in
   slots 1 and 3 the second variant is described slot by slot *)
Definition ex_e2 := TOptional (TVariant [TArray TInt 1 2; TArray TString 4 5]).
Example C19_ex_variant_sizes :
  describe rx0 teq0 ex_e2 (TArray TInt 3 3) subj =
  Ok [(CSize, subj ++ [(PVariant, KNum 0)]); (CSize, subj ++ [(PVariant, KNum 1)]); (CType, subj ++ [(PVariant, KNum 2)])].
Proof. vm_compute. reflexivity. Qed.
Example C19_ex_empty_and_assignable :
  describe rx0 teq0 ex_e2 (TTuple [TString; TString; TString; TString] false 4 4) subj = Ok [] /\
  asg rx0 true ex_e2 (TTuple [TString; TString; TString; TString] false 4 4) = true.
Proof. vm_compute. split; reflexivity. Qed.
Example C19_ex_slots :
  describe rx0 teq0 ex_e2 (TTuple [TString; TInt; TString; TInt] false 4 4) subj =
  Ok [(CSize, subj ++ [(PVariant, KNum 0)]);
      (CType, subj ++ [(PVariant, KNum 1); (PIndex, KNum 1)]);
      (CType, subj ++ [(PVariant, KNum 1); (PIndex, KNum 3)]);
      (CType, subj ++ [(PVariant, KNum 2)])].
Proof. vm_compute. reflexivity. Qed.

(* all variants fail with a size mismatch at the same canonical path: merged into one, the variant element chopped *)
Example C19_ex_merge :
  describe rx0 teq0 (TVariant [TArray TInt 1 2; TArray TInt 4 5]) (TArray TInt 3 3) subj = Ok [(CSize, subj)].
Proof. vm_compute. reflexivity. Qed.

(* the cases the describers of the kinds miss are reported as a plain type mismatch (the former defects) *)
Example C19_ex_former_defects :
  describe rx0 teq0 (TVariant []) TInt subj = Ok [(CType, subj)] /\
  describe rx0 teq0 (TTuple [TInt; TString] false 2 2) (TTuple [TString; TString] false 2 2) subj = Ok [(CType, subj)] /\
  describe rx0 teq0 (TArray TInt 0 9223372036854775807) (TVariant [TArray TInt 0 5; TArray TInt 1 1]) subj = Ok [].
Proof. vm_compute. repeat split; reflexivity. Qed.

(* AssertInstance on {a => [1, 'a'], b => 3.0} with its detailed type: raises, detail below entry b *)
Example C19_ex_assert :
  assert_instance rx0 teq0 sa ex_e1
    (VHash [(VStr sa, VArr [VInt 1; VStr sa]); (VStr sb, VFloat 3)])
    (TStruct [(sa, (TStringVal sa, TTuple [TInteger 1 1; TStringVal sa] false 2 2)); (sb, (TStringVal sb, TFloat 3 3))]) =
  Ok (Raises TypeMismatchIssue
        [(CType, subject_path sa ++ [(PEntry, KName sb); (PVariant, KNum 0)]);
         (CPattern, subject_path sa ++ [(PEntry, KName sb); (PVariant, KNum 1)])]).
Proof. vm_compute. reflexivity. Qed.

(* a non-instance whose inferred type is accepted (Struct <- Hash by specification): the fallback names the subject *)
Example C19_ex_assert_fallback :
  inst rx0 true (TStruct [(sa, (TStringVal sa, TInt))]) (VHash [(VStr [], VInt 1)]) = false /\
  asg rx0 true (TStruct [(sa, (TStringVal sa, TInt))]) (THash (TStringVal []) (TInteger 1 1) 1 1) = true /\
  assert_instance rx0 teq0 sa (TStruct [(sa, (TStringVal sa, TInt))]) (VHash [(VStr [], VInt 1)])
    (THash (TStringVal []) (TInteger 1 1) 1 1) = Ok (Raises TypeMismatchIssue [(CType, subject_path sa)]).
Proof. vm_compute. repeat split; reflexivity. Qed.

(* ---- Callable: Callable[[String], Integer] against Callable[String] (no return type: Any is described),
   against Callable[[String], String], against a Callable that lacks the required block, against Integer ---- *)
Definition c_e1 := CNoBlock (Some ([TString], false, 1, 1)) (Some TInt).
Example C19_ex_callable_return :
  describe_mismatch_callable rx0 teq0 sa c_e1 (ACallable (CNoBlock (Some ([TString], false, 1, 1)) None)) =
    Ok [((CType, subject_path sa ++ [(PReturn, KName [])]), Types true true)] /\
  describe_mismatch_callable rx0 teq0 sa c_e1 (ACallable (CNoBlock (Some ([TInt; TInt], false, 2, 2)) (Some TInt))) =
    Ok [((CCount, subject_path sa), Types true true)] /\
  describe_mismatch_callable rx0 teq0 sa c_e1 (ACallable (CNoBlock (Some ([TString], false, 1, 1)) (Some (TInteger 0 5)))) = Ok [] /\
  describe_mismatch_callable rx0 teq0 sa c_e1 (ATy TInt) = Ok [((CType, subject_path sa), Types true true)] /\
  describe_mismatch_callable rx0 teq0 sa c_e1 (ATy (TVariant [])) = Ok [].
Proof. vm_compute. repeat split; reflexivity. Qed.
Example C19_ex_callable_block :
  let eb := CBlock (Some ([TString], false, 1, 1)) None false (CNoBlock (Some ([TInt], false, 1, 1)) None) in
  describe_mismatch_callable rx0 teq0 sa eb (ACallable (CNoBlock (Some ([TString], false, 1, 1)) None)) =
    Ok [((CMissingRequiredBlock, subject_path sa), NoTypes)] /\
  describe_mismatch_callable rx0 teq0 sa eb
    (ACallable (CBlock (Some ([TString], false, 1, 1)) None false (CNoBlock (Some ([TString], false, 1, 1)) None))) =
    Ok [((CType, subject_path sa ++ [(PBlock, KName [])]), Types true true)] /\
  (* a required block accepts an optional one (the block types are compared in reverse) *)
  describe_mismatch_callable rx0 teq0 sa eb
    (ACallable (CBlock (Some ([TString], false, 1, 1)) None true (CNoBlock (Some ([TInt], false, 1, 1)) None))) = Ok [] /\
  casg rx0 eb (CBlock (Some ([TString], false, 1, 1)) None false (CNoBlock (Some ([TInt], false, 1, 1)) None)) = true.
Proof. vm_compute. repeat split; reflexivity. Qed.

(* ---- the walk over the expected type (Model/DescribeWalk.v): `describe` visits the whole expected type on
   every error path looking for an unresolved reference (typemismatchdescriber.go:862, TypeAliasType.Accept
   with a Guard that is never cleared).  Universe: ALL graphs of type aliases - `env` is the list of the
   resolved types of the aliases, an alias is its index, so aliases may share members (fan-in), refer to
   themselves and to each other; the only hypothesis is that every alias has a resolved type (`closed`).
   Without the Guard remembering the aliases that are done, L_i = Struct[{left => L_(i+1), right => L_(i+1)}]
   would be walked 2^n times; the theorems exclude that: below an alias every alias is visited at most once,
   and the number of visits and the depth of the recursion are linear in the size of the graph (times the
   number of aliases written in the expected type itself: describe passes a nil Guard, so each of those is
   entered with a Guard of its own). ---- *)
From PcoreV Require Model.DescribeWalk Proofs.DescribeWalkProofs.

(* the walk ends, without a fault, within the linear fuel walk_fuel *)
Theorem C19_walk_total :
  forall (env : list DescribeWalk.aty) (t : DescribeWalk.aty),
    DescribeWalk.closed_env env = true -> DescribeWalk.closed (length env) t = true ->
    exists es, DescribeWalk.accept env t = DescribeWalk.WOk es.
Proof. exact DescribeWalkProofs.accept_total. Qed.
Print Assumptions C19_walk_total.

(* an expected type that is an alias: every alias is visited at most once *)
Theorem C19_walk_alias_once :
  forall env i es, DescribeWalk.accept env (DescribeWalk.AAlias i) = DescribeWalk.WOk es ->
    NoDup (DescribeWalk.aliases es) /\ (length (DescribeWalk.aliases es) <= length env)%nat.
Proof. exact DescribeWalkProofs.accept_alias_once. Qed.
Print Assumptions C19_walk_alias_once.

(* any expected type: at most once for each alias that is written in the expected type itself *)
Theorem C19_walk_alias_visits :
  forall env t es, DescribeWalk.accept env t = DescribeWalk.WOk es ->
    (length (DescribeWalk.aliases es) <= DescribeWalk.occ t * length env)%nat.
Proof. exact DescribeWalkProofs.accept_alias_visits. Qed.
Print Assumptions C19_walk_alias_visits.

(* the number of visits is at most the size of the type plus, for each alias written in it, the sizes of the
   resolved types (+1 each) *)
Theorem C19_walk_visits_linear :
  forall env t es, DescribeWalk.accept env t = DescribeWalk.WOk es ->
    (length es <= DescribeWalk.visit_bound env t)%nat.
Proof. exact DescribeWalkProofs.accept_visits_linear. Qed.
Print Assumptions C19_walk_visits_linear.

(* the first stage of describe (assignable? unresolved reference? internalDescribe) is total, says nothing for
   an assignable pair, and reports an unresolved reference exactly when the pair is not assignable and the walk
   meets one *)
Theorem C19_describe_stage_total :
  forall env e asg, DescribeWalk.closed_env env = true -> DescribeWalk.closed (length env) e = true ->
    exists d, DescribeWalk.describe_stage env e asg = DescribeWalk.WOk d.
Proof. exact DescribeWalkProofs.describe_stage_total. Qed.
Print Assumptions C19_describe_stage_total.

Theorem C19_describe_stage_unresolved :
  forall env e asg n,
    DescribeWalk.describe_stage env e asg = DescribeWalk.WOk (DescribeWalk.DUnresolved n) <->
    asg = false /\ exists es, DescribeWalk.accept env e = DescribeWalk.WOk es /\ DescribeWalk.first_ref es = Some n.
Proof. exact DescribeWalkProofs.describe_stage_unresolved. Qed.
Print Assumptions C19_describe_stage_unresolved.

(* 48 levels of aliases with fan-in 2 closed by Integer: 49 aliases, each visited once, 48 * 4 + 2 visits
   (a walk that forgot the aliases it has finished would make 2^48 alias visits); below Struct[{a => L0, b => L0}]
   the ladder is walked twice; a recursive alias Tree = Struct[{left => Optional[Tree], v => TypeReference['Foo']}]
   is entered once and the reference is found *)
Example C19_ex_walk_ladder :
  let env := DescribeWalk.ladder 48 DescribeWalk.ALeaf in
  let l0 := DescribeWalk.AAlias 0 in
  DescribeWalk.closed_env env = true /\
  match DescribeWalk.accept env l0 with
  | DescribeWalk.WOk es => DescribeWalk.aliases es = seq 0 49 /\ length es = 194%nat
  | _ => False
  end /\
  match DescribeWalk.accept env (DescribeWalk.a_struct [(DescribeWalk.a_key false, l0); (DescribeWalk.a_key false, l0)]) with
  | DescribeWalk.WOk es => DescribeWalk.aliases es = seq 0 49 ++ seq 0 49 /\ length es = 391%nat
  | _ => False
  end /\
  DescribeWalk.describe_stage env l0 false = DescribeWalk.WOk DescribeWalk.DInternal.
Proof. vm_compute. repeat split; reflexivity. Qed.
Example C19_ex_walk_recursive :
  let tree := DescribeWalk.a_struct
                [(DescribeWalk.a_key true, DescribeWalk.a_wrap (DescribeWalk.AAlias 0)); (DescribeWalk.a_key false, DescribeWalk.ARef sa)] in
  DescribeWalk.accept [tree] (DescribeWalk.a_array (DescribeWalk.AAlias 0)) =
    DescribeWalk.WOk [DescribeWalk.VOther; DescribeWalk.VOther; DescribeWalk.VAlias 0; DescribeWalk.VOther;
                      DescribeWalk.VOther; DescribeWalk.VOther; DescribeWalk.VOther; DescribeWalk.VOther;
                      DescribeWalk.VRef sa] /\
  DescribeWalk.describe_stage [tree] (DescribeWalk.a_array (DescribeWalk.AAlias 0)) false =
    DescribeWalk.WOk (DescribeWalk.DUnresolved sa).
Proof. vm_compute. split; reflexivity. Qed.

(* ---- the recursion of the describer on the ACTUAL side (Model/DescribeActual.v): both sides graphs of aliases.
   `dreach env k (e, a) (e', a')`: the pair (e', a') is reached from (e, a) by moves of the describer's call graph
   (any contained type of the expected type or the resolved type of an expected alias with the same actual type;
   a contained type of the actual type when the actual type IS a constructor), k of them descending into the
   actual type.  For ALL environments of aliases, cyclic or not, and all types: ---- *)
From PcoreV Require Model.DescribeActual Proofs.DescribeActualProofs.

(* the actual type of every recursive call is a contained type of the written actual type - an alias counts as a
   leaf: it is never replaced by the type it resolves to - so at most `anodes a` different actual types are met *)
Theorem C19_actual_stays_in_written_type :
  forall env k e a e' a', DescribeActual.dreach env k (e, a) (e', a') ->
    In a' (DescribeActual.asubterms a) /\ length (DescribeActual.asubterms a) = DescribeActual.anodes a.
Proof. exact DescribeActualProofs.dreach_in_written_type. Qed.
Print Assumptions C19_actual_stays_in_written_type.

(* the number of descents into the actual type along any sequence of calls is bounded by the depth of the written
   actual type: the recursion on the actual side is structural, however the aliases refer to each other *)
Theorem C19_actual_descents_bounded :
  forall env k e a e' a', DescribeActual.dreach env k (e, a) (e', a') ->
    (k + DescribeWalk.depth a' <= DescribeWalk.depth a)%nat.
Proof. exact DescribeActualProofs.dreach_descents. Qed.
Print Assumptions C19_actual_descents_bounded.

(* an alias on the actual side is never unfolded: the actual type stays that alias and no descent is made *)
Theorem C19_actual_alias_never_unfolded :
  forall env k e i e' a', DescribeActual.dreach env k (e, DescribeWalk.AAlias i) (e', a') ->
    a' = DescribeWalk.AAlias i /\ k = 0%nat.
Proof. exact DescribeActualProofs.dreach_actual_alias. Qed.
Print Assumptions C19_actual_alias_never_unfolded.

(* no infinite descent into an actual type, for every type graph (no environment is consulted) *)
Theorem C19_actual_descent_well_founded : well_founded DescribeActualProofs.achild.
Proof. exact DescribeActualProofs.achild_wf. Qed.
Print Assumptions C19_actual_descent_well_founded.

(* the check the correspondence makes on every observed description is the statement of C19_actual_descents_bounded *)
Theorem C19_actual_descents_check :
  forall a ds, DescribeActual.descents_ok a ds = true <-> Forall (fun d => (d <= DescribeWalk.depth a)%nat) ds.
Proof. exact DescribeActualProofs.descents_ok_spec. Qed.
Print Assumptions C19_actual_descents_check.

(* List1 = Struct[{v => Integer, Optional[next] => List1}] against List2 = Struct[{v => String, Optional[next] => List2}]
   (aliases 0 and 1): the expected side can be unfolded for ever (List1 -> its Struct -> the member next -> List1 ...),
   the actual side is the alias List2 in every one of these pairs; against the written Struct of List2 the member
   `next` is reached with one descent, and it is the alias again; the written Struct has depth 2 (the Optional key) *)
Example C19_ex_actual_two_lists :
  let env := DescribeActual.two_lists in
  DescribeWalk.closed_env env = true /\
  DescribeActual.dreach env 0 (DescribeWalk.AAlias 0, DescribeWalk.AAlias 1) (DescribeWalk.AAlias 0, DescribeWalk.AAlias 1) /\
  DescribeActual.dreach env 1 (DescribeWalk.AAlias 0, DescribeActual.list_body 1) (DescribeWalk.AAlias 0, DescribeWalk.AAlias 1) /\
  DescribeWalk.depth (DescribeActual.list_body 1) = 2%nat /\
  DescribeActual.descents_ok (DescribeActual.list_body 1) [1%nat; 0%nat] = true /\
  DescribeActual.descents_ok (DescribeWalk.AAlias 1) [1%nat] = false.
Proof. exact DescribeActualProofs.ex_two_lists. Qed.

(* ---- HISTORIES of describe calls (Model/DescribeHist.v): the same type and value OBJECTS checked again and again, under
   different subjects (strings, label functions, anything else) and through different entry points (px.DescribeMismatch,
   AssertType, TypeMismatchError, AssertInstance, MismatchError).  The model threads through the calls the one piece of
   state the code on these paths keeps - the detailed type that an Array / Hash value keeps once it has been inferred.
   For EVERY universe of types and values, every describer `desc` that is a function of (name, expected, actual), every
   world of objects and every list of calls: ---- *)
From PcoreV Require Model.DescribeHist Proofs.DescribeHistProofs.

(* the answers of a history are the answers that the calls get alone (a process in which nothing was asked before) *)
Theorem C19_history_independent :
  forall (E A V : Type) asgE instE desc dt (w : DescribeHist.world E A V) (cs : list DescribeHist.call),
    DescribeHist.hrun E A V asgE instE desc dt w [] cs = map (DescribeHist.alone E A V asgE instE desc dt w) cs.
Proof. exact DescribeHistProofs.hrun_alone. Qed.
Print Assumptions C19_history_independent.

(* a call after ANY history is answered as the call alone ... *)
Theorem C19_history_after_any :
  forall (E A V : Type) asgE instE desc dt (w : DescribeHist.world E A V) pre c,
    DescribeHist.hrun E A V asgE instE desc dt w (DescribeHist.hstate E A V asgE instE desc dt w [] pre) [c]
    = [DescribeHist.alone E A V asgE instE desc dt w c].
Proof. exact DescribeHistProofs.after_any_history. Qed.
Print Assumptions C19_history_after_any.

(* ... so the same call gets the same answer after whichever two histories *)
Theorem C19_history_same_call_same_answer :
  forall (E A V : Type) asgE instE desc dt (w : DescribeHist.world E A V) pre1 pre2 c,
    DescribeHist.hrun E A V asgE instE desc dt w (DescribeHist.hstate E A V asgE instE desc dt w [] pre1) [c]
    = DescribeHist.hrun E A V asgE instE desc dt w (DescribeHist.hstate E A V asgE instE desc dt w [] pre2) [c].
Proof. exact DescribeHistProofs.same_call_same_answer. Qed.
Print Assumptions C19_history_same_call_same_answer.

(* Named expected types: a chain of type aliases over ANY lattice type at the top of the expected type
   (describeTypeAliasType; the alias stays `original` below an Optional), all lattice actual types, all paths *)
Theorem C19_named_describe_total :
  forall rx teq (e : DescribeHist.nty) (a : ty) (p : path), exists ms, DescribeHist.ndescribe rx teq e a p = Ok ms.
Proof. exact DescribeHistProofs.ndescribe_total. Qed.
Print Assumptions C19_named_describe_total.

Theorem C19_named_empty_iff_assignable :
  forall rx teq (e : DescribeHist.nty) (a : ty) (p : path),
    DescribeHist.ndescribe rx teq e a p = Ok [] <-> DescribeHist.nasg rx e a = true.
Proof. exact DescribeHistProofs.ndescribe_empty_iff. Qed.
Print Assumptions C19_named_empty_iff_assignable.

Theorem C19_named_names_subject :
  forall rx teq (e : DescribeHist.nty) (a : ty) (subj : pelem) (p : path) ms,
    DescribeHist.ndescribe rx teq e a (subj :: p) = Ok ms -> Forall (fun m => hd_error (snd m) = Some subj) ms.
Proof. exact DescribeHistProofs.ndescribe_names_subject. Qed.
Print Assumptions C19_named_names_subject.

(* in EVERY history over named expected types every answer - description or raised detail - names the subject that ITS
   call was given (string, label function: getPrefix), never one of an earlier call *)
Theorem C19_history_names_its_subject :
  forall rx teq (w : DescribeHist.nworld) cs i c ans,
    nth_error cs i = Some c -> nth_error (DescribeHist.nrun rx teq w [] cs) i = Some ans ->
    Forall (fun m => hd_error (snd m) = Some (DescribeHistProofs.subject_elem (DescribeHist.call_name c)))
           (DescribeHist.answer_mismatches ans).
Proof. exact DescribeHistProofs.nrun_names_its_subject. Qed.
Print Assumptions C19_history_names_its_subject.

(* in every history: a description is produced without a fault and is empty exactly when the types are assignable *)
Theorem C19_history_describe_empty_iff :
  forall rx teq (w : DescribeHist.nworld) cs i name e a te ta,
    nth_error cs i = Some (DescribeHist.CDescribe name e a) ->
    nth_error (DescribeHist.w_es w) e = Some te -> nth_error (DescribeHist.w_as w) a = Some ta ->
    exists ms, nth_error (DescribeHist.nrun rx teq w [] cs) i = Some (DescribeHist.ADesc (Ok ms)) /\
               (ms = [] <-> DescribeHist.nasg rx te ta = true).
Proof. exact DescribeHistProofs.nrun_describe_empty_iff. Qed.
Print Assumptions C19_history_describe_empty_iff.

(* in every history: AssertInstance returns exactly on instances, otherwise raises the type mismatch with a non-empty
   detail - whatever was asked before and whichever type is inferred (and kept) for the value *)
Theorem C19_history_assert_instance :
  forall rx teq (w : DescribeHist.nworld) cs i p e v te tv,
    nth_error cs i = Some (DescribeHist.CAssertInstance p e v) ->
    nth_error (DescribeHist.w_es w) e = Some te -> nth_error (DescribeHist.w_vs w) v = Some tv ->
    (DescribeHist.ninst rx te (fst tv) = true /\
     nth_error (DescribeHist.nrun rx teq w [] cs) i = Some (DescribeHist.AOut (Ok Returns))) \/
    (DescribeHist.ninst rx te (fst tv) = false /\
     exists m ms, nth_error (DescribeHist.nrun rx teq w [] cs) i
                  = Some (DescribeHist.AOut (Ok (Raises TypeMismatchIssue (m :: ms))))).
Proof. exact DescribeHistProofs.nrun_assert_instance. Qed.
Print Assumptions C19_history_assert_instance.

(* type Endpoint = Struct[{host => String}]; the same hash {host => 1} fails AssertInstance under "a", then under "b":
   the second call reads the kept detailed type, and both details name their own subject; the third call describes the
   kept Integer type against the alias under "c" *)
Example C19_ex_history :
  let rx := fun _ _ => false in
  let host := [104; 111; 115; 116]%N in
  let endpoint := DescribeHist.NAlias [69]%N (DescribeHist.NTy (TStruct [(host, (TStringVal host, TString))])) in
  let dt := TStruct [(host, (TStringVal host, TInteger 1 1))] in
  let w := DescribeHist.World [endpoint] [TInteger 0 5] [(VHash [(VStr host, VInt 1)], dt)] in
  let sub n := (PSubject, KName (fn_prefix ++ n ++ [58]%N)) in
  DescribeHist.nrun rx (fun _ _ => false) w []
    [DescribeHist.CAssertInstance (DescribeHist.PString [97]%N) 0 0;
     DescribeHist.CAssertInstance (DescribeHist.PLabel [98]%N) 0 0;
     DescribeHist.CDescribe [99]%N 0 0]
  = [DescribeHist.AOut (Ok (Raises TypeMismatchIssue [(CType, [sub [97]%N; (PEntry, KName host)])]));
     DescribeHist.AOut (Ok (Raises TypeMismatchIssue [(CType, [sub [98]%N; (PEntry, KName host)])]));
     DescribeHist.ADesc (Ok [(CType, [sub [99]%N])])].
Proof. vm_compute. reflexivity. Qed.

(* ---- named types (aliases) at ANY position of the expected type (Model/DescribeNested.v) ----
   xty = a lattice type, an alias of an xty, or Optional / Array / Hash / Tuple / Struct / Variant over xty's; xres = the
   type with every alias replaced by what it resolves to; xasg e a = asg (xres e) a.  For ALL such expected types, all
   actual types of the lattice universe, all paths, every regexp oracle and every verdict of TupleType.Equals. *)
From PcoreV Require Model.DescribeNested Proofs.DescribeNestedProofs.

Theorem C19_nested_describe_total :
  forall rx teq (e : DescribeNested.xty) (a : ty) (p : path), exists ms, DescribeNested.xdescribe rx teq e a p = Ok ms.
Proof. exact DescribeNestedProofs.xdescribe_total. Qed.
Print Assumptions C19_nested_describe_total.

Theorem C19_nested_empty_iff_assignable :
  forall rx teq (e : DescribeNested.xty) (a : ty) (p : path),
    DescribeNested.xdescribe rx teq e a p = Ok [] <-> asg rx true (DescribeNested.xres e) a = true.
Proof. exact DescribeNestedProofs.xdescribe_empty_iff. Qed.
Print Assumptions C19_nested_empty_iff_assignable.

Theorem C19_nested_describe_below :
  forall rx teq (e : DescribeNested.xty) (a : ty) (p : path) ms,
    DescribeNested.xdescribe rx teq e a p = Ok ms -> Forall (fun m => exists r, snd m = p ++ r) ms.
Proof. exact DescribeNestedProofs.xdescribe_below. Qed.
Print Assumptions C19_nested_describe_below.

Theorem C19_nested_names_subject :
  forall rx teq (e : DescribeNested.xty) (a : ty) (subj : pelem) (p : path) ms,
    DescribeNested.xdescribe rx teq e a (subj :: p) = Ok ms -> Forall (fun m => hd_error (snd m) = Some subj) ms.
Proof. exact DescribeNestedProofs.xdescribe_names_subject. Qed.
Print Assumptions C19_nested_names_subject.

(* the nested model extends the two models it generalises: on an alias-free lattice type it is `describe`, on a chain of
   aliases at the top it is the named-type describer of Model/DescribeHist.v *)
Theorem C19_nested_extends :
  forall rx teq,
    (forall t a p, DescribeNested.xdescribe rx teq (DescribeNested.XTy t) a p = describe rx teq t a p) /\
    (forall e a p, DescribeNested.xdescribe rx teq (DescribeNestedProofs.x_of_nty e) a p = DescribeHist.ndescribe rx teq e a p).
Proof. exact (fun rx teq => conj (DescribeNestedProofs.xdescribe_lattice rx teq) (DescribeNestedProofs.xdescribe_of_nty rx teq)). Qed.
Print Assumptions C19_nested_extends.

(* histories over such expected types: every answer names the subject of ITS call; a description is empty iff assignable;
   AssertInstance raises iff not an instance - whatever was asked before *)
Theorem C19_nested_history_names_its_subject :
  forall rx teq (w : DescribeNested.xworld) cs i c ans,
    nth_error cs i = Some c -> nth_error (DescribeNested.xrun rx teq w [] cs) i = Some ans ->
    Forall (fun m => hd_error (snd m) = Some (PSubject, KName (fn_prefix ++ DescribeHist.call_name c ++ [58%N])))
           (DescribeHist.answer_mismatches ans).
Proof. exact DescribeNestedProofs.xrun_names_its_subject. Qed.
Print Assumptions C19_nested_history_names_its_subject.

Theorem C19_nested_history_describe_empty_iff :
  forall rx teq (w : DescribeNested.xworld) cs i name e a te ta,
    nth_error cs i = Some (DescribeHist.CDescribe name e a) ->
    nth_error (DescribeHist.w_es w) e = Some te -> nth_error (DescribeHist.w_as w) a = Some ta ->
    exists ms, nth_error (DescribeNested.xrun rx teq w [] cs) i = Some (DescribeHist.ADesc (Ok ms)) /\
               (ms = [] <-> DescribeNested.xasg rx te ta = true).
Proof. exact DescribeNestedProofs.xrun_describe_empty_iff. Qed.
Print Assumptions C19_nested_history_describe_empty_iff.

Theorem C19_nested_history_assert_instance :
  forall rx teq (w : DescribeNested.xworld) cs i p e v te tv,
    nth_error cs i = Some (DescribeHist.CAssertInstance p e v) ->
    nth_error (DescribeHist.w_es w) e = Some te -> nth_error (DescribeHist.w_vs w) v = Some tv ->
    (DescribeNested.xinst rx te (fst tv) = true /\
     nth_error (DescribeNested.xrun rx teq w [] cs) i = Some (DescribeHist.AOut (Ok Returns))) \/
    (DescribeNested.xinst rx te (fst tv) = false /\
     exists m ms, nth_error (DescribeNested.xrun rx teq w [] cs) i
                  = Some (DescribeHist.AOut (Ok (Raises TypeMismatchIssue (m :: ms))))).
Proof. exact DescribeNestedProofs.xrun_assert_instance. Qed.
Print Assumptions C19_nested_history_assert_instance.

(* ---- alias ENVIRONMENTS: `bodies` = the declarations (declaration i = the type alias i resolves to, written with
   references `ERef j`), `t` = the expected type written over them.  The boolean conditions: env_ok bodies = every
   declaration refers to EARLIER declarations only (the environment has no cycle), refs_below = every reference of t is
   declared.  They are exactly the domain of the unfolding; reference i unfolds to an alias object whose resolved type is
   body i over the earlier declarations; and the three clauses hold for every such expected type. ---- *)
From PcoreV Require Proofs.DescribeNestedEnvProofs.

Theorem C19_nested_env_defined_iff :
  forall (bodies : list DescribeNested.ety) (t : DescribeNested.ety),
    (exists x, DescribeNested.eresolve bodies t = Some x) <->
    DescribeNested.env_ok bodies && DescribeNested.refs_below (length bodies) t = true.
Proof. exact DescribeNestedEnvProofs.eresolve_defined_iff. Qed.
Print Assumptions C19_nested_env_defined_iff.

Theorem C19_nested_env_reference :
  forall bodies i b x,
    DescribeNested.eresolve bodies (DescribeNested.ERef i) = Some x -> nth_error bodies i = Some b ->
    exists r, x = DescribeNested.XAlias r /\ DescribeNested.eresolve (firstn i bodies) b = Some r.
Proof. exact DescribeNestedEnvProofs.eresolve_ref. Qed.
Print Assumptions C19_nested_env_reference.

Theorem C19_nested_env_clauses :
  forall rx teq (bodies : list DescribeNested.ety) (t : DescribeNested.ety),
    DescribeNested.env_ok bodies = true -> DescribeNested.refs_below (length bodies) t = true ->
    exists x, DescribeNested.eresolve bodies t = Some x /\
      (forall a p, exists ms, DescribeNested.xdescribe rx teq x a p = Ok ms) /\
      (forall a p, DescribeNested.xdescribe rx teq x a p = Ok [] <-> asg rx true (DescribeNested.xres x) a = true) /\
      (forall a subj p ms, DescribeNested.xdescribe rx teq x a (subj :: p) = Ok ms ->
                           Forall (fun m => hd_error (snd m) = Some subj) ms).
Proof. exact DescribeNestedEnvProofs.env_describe_clauses. Qed.
Print Assumptions C19_nested_env_clauses.

(* type Port = Integer[0, 5]; type Host = Variant[String, Port]:
   Struct[{p => Port, h => Array[Host]}] against Struct[{p => String, h => Tuple[Float]}]: the mismatch of the alias Port is
   reported at entry 'p'; below the alias Host the two variant mismatches merge into ONE, which is reported as a type
   mismatch of the alias at entry 'h' index 0 (no variant element); against an assignable Struct nothing is reported *)
Example C19_ex_nested :
  let rx := fun _ _ => false in
  let teq := fun _ _ => false in
  let port := DescribeNested.XAlias (DescribeNested.XTy (TInteger 0 5)) in
  let host := DescribeNested.XAlias (DescribeNested.XVariant [DescribeNested.XTy TString; port]) in
  let kp := [112]%N in let kh := [104]%N in
  let e := DescribeNested.XStruct [(kp, (TStringVal kp, port));
                                   (kh, (TStringVal kh, DescribeNested.XArray host 0 100))] in
  let a1 := TStruct [(kp, (TStringVal kp, TString)); (kh, (TStringVal kh, TTuple [TFloat 0 1] false 1 1))] in
  let a2 := TStruct [(kp, (TStringVal kp, TInteger 1 2)); (kh, (TStringVal kh, TArray TString 0 3))] in
  let s := (PSubject, KName [120]%N) in
  DescribeNested.xdescribe rx teq e a1 [s] = Ok [(CType, [s; (PEntry, KName kp)]); (CType, [s; (PEntry, KName kh); (PIndex, KNum 0)])] /\
  DescribeNested.xdescribe rx teq e a2 [s] = Ok [] /\
  DescribeNested.xres e = TStruct [(kp, (TStringVal kp, TInteger 0 5));
                                   (kh, (TStringVal kh, TArray (TVariant [TString; TInteger 0 5]) 0 100))] /\
  (* the same type over the environment [Port; Host]; a self-referential declaration is not an environment *)
  let bodies := [DescribeNested.ETy (TInteger 0 5);
                 DescribeNested.EVariant [DescribeNested.ETy TString; DescribeNested.ERef 0]] in
  let t := DescribeNested.EStruct [(kp, (TStringVal kp, DescribeNested.ERef 0));
                                   (kh, (TStringVal kh, DescribeNested.EArray (DescribeNested.ERef 1) 0 100))] in
  DescribeNested.env_ok bodies = true /\ DescribeNested.eresolve bodies t = Some e /\
  DescribeNested.env_ok [DescribeNested.EArray (DescribeNested.ERef 0) 0 100] = false.
Proof. vm_compute. repeat split; reflexivity. Qed.
