(* C16 — Dispatch and construction are type-safe.
   This file holds ONLY the statements of the property theorems, each closed by `exact <lemma>`, with
   `Print Assumptions` beneath, and the non-vacuity examples.

   Every theorem quantifies over ARBITRARY universes of types, values, block types and blocks and over an
   ARBITRARY instance predicate `inst` (GuardedIsInstance) and block predicate `binst` (`binst bt (Some bl)`: the
   block is an instance of the declared block type; `binst bt None`: the declared block type accepts undef, i.e. a
   missing block): dispatch never looks inside them.  The correspondence run
   instantiates them with the fragment `pty`/`pval`/`pinst` of Model/Dispatch.v.

   The hypotheses `Z.of_nat (length _) < max_int64` state that a Go slice has an `int` length; they hold of
   every builder program and argument list a Go program can hold. *)
From Coq Require Import ZArith NArith Bool List.
From PcoreV Require Import Model.Base Model.Dispatch Proofs.DispatchProofs Corr.CorrC16.
Import ListNotations.
Open Scope Z_scope.

(* ---- a signature accepts exactly what its declaration says ------------------------------------------ *)

(* For EVERY sequence of calls on the px.Dispatch builder that runs to the end and supplies the Go function:
   the Callable signature that createDispatch assembles (min/max bookkeeping, slot types, block type)
   accepts a call (CallableWith -> TupleType.IsInstance3) exactly when the call satisfies the declaration
   read declaratively: every required parameter takes one argument of its type, an optional one takes one if
   there is one left, a repeated one takes all the rest, nothing is left over; block forbidden / optional /
   declared with a type (then a call without block matches exactly when that type accepts undef, whether or not
   it is spelled Optional[..]).  `Some _`: the slot lookup t.types[tdx] never runs out of range. *)
Theorem C16_callable_iff_decl :
  forall (ty val bty blk : Type) (inst : ty -> val -> bool) (binst : bty -> option blk -> bool)
         (ops : list (bop ty bty)) (d : dispatch ty bty) (vs : list val) (b : option blk),
    build ops = Ok d -> d_hasfn d = true ->
    Z.of_nat (length ops) < max_int64 -> Z.of_nat (length vs) < max_int64 ->
    callable_with inst binst (d_sig d) vs b =
    Some (matches_decl inst binst (params_of ops) (blockreq_of ops) vs b).
Proof. exact callable_iff_decl. Qed.
Print Assumptions C16_callable_iff_decl.

(* The same for the canonical builder program of a declaration (the form of DESIGN.md 5/C16). *)
Theorem C16_callable_iff_decl_canonical :
  forall (ty val bty blk : Type) (inst : ty -> val -> bool) (binst : bty -> option blk -> bool)
         (d : list (param ty)) (r : blockreq bty) (dd : dispatch ty bty) (vs : list val) (b : option blk),
    build (ops_of_decl d r) = Ok dd ->
    Z.of_nat (length d) < max_int64 - 2 -> Z.of_nat (length vs) < max_int64 ->
    callable_with inst binst (d_sig dd) vs b = Some (matches_decl inst binst d r vs b) /\ d_hasfn dd = true.
Proof. exact callable_iff_decl_canonical. Qed.
Print Assumptions C16_callable_iff_decl_canonical.

(* The builder accepts only well-formed parameter lists (required* optional* repeated?, a required-repeated
   one only without optional ones) — so there always is a declaration the body can be checked against — *)
Theorem C16_builder_accepts_only_wellformed :
  forall (ty bty : Type) (ops : list (bop ty bty)) (d : dispatch ty bty),
    build ops = Ok d -> Z.of_nat (length ops) < max_int64 -> wf_params (params_of ops) = true.
Proof. exact build_wf. Qed.
Print Assumptions C16_builder_accepts_only_wellformed.

(* — and it accepts every well-formed one, with any block requirement. *)
Theorem C16_wellformed_accepted :
  forall (ty bty : Type) (d : list (param ty)) (r : blockreq bty),
    wf_params d = true -> Z.of_nat (length d) < max_int64 - 2 ->
    exists dd : dispatch ty bty, build (ops_of_decl d r) = Ok dd /\ d_hasfn dd = true.
Proof. exact wf_decl_accepted. Qed.
Print Assumptions C16_wellformed_accepted.

(* The declarative reading of a well-formed parameter list is "arity window and slot min(i, last)". *)
Theorem C16_decl_is_window_and_slots :
  forall (ty val : Type) (inst : ty -> val -> bool) (d : list (param ty)) (p : nat) (vs : list val),
    wf_from p d = true -> Z.of_nat (length vs) < max_int64 ->
    matches_params inst d vs = arity_ok d vs && slots inst (tys d) vs.
Proof. exact matches_params_window. Qed.
Print Assumptions C16_decl_is_window_and_slots.

(* ---- which body runs ---------------------------------------------------------------------------------- *)

(* For EVERY function assembled by buildFunction/Resolve from dispatch programs (fn_built: the builder ran
   to the end for every dispatch and every dispatch has its Go function), every argument list and block:
   goFunction.Call runs the body of the FIRST dispatch whose declaration the call satisfies, and raises the
   reported argument error when there is none.  Nothing else can happen (no runtime fault). *)
Theorem C16_call_is_first_match :
  forall (ty val bty blk : Type) (inst : ty -> val -> bool) (binst : bty -> option blk -> bool)
         (dss : list (list (bop ty bty))) (ds : list (dispatch ty bty)) (vs : list val) (b : option blk),
    fn_built dss ds -> Z.of_nat (length vs) < max_int64 ->
    call inst binst ds vs b =
    match first_index (decl_matches inst binst vs b) dss with Some i => RBody i | None => RArgError end.
Proof. exact call_is_first_match. Qed.
Print Assumptions C16_call_is_first_match.

Theorem C16_first_match :
  forall (ty val bty blk : Type) (inst : ty -> val -> bool) (binst : bty -> option blk -> bool)
         (dss : list (list (bop ty bty))) (ds : list (dispatch ty bty)) (vs : list val) (b : option blk) (i : nat),
    fn_built dss ds -> Z.of_nat (length vs) < max_int64 ->
    (call inst binst ds vs b = RBody i <->
     exists ops : list (bop ty bty),
       nth_error dss i = Some ops /\ decl_matches inst binst vs b ops = true /\
       forall (j : nat) (opsj : list (bop ty bty)),
         (j < i)%nat -> nth_error dss j = Some opsj -> decl_matches inst binst vs b opsj = false).
Proof. exact first_match. Qed.
Print Assumptions C16_first_match.

(* no body ever runs with arguments (or a block) outside its declaration *)
Theorem C16_no_body_outside_decl :
  forall (ty val bty blk : Type) (inst : ty -> val -> bool) (binst : bty -> option blk -> bool)
         (dss : list (list (bop ty bty))) (ds : list (dispatch ty bty)) (vs : list val) (b : option blk) (i : nat),
    fn_built dss ds -> Z.of_nat (length vs) < max_int64 ->
    call inst binst ds vs b = RBody i ->
    exists ops : list (bop ty bty), nth_error dss i = Some ops /\ decl_matches inst binst vs b ops = true.
Proof. exact no_body_outside_decl. Qed.
Print Assumptions C16_no_body_outside_decl.

(* when no dispatch matches, and only then, the reported argument error is raised *)
Theorem C16_no_match_is_arg_error :
  forall (ty val bty blk : Type) (inst : ty -> val -> bool) (binst : bty -> option blk -> bool)
         (dss : list (list (bop ty bty))) (ds : list (dispatch ty bty)) (vs : list val) (b : option blk),
    fn_built dss ds -> Z.of_nat (length vs) < max_int64 ->
    (call inst binst ds vs b = RArgError <->
     forall ops : list (bop ty bty), In ops dss -> decl_matches inst binst vs b ops = false).
Proof. exact no_match_is_arg_error. Qed.
Print Assumptions C16_no_match_is_arg_error.

Theorem C16_call_never_faults :
  forall (ty val bty blk : Type) (inst : ty -> val -> bool) (binst : bty -> option blk -> bool)
         (dss : list (list (bop ty bty))) (ds : list (dispatch ty bty)) (vs : list val) (b : option blk),
    fn_built dss ds -> Z.of_nat (length vs) < max_int64 ->
    (exists i : nat, call inst binst ds vs b = RBody i) \/ call inst binst ds vs b = RArgError.
Proof. exact call_body_or_arg_error. Qed.
Print Assumptions C16_call_never_faults.

(* The same reading of goFunction.Call for ANY list of dispatchers (built or not), in terms of the
   signatures themselves: the first dispatcher whose signature is CallableWith the call. *)
Theorem C16_first_callable_signature :
  forall (ty val bty blk : Type) (inst : ty -> val -> bool) (binst : bty -> option blk -> bool)
         (ds : list (dispatch ty bty)) (k : nat) (vs : list val) (b : option blk) (i : nat),
    call_from inst binst ds k vs b = RBody i <->
    exists (j : nat) (d : dispatch ty bty),
      i = (k + j)%nat /\ nth_error ds j = Some d /\
      callable_with inst binst (d_sig d) vs b = Some true /\ d_hasfn d = true /\
      forall (j' : nat) (d' : dispatch ty bty),
        (j' < j)%nat -> nth_error ds j' = Some d' -> callable_with inst binst (d_sig d') vs b = Some false.
Proof. exact call_from_body. Qed.
Print Assumptions C16_first_callable_signature.

(* ---- looking at a built function between calls --------------------------------------------------------------- *)

(* The state reachable from a resolved function (the builders it was resolved from, whose lists of resolved types the
   parameter tuples share, and the table of dispatchers) after ANY sequence of the read-only accessors - Dispatchers,
   Lambda.Parameters, Signature / PType, ParameterNames, the tuple's Types / Size, BlockType, String / ToString / Accept /
   Generic / Equals of all of them, and Resolve asked once more of the same builder - is the state before.
   `fn_coherent`: the table is what createDispatch makes of the builders, true of every function that has just been
   resolved (C16_resolved_function_is_coherent). *)
Theorem C16_introspection_is_pure :
  forall (ty bty : Type) (accs : list accessor) (st : fstate ty bty),
    fn_coherent st -> fst (run_accessors st accs) = st.
Proof. exact run_accessors_pure. Qed.
Print Assumptions C16_introspection_is_pure.

Theorem C16_resolved_function_is_coherent :
  forall (ty bty : Type) (ss : list (bstate ty bty)) (st : fstate ty bty),
    resolved_state ss = Some st -> fn_coherent st /\ f_builders st = ss.
Proof. exact resolved_state_coherent. Qed.
Print Assumptions C16_resolved_function_is_coherent.

(* so every call - any argument list, any block - does after the accessors what it did before them *)
Theorem C16_calls_unchanged_by_introspection :
  forall (ty val bty blk : Type) (inst : ty -> val -> bool) (binst : bty -> option blk -> bool)
         (st : fstate ty bty) (accs : list accessor) (vs : list val) (b : option blk),
    fn_coherent st ->
    call inst binst (f_table (fst (run_accessors st accs))) vs b = call inst binst (f_table st) vs b.
Proof. exact introspection_pure. Qed.
Print Assumptions C16_calls_unchanged_by_introspection.

(* and that is: the body of the first dispatch whose DECLARATION the call satisfies, else the argument error - for every
   function built from dispatch programs, after every sequence of accessors *)
Theorem C16_dispatch_after_introspection :
  forall (ty val bty blk : Type) (inst : ty -> val -> bool) (binst : bty -> option blk -> bool)
         (dss : list (list (bop ty bty))) (ss : list (bstate ty bty)) (ds : list (dispatch ty bty))
         (accs : list accessor) (vs : list val) (b : option blk),
    run_all dss 0 = inr ss -> fn_built dss ds -> Z.of_nat (length vs) < max_int64 ->
    call inst binst (f_table (fst (run_accessors (mkF ss ds) accs))) vs b =
    match first_index (decl_matches inst binst vs b) dss with Some i => RBody i | None => RArgError end.
Proof. exact dispatch_after_introspection. Qed.
Print Assumptions C16_dispatch_after_introspection.

(* asking again gives the same answers *)
Theorem C16_asking_again_same_answers :
  forall (ty bty : Type) (a1 a2 : list accessor) (st : fstate ty bty),
    fn_coherent st ->
    snd (run_accessors st (a1 ++ a2)) = snd (run_accessors st a1) ++ snd (run_accessors st a2).
Proof. exact run_accessors_app. Qed.
Print Assumptions C16_asking_again_same_answers.

(* what Lambda.Parameters() answers for a dispatch IS its declaration: one px.Parameter per declared parameter, of the
   declared type (an optional parameter keeps its declared type: it is not turned into Optional[T]), captures-rest
   exactly on a repeated one *)
Theorem C16_parameters_describe_declaration :
  forall (ty bty : Type) (ops : list (bop ty bty)) (d : dispatch ty bty),
    build ops = Ok d -> Z.of_nat (length ops) < max_int64 ->
    parameters_of_sig (d_sig d) = describe (params_of ops).
Proof. exact parameters_describe_declaration. Qed.
Print Assumptions C16_parameters_describe_declaration.

(* pair(Integer[0,5], String?) | rest(String, Boolean?, Integer[0,9]...): undef at an optional position is refused
   before and after Parameters() / Types() / Resolve were asked; Parameters() of `rest` *)
Definition ex_insp_dss : list (list (bop pty N)) :=
  [ [OParam (PInteger 0 5); OOptParam (PString 0 max_int64); OFunction];
    [OParam (PString 0 max_int64); OOptParam PBoolean; ORepParam (PInteger 0 9); OFunction] ].
Definition ex_insp_calls : list (list pval * option N) :=
  [ ([VInt 1], None); ([VInt 1; VUndef], None); ([VStr [97%N]; VUndef; VInt 1], None); ([VStr [97%N]; VBool true; VInt 1; VInt 2], None) ].

Example C16_introspection_nonvacuous :
  match insp_state [] ex_insp_dss with
  | Some st =>
      let '(st1, os) := run_accessors st [AParameters 1; ATypes 0; AResolve; ASize 1; AParameters 0] in
      (calls_on [] (fn_look ctx0 ([], ex_insp_dss)) st ex_insp_calls, calls_on [] (fn_look ctx0 ([], ex_insp_dss)) st1 ex_insp_calls, os)
  | None => ([], [], [])
  end
  = ( [RBody 0; RArgError; RArgError; RBody 1], [RBody 0; RArgError; RArgError; RBody 1],
      [ OParams [(PString 0 max_int64, false); (PBoolean, false); (PInteger 0 9, true)];
        OTypes [PInteger 0 5; PString 0 max_int64]; OResolved true; OSize 1 max_int64;
        OParams [(PInteger 0 5, false); (PString 0 max_int64, false)] ] ).
Proof. vm_compute. reflexivity. Qed.

(* ---- histories in one context ----------------------------------------------------------------------------- *)

(* pxContext.DoWithLoader puts the loader back however doer ends (normal return or panic). *)
Theorem C16_do_with_loader_restores :
  forall (A : Type) (c : pctx) (l : lchain) (doer : pctx -> pctx * res A), fst (do_with_loader c l doer) = c.
Proof. exact do_with_loader_restores. Qed.
Print Assumptions C16_do_with_loader_restores.

(* For EVERY context and every function (any local types, any dispatch programs): when BuildFunction + Resolve is
   over - the dispatches were created, the builder panicked, or Resolve raised a reported error that the caller
   recovers - the context's loader is the one from before: no local type stays behind. *)
Theorem C16_resolve_restores_loader :
  forall (c : pctx) (f : fndecl), fst (resolve_fn c f) = c.
Proof. exact resolve_fn_restores. Qed.
Print Assumptions C16_resolve_restores_loader.

Theorem C16_failed_resolve_restores_loader :
  forall (c c' : pctx) (f : fndecl) (e : nat * pcode), resolve_fn c f = (c', inl e) -> c' = c.
Proof. exact resolve_fn_failure_restores. Qed.
Print Assumptions C16_failed_resolve_restores_loader.

(* For EVERY history of functions built and resolved one after the other in the same context (by induction over
   the history; failed ones included): each function resolves to exactly what it resolves to alone in the initial
   context - its declared parameter types are read against its OWN local types, never against those of an earlier
   function.  With C16_call_is_first_match this gives first-match dispatch for every function of every history. *)
Theorem C16_history_independent :
  forall (h : list fndecl) (c : pctx),
    run_history c h = (c, map (fun f => snd (resolve_fn c f)) h).
Proof. exact history_independent. Qed.
Print Assumptions C16_history_independent.

Theorem C16_history_nth :
  forall (h : list fndecl) (c : pctx) (k : nat) (f : fndecl),
    nth_error h k = Some f -> nth_error (snd (run_history c h)) k = Some (snd (resolve_fn c f)).
Proof. exact history_nth. Qed.
Print Assumptions C16_history_nth.

(* ---- local types that refer to each other ------------------------------------------------------------------ *)

(* Resolve binds ALL local types of a function before it resolves any of them (one px.AddTypes for the whole list):
   a declared local name resolves to its alias, in every local definition and in every parameter type, WHEREVER it
   stands in the list of declarations - before or after its use. *)
Theorem C16_local_name_visible_anywhere :
  forall (parents : lchain) (names : list str) (n : str), In n names -> local_ref parents names n = Some (PAliasT n).
Proof. exact local_ref_declared. Qed.
Print Assumptions C16_local_name_visible_anywhere.

(* ... and what the local loader holds under a declared name is the declared expression with every local name in it
   resolved - those declared later and the name itself included (forward references, chains, recursion). *)
Theorem C16_local_definition_sees_all_locals :
  forall (parents : lchain) (decls : list (str * pty)) (n : str) (t : pty),
    NoDup (map fst decls) -> In (n, t) decls ->
    alias_lookup (fst (bind_locals parents decls)) n = Some (subst_with (local_ref parents (map fst decls)) t).
Proof. exact bind_locals_entry. Qed.
Print Assumptions C16_local_definition_sees_all_locals.

(* For EVERY context, every list of local type declarations (distinct names; any definitions, referring to each other in
   any way) and every permutation of it: the function resolves to the same dispatches (or fails alike), and every type has
   the same instances (at every depth of the test) - so, by C16_call_is_first_match, both dispatch alike. *)
Theorem C16_local_types_order_irrelevant :
  forall (c : pctx) (decls decls' : list (str * pty)) (dss : list (list (bop pty N))),
    Permutation.Permutation decls decls' -> NoDup (map fst decls) ->
    snd (resolve_fn c (decls, dss)) = snd (resolve_fn c (decls', dss)) /\
    (forall fuel seen t v,
        pinst_in (fn_look c (decls, dss)) fuel seen t v = pinst_in (fn_look c (decls', dss)) fuel seen t v).
Proof. exact local_types_order_irrelevant. Qed.
Print Assumptions C16_local_types_order_irrelevant.

(* Items = Array[Item, 1], Item = Integer[0,9] declared top-down (use before definition) and bottom-up; a chain
   L = G, G = M, M = Enum[a,b]; mutually recursive T = Array[Variant[Integer, U]], U = Array[T,1,1] in both orders *)
Definition ex_A : str := [65]%N.
Definition ex_B : str := [66]%N.
Definition ex_C : str := [67]%N.
Definition ex_run (decls : list (str * pty)) (dss : list (list (bop pty N))) (calls : list (list pval)) : fnobs :=
  obs_of [] (fn_look ctx0 (decls, dss)) (snd (resolve_fn ctx0 (decls, dss))) (map (fun vs => (vs, None)) calls).
Definition ex_items := (ex_A, PArray (PRef ex_B) 1 max_int64).
Definition ex_item := (ex_B, PInteger 0 9).
Definition ex_tree := (ex_A, PArray (PVariant [PInteger min_int64 max_int64; PRef ex_B]) 0 max_int64).
Definition ex_branch := (ex_B, PArray (PRef ex_A) 1 1).
Definition ex_first_or_any : list (list (bop pty N)) := [[OParam (PRef ex_A); OFunction]; [OParam PAny; OFunction]].

Example C16_forward_reference_nonvacuous :
  map (fun decls => ex_run decls ex_first_or_any [ [VArr [VInt 1; VInt 2]]; [VArr [VInt 1; VInt 50]]; [VArr []]; [VInt 1] ])
      [ [ex_items; ex_item]; [ex_item; ex_items] ]
  = [ ObsCalls [RBody 0; RBody 1; RBody 1; RBody 1]; ObsCalls [RBody 0; RBody 1; RBody 1; RBody 1] ].
Proof. vm_compute. reflexivity. Qed.

Example C16_alias_chain_nonvacuous :
  ex_run [ (ex_A, PRef ex_B); (ex_B, PRef ex_C); (ex_C, PEnum [[97]; [98]]%N) ] ex_first_or_any [ [VStr [97%N]]; [VStr [100%N]] ]
  = ObsCalls [RBody 0; RBody 1].
Proof. vm_compute. reflexivity. Qed.

Example C16_mutual_recursion_nonvacuous :
  map (fun decls => ex_run decls ex_first_or_any
         [ [VArr [VInt 1; VInt 2]]; [VArr [VInt 1; VArr [VArr [VInt 2]]]]; [VArr [VInt 1; VArr [VArr [VStr [120%N]]]]];
           [VArr [VArr [VArr [VInt 1]; VArr [VInt 2]]]] ])
      [ [ex_tree; ex_branch]; [ex_branch; ex_tree] ]
  = [ ObsCalls [RBody 0; RBody 0; RBody 1; RBody 1]; ObsCalls [RBody 0; RBody 0; RBody 1; RBody 1] ].
Proof. vm_compute. reflexivity. Qed.

(* ---- new ------------------------------------------------------------------------------------------------ *)

(* For EVERY receiver (a type, Init[T,...], the name of a type), every constructor whatsoever (registered by
   the type, found by the loader under the type's name; any dispatch table, any bodies) and every argument
   list: what newInstance / InitType.New yields is an instance of the type it was asked to create
   (`target`: the receiver; for Init[T,...] the type T; for a name the type loaded under it). *)
Theorem C16_new_in_type :
  forall (ty val bty blk : Type) (inst : ty -> val -> bool) (binst : bty -> option blk -> bool) (tname : ty -> str)
         (init_parts : ty -> option (option ty * list val)) (creatable : ty -> option (ctor ty val bty))
         (loader_ctor : str -> option (ctor ty val bty)) (load_type : str -> option ty)
         (as_array : val -> option (list val)) (r : recv ty) (args : list val) (v : val) (t : ty),
    new_instance inst binst tname init_parts creatable loader_ctor load_type as_array r args = OVal v ->
    target init_parts load_type r = Some t -> inst t v = true.
Proof. exact new_in_type. Qed.
Print Assumptions C16_new_in_type.

Theorem C16_new_other_receiver_is_reported :
  forall (ty val bty blk : Type) (inst : ty -> val -> bool) (binst : bty -> option blk -> bool) (tname : ty -> str)
         (init_parts : ty -> option (option ty * list val)) (creatable : ty -> option (ctor ty val bty))
         (loader_ctor : str -> option (ctor ty val bty)) (load_type : str -> option ty)
         (as_array : val -> option (list val)) (args : list val),
    new_instance inst binst tname init_parts creatable loader_ctor load_type as_array RcvOther args = OErr ENoRespond.
Proof. exact new_other_receiver. Qed.
Print Assumptions C16_new_other_receiver_is_reported.

(* a value comes out only when there is a type to belong to — or for a name under which the loader has a
   constructor but no type (then newInstance has nothing to check against, types.go:481) *)
Theorem C16_new_value_has_target :
  forall (ty val bty blk : Type) (inst : ty -> val -> bool) (binst : bty -> option blk -> bool) (tname : ty -> str)
         (init_parts : ty -> option (option ty * list val)) (creatable : ty -> option (ctor ty val bty))
         (loader_ctor : str -> option (ctor ty val bty)) (load_type : str -> option ty)
         (as_array : val -> option (list val)) (r : recv ty) (args : list val) (v : val),
    new_instance inst binst tname init_parts creatable loader_ctor load_type as_array r args = OVal v ->
    target init_parts load_type r <> None \/
    (exists n : str, r = RcvName n /\ load_type n = None /\ loader_ctor n <> None).
Proof. exact new_value_has_target. Qed.
Print Assumptions C16_new_value_has_target.

(* ... or a reported error: when every constructor is a built function whose bodies do not fault, new yields
   a value or a reported error, never a runtime fault (the dispatch and the Init[T] argument juggling add
   none). *)
Theorem C16_new_no_fault :
  forall (ty val bty blk : Type) (inst : ty -> val -> bool) (binst : bty -> option blk -> bool) (tname : ty -> str)
         (init_parts : ty -> option (option ty * list val)) (creatable : ty -> option (ctor ty val bty))
         (loader_ctor : str -> option (ctor ty val bty)) (load_type : str -> option ty)
         (as_array : val -> option (list val)) (r : recv ty) (args : list val),
    (forall (t : ty) (c : ctor ty val bty), creatable t = Some c -> ctor_ok inst binst c) ->
    (forall (n : str) (c : ctor ty val bty), loader_ctor n = Some c -> ctor_ok inst binst c) ->
    (forall (t : ty) (t' : option ty) (ia : list val),
        init_parts t = Some (t', ia) -> Z.of_nat (length (args ++ ia)) < max_int64) ->
    (forall (a : val) (vs : list val), as_array a = Some vs -> Z.of_nat (length vs) < max_int64) ->
    Z.of_nat (length args) < max_int64 ->
    no_fault (new_instance inst binst tname init_parts creatable loader_ctor load_type as_array r args).
Proof. exact new_no_fault. Qed.
Print Assumptions C16_new_no_fault.

(* A core constructor modelled end to end (dispatch table AND body, booleantype.go:36-62): for EVERY argument
   list, Boolean.new yields a Boolean or the reported argument error. *)
Theorem C16_boolean_new_total :
  forall args : list pval,
    (exists b, pnew_modelled PBoolean args = OVal (VBool b)) \/ pnew_modelled PBoolean args = OErr EArg.
Proof. exact boolean_new_total. Qed.
Print Assumptions C16_boolean_new_total.

(* ---- non-vacuity ------------------------------------------------------------------------------------------ *)

Definition ex_dss : list (list (bop pty N)) :=
  [ [OParam (PInteger 0 5); OFunction];
    [OParam PNumeric; OOptParam (PString 0 max_int64); OReturns; OFunction];
    [ORepParam PAny; OOptBlock 0%N; OFunction2] ].

(* the hypotheses of the dispatch theorems are satisfiable: a three-dispatch function is built *)
Example C16_fn_built_nonvacuous : exists ds, fn_built ex_dss ds /\ length ds = 3%nat.
Proof.
  eexists. split; [split; [vm_compute; reflexivity|split; repeat constructor]|reflexivity].
Qed.

(* the model computes: first match, later match, optional parameter, fall-through to the repeated Any
   dispatch, optional block accepted / refused by its type, block given to block-less dispatches *)
Example C16_dispatch_nonvacuous :
  match build_function ex_dss with
  | inr ds => map (fun c => call pinst (btab_inst [(0%N, Some 1%N)]) ds (fst c) (snd c))
                  [ ([VInt 3], None); ([VInt 7], None); ([VInt 7; VStr [97%N]], None); ([VStr [97%N]], None);
                    ([VStr [97%N]], Some 1%N); ([VStr [97%N]], Some 2%N); ([VInt 3], Some 1%N); ([], None) ]
  | inl _ => []
  end = [RBody 0; RBody 1; RBody 1; RBody 2; RBody 2; RArgError; RBody 2; RBody 2].
Proof. vm_compute. reflexivity. Qed.

Example C16_no_match_nonvacuous :
  match build_function [ [OParam (PInteger 0 5); OFunction]; [OParam (PString 2 max_int64); OReqRepParam PBoolean; OFunction] ] with
  | inr ds => map (fun vs => call pinst (btab_inst []) ds vs (@None N))
                  [ [VInt 6]; [VStr [97%N; 98%N]]; [VStr [97%N; 98%N]; VBool true; VInt 1]; [VStr [97%N; 98%N]; VBool true; VBool false] ]
  | inl _ => []
  end = [RArgError; RArgError; RArgError; RBody 1].
Proof. vm_compute. reflexivity. Qed.

(* the builder's panics *)
Example C16_builder_rejects_nonvacuous :
  map (fun ops => build_function [[OFunction : bop pty N]; ops])
      [ [OOptParam PAny; OParam PAny; OFunction]; [OOptParam PAny; OReqRepParam PAny; OFunction];
        [ORepParam PAny; OOptParam PAny; OFunction]; [OBlock 0%N; OBlock 1%N; OFunction2];
        [OBlock 0%N; OFunction]; [OFunction; OBlock 0%N]; [OFunction2] ]
  = [ inl (1%nat, PReqAfterOpt); inl (1%nat, PReqAfterOpt); inl (1%nat, PAfterRepeated); inl (1%nat, PBlockTwice);
      inl (1%nat, PNeedsBlockFn); inl (1%nat, PNeedsBlockFn); inl (1%nat, PNoBlockExpected) ].
Proof. vm_compute. reflexivity. Qed.

(* new re-checks the constructor's result against the constrained receiver *)
Example C16_new_nonvacuous :
  ( pnew (PInteger 0 5) [VInt 7] (OVal (VInt 7)),
    pnew (PInteger 0 5) [VInt 3] (OVal (VInt 3)),
    pnew (PString 2 max_int64) [VInt 1] (OVal (VStr [49%N])),
    pnew (PArray (PInteger min_int64 max_int64) 1 max_int64) [VArr []] (OVal (VArr [])),
    pnew (PInteger 0 5) [VStr [120%N]] (OErr EArg),
    pnew PAny [VInt 1] (OVal (VInt 1)) )
  = ( OErr EMismatch, OVal (VInt 3), OErr EMismatch, OErr EMismatch, OErr EArg, OErr ENoRespond ).
Proof. vm_compute. reflexivity. Qed.

(* the hypotheses of C16_new_in_type are satisfiable with a non-trivial conclusion *)
Example C16_new_in_type_nonvacuous :
  exists v, pnew (PInteger 0 5) [VStr [51%N]] (OVal (VInt 3)) = OVal v /\ pinst (PInteger 0 5) v = true.
Proof. exists (VInt 3). split; vm_compute; reflexivity. Qed.

(* the hypotheses of C16_new_no_fault are satisfiable: the registered Boolean constructor is a built function
   whose body does not fault on what its declaration admits *)
Example C16_ctor_ok_nonvacuous :
  exists c, modelled_loader boolean_name = Some c /\ ctor_ok pinst no_block c.
Proof.
  exists (boolean_ds, boolean_body). split; [|exact boolean_ctor_ok].
  unfold modelled_loader. replace (str_eqb boolean_name boolean_name) with true by reflexivity. exact boolean_ctor_eq.
Qed.

Example C16_boolean_new_nonvacuous :
  map (pnew_modelled PBoolean)
      [ [VInt 0]; [VInt 7]; [VFloat 0]; [VFloat 9223372036854775808]; [VBool false]; [VStr [78%N; 111%N]];
        [VStr [89%N; 69%N; 83%N]]; [VStr [97%N]]; [VUndef]; []; [VInt 1; VInt 2] ]
  = [ OVal (VBool false); OVal (VBool true); OVal (VBool false); OVal (VBool false); OVal (VBool false);
      OVal (VBool false); OVal (VBool true); OErr EArg; OErr EArg; OErr EArg; OErr EArg ].
Proof. vm_compute. reflexivity. Qed.

(* a declared block type that accepts undef without being an optional block (block type 3, e.g. an alias of
   Optional[Callable[1,1]]): the dispatch is chosen for a call without block; block type 2 does not accept undef *)
Example C16_block_type_accepting_undef_nonvacuous :
  match build_function [ [OParam (PInteger 0 5); OBlock 3%N; OFunction2]; [OParam (PInteger 0 5); OBlock 2%N; OFunction2];
                         [OParam PAny; OFunction] ] with
  | inr ds => map (fun c => call pinst (btab_inst [(3%N, None); (3%N, Some 1%N); (2%N, Some 4%N)]) ds (fst c) (snd c))
                  [ ([VInt 3], None); ([VInt 3], Some 1%N); ([VInt 3], Some 4%N); ([VInt 3], Some 5%N); ([VInt 7], None) ]
  | inl _ => []
  end = [RBody 0; RBody 0; RBody 1; RArgError; RBody 2].
Proof. vm_compute. reflexivity. Qed.

(* a history: `limits` (Wide = Integer[0,5], Narrow = Integer[0,99]), then a function with the same local names
   bound to other types whose Resolve raises (parameter Integer[9,0]), then `limits` again: the third resolves
   like the first, and 6 goes to the second dispatch both times *)
Definition ex_wide : str := [87;105;100;101]%N.
Definition ex_narrow : str := [78;97;114;114;111;119]%N.
Definition ex_limits : fndecl :=
  ([(ex_wide, PInteger 0 5); (ex_narrow, PInteger 0 99)],
   [[OParam (PRef ex_wide); OFunction]; [OParam (PRef ex_narrow); OFunction]]).
Definition ex_broken : fndecl :=
  ([(ex_wide, PInteger min_int64 max_int64); (ex_narrow, PInteger 0 9)],
   [[OParam (PRef ex_wide); OParam (PRef ex_narrow); OParam (PInteger 9 0); OFunction]]).

Example C16_history_nonvacuous :
  map (fun fr => obs_of [] (fn_look ctx0 (fst fr)) (snd fr) [([VInt 3], None); ([VInt 6], None); ([VInt 100], None)])
      (combine [ex_limits; ex_broken; ex_limits] (snd (run_history ctx0 [ex_limits; ex_broken; ex_limits])))
  = [ ObsCalls [RBody 0; RBody 1; RArgError]; ObsPanic 0 POther; ObsCalls [RBody 0; RBody 1; RArgError] ].
Proof. vm_compute. reflexivity. Qed.
