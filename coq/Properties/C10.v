(* C10 — Rich-data serialization round-trips under every option and consumer capability.
   This file holds ONLY the statements of the property theorems, each closed by `exact <lemma>`, and
   `Print Assumptions` beneath.  Model: Model/Ser.v (serialization/serializer.go, types/basiccollector.go,
   serialization/deserializer.go) and Model/SerAttrs.v (the attribute route: serializer.go:327-353, attributesinfo.go
   PositionalFromHash, objectvalue.go fillValueSlice).  Proofs: Proofs/SerAttrsProofs.v, Proofs/SerReentProofs.v
   (conversions that overlap on one Serializer object, Model/SerReent.v), Proofs/SerProofs.v (simulation serializer state / collector
   state), Proofs/SerWfProofs.v (stream well-formedness), Proofs/SerDeserProofs.v (deserializer).
   Object instances (attributeSlice and the wrappers of Go structs): Model/SerStruct.v (objectvalue.go InitHash,
   InitFromHash, setValues; attributesinfo.go PositionalFromHash), Proofs/SerStructProofs.v.
   The consumer's Value.Equals as structural equality on pvalue and the boolean checkers of the attribute
   hypotheses: Model/SerEq.v, Proofs/SerEqProofs.v (last section of this file). *)
From Coq Require Import ZArith NArith Bool List.
From PcoreV Require Import Model.Base Model.Ser Model.SerAttrs Model.SerReent Model.SerStruct Model.SerEq Proofs.SerProofs
  Proofs.SerWfProofs Proofs.SerDeserProofs Proofs.SerAttrsProofs Proofs.SerReentProofs Proofs.SerStructProofs Proofs.SerEqProofs.
Import ListNotations.

(* ---- the stream is well formed: for EVERY value (no assumption on the identity tags) and every point of
   {rich_data} x {local_reference} x {dedup_level} x {binary} x {complex keys} x {string threshold} ----
   wf_stream (Model/Ser.v) checks on the event list: every AddRef n has n < number of positions produced
   before it; every hash receives an even number of children; no Binary is added unless can_binary; without
   can_complex_keys every hash key is a string delivered by Add (not a container, not a reference). *)
Theorem C10_stream_wf :
  forall (payload : Type) (to_s : str -> payload -> str) (o : opts) (c : caps) (x : @rvalue payload),
    wf_stream (env_of o c) (serialize to_s o c x) = true.
Proof. exact @stream_wf. Qed.
Print Assumptions C10_stream_wf.

(* refIndex stays in step with the consumer: after Convert it equals the number of positions (Add, AddArray,
   AddHash events) the consumer received — for every value and all options. *)
Theorem C10_refindex_counts_positions :
  forall (payload : Type) (to_s : str -> payload -> str) (o : opts) (c : caps) (x : @rvalue payload),
    ridx (fst (to_data to_s (env_of o c) lv x (mksctx [] 0))) = npos (serialize to_s o c x).
Proof. exact @refindex_counts_positions. Qed.
Print Assumptions C10_refindex_counts_positions.

(* ---- every back-reference points to an earlier position that holds an equal value ----
   The collector, which resolves AddRef n by looking at position n, builds from the stream emitted under
   ANY options and capabilities exactly the reference-free Data tree `image`: each AddRef n met a position n
   that was filled (not a container still open) with the image of the value it stands for.
   wf_rich x: the identity tags of x name subtrees (same tag => same subtree; hence x is acyclic) — what Go
   pointer identity of immutable values gives. *)
Theorem C10_refs_resolve_to_equal_value :
  forall (payload : Type) (to_s : str -> payload -> str) (o : opts) (c : caps) (x : @rvalue payload),
    wf_rich x -> collect (serialize to_s o c x) = Ok (image to_s (env_of o c) x).
Proof. exact @collect_serialize. Qed.
Print Assumptions C10_refs_resolve_to_equal_value.

(* wf_rich is decided (sufficiently) by the pairwise checker that the correspondence run applies to every
   case: the reflected Go values do satisfy the hypothesis of the theorems above and below *)
Theorem C10_wf_rich_checker :
  forall x : @rvalue str, wf_richb (rvalue_eqb str_eqb) x = true -> wf_rich x.
Proof. exact wf_richb_str_sound. Qed.
Print Assumptions C10_wf_rich_checker.

(* the simulation invariant itself (DESIGN.md 5/C10): processing x from ANY pair of related states —
   R: length positions = refIndex, and every entry (value -> index) of the values map points to a position
   holding the image of that value, or belongs to a container that is still open (op) — delivers exactly
   image x to the collector's current frame, only appends positions, and re-establishes R. *)
Theorem C10_simulation :
  forall (payload : Type) (to_s : str -> payload -> str) (e : env) (m : N -> @rvalue payload) (x : @rvalue payload)
         (lvl : N) (op : list (N * nat)),
    consistent m x -> below m x op ->
    forall st pos, R to_s e m op st pos ->
    exists st' evs new,
      to_data to_s e lvl x st = (st', evs) /\
      (forall cs, positions cs = pos -> crun cs evs = Ok (app_pos new (push (image to_s e x) cs))) /\
      R to_s e m op st' (pos ++ new) /\ first_is new (image to_s e x).
Proof. exact @to_data_spec. Qed.
Print Assumptions C10_simulation.

(* ---- the round trip ----
   roundtrip = serialize, collect, deserialize (Model/Ser.v).  The result is compared in the universe pvalue,
   which has no identities: Sensitive is compared by its content.  expected = the value itself (erase) when
   rich_data is on, the documented lossy image (degrade: Default -> 'default', values without a Data form ->
   their String(), non-string keys -> String() for a consumer without complex keys) when it is off.
   Hypothesis on the parameters: the constructor from a string inverts the serialization string (checked on
   the implementation per kind by the harness).
   Guard rt_ok: the open finding user-hash-ptype-key (see C10_ptype_key_refuted). *)
Theorem C10_roundtrip :
  forall (payload : Type) (to_s : str -> payload -> str) (of_s : str -> str -> option payload),
    (forall tn p, of_s tn (to_s tn p) = Some p) ->
    forall (o : opts) (c : caps) (x : @rvalue payload),
      wf_rich x -> rt_ok to_s (env_of o c) x = true ->
      roundtrip to_s of_s o c x = Ok (expected (env_of o c) x).
Proof. exact @roundtrip_rich. Qed.
Print Assumptions C10_roundtrip.

(* the plain Data fragment (scalars, strings, arrays, string-keyed hashes, any sharing) comes back as itself
   under ALL options and capabilities, whatever the string forms of rich scalars are *)
Theorem C10_data_roundtrip :
  forall (payload : Type) (to_s : str -> payload -> str) (of_s : str -> str -> option payload)
         (o : opts) (c : caps) (x : @rvalue payload),
    is_data x = true -> wf_rich x -> rt_ok to_s (env_of o c) x = true ->
    roundtrip to_s of_s o c x = Ok (erase x).
Proof. exact @roundtrip_data. Qed.
Print Assumptions C10_data_roundtrip.

(* the deserializer half on its own: applied to the reference-free image it rebuilds the expected value *)
Theorem C10_deser_image :
  forall (payload : Type) (to_s : str -> payload -> str) (of_s : str -> str -> option payload) (e : env)
         (x : @rvalue payload),
    strs_ok to_s of_s x -> rt_ok to_s e x = true ->
    deser of_s (image to_s e x) = Ok (expected e x).
Proof. exact @deser_image. Qed.
Print Assumptions C10_deser_image.

(* ---- the attribute route: values that travel as an instance of their meta type (parameterized types with an
   object or alias type among their parameters), the trailing default-valued optional attributes left out.
   VObjT id ty req l disp (Model/SerAttrs.v) is the value; l = ALL attributes of the meta type with what the
   instance holds and the flag attribute.Default(value); trim mirrors the loop serializer.go:336-341.  Since
   VObjT is a term of rvalue, every theorem above applies to it. ---- *)

(* what is left out is a suffix of the attribute list, every attribute in it is default-valued, and none of it
   lies below RequiredCount *)
Theorem C10_trim_drops_trailing_defaults_only :
  forall (payload : Type) (req : nat) (l : list (attr payload)),
    exists sfx,
      l = trim req l ++ sfx /\
      Forall (fun a => a_isdef a = true) sfx /\
      (length sfx <= length l - req)%nat.
Proof. exact @trim_prefix. Qed.
Print Assumptions C10_trim_drops_trailing_defaults_only.

(* ... and nothing more could be left out: the last attribute emitted is required or not default-valued *)
Theorem C10_trim_maximal :
  forall (payload : Type) (req : nat) (l k : list (attr payload)) (a : attr payload),
    trim req l = k ++ [a] -> (req <= length k)%nat -> a_isdef a = false.
Proof. exact @trim_maximal. Qed.
Print Assumptions C10_trim_maximal.

(* the constructor from the attribute hash (a missing attribute receives its declared default) rebuilds ALL
   attribute values from the ones emitted.  isdef_sound a d: a set flag means the value equals the declared
   default (attribute.go:93-95); both hypotheses are checked on every value of the attribute route by the
   correspondence run (attrs_check). *)
Theorem C10_trim_fill :
  forall (payload : Type) (req : nat) (l : list (attr payload)) (ds : list (decl payload)),
    Forall2 (fun a d => d_name d = a_name a /\ isdef_sound a d) l ds ->
    NoDup (map a_name l) ->
    fill ds (given_of (trim req l)) = Ok (map (fun a => erase (a_val a)) l).
Proof. exact @trim_fill. Qed.
Print Assumptions C10_trim_fill.

(* end to end under every option with rich_data and every capability: serialize, collect, deserialize, construct
   from the attribute hash = all attribute values of the original *)
Theorem C10_attr_route_roundtrip :
  forall (payload : Type) (to_s : str -> payload -> str) (of_s : str -> str -> option payload),
    (forall tn p, of_s tn (to_s tn p) = Some p) ->
    forall (o : opts) (c : caps) id ty req (l : list (attr payload)) disp (ds : list (decl payload)),
      rich_data o = true ->
      wf_rich (VObjT id ty req l disp) -> rt_ok to_s (env_of o c) (VObjT id ty req l disp) = true ->
      Forall2 (fun a d => d_name d = a_name a /\ isdef_sound a d) l ds ->
      NoDup (map a_name l) ->
      bind (roundtrip to_s of_s o c (VObjT id ty req l disp)) (fun p => fill ds (pobj_attrs p))
        = Ok (map (fun a => erase (a_val a)) l).
Proof. exact @attr_route_roundtrip. Qed.
Print Assumptions C10_attr_route_roundtrip.

(* reading the attributes: with a reader for every declared attribute (guard readers_ok) the route serializes the
   value VObjT of the attributes read, to which every theorem above applies ... *)
Theorem C10_attr_route_serializes :
  forall (payload : Type) (to_s : str -> payload -> str) (o : opts) (c : caps) id ty req
         (rs : list (reading payload)) disp,
    readers_ok rs = true ->
    exists l, read_all rs = Ok l /\
              attr_route_serialize to_s o c id ty req rs disp = Ok (serialize to_s o c (VObjT id ty req l disp)).
Proof. exact @attr_route_serialize_ok. Qed.
Print Assumptions C10_attr_route_serializes.

(* ... and without the guard the statement "the serializer does not fail" is false of the (faithful) model: open
   finding struct-type-attribute-route.  Pcore::StructElement declares key_type and value_type, StructElement has
   no reader: serializing a Struct type that has to travel by attributes ends in NO_ATTRIBUTE_READER. *)
Definition C10_attr_route_statement : Prop :=
  forall (payload : Type) (to_s : str -> payload -> str) (o : opts) (c : caps) id ty req
         (rs : list (reading payload)) disp,
    is_ok (attr_route_serialize to_s o c id ty req rs disp) = true.

Definition ex_struct_element : list (reading str) :=
  [(s_key_type, None, false); (s_value_type, None, false)].

Theorem C10_struct_attribute_route_refuted :
  exists rs : list (reading str),
    readers_ok rs = false /\
    attr_route_serialize (fun _ p => p) (mkopts true true 2) (mkcaps true true 0) 1%N
      (VStr t_struct_element) 2%nat rs [] = Err.
Proof. exists ex_struct_element. split; vm_compute; reflexivity. Qed.
Print Assumptions C10_struct_attribute_route_refuted.

Theorem C10_attr_route_statement_refuted : ~ C10_attr_route_statement.
Proof.
  intros H. destruct C10_struct_attribute_route_refuted as (rs & _ & He).
  specialize (H str (fun _ p => p) (mkopts true true 2) (mkcaps true true 0) 1%N
                (VStr t_struct_element) 2%nat rs []).
  rewrite He in H. discriminate.
Qed.
Print Assumptions C10_attr_route_statement_refuted.

(* The full statement of the property, without the guard, is false of the (faithful) model: open finding
   user-hash-ptype-key.  {'__ptype' => 'x'} is read back as an object of type x. *)
Definition C10_statement : Prop :=
  forall (payload : Type) (to_s : str -> payload -> str) (of_s : str -> str -> option payload),
    (forall tn p, of_s tn (to_s tn p) = Some p) ->
    forall (o : opts) (c : caps) (x : @rvalue payload),
      wf_rich x -> roundtrip to_s of_s o c x = Ok (expected (env_of o c) x).

Definition ex_ptype : @rvalue str := VHash 1 [(VStr ptype_key, [], VStr [120]%N)].

Theorem C10_ptype_key_refuted :
  exists x : @rvalue str,
    wf_rich x /\ is_data x = true /\
    roundtrip (fun _ p => p) (fun _ s => Some s) (mkopts true true 2) (mkcaps true true 0) x
      = Ok (PObj (PStr [120]%N) []) /\
    expected (env_of (mkopts true true 2) (mkcaps true true 0)) x = PHash [(PStr ptype_key, PStr [120]%N)].
Proof.
  exists ex_ptype. split; [|split; [reflexivity|split; vm_compute; reflexivity]].
  exists (fun _ => ex_ptype). apply consistent_hash; [reflexivity|].
  repeat constructor; now apply consistent_untagged_leaf.
Qed.
Print Assumptions C10_ptype_key_refuted.

Theorem C10_statement_refuted : ~ C10_statement.
Proof.
  intros H. destruct C10_ptype_key_refuted as (x & Hwf & _ & Hrt & Hex).
  specialize (H str (fun _ p => p) (fun _ s => Some s) (fun _ _ => eq_refl)
                (mkopts true true 2) (mkcaps true true 0) x Hwf).
  rewrite Hrt, Hex in H. discriminate.
Qed.
Print Assumptions C10_statement_refuted.

(* ---- non-vacuity: a value with a shared array, a shared string and a Sensitive, serialized with maximal
   de-duplication to a consumer without binary/complex keys: the stream contains back-references, is well
   formed, and the collector rebuilds the image. ---- *)
Definition ex_shared : @rvalue str :=
  VArr 1 [VArr 2 [VStr [97;98;99]%N; VInt 7]; VArr 2 [VStr [97;98;99]%N; VInt 7]; VSens 3 (VStr [97;98;99]%N);
          VStr [97;98;99]%N]%N.
Definition ex_m (i : N) : @rvalue str :=
  if N.eqb i 1 then ex_shared
  else if N.eqb i 2 then VArr 2 [VStr [97;98;99]%N; VInt 7]
  else VSens 3 (VStr [97;98;99]%N).

Example C10_ex_wf_rich : wf_rich ex_shared.
Proof.
  exists ex_m.
  assert (Hstr : forall s, consistent ex_m (VStr s)) by (intros s; now apply consistent_untagged_leaf).
  assert (Hint : forall z, consistent ex_m (@VInt str z)) by (intros z; now apply consistent_untagged_leaf).
  assert (H2 : consistent ex_m (VArr 2 [VStr [97;98;99]%N; VInt 7])).
  { apply consistent_arr; [reflexivity|]. repeat constructor; auto. }
  apply consistent_arr; [reflexivity|]. repeat constructor; auto.
  apply consistent_sens; [reflexivity|auto].
Qed.

Example C10_ex_stream :
  serialize (fun _ p => p) (mkopts true true 2) (mkcaps false false 0) ex_shared =
  [EArr 4; EArr 2; EAdd (DStr [97;98;99]%N); EAdd (DInt 7); EEnd; ERef 1;
   EHash 2; EAdd (DStr ptype_key); EAdd (DStr t_sensitive); EAdd (DStr pvalue_key); ERef 2; EEnd;
   ERef 2; EEnd].
Proof. vm_compute. reflexivity. Qed.

(* the hypotheses of C10_roundtrip are satisfiable and the round trip computes: the value above comes back
   with the Sensitive compared by content, under maximal de-duplication *)
Example C10_ex_rt_ok : rt_ok (fun _ p => p) (env_of (mkopts true true 2) (mkcaps false false 0)) ex_shared = true.
Proof. vm_compute. reflexivity. Qed.

Example C10_ex_roundtrip :
  roundtrip (fun _ p => p) (fun _ s => Some s) (mkopts true true 2) (mkcaps false false 0) ex_shared =
  Ok (PArr [PArr [PStr [97;98;99]%N; PInt 7]; PArr [PStr [97;98;99]%N; PInt 7]; PSens (PStr [97;98;99]%N);
            PStr [97;98;99]%N]).
Proof. vm_compute. reflexivity. Qed.

(* rich_data off: the Sensitive degrades to its String(), which is itself de-duplicated *)
Example C10_ex_lossy :
  roundtrip (fun _ p => p) (fun _ s => Some s) (mkopts false true 1) (mkcaps false false 0)
    (VArr 1 [VSens 2 (VInt 1); VSens 3 (VInt 2); VInt 5; VSens 2 (VInt 1)]%N) =
  Ok (PArr [PStr s_sensitive; PStr s_sensitive; PInt 5; PStr s_sensitive]).
Proof. vm_compute. reflexivity. Qed.

Example C10_ex_wf_richb : wf_richb (rvalue_eqb str_eqb) ex_shared = true.
Proof. vm_compute. reflexivity. Qed.

(* a cyclic tag assignment is rejected by the checker, and the model's collector faults on its stream *)
Example C10_ex_cyclic :
  wf_richb (rvalue_eqb str_eqb) (VArr 1 [VArr 1 []]%N) = false /\
  collect (serialize (fun _ (p : str) => p) (mkopts true true 2) (mkcaps true true 0) (VArr 1 [VArr 1 []]%N)) = Fault.
Proof. split; vm_compute; reflexivity. Qed.

(* ---- the attribute route computes: Hash[Any, My::Rec] = (key_type Any: default, value_type My::Rec, size_type
   Integer[0]: default) keeps key_type (a default-valued attribute IN FRONT of a non-default one) and value_type,
   drops size_type; Hash[Any, Any, 1, 2]-like lists keep everything; an all-default list keeps nothing beyond the
   required ones ---- *)
Definition ex_any : @rvalue str := VRich 1 [84]%N false [65]%N [65]%N.
Definition ex_rec : @rvalue str := VRich 2 [84]%N true [82]%N [82]%N.
Definition ex_sz  : @rvalue str := VRich 3 [84]%N false [73]%N [73]%N.
Definition ex_attrs : list (attr str) :=
  [mkattr [107]%N ex_any true; mkattr [118]%N ex_rec false; mkattr [115]%N ex_sz true].
Definition ex_decls : list (decl str) :=
  [mkdecl [107]%N (Some (erase ex_any)); mkdecl [118]%N (Some (erase ex_any)); mkdecl [115]%N (Some (erase ex_sz))].

Example C10_ex_trim : map a_name (trim 0 ex_attrs) = [[107]%N; [118]%N]
                      /\ trim 0 [mkattr [107]%N ex_any true; mkattr [115]%N ex_sz true] = []
                      /\ length (trim 1 [mkattr [107]%N ex_any true; mkattr [115]%N ex_sz true]) = 1%nat.
Proof. vm_compute. auto. Qed.

Example C10_ex_attr_route :
  bind (roundtrip (fun _ p => p) (fun _ s => Some s) (mkopts true true 2) (mkcaps false false 0)
          (VObjT 9 (VStr [72]%N) 0 ex_attrs [104]%N))
       (fun p => fill ex_decls (pobj_attrs p))
  = Ok [erase ex_any; erase ex_rec; erase ex_sz].
Proof. vm_compute. reflexivity. Qed.

(* ---- one Serializer object, conversions that overlap (Model/SerReent.v) ----
   "A Serializer is a re-entrant fully configured serializer" (serializer.go:19): NewSerializer makes the object
   once; any number of Convert calls are entered on it (Start), each delivering its events to its own consumer
   one at a time in ANY order relative to the others (Deliver i) - a Convert called from inside a consumer
   callback of another conversion (the LIFO schedules), or from another goroutine while the first is held.
   run = the world after a schedule (None: the schedule asks a conversion that has returned for another event).
   What makes the statements true of the model is that Convert keeps everything a conversion writes (the map
   value -> position, refIndex, the lowered de-duplication level) in a context of its own (serializer.go:63-68);
   that the code does so is what the correspondence run checks (reent_check, schedules observed on the
   implementation). *)

(* NewSerializer followed by one Convert is the `serialize` of all theorems above *)
Theorem C10_convert_is_serialize :
  forall (payload : Type) (to_s : str -> payload -> str) (o : opts) (c : caps) (x : @rvalue payload),
    convert to_s (new_serializer o) c x = serialize to_s o c x.
Proof. exact @convert_new. Qed.
Print Assumptions C10_convert_is_serialize.

(* for EVERY schedule: the conversions of the world are the ones entered, in order; what each consumer has
   received followed by what it will still receive is the stream of its own conversion run alone *)
Theorem C10_reentrant_streams :
  forall (payload : Type) (to_s : str -> payload -> str) (o : opts) (acts : list (@action payload))
         (w : @world payload),
    run to_s (world0 o) acts = Some w ->
    conv_heads (w_convs w) = conv_starts acts /\
    Forall (fun cv => cv_done cv ++ cv_todo cv = serialize to_s o (cv_caps cv) (cv_val cv)) (w_convs w).
Proof. intros payload to_s o acts w Hr. split; [exact (reent_conversions to_s o acts w Hr)|exact (reent_streams to_s o acts w Hr)]. Qed.
Print Assumptions C10_reentrant_streams.

(* ... so a conversion that has returned delivered a well-formed stream, whatever ran in between *)
Theorem C10_reentrant_stream_wf :
  forall (payload : Type) (to_s : str -> payload -> str) (o : opts) (acts : list (@action payload))
         (w : @world payload) (cv : conv),
    run to_s (world0 o) acts = Some w -> In cv (w_convs w) -> finished cv = true ->
    cv_done cv = serialize to_s o (cv_caps cv) (cv_val cv) /\
    wf_stream (env_of o (cv_caps cv)) (cv_done cv) = true.
Proof.
  intros payload to_s o acts w cv Hr Hin Hf.
  split; [exact (reent_finished to_s o acts w cv Hr Hin Hf)|exact (reent_stream_wf to_s o acts w cv Hr Hin Hf)].
Qed.
Print Assumptions C10_reentrant_stream_wf.

(* ... and its consumer (collector + deserializer) rebuilds its value: the round trip of C10_roundtrip for every
   conversion of every schedule, under the same hypotheses and the same guard *)
Theorem C10_reentrant_roundtrip :
  forall (payload : Type) (to_s : str -> payload -> str) (of_s : str -> str -> option payload),
    (forall tn p, of_s tn (to_s tn p) = Some p) ->
    forall (o : opts) (acts : list (@action payload)) (w : @world payload) (cv : conv),
      run to_s (world0 o) acts = Some w -> In cv (w_convs w) -> finished cv = true ->
      wf_rich (cv_val cv) -> rt_ok to_s (env_of o (cv_caps cv)) (cv_val cv) = true ->
      bind (collect (cv_done cv)) (deser of_s) = Ok (expected (env_of o (cv_caps cv)) (cv_val cv)).
Proof. exact @reent_roundtrip. Qed.
Print Assumptions C10_reentrant_roundtrip.

(* non-vacuity: ['only', s, s] is being converted; after its consumer has received 2 events, [s] is converted
   completely on the same object (a consumer that cannot do complex keys, so its de-duplication level is lowered
   for that conversion only); the first conversion then goes on: its second s is a reference to ITS position 2 *)
Definition ex_s : str := [115; 104; 97; 114; 101; 100]%N.
Definition ex_first : @rvalue str := VArr 1 [VStr [111]%N; VStr ex_s; VStr ex_s]%N.
Definition ex_other : @rvalue str := VArr 2 [VStr ex_s]%N.

Example C10_ex_reentrant :
  option_map (fun w => map (fun cv => (cv_done cv, finished cv)) (w_convs w))
    (run (fun _ (p : str) => p) (world0 (mkopts true true 2))
       (nested_schedule (mkcaps true true 3) ex_first 2 (mkcaps true false 3) ex_other 3 3)) =
  Some [([EArr 3; EAdd (DStr [111]%N); EAdd (DStr ex_s); ERef 2; EEnd], true);
        ([EArr 1; EAdd (DStr ex_s); EEnd], true)].
Proof. vm_compute. reflexivity. Qed.


(* ---- object INSTANCES (Model/SerStruct.v): values built by the constructor of an Object type and the wrappers of Go
   structs registered through the Reflector.  The stream holds the entries of InitHash(); the consumer allocates an
   instance and calls InitFromHash. ---- *)

(* what the init hash leaves out is exactly the attributes that hold their declared default - wherever they sit *)
Theorem C10_init_hash_drops_defaults_only :
  forall (payload : Type) (l : list (attr payload)) (a : attr payload),
    In a (init_attrs l) <-> In a l /\ a_isdef a = false.
Proof. exact @init_attrs_spec. Qed.
Print Assumptions C10_init_hash_drops_defaults_only.

(* the constructor from the init hash (a missing attribute receives its declared default) rebuilds ALL attribute
   values; hypotheses as for C10_trim_fill, checked on every instance of the correspondence run *)
Theorem C10_init_hash_fill :
  forall (payload : Type) (l : list (attr payload)) (ds : list (decl payload)),
    Forall2 (fun a d => d_name d = a_name a /\ isdef_sound a d) l ds ->
    NoDup (map a_name l) ->
    fill ds (given_of (init_attrs l)) = Ok (map (fun a => erase (a_val a)) l).
Proof. exact @init_attrs_fill. Qed.
Print Assumptions C10_init_hash_fill.

(* PositionalFromHash trims the trailing default-valued optional attributes again; setValues (Go struct) / Get
   (attributeSlice) gives every position beyond the short slice its declared default: together they are the
   identity on what fill computed, for EVERY attribute list, hash and RequiredCount.  veq = Value.Equals of the
   consumer, of which only soundness is used. *)
Theorem C10_set_values_undoes_trim :
  forall (payload : Type) (veq : @pvalue payload -> @pvalue payload -> bool),
    (forall a b, veq a b = true -> a = b) ->
    forall (req : nat) (ds : list (decl payload)) given vs,
      fill ds given = Ok vs -> init_from_hash veq req ds given = Ok vs.
Proof. exact @init_from_hash_is_fill. Qed.
Print Assumptions C10_set_values_undoes_trim.

(* end to end under every option with rich_data and every capability: serialize, collect, deserialize, allocate,
   InitFromHash = the fields of the rebuilt instance are the attribute values (Go struct: the fields) of the original *)
Theorem C10_struct_roundtrip :
  forall (payload : Type) (to_s : str -> payload -> str) (of_s : str -> str -> option payload)
         (veq : @pvalue payload -> @pvalue payload -> bool),
    (forall tn p, of_s tn (to_s tn p) = Some p) ->
    (forall a b, veq a b = true -> a = b) ->
    forall (o : opts) (c : caps) id ty req (l : list (attr payload)) disp (ds : list (decl payload)),
      rich_data o = true ->
      wf_rich (VObjS id ty l disp) -> rt_ok to_s (env_of o c) (VObjS id ty l disp) = true ->
      Forall2 (fun a d => d_name d = a_name a /\ isdef_sound a d) l ds ->
      NoDup (map a_name l) ->
      bind (roundtrip to_s of_s o c (VObjS id ty l disp)) (fun p => init_from_hash veq req ds (pobj_attrs p))
        = Ok (map (fun a => erase (a_val a)) l).
Proof. exact @struct_roundtrip. Qed.
Print Assumptions C10_struct_roundtrip.

(* the Endpoint of the seeded change C10-m9: {host (required), port => 8080, scheme => 'https'}.  With the port
   given and the scheme at its default the stream holds host and port only; the consumer's positional slice is
   [host, port] and the third field receives 'https'. *)
Definition ex_ep_attrs : list (attr str) :=
  [mkattr [104]%N (VStr [97]%N) false; mkattr [112]%N (VInt 80) false; mkattr [115]%N (VStr [104; 116]%N) true].
Definition ex_ep_decls : list (decl str) :=
  [mkdecl [104]%N None; mkdecl [112]%N (Some (PInt 8080)); mkdecl [115]%N (Some (PStr [104; 116]%N))].
Definition ex_veq (a b : @pvalue str) : bool :=
  match a, b with PInt x, PInt y => Z.eqb x y | PStr x, PStr y => str_eqb x y | _, _ => false end.
Example C10_ex_struct :
  map a_name (init_attrs ex_ep_attrs) = [[104]%N; [112]%N]
  /\ positional_from_hash ex_veq 1 ex_ep_decls (given_of (init_attrs ex_ep_attrs)) = Ok [PStr [97]%N; PInt 80]
  /\ init_from_hash ex_veq 1 ex_ep_decls (given_of (init_attrs ex_ep_attrs)) = Ok [PStr [97]%N; PInt 80; PStr [104; 116]%N]
  /\ bind (roundtrip (fun _ p => p) (fun _ s => Some s) (mkopts true true 2) (mkcaps true true 0)
             (VObjS 1 (VStr [69]%N) ex_ep_attrs []))
          (fun p => init_from_hash ex_veq 1 ex_ep_decls (pobj_attrs p))
     = Ok [PStr [97]%N; PInt 80; PStr [104; 116]%N].
Proof. repeat split; vm_compute; reflexivity. Qed.


(* ---- the instance of `veq` that the correspondence run uses: structural equality pv_eqb (Model/SerEq.v;
   Corr/CorrC10.v: pvalue_eqb := pv_eqb str_eqb, also the comparison of every observed result with the model's).
   The theorems above take the soundness of veq as a hypothesis; here it is PROVED of that instance, sound and
   complete, for all values by induction through the nested lists - and the theorems are restated without it. ---- *)

(* pv_eqb decides equality of pvalue whenever the payload test decides equality of payloads *)
Theorem C10_pvalue_eqb_decides_equality :
  forall (payload : Type) (peqb : payload -> payload -> bool),
    (forall p q, peqb p q = true <-> p = q) ->
    forall a b : @pvalue payload, pv_eqb peqb a b = true <-> a = b.
Proof. exact @pv_eqb_eq. Qed.
Print Assumptions C10_pvalue_eqb_decides_equality.

(* the instance of the case files (payload = the observed serialization string): a `true` of the comparison in
   ser_check / attrs_check / struct_check IS equality of the model's result and the observed one *)
Theorem C10_pvalue_eqb_str :
  forall a b : @pvalue str, pv_eqb str_eqb a b = true <-> a = b.
Proof. exact pv_eqb_str_eq. Qed.
Print Assumptions C10_pvalue_eqb_str.

Theorem C10_pvalue_list_eqb_str :
  forall x y : list (@pvalue str), list_eqb (pv_eqb str_eqb) x y = true <-> x = y.
Proof. exact list_pv_eqb_str_eq. Qed.
Print Assumptions C10_pvalue_list_eqb_str.

(* the hypotheses of C10_trim_fill / C10_init_hash_fill / C10_struct_roundtrip are decided (sufficiently) by the
   checker attr_hyps_okb that attrs_check / struct_check apply to every case *)
Theorem C10_attr_hyps_checker :
  forall (payload : Type) (peqb : payload -> payload -> bool),
    (forall p q, peqb p q = true -> p = q) ->
    forall (l : list (attr payload)) (ds : list (decl payload)),
      attr_hyps_okb peqb l ds = true ->
      Forall2 (fun a d => d_name d = a_name a /\ isdef_sound a d) l ds /\ NoDup (map a_name l).
Proof. exact @attr_hyps_okb_sound. Qed.
Print Assumptions C10_attr_hyps_checker.

(* C10_set_values_undoes_trim with Equals := pv_eqb: no hypothesis on Equals *)
Theorem C10_set_values_undoes_trim_eqb :
  forall (payload : Type) (peqb : payload -> payload -> bool),
    (forall p q, peqb p q = true -> p = q) ->
    forall (req : nat) (ds : list (decl payload)) given vs,
      fill ds given = Ok vs -> init_from_hash (pv_eqb peqb) req ds given = Ok vs.
Proof. exact @init_from_hash_is_fill_eqb. Qed.
Print Assumptions C10_set_values_undoes_trim_eqb.

(* C10_struct_roundtrip with Equals := pv_eqb *)
Theorem C10_struct_roundtrip_eqb :
  forall (payload : Type) (peqb : payload -> payload -> bool),
    (forall p q, peqb p q = true -> p = q) ->
    forall (to_s : str -> payload -> str) (of_s : str -> str -> option payload),
    (forall tn p, of_s tn (to_s tn p) = Some p) ->
    forall (o : opts) (c : caps) id ty req (l : list (attr payload)) disp (ds : list (decl payload)),
      rich_data o = true ->
      wf_rich (VObjS id ty l disp) -> rt_ok to_s (env_of o c) (VObjS id ty l disp) = true ->
      Forall2 (fun a d => d_name d = a_name a /\ isdef_sound a d) l ds ->
      NoDup (map a_name l) ->
      bind (roundtrip to_s of_s o c (VObjS id ty l disp))
           (fun p => init_from_hash (pv_eqb peqb) req ds (pobj_attrs p))
        = Ok (map (fun a => erase (a_val a)) l).
Proof. exact @struct_roundtrip_eqb. Qed.
Print Assumptions C10_struct_roundtrip_eqb.

(* ... and at the instance of the case files every remaining hypothesis is a boolean that the correspondence run
   evaluates on each instance it meets (ser_check: wf_richb, rt_ok; struct_check: attr_hyps_okb): no Prop-level
   hypothesis is left between "the case file evaluates to []" and the round trip of the model *)
Theorem C10_struct_roundtrip_checked :
  forall (o : opts) (c : caps) id ty req (l : list (attr str)) disp (ds : list (decl str)),
    rich_data o = true ->
    wf_richb (rvalue_eqb str_eqb) (VObjS id ty l disp) = true ->
    rt_ok (fun _ p => p) (env_of o c) (VObjS id ty l disp) = true ->
    attr_hyps_okb str_eqb l ds = true ->
    bind (roundtrip (fun _ p => p) (fun _ s => Some s) o c (VObjS id ty l disp))
         (fun p => init_from_hash (pv_eqb str_eqb) req ds (pobj_attrs p))
      = Ok (map (fun a => erase (a_val a)) l).
Proof. exact struct_roundtrip_checked. Qed.
Print Assumptions C10_struct_roundtrip_checked.

(* the same for the attribute route (C10_attr_route_roundtrip; ser_check + attrs_check evaluate the hypotheses) *)
Theorem C10_attr_route_roundtrip_checked :
  forall (o : opts) (c : caps) id ty req (l : list (attr str)) disp (ds : list (decl str)),
    rich_data o = true ->
    wf_richb (rvalue_eqb str_eqb) (VObjT id ty req l disp) = true ->
    rt_ok (fun _ p => p) (env_of o c) (VObjT id ty req l disp) = true ->
    attr_hyps_okb str_eqb l ds = true ->
    bind (roundtrip (fun _ p => p) (fun _ s => Some s) o c (VObjT id ty req l disp)) (fun p => fill ds (pobj_attrs p))
      = Ok (map (fun a => erase (a_val a)) l).
Proof. exact attr_route_roundtrip_checked. Qed.
Print Assumptions C10_attr_route_roundtrip_checked.

(* COMPLETENESS of Equals is what makes the consumer's second trimming (attributesinfo.go:58-63) exact: what
   PositionalFromHash cuts off is a suffix of optional attributes whose value IS the declared default ... *)
Theorem C10_positional_trim_drops_defaults_only :
  forall (payload : Type) (peqb : payload -> payload -> bool),
    (forall p q, peqb p q = true <-> p = q) ->
    forall (req : nat) (ds : list (decl payload)) (vs : list (@pvalue payload)),
    exists K D,
      combine ds vs = K ++ D /\ trim_p (pv_eqb peqb) req ds vs = map snd K /\
      Forall (fun p => d_default (fst p) = Some (snd p)) D /\
      (length D <= length vs - req)%nat.
Proof. exact @trim_p_prefix_eqb. Qed.
Print Assumptions C10_positional_trim_drops_defaults_only.

(* ... and it stops only at a required position or at a value that is NOT the declared default of its attribute:
   the positional slice handed to setValues is the shortest one *)
Theorem C10_positional_trim_maximal :
  forall (payload : Type) (peqb : payload -> payload -> bool),
    (forall p q, peqb p q = true <-> p = q) ->
    forall (req : nat) (ds : list (decl payload)) (vs ks : list (@pvalue payload)) v d,
      length ds = length vs ->
      trim_p (pv_eqb peqb) req ds vs = ks ++ [v] -> (req <= length ks)%nat ->
      nth_error ds (length ks) = Some d -> d_default d <> Some v.
Proof. exact @trim_p_last_eqb. Qed.
Print Assumptions C10_positional_trim_maximal.

(* non-vacuity: the test tells apart values that differ deep inside (a hash value inside a Sensitive inside an
   object's attribute) and accepts equal ones; the Endpoint of C10_ex_struct passes the hypothesis checker and
   comes back under Equals := pv_eqb; the second trimming keeps a default-valued attribute IN FRONT of a
   non-default one and cuts the default-valued tail down to RequiredCount *)
Definition ex_deep (z : Z) : @pvalue str :=
  PObj (PStr [69]%N) [(PStr [97]%N, PSens (PHash [(PRich [84]%N [120]%N, PArr [PInt z; PFloat 0; PDefault])]))].
Example C10_ex_pv_eqb :
  pv_eqb str_eqb (ex_deep 1) (ex_deep 1) = true /\ pv_eqb str_eqb (ex_deep 1) (ex_deep 2) = false
  /\ pv_eqb str_eqb (PInt 0) (PFloat 0) = false /\ pv_eqb str_eqb (PArr [PUndef]) (PArr [PUndef; PUndef]) = false.
Proof. repeat split; vm_compute; reflexivity. Qed.

Example C10_ex_struct_eqb :
  attr_hyps_okb str_eqb ex_ep_attrs ex_ep_decls = true
  /\ attr_hyps_okb str_eqb ex_ep_attrs [mkdecl [104]%N None; mkdecl [112]%N (Some (PInt 8080)); mkdecl [115]%N (Some (PStr [104]%N))] = false
  /\ wf_richb (rvalue_eqb str_eqb) (VObjS 1 (VStr [69]%N) ex_ep_attrs []) = true
  /\ bind (roundtrip (fun _ p => p) (fun _ s => Some s) (mkopts true true 2) (mkcaps true true 0)
             (VObjS 1 (VStr [69]%N) ex_ep_attrs []))
          (fun p => init_from_hash (pv_eqb str_eqb) 1 ex_ep_decls (pobj_attrs p))
     = Ok [PStr [97]%N; PInt 80; PStr [104; 116]%N]
  /\ trim_p (pv_eqb str_eqb) 1 ex_ep_decls [PStr [97]%N; PInt 8080; PStr [104]%N] = [PStr [97]%N; PInt 8080; PStr [104]%N]
  /\ trim_p (pv_eqb str_eqb) 1 ex_ep_decls [PStr [97]%N; PInt 8080; PStr [104; 116]%N] = [PStr [97]%N]
  /\ trim_p (pv_eqb str_eqb) 3 ex_ep_decls [PStr [97]%N; PInt 8080; PStr [104; 116]%N] = [PStr [97]%N; PInt 8080; PStr [104; 116]%N].
Proof. repeat split; vm_compute; reflexivity. Qed.

(* ---- open finding object-default-coarse-equals ----
   The statement of C10_struct_roundtrip WITHOUT the hypothesis isdef_sound ("a set default flag means the value
   equals the declared default") is false of the (faithful) model, and the implementation does set the flag on a
   value that differs: attribute.Default(v) = declared default .Equals(v), and Timespan.Equals compares whole seconds
   (types/timespantype.go:424-429).  My::Dur {n (required), span => Timespan 1 s} holding 1.5 s: InitHash leaves
   span out, the rebuilt instance holds 1 s.  (Found by proving the consumer's Equals sound: pv_eqb is, the
   implementation's is not on Timespans with different serialization strings.) *)
Definition C10_struct_statement : Prop :=
  forall (o : opts) (c : caps) id ty req (l : list (attr str)) disp (ds : list (decl str)),
    rich_data o = true ->
    wf_rich (VObjS id ty l disp) -> rt_ok (fun _ p => p) (env_of o c) (VObjS id ty l disp) = true ->
    Forall2 (fun a d => d_name d = a_name a) l ds ->
    NoDup (map a_name l) ->
    bind (roundtrip (fun _ p => p) (fun _ s => Some s) o c (VObjS id ty l disp))
         (fun p => init_from_hash (pv_eqb str_eqb) req ds (pobj_attrs p))
      = Ok (map (fun a => erase (a_val a)) l).

Definition ex_ts : str := [84; 105; 109; 101; 115; 112; 97; 110]%N.                 (* "Timespan" *)
Definition ex_1s : str := [49; 46; 48; 48; 48; 48; 48; 48; 48; 48; 48]%N.             (* "1.000000000", the serialization string *)
Definition ex_1s5 : str := [49; 46; 53; 48; 48; 48; 48; 48; 48; 48; 48]%N.            (* "1.500000000" *)
Definition ex_dur_attrs : list (attr str) :=
  [mkattr [110]%N (VInt 1) false; mkattr [115]%N (VRich 0 ex_ts false ex_1s5 ex_1s5) true].
Definition ex_dur_decls : list (decl str) := [mkdecl [110]%N None; mkdecl [115]%N (Some (PRich ex_ts ex_1s))].

Theorem C10_coarse_equals_default_refuted :
  exists (l : list (attr str)) (ds : list (decl str)),
    attr_hyps_okb str_eqb l ds = false /\
    Forall2 (fun a d => d_name d = a_name a) l ds /\ NoDup (map a_name l) /\
    wf_richb (rvalue_eqb str_eqb) (VObjS 1 (VStr [68]%N) l []) = true /\
    rt_ok (fun _ p => p) (env_of (mkopts true true 2) (mkcaps true true 0)) (VObjS 1 (VStr [68]%N) l []) = true /\
    bind (roundtrip (fun _ p => p) (fun _ s => Some s) (mkopts true true 2) (mkcaps true true 0) (VObjS 1 (VStr [68]%N) l []))
         (fun p => init_from_hash (pv_eqb str_eqb) 1 ds (pobj_attrs p)) = Ok [PInt 1; PRich ex_ts ex_1s] /\
    map (fun a => erase (a_val a)) l = [PInt 1; PRich ex_ts ex_1s5].
Proof.
  exists ex_dur_attrs, ex_dur_decls.
  split; [vm_compute; reflexivity|]. split; [repeat constructor|].
  split; [cbn; repeat constructor; cbn; intuition discriminate|].
  repeat split; vm_compute; reflexivity.
Qed.
Print Assumptions C10_coarse_equals_default_refuted.

Theorem C10_struct_statement_refuted : ~ C10_struct_statement.
Proof.
  intros H. destruct C10_coarse_equals_default_refuted as (l & ds & _ & Hn & Hnd & Hwf & Hrt & Hback & Horig).
  specialize (H (mkopts true true 2) (mkcaps true true 0) 1%N (VStr [68]%N) 1%nat l [] ds eq_refl
                (wf_richb_str_sound _ Hwf) Hrt Hn Hnd).
  rewrite Hback, Horig in H. discriminate.
Qed.
Print Assumptions C10_struct_statement_refuted.
