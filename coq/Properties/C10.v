(* C10 — Rich-data serialization round-trips under every option and consumer capability.
   ONLY statements; proofs in Proofs/SerProofs.v.  Model: Model/Ser.v. *)
From Coq Require Import ZArith NArith Bool List.
From PcoreV Require Import Model.Base Model.Ser Proofs.SerProofs.
Import ListNotations.

(* With every back-reference resolved by the collector, the stream emitted under ANY options and
   capabilities builds exactly the reference-free Data tree `image`: each AddRef n met a position n that was
   already filled with the image of the value it stands for. *)
Theorem C10_refs_resolve_to_equal_value :
  forall (payload : Type) (to_s : str -> payload -> str) o c (x : @rvalue payload),
    wf_rich x -> collect (serialize to_s o c x) = Ok (image to_s (env_of o c) x).
Proof. exact @collect_serialize. Qed.
Print Assumptions C10_refs_resolve_to_equal_value.
