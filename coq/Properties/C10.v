(* C10 — Rich-data serialization round-trips under every option and consumer capability.
   This file holds ONLY the statements of the property theorems, each closed by `exact <lemma>`, and
   `Print Assumptions` beneath.  Model: Model/Ser.v (serialization/serializer.go, types/basiccollector.go,
   serialization/deserializer.go).  Proofs: Proofs/SerProofs.v (simulation serializer state / collector
   state), Proofs/SerWfProofs.v (stream well-formedness). *)
From Coq Require Import ZArith NArith Bool List.
From PcoreV Require Import Model.Base Model.Ser Proofs.SerProofs Proofs.SerWfProofs.
Import ListNotations.

(* ---- the stream is well formed: for EVERY value (no assumption on the identity tags) and every point of
   {rich_data} x {local_reference} x {dedup_level} x {binary} x {complex keys} x {string threshold} ----
   wf_stream (Model/Ser.v) checks on the event list: every AddRef n has n < number of positions produced
   before it; every hash receives an even number of children; no Binary is added unless can_binary; without
   can_complex_keys every hash key is a string delivered by Add (not a container, not a reference). *)
Theorem C10_stream_wf :
  forall (payload : Type) (to_s : str -> payload -> str) (o : opts) (c : caps) (x : @rvalue payload),
    wf_stream (env_of o c) (serialize to_s o c x) = true.
Proof. exact @stream_wf. Qed.
Print Assumptions C10_stream_wf.

(* refIndex stays in step with the consumer: after Convert it equals the number of positions (Add, AddArray,
   AddHash events) the consumer received — for every value and all options. *)
Theorem C10_refindex_counts_positions :
  forall (payload : Type) (to_s : str -> payload -> str) (o : opts) (c : caps) (x : @rvalue payload),
    ridx (fst (to_data to_s (env_of o c) lv x (mksctx [] 0))) = npos (serialize to_s o c x).
Proof. exact @refindex_counts_positions. Qed.
Print Assumptions C10_refindex_counts_positions.

(* ---- every back-reference points to an earlier position that holds an equal value ----
   The collector, which resolves AddRef n by looking at position n, builds from the stream emitted under
   ANY options and capabilities exactly the reference-free Data tree `image`: each AddRef n met a position n
   that was filled (not a container still open) with the image of the value it stands for.
   wf_rich x: the identity tags of x name subtrees (same tag => same subtree; hence x is acyclic) — what Go
   pointer identity of immutable values gives. *)
Theorem C10_refs_resolve_to_equal_value :
  forall (payload : Type) (to_s : str -> payload -> str) (o : opts) (c : caps) (x : @rvalue payload),
    wf_rich x -> collect (serialize to_s o c x) = Ok (image to_s (env_of o c) x).
Proof. exact @collect_serialize. Qed.
Print Assumptions C10_refs_resolve_to_equal_value.

(* the simulation invariant itself (DESIGN.md 5/C10): processing x from ANY pair of related states —
   R: length positions = refIndex, and every entry (value -> index) of the values map points to a position
   holding the image of that value, or belongs to a container that is still open (op) — delivers exactly
   image x to the collector's current frame, only appends positions, and re-establishes R. *)
Theorem C10_simulation :
  forall (payload : Type) (to_s : str -> payload -> str) (e : env) (m : N -> @rvalue payload) (x : @rvalue payload)
         (lvl : N) (op : list (N * nat)),
    consistent m x -> below m x op ->
    forall st pos, R to_s e m op st pos ->
    exists st' evs new,
      to_data to_s e lvl x st = (st', evs) /\
      (forall cs, positions cs = pos -> crun cs evs = Ok (app_pos new (push (image to_s e x) cs))) /\
      R to_s e m op st' (pos ++ new) /\ first_is new (image to_s e x).
Proof. exact @to_data_spec. Qed.
Print Assumptions C10_simulation.

(* ---- non-vacuity: a value with a shared array, a shared string and a Sensitive, serialized with maximal
   de-duplication to a consumer without binary/complex keys: the stream contains back-references, is well
   formed, and the collector rebuilds the image. ---- *)
Definition ex_shared : @rvalue str :=
  VArr 1 [VArr 2 [VStr [97;98;99]%N; VInt 7]; VArr 2 [VStr [97;98;99]%N; VInt 7]; VSens 3 (VStr [97;98;99]%N);
          VStr [97;98;99]%N]%N.
Definition ex_m (i : N) : @rvalue str :=
  if N.eqb i 1 then ex_shared
  else if N.eqb i 2 then VArr 2 [VStr [97;98;99]%N; VInt 7]
  else VSens 3 (VStr [97;98;99]%N).

Example C10_ex_wf_rich : wf_rich ex_shared.
Proof.
  exists ex_m.
  assert (Hstr : forall s, consistent ex_m (VStr s)) by (intros s; now apply consistent_untagged_leaf).
  assert (Hint : forall z, consistent ex_m (@VInt str z)) by (intros z; now apply consistent_untagged_leaf).
  assert (H2 : consistent ex_m (VArr 2 [VStr [97;98;99]%N; VInt 7])).
  { apply consistent_arr; [reflexivity|]. repeat constructor; auto. }
  apply consistent_arr; [reflexivity|]. repeat constructor; auto.
  apply consistent_sens; [reflexivity|auto].
Qed.

Example C10_ex_stream :
  serialize (fun _ p => p) (mkopts true true 2) (mkcaps false false 0) ex_shared =
  [EArr 4; EArr 2; EAdd (DStr [97;98;99]%N); EAdd (DInt 7); EEnd; ERef 1;
   EHash 2; EAdd (DStr ptype_key); EAdd (DStr t_sensitive); EAdd (DStr pvalue_key); ERef 2; EEnd;
   ERef 2; EEnd].
Proof. vm_compute. reflexivity. Qed.
