(* C07 — Equality is an equivalence relation and hash keys respect it.
   Statements only; the proofs are in Proofs/Keys*.v, the model in Model/Keys.v.

   veq x y        = x.Equals(y, nil)            ty_eqb a b = a.Equals(b), ty_eqb_flip a b = b.Equals(a) for types
   vkey x         = the bytes of px.ToKey(x)    to_key x = None when ToKey panics (a Sensitive inside)
   wf_value x     = the representation invariant: int64/float64/string-length ranges, the keys of every Hash
                    are hashable and pairwise different (checked on every correspondence case)
   clean x        = the property's exception: no NaN (Float value or Float type bound) and no Sensitive inside

   Universe: see the head of Model/Keys.v (what is outside is checked on the implementation only).
   Hidden state.  The key index of a Hash (the map from hash key to entry position that Get, IncludesKey,
   Equals go through) is modelled as explicit state in Model/KeysIndex.v:
   hobj = (entries, index : None | Some map)   wrap_hash es = WrapHash (index nil, built on first use)
   unique_entries es = uniqueEntries / WrapHashFromArray / Hash.new (index pre-built while compacting)
   hobj_get / hobj_includes_key / hobj_equals = Get / IncludesKey / Equals through the index, with the runtime
   fault of entries[pos] explicit (LFault / None);  hobj_ok h = the index is nil or what valueIndex would build.
   The lazily cached inferred types of Array and Hash values (the fields reducedType / detailedType, filled as a
   side effect of PType / DetailedValueType of the value or of anything that holds it) are explicit state in
   Model/KeysCache.v:  cval = the object graph, every Array and Hash node with its two cache fields (nil, a type,
   a type outside the model);  erase x = the denoted value;  cveq / ckey = Equals / ToKey on the object graph,
   method by method;  refill f g x = the same object with any other content of the caches;  fresh v = the newly
   built object (all caches nil).  The nil optional parts of types do not exist in the model: for them the clause
   is checked on the implementation only (harness clauses hidden-state, own-entries).
   The cached canonical form of a TypedName (the lower case text authority/namespace/name that MapKey returns and
   Equals compares; computed by the constructor, cut out of another name's form by Child / Parent / RelativeTo) is
   explicit state in Model/KeysNames.v:  tname = (namespace, authority, name, canonical);  nexpr = the construction
   routes (new, from a map key, Child, Parent, RelativeTo, nested to any depth);  nx_eval e = the result (a name,
   nil, not relative, a reported error, or a runtime fault of a slice expression);  tn_equals = Equals;
   visible_eqb = equality of the canonical forms that the visible parts determine;  tn_ok = the field is empty or
   is that form.
   The three representations of the parameter of a URI type (nothing, a *url.URL, a Hash) are explicit in
   Model/KeysUri.v:  uparams = UNone | UUrl u | UHash es;  url_to_hash = urlToHash (the parts of a URL as a Hash);
   params_as_hash = paramsAsHash;  uri_equals t ot = t.Equals(ot), a branch per representation of the receiver as in the
   code;  uri_key = the bytes of px.ToKey of the type;  uri_wf = the parameter Hash is a well formed Hash without
   NaN / Sensitive, a Hash parameter is not empty (newUriType3). *)
From Coq Require Import ZArith NArith Bool String List.
From PcoreV Require Import Model.Base Model.Keys Model.KeysIndex Model.KeysCache Model.KeysNames Proofs.KeysOrder Proofs.KeysCode Proofs.KeysTypes
  Proofs.KeysProofs Proofs.KeysIndexProofs Proofs.KeysCacheProofs Proofs.KeysNamesProofs Model.KeysUri Proofs.KeysUriProofs.
Import ListNotations.
Open Scope Z_scope.

(* reflexive, NaN and Sensitive excepted *)
Theorem C07_refl : forall x, wf_value x = true -> clean x = true -> veq x x = true.
Proof. exact veq_refl. Qed.
Print Assumptions C07_refl.

(* symmetric: the same answer whichever operand receives the call (all values, NaN and Sensitive included) *)
Theorem C07_sym : forall x y, wf_value x = true -> wf_value y = true -> veq x y = veq y x.
Proof. exact veq_sym. Qed.
Print Assumptions C07_sym.

(* the two call directions of type equality, as modelled method by method, agree *)
Theorem C07_same_answer_either_receiver : forall a b, ty_eqb_flip a b = ty_eqb a b.
Proof. exact ty_eqb_flip_spec. Qed.
Print Assumptions C07_same_answer_either_receiver.

(* transitive (all values) *)
Theorem C07_trans : forall x y z, wf_value x = true -> wf_value y = true -> wf_value z = true ->
  veq x y = true -> veq y z = true -> veq x z = true.
Proof. exact veq_trans. Qed.
Print Assumptions C07_trans.

(* equal values have the same hash key, and only values without NaN and Sensitive are ever equal *)
Theorem C07_eq_same_key : forall x y, wf_value x = true -> wf_value y = true -> veq x y = true -> vkey x = vkey y.
Proof. exact veq_same_key. Qed.
Print Assumptions C07_eq_same_key.

Theorem C07_eq_excludes_nan_sensitive : forall x y, wf_value x = true -> wf_value y = true ->
  veq x y = true -> clean x = true /\ clean y = true.
Proof. exact veq_clean. Qed.
Print Assumptions C07_eq_excludes_nan_sensitive.

(* two values have the same hash key exactly when they are equal (NaN and Sensitive excepted) *)
Theorem C07_key_iff_eq : forall x y, wf_value x = true -> wf_value y = true -> clean x = true -> clean y = true ->
  (vkey x = vkey y <-> veq x y = true).
Proof. exact key_iff_eq. Qed.
Print Assumptions C07_key_iff_eq.

(* the encoding is a prefix code: inside a longer key a key ends where it ends *)
Theorem C07_keys_prefix_free : forall x y r r',
  wf_value x = true -> wf_value y = true -> keyable x = true -> keyable y = true ->
  vkey x ++ r = vkey y ++ r' -> vkey x = vkey y /\ r = r'.
Proof. exact vkey_prefix_free. Qed.
Print Assumptions C07_keys_prefix_free.

(* a Hash finds a key if and only if it contains an equal key, and then returns that entry's value *)
Theorem C07_get_finds_iff_equal_key_present : forall es q v,
  wf_value (VHash es) = true -> wf_value q = true ->
  (forall k w, In (k, w) es -> clean k = true) -> clean q = true ->
  (hash_get es q = Some v <-> exists k, In (k, v) es /\ veq k q = true).
Proof. exact hash_get_iff. Qed.
Print Assumptions C07_get_finds_iff_equal_key_present.

Theorem C07_includes_key_iff_equal_key_present : forall es q,
  wf_value (VHash es) = true -> wf_value q = true ->
  (forall k w, In (k, w) es -> clean k = true) -> clean q = true ->
  (hash_includes_key es q = true <-> exists k v, In (k, v) es /\ veq k q = true).
Proof. exact hash_includes_key_iff. Qed.
Print Assumptions C07_includes_key_iff_equal_key_present.

(* Unique keeps no two equal values apart ... *)
Theorem C07_unique_keeps_one_per_class : forall vs x,
  (forall v, In v vs -> wf_value v = true /\ clean v = true) ->
  In x vs -> exists y, In y (unique vs) /\ veq y x = true.
Proof. exact unique_keeps_one_per_class. Qed.
Print Assumptions C07_unique_keeps_one_per_class.

(* ... keeps the first value of every class, only values of the list ... *)
Theorem C07_unique_keeps_first : forall l1 x l2,
  (forall v, In v (l1 ++ x :: l2) -> wf_value v = true /\ clean v = true) ->
  (forall w, In w l1 -> veq w x = false) -> In x (unique (l1 ++ x :: l2)).
Proof. exact unique_keeps_first. Qed.
Print Assumptions C07_unique_keeps_first.

Theorem C07_unique_sublist : forall vs y, In y (unique vs) -> In y vs.
Proof. exact unique_sublist. Qed.
Print Assumptions C07_unique_sublist.

(* ... and never keeps two equal values: it merges only equal ones *)
Theorem C07_unique_merges_only_equal : forall vs l1 y l2 z l3,
  (forall v, In v vs -> wf_value v = true) ->
  unique vs = l1 ++ y :: l2 ++ z :: l3 -> veq y z = false.
Proof. exact unique_merges_only_equal. Qed.
Print Assumptions C07_unique_merges_only_equal.

(* Open finding object-type-key-by-identity: for Object types (outside the universe of the theorems
   above, which has no constructor for them) "equal values have the same key" is false. *)
Definition C07_statement_object_types : Prop := forall a b, objty_eqb a b = true -> objty_key a = objty_key b.
Theorem C07_object_type_key_by_identity_refuted : exists a b, objty_eqb a b = true /\ objty_key a <> objty_key b.
Proof.
  exists {| ot_counter := [52; 56]%N; ot_name := [84; 49]%N; ot_attrs := [([97]%N, TInteger min_int64 max_int64)] |},
         {| ot_counter := [52; 57]%N; ot_name := [84; 49]%N; ot_attrs := [([97]%N, TInteger min_int64 max_int64)] |}.
  split; [vm_compute; reflexivity|vm_compute; discriminate].
Qed.
Print Assumptions C07_object_type_key_by_identity_refuted.

(* ------------------------------------------------------------------------------------------ *)
(* Hidden state and construction route: the key index of a Hash (Model/KeysIndex.v) *)

(* the index that WrapHashFromArray / Hash.new hands to the new Hash is the one that valueIndex would build
   from the entries of that Hash (so it does not matter that it was pre-built) *)
Theorem C07_from_array_index_is_the_lazy_index : forall es,
  h_index (unique_entries es) = Some (build_index (h_entries (unique_entries es))).
Proof. exact unique_entries_index. Qed.
Print Assumptions C07_from_array_index_is_the_lazy_index.

(* every constructor establishes the invariant of the index field *)
Theorem C07_constructors_index_ok : forall es, hobj_ok (wrap_hash es) /\ hobj_ok (unique_entries es).
Proof. intros es. split; [apply wrap_hash_ok|apply unique_entries_ok]. Qed.
Print Assumptions C07_constructors_index_ok.

(* the Hash made from an array has one entry per key, holds only given pairs and satisfies wf_value *)
Theorem C07_from_array_one_entry_per_key : forall es,
  NoDup (map (fun e => vkey (fst e)) (h_entries (unique_entries es))).
Proof. exact unique_entries_keys_distinct. Qed.
Print Assumptions C07_from_array_one_entry_per_key.

Theorem C07_from_array_wf : forall es,
  (forall k v, In (k, v) es -> wf_value k = true /\ wf_value v = true /\ keyable k = true) ->
  wf_value (VHash (h_entries (unique_entries es))) = true.
Proof. exact unique_entries_wf. Qed.
Print Assumptions C07_from_array_wf.

(* Get, IncludesKey, Equals answer what the stateless model answers on the entries, whatever the state
   of the index (nil, built lazily, pre-built), and never fault *)
Theorem C07_get_independent_of_index_state : forall h q, hobj_ok h ->
  hobj_get h q = match hash_get (h_entries h) q with Some v => LFound v | None => LMissing end.
Proof. exact hobj_get_stateless. Qed.
Print Assumptions C07_get_independent_of_index_state.

Theorem C07_includes_key_independent_of_index_state : forall h q, hobj_ok h ->
  hobj_includes_key h q = hash_includes_key (h_entries h) q.
Proof. exact hobj_includes_key_stateless. Qed.
Print Assumptions C07_includes_key_independent_of_index_state.

Theorem C07_equals_independent_of_index_state : forall h o, hobj_ok h -> hobj_ok o ->
  NoDup (map (fun e => vkey (fst e)) (h_entries h)) ->
  hobj_equals h o = Some (veq (VHash (h_entries h)) (VHash (h_entries o))).
Proof. exact hobj_equals_stateless. Qed.
Print Assumptions C07_equals_independent_of_index_state.

(* the Hash made from an array of pairs: the last pair of a key wins ... *)
Theorem C07_from_array_last_pair_wins : forall es q,
  hobj_get (unique_entries es) q = match hash_get es q with Some v => LFound v | None => LMissing end.
Proof. exact from_array_last_pair_wins. Qed.
Print Assumptions C07_from_array_last_pair_wins.

(* ... it finds a key if and only if it contains an equal key, and then returns that entry's value ... *)
Theorem C07_from_array_finds_iff_equal_key_present : forall es q v,
  (forall k w, In (k, w) es -> wf_value k = true /\ wf_value w = true /\ keyable k = true) ->
  wf_value q = true -> (forall k w, In (k, w) es -> clean k = true) -> clean q = true ->
  (hobj_get (unique_entries es) q = LFound v <->
   exists k, In (k, v) (h_entries (unique_entries es)) /\ veq k q = true).
Proof. exact from_array_get_iff. Qed.
Print Assumptions C07_from_array_finds_iff_equal_key_present.

(* ... and it is equal, whichever operand receives the call, to the Hash wrapped directly around the same
   entries (and to itself), with the same hash key: Equals does not depend on the construction route *)
Theorem C07_from_array_equals_directly_built : forall es,
  (forall k w, In (k, w) es -> wf_value k = true /\ wf_value w = true /\ keyable k = true) ->
  (forall k w, In (k, w) es -> clean k = true /\ clean w = true) ->
  let h := unique_entries es in
  hobj_equals h (wrap_hash (h_entries h)) = Some true /\
  hobj_equals (wrap_hash (h_entries h)) h = Some true /\
  hobj_equals h h = Some true /\
  hobj_key h = hobj_key (wrap_hash (h_entries h)).
Proof. exact from_array_equals_direct. Qed.
Print Assumptions C07_from_array_equals_directly_built.

(* ------------------------------------------------------------------------------------------ *)
(* Hidden state: the lazily cached inferred types of Array and Hash values (Model/KeysCache.v). *)

(* Equals and ToKey on the object graph answer what they answer on the denoted values, whatever the two cache
   fields of any node hold (any type at all, not only the one the inference would store) *)
Theorem C07_equals_independent_of_type_caches : forall x y, cwf x = true -> cwf y = true ->
  cveq x y = veq (erase x) (erase y).
Proof. exact cveq_erase. Qed.
Print Assumptions C07_equals_independent_of_type_caches.

Theorem C07_key_independent_of_type_caches : forall x, ckey x = vkey (erase x).
Proof. exact ckey_erase. Qed.
Print Assumptions C07_key_independent_of_type_caches.

(* filling or changing the caches of either operand, in any way, changes neither the answer nor the key:
   f, g (receiver) and f', g' (argument) give the new content of reducedType / detailedType of every node *)
Theorem C07_equals_unchanged_by_filling_caches : forall f g f' g' x y, cwf x = true -> cwf y = true ->
  cveq (refill f g x) (refill f' g' y) = cveq x y /\
  ckey (refill f g x) = ckey x /\ erase (refill f g x) = erase x /\ cwf (refill f g x) = true.
Proof.
  intros f g f' g' x y Hx Hy. repeat split;
    [now apply cveq_refill | apply ckey_refill | apply erase_refill | now rewrite cwf_refill].
Qed.
Print Assumptions C07_equals_unchanged_by_filling_caches.

(* the answer in any cache state is the answer of two newly built objects (all caches nil) *)
Theorem C07_equals_any_cache_state_is_fresh : forall x y, cwf x = true -> cwf y = true ->
  cveq x y = cveq (fresh (erase x)) (fresh (erase y)) /\
  erase (fresh (erase x)) = erase x /\ cwf (fresh (erase x)) = true.
Proof. intros x y Hx Hy. repeat split; [now apply cveq_any_state_is_fresh | apply erase_fresh | apply cwf_fresh]. Qed.
Print Assumptions C07_equals_any_cache_state_is_fresh.

(* hence the laws hold on the object graph in every cache state *)
Theorem C07_laws_in_every_cache_state : forall x y z, cwf x = true -> cwf y = true -> cwf z = true ->
  wf_value (erase x) = true -> wf_value (erase y) = true -> wf_value (erase z) = true ->
  cveq x y = cveq y x /\
  (cveq x y = true -> cveq y z = true -> cveq x z = true) /\
  (clean (erase x) = true -> clean (erase y) = true -> (ckey x = ckey y <-> cveq x y = true)).
Proof.
  intros x y z Hx Hy Hz Wx Wy Wz. repeat split.
  - now apply cveq_sym.
  - now apply (cveq_trans x y z).
  - now apply ckey_iff_cveq.
  - now apply ckey_iff_cveq.
Qed.
Print Assumptions C07_laws_in_every_cache_state.

(* ------------------------------------------------------------------------------------------ *)
(* Non-vacuity: the hypotheses are satisfiable and the model computes non-trivial cases. *)

Definition ex_a : list N := [97]%N.
Definition ex_b : list N := [98]%N.
(* {a => 1, b => [0.0, Variant[Integer, String], Enum['a','b']]} and the same hash with the entries in
   the other order, -0.0, the Variant and Enum members permuted and repeated *)
Definition ex_h1 : value :=
  VHash [(VStr ex_a, VInt 1);
         (VStr ex_b, VArr [VFloat 0; VType (TVariant [TInteger min_int64 max_int64; TString]); VType (TEnum false [ex_a; ex_b])])].
Definition ex_h2 : value :=
  VHash [(VStr ex_b, VArr [VFloat 0x8000000000000000; VType (TVariant [TString; TInteger min_int64 max_int64; TString]);
                           VType (TEnum false [ex_b; ex_a; ex_a])]);
         (VStr ex_a, VInt 1)].

Example C07_ex_equal_hashes :
  wf_value ex_h1 = true /\ wf_value ex_h2 = true /\ clean ex_h1 = true /\ clean ex_h2 = true /\
  veq ex_h1 ex_h2 = true /\ veq ex_h2 ex_h1 = true /\ vkey ex_h1 = vkey ex_h2 /\ ex_h1 <> ex_h2.
Proof. repeat split; try (vm_compute; reflexivity). discriminate. Qed.

(* an Array [k, v] and the HashEntry k => v: equal, same key *)
Example C07_ex_array_entry :
  veq (VArr [VStr ex_a; VInt 1]) (VEntry (VStr ex_a) (VInt 1)) = true /\
  veq (VEntry (VStr ex_a) (VInt 1)) (VArr [VStr ex_a; VInt 1]) = true /\
  vkey (VArr [VStr ex_a; VInt 1]) = vkey (VEntry (VStr ex_a) (VInt 1)).
Proof. repeat split; vm_compute; reflexivity. Qed.

(* the collisions of the pinned tree are gone: the String whose bytes are the key of 5 is not 5;
   ["a","b"] is not ["ab"]; [[1],2] is not [[1,2]]; String['a'] is not String *)
Example C07_ex_no_collisions :
  vkey (VStr (vkey (VInt 5))) <> vkey (VInt 5) /\
  vkey (VArr [VStr ex_a; VStr ex_b]) <> vkey (VArr [VStr (ex_a ++ ex_b)]) /\
  vkey (VArr [VArr [VInt 1]; VInt 2]) <> vkey (VArr [VArr [VInt 1; VInt 2]]) /\
  vkey (VType (TStringVal ex_a)) <> vkey (VType TString).
Proof. repeat split; vm_compute; discriminate. Qed.

(* the exception is needed: a NaN has a key but is not equal to itself; a Sensitive has no key *)
Example C07_ex_nan_sensitive :
  wf_value (VFloat 0x7ff8000000000001) = true /\ clean (VFloat 0x7ff8000000000001) = false /\
  veq (VFloat 0x7ff8000000000001) (VFloat 0x7ff8000000000001) = false /\
  to_key (VArr [VSensitive (VInt 1)]) = None /\ veq (VSensitive (VInt 1)) (VSensitive (VInt 1)) = false.
Proof. repeat split; vm_compute; reflexivity. Qed.

(* Get and Unique on concrete values *)
Example C07_ex_get_unique :
  hash_get [(VFloat 0, VInt 7); (VArr [VStr ex_a; VInt 1], VInt 8)] (VFloat 0x8000000000000000) = Some (VInt 7) /\
  hash_get [(VFloat 0, VInt 7); (VArr [VStr ex_a; VInt 1], VInt 8)] (VEntry (VStr ex_a) (VInt 1)) = Some (VInt 8) /\
  hash_get [(VFloat 0, VInt 7)] (VInt 0) = None /\
  unique [VInt 1; VFloat 0; VInt 1; VFloat 0x8000000000000000; VStr ex_a; VEntry (VStr ex_a) (VInt 1); VArr [VStr ex_a; VInt 1]]
    = [VInt 1; VFloat 0; VStr ex_a; VEntry (VStr ex_a) (VInt 1)].
Proof. repeat split; vm_compute; reflexivity. Qed.

(* the hash made from [[a,1],[a,2],[b,3],[c,4]] (a repeated key followed by new keys): entries {a=>2,b=>3,c=>4},
   the pre-built index maps a,b,c to 0,1,2; every key is found with its own value, a missing key is not *)
Definition ex_c : list N := [99]%N.
Definition ex_pairs : list (value * value) :=
  [(VStr ex_a, VInt 1); (VStr ex_a, VInt 2); (VStr ex_b, VInt 3); (VStr ex_c, VInt 4)].
Example C07_ex_from_array :
  hash_from_array [VArr [VStr ex_a; VInt 1]; VEntry (VStr ex_a) (VInt 2); VArr [VStr ex_b; VInt 3]; VArr [VStr ex_c; VInt 4]]
    = Some (unique_entries ex_pairs) /\
  h_entries (unique_entries ex_pairs) = [(VStr ex_a, VInt 2); (VStr ex_b, VInt 3); (VStr ex_c, VInt 4)] /\
  h_index (unique_entries ex_pairs) = Some [(vkey (VStr ex_a), 0%nat); (vkey (VStr ex_b), 1%nat); (vkey (VStr ex_c), 2%nat)] /\
  hobj_get (unique_entries ex_pairs) (VStr ex_b) = LFound (VInt 3) /\
  hobj_get (unique_entries ex_pairs) (VStr ex_c) = LFound (VInt 4) /\
  hobj_get (unique_entries ex_pairs) (VStr []) = LMissing /\
  hobj_equals (unique_entries ex_pairs) (wrap_hash [(VStr ex_c, VInt 4); (VStr ex_b, VInt 3); (VStr ex_a, VInt 2)]) = Some true /\
  hobj_equals (wrap_hash [(VStr ex_c, VInt 4); (VStr ex_b, VInt 3); (VStr ex_a, VInt 2)]) (unique_entries ex_pairs) = Some true.
Proof. repeat split; vm_compute; reflexivity. Qed.

(* the fault is a real possibility of the modelled code: an index that is not the lazy one (here: positions in
   the input, as a wrong uniqueEntries would record them) makes Get fault and Equals fault *)
Example C07_ex_bad_index_faults :
  let h := {| h_entries := [(VStr ex_a, VInt 2); (VStr ex_b, VInt 3); (VStr ex_c, VInt 4)];
              h_index := Some [(vkey (VStr ex_a), 0%nat); (vkey (VStr ex_b), 2%nat); (vkey (VStr ex_c), 3%nat)] |} in
  hobj_get h (VStr ex_b) = LFound (VInt 4) /\ hobj_get h (VStr ex_c) = LFault /\ hobj_equals h h = None.
Proof. repeat split; vm_compute; reflexivity. Qed.

(* {a=>1, b=>2.5, c=>'x'} with the caches filled (the inferred value type is Scalar) and the equal hash
   {a=>1, c=>'x', b=>2.5} with the caches filled (ScalarData), nested in arrays whose caches are filled / nil:
   equal in both directions, same key, equal to the fresh objects; a different value stays different *)
Definition ex_xs : list N := [120]%N.
Definition ex_c1 : cval :=
  CArr (CType (TArray (THash (TEnum false [ex_a; ex_b; ex_c]) (TNullary NScalar) 3 3) 1 1)) CNil
    [CHash (CType (THash (TEnum false [ex_a; ex_b; ex_c]) (TNullary NScalar) 3 3)) COpaque
       [(CScalar (VStr ex_a), CScalar (VInt 1)); (CScalar (VStr ex_b), CScalar (VFloat 0x4004000000000000)); (CScalar (VStr ex_c), CScalar (VStr ex_xs))]].
Definition ex_c2 : cval :=
  CArr CNil CNil
    [CHash (CType (THash (TEnum false [ex_a; ex_c; ex_b]) (TNullary NScalarData) 3 3)) CNil
       [(CScalar (VStr ex_a), CScalar (VInt 1)); (CScalar (VStr ex_c), CScalar (VStr ex_xs)); (CScalar (VStr ex_b), CScalar (VFloat 0x4004000000000000))]].
Definition ex_c3 : cval :=
  CArr CNil CNil
    [CHash (CType (THash (TEnum false [ex_a; ex_b; ex_c]) (TNullary NScalar) 3 3)) CNil
       [(CScalar (VStr ex_a), CScalar (VInt 1)); (CScalar (VStr ex_b), CScalar (VFloat 0x4004000000000000)); (CScalar (VStr ex_c), CScalar (VStr ex_a))]].
Example C07_ex_type_caches :
  cwf ex_c1 = true /\ cwf ex_c2 = true /\ wf_value (erase ex_c1) = true /\ clean (erase ex_c2) = true /\
  cveq ex_c1 ex_c2 = true /\ cveq ex_c2 ex_c1 = true /\ ckey ex_c1 = ckey ex_c2 /\
  cveq (fresh (erase ex_c1)) ex_c2 = true /\ ex_c1 <> fresh (erase ex_c1) /\
  cveq ex_c1 ex_c3 = false /\ cveq ex_c3 ex_c2 = false /\ ckey ex_c1 <> ckey ex_c3.
Proof. repeat split; try (vm_compute; reflexivity); vm_compute; discriminate. Qed.

(* ------------------------------------------------------------------------------------------ *)
(* Hidden state and construction route: the cached canonical form of a TypedName (Model/KeysNames.v) *)

(* on every construction route - any nesting of Child, Parent, RelativeTo over names made by the constructor or
   from a map key, any bytes in the parts - no slice expression faults and the cached form of the result is empty
   or the form that its visible parts determine *)
Theorem C07_typedname_cache_in_order_on_every_route : forall e,
  nx_eval e <> RFault /\ (forall t, nx_eval e = RName t -> tn_ok t).
Proof. intros e. split; [apply nx_eval_no_fault|apply nx_eval_ok]. Qed.
Print Assumptions C07_typedname_cache_in_order_on_every_route.

(* hence Equals of two names, however they were made, is decided by their visible parts alone *)
Theorem C07_typedname_equals_independent_of_route : forall e1 e2 t1 t2,
  nx_eval e1 = RName t1 -> nx_eval e2 = RName t2 -> tn_equals t1 t2 = visible_eqb t1 t2.
Proof. exact equals_route_independent. Qed.
Print Assumptions C07_typedname_equals_independent_of_route.

(* names with the same visible parts are equal, and give the same answer against every third name in both
   directions, whatever the three routes *)
Theorem C07_typedname_same_parts_equal : forall e1 e2 t1 t2,
  nx_eval e1 = RName t1 -> nx_eval e2 = RName t2 ->
  tn_ns t1 = tn_ns t2 -> tn_auth t1 = tn_auth t2 -> tn_name t1 = tn_name t2 -> tn_equals t1 t2 = true.
Proof. exact same_parts_equal. Qed.
Print Assumptions C07_typedname_same_parts_equal.

Theorem C07_typedname_same_parts_same_answers : forall e1 e2 e3 t1 t2 t3,
  nx_eval e1 = RName t1 -> nx_eval e2 = RName t2 -> nx_eval e3 = RName t3 ->
  tn_ns t1 = tn_ns t2 -> tn_auth t1 = tn_auth t2 -> tn_name t1 = tn_name t2 ->
  tn_equals t1 t3 = tn_equals t2 t3 /\ tn_equals t3 t1 = tn_equals t3 t2.
Proof. exact same_parts_same_answers. Qed.
Print Assumptions C07_typedname_same_parts_same_answers.

(* the laws, in every state of the cache (also one that is not in order: Equals compares two texts) *)
Theorem C07_typedname_laws : forall a b c,
  tn_equals a a = true /\ tn_equals a b = tn_equals b a /\ (tn_equals a b = true -> tn_equals b c = true -> tn_equals a c = true).
Proof. intros a b c. split; [apply tn_equals_refl|split; [apply tn_equals_sym|apply tn_equals_trans]]. Qed.
Print Assumptions C07_typedname_laws.

(* C::D reached directly, relative to a parent of two segments (Aa::Bbbb::C::D relative to Aa::Bbbb), as the child
   of a child and from a map key: equal in both directions, one map key; B::C::D is another name; the hypothesis
   tn_ok matters: with a cache that is not in order the modelled Equals answers by the cache *)
Definition ex_ty : str := [116; 121; 112; 101]%N.
Definition ex_au : str := [104]%N.
Definition ex_cd : str := [67; 58; 58; 68]%N.
Definition ex_bcd : str := [66; 58; 58; 67; 58; 58; 68]%N.
Definition ex_full : str := [65; 97; 58; 58; 66; 98; 98; 98; 58; 58; 67; 58; 58; 68]%N.
Definition ex_par : str := [65; 97; 58; 58; 66; 98; 98; 98]%N.
Example C07_ex_typedname :
  let direct := new_typed_name ex_ty ex_au ex_cd in
  nx_eval (NRel (NNew ex_ty ex_au ex_full) (NNew ex_ty ex_au ex_par)) = RName direct /\
  nx_eval (NChild (NChild (NNew ex_ty ex_au ex_full))) = RName direct /\
  nx_eval (NFromKey (ex_au ++ [47] ++ ex_ty ++ [47] ++ ex_cd)%N) = RName direct /\
  tn_map_key direct = [104; 47; 116; 121; 112; 101; 47; 99; 58; 58; 100]%N /\
  tn_equals direct (new_typed_name ex_ty ex_au ex_bcd) = false /\
  nx_eval (NParent (NNew ex_ty ex_au ex_bcd)) = RName (new_typed_name ex_ty ex_au [66; 58; 58; 67]%N) /\
  nx_eval (NChild (NNew ex_ty ex_au [68]%N)) = RNil /\
  nx_eval (NRel (NNew ex_ty ex_au ex_cd) (NNew ex_ty ex_au ex_par)) = RNotRel /\
  nx_eval (NRel (NNew ex_ty ex_au [67; 58; 58; 32]%N) (NNew ex_ty ex_au [67]%N)) = RErr /\
  (* the Kelvin sign: its lower case form is one byte, the name is not plain, the form is computed from the parts *)
  nx_eval (NChild (NNew ex_ty ex_au [226; 132; 170; 58; 58; 66]%N)) = RName (new_typed_name ex_ty ex_au [66]%N) /\
  tn_map_key (new_typed_name ex_ty ex_au [226; 132; 170]%N) = [104; 47; 116; 121; 112; 101; 47; 107]%N.
Proof. repeat split; vm_compute; reflexivity. Qed.

Theorem C07_typedname_bad_cache_decides :
  exists a b, tn_ns a = tn_ns b /\ tn_auth a = tn_auth b /\ tn_name a = tn_name b /\ tn_equals a b = false.
Proof. exact bad_cache_decides. Qed.
Print Assumptions C07_typedname_bad_cache_decides.

(* Open finding typeset-key-by-content: TypeSets (outside the universe of the theorems above) are equal when name,
   authority, pcore URI and the two versions agree, while the hash key also holds the types of the set *)
Definition C07_statement_typesets : Prop := forall a b, ts_eqb a b = true -> ts_key a = ts_key b.
Theorem C07_typeset_key_by_content_refuted : exists a b, ts_eqb a b = true /\ ts_key a <> ts_key b.
Proof. exact typeset_key_by_content_refuted. Qed.
Print Assumptions C07_typeset_key_by_content_refuted.

(* ------------------------------------------------------------------------------------------ *)
(* URI types: one parameter, three internal representations (Model/KeysUri.v) *)

(* whatever the representations of the two operands, Equals is: both or neither without parameter, and the parameter
   hashes (paramsAsHash) equal *)
Theorem C07_uri_type_equals_by_parts : forall a b, uri_wf a = true -> uri_wf b = true ->
  uri_equals a b = Bool.eqb (is_none a) (is_none b) && veq (VHash (params_as_hash a)) (VHash (params_as_hash b)).
Proof. exact uri_equals_spec. Qed.
Print Assumptions C07_uri_type_equals_by_parts.

(* the same answer whichever operand receives the call (every combination of representations), reflexive, transitive *)
Theorem C07_uri_type_laws : forall a b c, uri_wf a = true -> uri_wf b = true -> uri_wf c = true ->
  uri_equals a a = true /\ uri_equals a b = uri_equals b a /\
  (uri_equals a b = true -> uri_equals b c = true -> uri_equals a c = true).
Proof.
  intros a b c Ha Hb Hc. split; [exact (uri_equals_refl a Ha)|]. split; [exact (uri_equals_sym a b Ha Hb)|].
  exact (uri_equals_trans a b c Ha Hb Hc).
Qed.
Print Assumptions C07_uri_type_laws.

(* the same hash key exactly when equal *)
Theorem C07_uri_type_key_iff_eq : forall a b, uri_wf a = true -> uri_wf b = true ->
  (uri_key a = uri_key b <-> uri_equals a b = true).
Proof. exact uri_key_iff_eq. Qed.
Print Assumptions C07_uri_type_key_iff_eq.

(* the representation is not observable: types with the same parts answer every Equals question alike, as receiver
   and as argument, and have one key; the URL form and the Hash form of the same parts are one type *)
Theorem C07_uri_type_representation_not_observable : forall a b c, uri_wf a = true -> uri_wf b = true -> uri_wf c = true ->
  params_as_hash a = params_as_hash b -> is_none a = is_none b ->
  uri_equals a c = uri_equals b c /\ uri_equals c a = uri_equals c b /\ uri_key a = uri_key b.
Proof. exact uri_same_parts. Qed.
Print Assumptions C07_uri_type_representation_not_observable.

Theorem C07_uri_type_url_form_is_its_hash_form : forall u, uri_wf (UUrl u) = true -> url_to_hash u <> [] ->
  uri_equals (UUrl u) (UHash (url_to_hash u)) = true /\ uri_equals (UHash (url_to_hash u)) (UUrl u) = true /\
  uri_key (UUrl u) = uri_key (UHash (url_to_hash u)).
Proof. exact uri_url_equals_its_hash_form. Qed.
Print Assumptions C07_uri_type_url_form_is_its_hash_form.

(* what a url.URL holds besides its parts ('?' without a query, the escaped path and fragment) is not read *)
Theorem C07_uri_type_hidden_url_fields_not_read : forall u fq rp rf, url_to_hash (with_hidden u fq rp rf) = url_to_hash u.
Proof. exact url_hidden_fields_not_read. Qed.
Print Assumptions C07_uri_type_hidden_url_fields_not_read.

(* a URL without any part ('', '#', '?', '//') is not the absent parameter: unequal in both directions, other key *)
Theorem C07_uri_type_url_without_parts_is_not_default : forall u,
  uri_equals (UUrl u) UNone = false /\ uri_equals UNone (UUrl u) = false /\ uri_key (UUrl u) <> uri_key UNone.
Proof. exact uri_url_without_parts_is_not_default. Qed.
Print Assumptions C07_uri_type_url_without_parts_is_not_default.

(* 'HTTP://Example.com:80/a?' as parsed by net/url (scheme lower case, ForceQuery) against the Hash form in another
   order; the URL without parts against no parameter *)
Definition ex_url : url :=
  mkUrl (bytes_of "http") None (bytes_of "Example.com:80") (Some 80) (bytes_of "/a") [] [] [] true [] [].
Definition ex_uhash : uparams :=
  UHash [ent "path" (VStr (bytes_of "/a")); ent "port" (VInt 80); ent "host" (VStr (bytes_of "example.com")); ent "scheme" (VStr (bytes_of "http"))].
Definition ex_nourl : url := mkUrl [] None [] None [] [] [] [] true [] [].
Example C07_ex_uri_type :
  uri_wf (UUrl ex_url) = true /\ uri_wf ex_uhash = true /\
  uri_equals (UUrl ex_url) ex_uhash = true /\ uri_equals ex_uhash (UUrl ex_url) = true /\ uri_key (UUrl ex_url) = uri_key ex_uhash /\
  uri_equals (UUrl ex_url) (UUrl (with_hidden ex_url false (bytes_of "/%61") [])) = true /\
  url_to_hash ex_nourl = [] /\ uri_wf (UUrl ex_nourl) = true /\ uri_equals (UUrl ex_nourl) UNone = false /\
  uri_key UNone = [1; 116; 85; 82; 73; 4]%N /\ uri_key (UUrl ex_nourl) = [1; 116; 85; 82; 73; 0; 72; 4; 4]%N.
Proof. repeat split; vm_compute; reflexivity. Qed.
