(* C15 — File-based loading maps names to definition files faithfully.

   Statements only; the proofs are in Proofs/FileLoaderProofs.v, the model in Model/FileLoader.v.
   Quantification: all worlds (directory layouts as filepath.Walk lists them, one loader root per module;
   a single file-based loader, a dependency loader over several, or a chain of file-based loaders each the
   parent of the one before - environment <- module; any set of names bound by the system loader above them), all sequences of operations `ops` (lookups through any contexts, HasEntry, Discover, ...), all
   layer counts `fuel` (an exhausted model answers OFuel, never OFound / OErr, so the statements hold for every
   fuel).  `reach w fuel ops` is the loader state after `ops`; `lookup_after w fuel ops ctx name` is one more
   lookup in that state.  The only hypothesis, `shadow_wf w`, says that the parent loader binds a type under
   the key of its name (checked on every case of the correspondence run). *)
From Coq Require Import ZArith NArith Bool List String Ascii Lia.
From PcoreV Require Import Model.Base Model.FileLoader Model.FileLoaderText Proofs.FileLoaderProofs Proofs.FileLoaderTextProofs Proofs.FileLoaderIff Proofs.FileLoaderMember Proofs.FileLoaderParentBound Proofs.FileLoaderMemberG.
Import ListNotations.
Local Open Scope nat_scope.

(* ---- the derivation name -> path and its inverse path -> name --------------------------------------------- *)

(* global loader: parts ps (lower-case, each a letter followed by letters, digits, underscores)  <->  types/<ps joined by '/'>.pp *)
Theorem C15_path_name_inverse_global :
  forall m ps, is_global m = true -> ps <> [] -> Forall seg_ok ps ->
    effective_path m (join s_dc ps) = Ok (path_of ps) /\
    key_of_rel m (path_of ps) = Some (join s_dc ps).
Proof. intros m ps G Hne Hs. split; [exact (effective_path_global m ps G Hne Hs)|exact (key_of_path_global m ps G Hne Hs)]. Qed.
Print Assumptions C15_path_name_inverse_global.

(* module loader: <module>::ps  <->  types/<ps joined by '/'>.pp (module prefix dropped); the single parts
   `init` and `init_typeset` are reserved file names *)
Theorem C15_path_name_inverse_module :
  forall m ps, is_global m = false -> seg_ok (m_name m) -> ps <> [] -> Forall seg_ok ps -> reserved ps = false ->
    effective_path m (join s_dc (m_name m :: ps)) = Ok (path_of ps) /\
    key_of_rel m (path_of ps) = Some (join s_dc (m_name m :: ps)).
Proof.
  intros m ps G Hm Hne Hs Hr. split; [exact (effective_path_module m ps G Hm Hne Hs)|exact (key_of_path_module m ps G Hm Hne Hs Hr)].
Qed.
Print Assumptions C15_path_name_inverse_module.

(* ---- found => a definition file at the derived path ------------------------------------------------------- *)

(* Whatever was looked up before: a name that is found is bound by the parent loader, or some module i holds,
   at the path the loader derives from the name (`origin_of`: the index entry of the name's key — by
   C15_path_name_inverse the path made of the lower-cased segments below types/, the module's
   init_typeset.pp for the module's own name), a well-formed definition file whose declared name is the
   requested one; or the name is a member of the TypeSet defined by such a file.  (The marker of the value is
   the file's, or none while the alias is unresolved.) *)
Theorem C15_found_implies_file :
  forall w fuel ops ctx name s' v rd, shadow_wf w ->
    lookup_after w fuel ops ctx name = (s', (OFound v, rd)) ->
    exists v0, file_or_parent w (norm_name name) v0 /\ tv_name v = tv_name v0 /\ tv_ts v = tv_ts v0 /\
               (v = v0 \/ tv_marker v = 0%N).
Proof. intros w fuel ops ctx name s' v rd Hsh H. exact (found_has_file w fuel ops ctx name s' v rd Hsh H). Qed.
Print Assumptions C15_found_implies_file.

(* ---- the loaded definition carries the requested name (letter case aside) --------------------------------- *)
Theorem C15_carries_requested_name :
  forall w fuel ops ctx name s' v rd, shadow_wf w ->
    lookup_after w fuel ops ctx name = (s', (OFound v, rd)) -> tv_name v = norm_name name.
Proof. intros w fuel ops ctx name s' v rd Hsh H. exact (found_carries_name w fuel ops ctx name s' v rd Hsh H). Qed.
Print Assumptions C15_carries_requested_name.

(* ---- lookups ignore letter case --------------------------------------------------------------------------- *)
(* in every state, two names with the same normal form (lower case, leading "::" dropped) are the same lookup:
   same answer, same files read, same new state *)
Theorem C15_case_insensitive_lookup :
  forall w ixs fuel s ctx n n', norm_name n = norm_name n' ->
    step w ixs fuel s (OpLoad ctx n) = step w ixs fuel s (OpLoad ctx n').
Proof. exact step_case_insensitive. Qed.
Print Assumptions C15_case_insensitive_lookup.

Theorem C15_case_insensitive_upper_lower :
  forall w ixs fuel s ctx n,
    step w ixs fuel s (OpLoad ctx (upper n)) = step w ixs fuel s (OpLoad ctx n) /\
    step w ixs fuel s (OpLoad ctx (lower n)) = step w ixs fuel s (OpLoad ctx n).
Proof. intros. split; [apply step_upper|apply step_lower]. Qed.
Print Assumptions C15_case_insensitive_upper_lower.

(* ---- each file is parsed at most once, over all lookup sequences ------------------------------------------ *)
(* st_reads is the log of all GetContent calls of the instantiator (log_read_m, the only writer, appends) *)
Theorem C15_parsed_at_most_once :
  forall w fuel ops, shadow_wf w -> NoDup (st_reads (reach w fuel ops)).
Proof. exact read_at_most_once. Qed.
Print Assumptions C15_parsed_at_most_once.

(* ---- a reported error names a bad file of the tree, and the line ------------------------------------------- *)
(* err_ok: PARSE_ERROR at (file, line) => the file is malformed at that line; WRONG_DEFINITION at (file, line)
   => the file declares another name than the one its path stands for, line = where its definition starts;
   NO_DEFINITION likewise for a file that defines nothing; UNABLE_TO_READ_FILE => the file is unreadable;
   NOT_EXPECTED_TYPESET => the file is the init_typeset.pp of a module *)
Theorem C15_bad_file_reports_file :
  forall w fuel ops ctx name s' e rd, shadow_wf w ->
    lookup_after w fuel ops ctx name = (s', (OErr e, rd)) -> err_ok w e.
Proof. intros w fuel ops ctx name s' e rd Hsh H. exact (reported_names_bad_file w fuel ops ctx name s' e rd Hsh H). Qed.
Print Assumptions C15_bad_file_reports_file.

(* ---- a name without a file stays absent, without side effects ---------------------------------------------- *)
(* After any sequence of operations, for any loader topology: when no module has a file at the path derived
   from the name or from any of its ancestors (chain_absent: the parent-name search looks there for a TypeSet),
   and the parent does not bind the name, the lookup answers not found (or rejects the name as invalid: invalid
   characters), reads nothing, and changes no binding, no entry of the dependency loader and not the read log
   (same_b; only cached misses - placeholders - may be added).  members_wf: TypeSet members have simple names
   (the code rejects a TypeSet otherwise; checked on every case of the correspondence run). *)
Theorem C15_absent_no_side_effect :
  forall w fuel ops ctx name s' o rd,
    shadow_wf w -> members_wf w ->
    shadow w (norm_name name) = None -> (forall i, chain_absent w i (norm_name name)) ->
    lookup_after w fuel ops ctx name = (s', (o, rd)) ->
    (o = ONotFound \/ o = OFuel \/ o = OErr EInvalidName) /\ rd = [] /\ same_b (reach w fuel ops) s'.
Proof. exact lookup_absent. Qed.
Print Assumptions C15_absent_no_side_effect.

(* ---- a malformed, misnamed, empty or unreadable file surfaces as the reported error ------------------------- *)
(* One file-based loader (module 0), any state s, any context, any depth: when the name has no entry yet, is
   one the loader answers for (`routed`), is not bound by the parent, and the file at its derived path is bad
   for it (`bad_err`: malformed at a line / declares another name / defines nothing / unreadable), the lookup
   reads exactly that file and reports exactly that error, naming the file and the line; the placeholder stays. *)
Theorem C15_bad_file_surfaces :
  forall w n s ctx name p f e,
    let k := norm_name name in
    w_top w = TopSingle -> shadow w k = None -> routed w 0 k -> origin_of w 0 k = Some p -> get_entry s 0 k = None ->
    file_at (mod_at w 0) p = Some f -> bad_err 0 p f k = Some e ->
    step w (indexes_of w) (S n) s (OpLoad ctx name) = (after_read s 0 k p, (OErr e, [(0, p)])).
Proof. exact step_bad_file. Qed.
Print Assumptions C15_bad_file_surfaces.

(* ---- file => found, for a definition file that refers to no other name ------------------------------------- *)
(* same setting: a well-formed file at the derived path whose declared name is the requested one (or that holds
   a bare type expression; for a module's own name: a TypeSet) is found by the first lookup, which reads exactly
   that file and binds its definition (`leaf_val`) *)
Theorem C15_good_file_found :
  forall w n s ctx name p f v,
    let k := norm_name name in
    w_top w = TopSingle -> shadow w k = None -> routed w 0 k -> origin_of w 0 k = Some p -> get_entry s 0 k = None ->
    file_at (mod_at w 0) p = Some f -> leaf_val f k = Some v ->
    (is_global (mod_at w 0) = false -> is_qualified k = false -> tv_ts v = true) ->
    step w (indexes_of w) (S n) s (OpLoad ctx name) = (leaf_state s 0 k p v, (OFound v, [(0, p)])).
Proof. exact step_leaf_file. Qed.
Print Assumptions C15_good_file_found.

(* ---- found IF AND ONLY IF a definition file exists: every topology, every lookup sequence ------------------------ *)
(* `consulted w k i`: loader i is one the top loader asks for k - the one loader (TopSingle), every loader of a chain
   (TopChain, any length), for a dependency loader (any number of module loaders, module_path included) the module the
   first segment of a qualified name selects, else all of them.  `defined_file w i k`: loader i answers for k (`routed`)
   and holds, at the path its index derives from k (`origin_of`), a well-formed file that declares k (or a bare
   expression; init_typeset.pp for a module's own name).  `clean_run w fuel ops`: no lookup of the sequence reported an
   error (an error in a REFERENCED file legitimately propagates to the lookup of the referring name, and a TypeSet whose
   member lookup failed keeps its placeholder - C15_example_error_history_needed shows the hypothesis cannot be dropped).
   Then, in the state reached by `ops` (any operations, any contexts, references between files, cycles, stale cached
   misses of other loaders, any recursion depth), a lookup that does not itself report an error
     - FINDS the name when a consulted loader has a definition file for it, and the definition carries the name;
     - finds it ONLY when a file (or TypeSet member declaration, or the parent) backs it. *)
Theorem C15_found_iff_file_all_topologies :
  forall w fuel ops ctx name s' o rd,
    shadow_wf w -> clean_run w fuel ops ->
    lookup_after w fuel ops ctx name = (s', (o, rd)) -> clean_out (o, rd) = true ->
    ((exists i, consulted w (norm_name name) i /\ defined_file w i (norm_name name)) ->
     exists v, o = OFound v /\ tv_name v = norm_name name) /\
    ((exists v, o = OFound v) -> exists v0, file_or_parent w (norm_name name) v0).
Proof. exact found_iff_file. Qed.
Print Assumptions C15_found_iff_file_all_topologies.

(* the same without the hypothesis on the outcome of the last lookup: a name with a definition file in a consulted
   loader is never answered "not found" (found, or the error of a file it depends on) *)
Theorem C15_definition_file_never_missed :
  forall w fuel ops ctx name s' o rd,
    clean_run w fuel ops -> lookup_after w fuel ops ctx name = (s', (o, rd)) ->
    (exists i, consulted w (norm_name name) i /\ defined_file w i (norm_name name)) -> o <> ONotFound.
Proof. exact defined_not_missed. Qed.
Print Assumptions C15_definition_file_never_missed.

(* as an equivalence: for a name that the parent does not bind and that nothing but definition files of consulted
   loaders stands for (no TypeSet member declaration, no file in a loader that is not asked) *)
Theorem C15_found_iff_file_equivalence :
  forall w fuel ops ctx name s' o rd,
    shadow_wf w -> clean_run w fuel ops ->
    lookup_after w fuel ops ctx name = (s', (o, rd)) -> clean_out (o, rd) = true ->
    shadow w (norm_name name) = None ->
    (forall i v, backed w i (norm_name name) v -> consulted w (norm_name name) i /\ defined_file w i (norm_name name)) ->
    ((exists v, o = OFound v) <-> (exists i, consulted w (norm_name name) i /\ defined_file w i (norm_name name))).
Proof. exact found_iff_file_equiv. Qed.
Print Assumptions C15_found_iff_file_equivalence.


(* ---- found <= file for a TypeSet MEMBER name ----------------------------------------------------------------- *)
(* Proofs/FileLoaderMember.v.  `ts_member w i kd k`: loader i holds, at the path its index derives from kd, a TypeSet
   file that declares kd with a member whose qualified name is k.  `sole_claimant w i kd k`: nothing else stands for
   k - no loader has a file at the path derived from k, no TypeSet file of ANOTHER loader declares a member named k,
   the parent does not bind k - and no TypeSet file of loader i declares a member named kd.  Then, in every topology
   (i consulted for k and kd, answering for both: `routed`), in the state reached by any error-free operation
   sequence (the member looked up first - which instantiates the TypeSet while the member lookup is in progress -,
   the TypeSet looked up first, members reached through references from other files, through any contexts, nested
   lookups of the member that cache a miss under the placeholder of the TypeSet, any recursion depth), the member is
   never answered "not found"; found, it carries the name.
   Invariant over in-progress instantiations (FileLoaderMember.P / Q2 / B2): (i, kd) holds a value => (i, k) holds
   a value, in EVERY intermediate state; a cached miss for (i, k) that a computation without error leaves behind
   was there before or stands under a placeholder of (i, kd); between the operations of an error-free run neither
   (i, kd) nor (i, k) holds a placeholder. *)
Theorem C15_typeset_member_never_missed :
  forall w fuel ops ctx name s' o rd i kd,
    members_wf w -> clean_run w fuel ops -> lookup_after w fuel ops ctx name = (s', (o, rd)) ->
    ts_member w i kd (norm_name name) -> routed w i kd -> routed w i (norm_name name) ->
    consulted w (norm_name name) i -> consulted w kd i -> sole_claimant w i kd (norm_name name) ->
    o <> ONotFound.
Proof. exact member_not_missed. Qed.
Print Assumptions C15_typeset_member_never_missed.

Theorem C15_typeset_member_found :
  forall w fuel ops ctx name s' o rd i kd,
    shadow_wf w -> members_wf w -> clean_run w fuel ops ->
    lookup_after w fuel ops ctx name = (s', (o, rd)) -> clean_out (o, rd) = true ->
    ts_member w i kd (norm_name name) -> routed w i kd -> routed w i (norm_name name) ->
    consulted w (norm_name name) i -> consulted w kd i -> sole_claimant w i kd (norm_name name) ->
    exists v, o = OFound v /\ tv_name v = norm_name name.
Proof. exact member_found. Qed.
Print Assumptions C15_typeset_member_found.

(* the decidable reading (all hypotheses on the world and the name as one boolean; evaluated by the correspondence run
   on the observed outcomes: mem_ok_from / c15_mem_ok) *)
Theorem C15_typeset_member_never_missed_dec :
  forall w fuel ops ctx name s' o rd i,
    members_wf w -> clean_run w fuel ops -> lookup_after w fuel ops ctx name = (s', (o, rd)) ->
    member_claim_b w i (norm_name name) = true -> o <> ONotFound.
Proof. exact member_claim_not_missed. Qed.
Print Assumptions C15_typeset_member_never_missed_dec.

(* ---- the same with a weaker guard (depth pass 7, Proofs/FileLoaderMemberG.v) ------------------------------------ *)
(* `member_claim_ok w i k` = `sole_claimant2 w i k` OR some consulted loader has a well-formed definition file for k at the
   path derived from it (a name that is both a TypeSet member and a file: then C15_definition_file_never_missed applies).
   `sole_claimant2 w i k`: (1') `no_good_file w k` - a file at the path derived from k, in whatever loader, is NOT a
   definition of k (malformed, misnamed, without definition, unreadable; in particular: no file there) - and (2) no TypeSet
   file of another loader declares a member named k.
   Of the four conditions of sole_claimant: (1) "no loader has a file at the path derived from k" is weakened to (1') or a
   good file in a consulted loader (what remains excluded: a good file in a loader that is NOT consulted for k);
   (3) "the parent does not bind k" is GONE (C15_parent_binding_never_missed: the parent is asked first);
   (4) "no TypeSet file of loader i declares a member named like the TypeSet kd" is GONE: a TypeSet that has its own file
   and is also a member of another TypeSet of the same loader.  There the other TypeSet may bind kd as its member over the placeholder of the instantiation of kd's own
   file; the invariant is weakened to "(i, kd) holds a TYPESET value => (i, k) holds a value", and the relation between
   the overwritten placeholder and the instantiation in progress is Q3: "a computation that ends without error ends with a
   non-TypeSet value in (i, kd) only if it started with one or with a placeholder there" - the instantiation that set the
   placeholder ends by binding the TypeSet value, which fails (redefinition) over the member value; so between the
   operations of an error-free run (i, kd) never holds a non-TypeSet value (C15_typeset_file_wins). *)
Theorem C15_typeset_member_never_missed_claimed :
  forall w fuel ops ctx name s' o rd i kd,
    members_wf w -> clean_run w fuel ops -> lookup_after w fuel ops ctx name = (s', (o, rd)) ->
    ts_member w i kd (norm_name name) -> routed w i kd -> routed w i (norm_name name) ->
    consulted w (norm_name name) i -> consulted w kd i -> member_claim_ok w i (norm_name name) ->
    o <> ONotFound.
Proof. exact member_not_missed_g. Qed.
Print Assumptions C15_typeset_member_never_missed_claimed.

Theorem C15_typeset_member_found_claimed :
  forall w fuel ops ctx name s' o rd i kd,
    shadow_wf w -> members_wf w -> clean_run w fuel ops ->
    lookup_after w fuel ops ctx name = (s', (o, rd)) -> clean_out (o, rd) = true ->
    ts_member w i kd (norm_name name) -> routed w i kd -> routed w i (norm_name name) ->
    consulted w (norm_name name) i -> consulted w kd i -> member_claim_ok w i (norm_name name) ->
    exists v, o = OFound v /\ tv_name v = norm_name name.
Proof. exact member_found_g. Qed.
Print Assumptions C15_typeset_member_found_claimed.

(* the guard of the old theorem implies the new one *)
Theorem C15_sole_claimant_is_claim_ok :
  forall w i kd k, sole_claimant w i kd k -> member_claim_ok w i k.
Proof. intros w i kd k H. left. destruct (sole_claimant_3 w i kd k H) as (G1 & G2 & _). split; [exact G1|exact G2]. Qed.
Print Assumptions C15_sole_claimant_is_claim_ok.

(* a name that the parent loader binds is never answered "not found" after an error-free run, in any topology (i: some
   loader is consulted for the name - a dependency loader over no module answers nothing), whatever the file-based
   loaders hold for it: fileBasedLoader.LoadEntry asks the parent first (Proofs/FileLoaderParentBound.v) *)
Theorem C15_parent_binding_never_missed :
  forall w fuel ops ctx name s' o rd i,
    clean_run w fuel ops -> lookup_after w fuel ops ctx name = (s', (o, rd)) ->
    shadow w (norm_name name) <> None -> consulted w (norm_name name) i -> o <> ONotFound.
Proof. exact parent_bound_not_missed. Qed.
Print Assumptions C15_parent_binding_never_missed.

(* in the state reached by an error-free run, the entry of loader i for the name of its TypeSet file holds nothing, or
   the TypeSet - never the member value that another TypeSet of the loader declares under the same name *)
Theorem C15_typeset_file_wins :
  forall w fuel ops i kd k v,
    members_wf w -> clean_run w fuel ops ->
    ts_member w i kd k -> routed w i kd -> routed w i k -> consulted w k i -> consulted w kd i -> sole_claimant3 w i k ->
    get_entry (reach w fuel ops) i kd = Some (Some v) -> tv_ts v = true.
Proof. exact typeset_entry_is_typeset. Qed.
Print Assumptions C15_typeset_file_wins.

(* the decidable reading, evaluated by the correspondence run on the observed outcomes (mem_ok3_from / c15_mem_ok) *)
Theorem C15_typeset_member_never_missed_claimed_dec :
  forall w fuel ops ctx name s' o rd i,
    members_wf w -> clean_run w fuel ops -> lookup_after w fuel ops ctx name = (s', (o, rd)) ->
    member_claim3_b w i (norm_name name) = true -> o <> ONotFound.
Proof. exact member_claim3_not_missed. Qed.
Print Assumptions C15_typeset_member_never_missed_claimed_dec.

(* ---- a chain of file-based loaders: a binding of a loader up the chain is found through the loaders below ------ *)
(* Loaders 0 .. length-1, the parent of loader i is loader i+1 (TopChain; the top loader, through which the lookup
   goes, is loader 0).  In ANY state s in which loader j has the name bound and the loaders above j have cached
   misses for it, the lookup through any context finds that definition, reads nothing and leaves the state as it
   is - whatever the loaders below j hold for the name themselves (in particular a cached miss from the time
   when the parent did not have the name yet: a TypeSet member that was asked for, through the child, while
   the parent's TypeSet file was being instantiated - C15_example_chain_stale_miss).  "Found iff a definition
   file exists" holds for every lookup of a sequence, not only the first. *)
Theorem C15_chain_parent_binding_found :
  forall w n s ctx name j v,
    let k := norm_name name in
    w_top w = TopChain -> shadow w k = None -> j < List.length (w_mods w) ->
    get_entry s j k = Some (Some v) ->
    (forall j', j < j' < List.length (w_mods w) -> get_entry s j' k = Some None) ->
    exists v', step w (indexes_of w) (S n) s (OpLoad ctx name) = (s, (OFound v', [])) /\
               tv_name v' = tv_name v /\ tv_ts v' = tv_ts v /\ (v' = v \/ tv_marker v' = 0%N).
Proof. exact step_chain_parent_binding. Qed.
Print Assumptions C15_chain_parent_binding_found.

(* ---- the line that an error names is the line IN THE FILE ----------------------------------------------------- *)
(* Model/FileLoaderText.v: line_at text pos = what StringReader.Line() answers when the first pos bytes of the
   text are consumed (the parser reports the line of its reader when it gives up); def_line text = the line on
   which the first token starts (types.DefinitionLocation: misnamed files, files without a definition).
   For every text that is a preamble p followed by a body b, whatever the preamble holds (blank lines first,
   white-space-only lines, comments, any number, any order): a position k of the body is reported on the line it
   has within the body PLUS the line feeds of the preamble - nothing in front of the definition is dropped from the
   count.  (The correspondence run checks on the texts of the files that observed errors name that the line
   numbers of the world - CMalformed line, f_defline - are line_at / def_line of the text: text_ok.) *)
Theorem C15_parse_error_line_in_file :
  forall p b k, line_at (p ++ b) (List.length p + k) = (count_lf p + line_at b k)%N.
Proof. exact line_at_app. Qed.
Print Assumptions C15_parse_error_line_in_file.

(* blank false p: p holds no token and ends outside a comment (white space ' ' '\t' '\n' and '#' comments only) *)
Theorem C15_definition_line_in_file :
  forall p b, blank false p = true ->
    (scan false b < List.length b -> def_line (p ++ b) = (count_lf p + def_line b)%N) /\
    (forall c r, b = c :: r -> is_ws c = false -> is_hash c = false -> def_line (p ++ b) = (count_lf p + 1)%N) /\
    def_line p = 1%N.
Proof.
  intros p b Hp. split; [exact (def_line_app p b Hp)|]. split; [|exact (def_line_blank p Hp)].
  intros c r -> Hw Hh. exact (def_line_token_first p c r Hp Hw Hh).
Qed.
Print Assumptions C15_definition_line_in_file.

(* ---- a new generation of loaders answers from the layout it stands on ------------------------------------------ *)
(* run_session: generations (layout, operations) follow each other in one process over the same directory path;
   each generation has new loaders.  Whatever the earlier generations held at the same paths and whatever was
   looked up in them: the answers (and file reads) of the last generation are those of its own layout alone; its
   last lookup is a lookup in a state reached in its own world - so every theorem above speaks about the files of
   the CURRENT layout (C15_session_found_in_current_layout, C15_session_error_in_current_layout). *)
Theorem C15_new_loaders_answer_from_current_layout :
  forall fuel gs w ops, run_session fuel (gs ++ [(w, ops)]) = run_session fuel gs ++ run w fuel ops.
Proof. exact run_session_last. Qed.
Print Assumptions C15_new_loaders_answer_from_current_layout.

Theorem C15_session_found_in_current_layout :
  forall fuel gs w ops ctx name v rd d, shadow_wf w ->
    last (run_session fuel (gs ++ [(w, ops ++ [OpLoad ctx name])])) d = (OFound v, rd) ->
    tv_name v = norm_name name /\
    exists v0, file_or_parent w (norm_name name) v0 /\ tv_name v = tv_name v0 /\ tv_ts v = tv_ts v0 /\
               (v = v0 \/ tv_marker v = 0%N).
Proof.
  intros fuel gs w ops ctx name v rd d Hsh H. rewrite session_last_lookup in H.
  destruct (lookup_after w fuel ops ctx name) as [s' x] eqn:E. cbn [snd] in H. subst x.
  split; [exact (found_carries_name w fuel ops ctx name s' v rd Hsh E)|exact (found_has_file w fuel ops ctx name s' v rd Hsh E)].
Qed.
Print Assumptions C15_session_found_in_current_layout.

Theorem C15_session_error_in_current_layout :
  forall fuel gs w ops ctx name e rd d, shadow_wf w ->
    last (run_session fuel (gs ++ [(w, ops ++ [OpLoad ctx name])])) d = (OErr e, rd) -> err_ok w e.
Proof.
  intros fuel gs w ops ctx name e rd d Hsh H. rewrite session_last_lookup in H.
  destruct (lookup_after w fuel ops ctx name) as [s' x] eqn:E. cbn [snd] in H. subst x.
  exact (reported_names_bad_file w fuel ops ctx name s' e rd Hsh E).
Qed.
Print Assumptions C15_session_error_in_current_layout.

(* ---- non-vacuity: a concrete module, computed -------------------------------------------------------------- *)

Definition s (x : string) : str := map N_of_ascii (list_ascii_of_string x).
Definition ex_file (rel : string) (dir : bool) (c : content) (mk : N) : file :=
  {| f_rel := s rel; f_dir := dir; f_content := c; f_marker := mk; f_defline := 1%N |}.

Definition ex_world : world :=
  {| w_top := TopSingle;
     w_mods := [ {| m_name := s "mymod";
                    m_walk := [ ex_file "types" true CNoDef 0;
                                ex_file "types/Foo.pp" false (CGood (s "Mymod::Foo") []) 10;
                                ex_file "types/bad.pp" false (CMalformed 3) 20;
                                ex_file "types/init_typeset.pp" false (CTypeSet (s "Mymod") [s "Car"]) 30;
                                ex_file "types/uses.pp" false (CGood (s "Mymod::Uses") [s "Mymod::Foo"; s "Mymod::Bad"]) 40;
                                ex_file "types/wrong.pp" false (CGood (s "Mymod::Other") []) 50 ] |} ];
     w_shadow := [(s "integer", s "integer")] |}.

Example C15_example_shadow_wf : shadow_wf ex_world.
Proof.
  intros k nm H. unfold shadow, ex_world in H. cbn [w_shadow List.find] in H. cbv beta in H. cbn [fst snd] in H.
  destruct (str_eqb (s "integer") k) eqn:E; [|discriminate H]. apply str_eqb_eq in E. cbn [snd] in H. injection H as <-. exact E.
Qed.

(* found through an upper-case file name and for an upper-case request, read once; a malformed file is reported
   with file and line, then stays absent; a TypeSet member; a file referring to a bad file; a misnamed file; a
   name without file; a name of the parent *)
Example C15_example_run :
  run ex_world 8
    [ OpLoad (-1) (s "Mymod::Foo"); OpLoad 0 (s "MYMOD::FOO"); OpLoad (-1) (s "Mymod::Bad"); OpLoad (-1) (s "Mymod::Bad");
      OpLoad 1 (s "mymod::car"); OpLoad 0 (s "Mymod::Uses"); OpLoad 0 (s "Mymod::Wrong"); OpLoad 0 (s "Mymod::Nope");
      OpLoad 0 (s "Integer"); OpHas 0 (s "Mymod::Foo"); OpDiscover 0 ]
  = [ (OFound {| tv_name := s "mymod::foo"; tv_marker := 10; tv_ts := false |}, [(0, s "types/Foo.pp")]);
      (OFound {| tv_name := s "mymod::foo"; tv_marker := 10; tv_ts := false |}, []);
      (OErr (EParse 0 (s "types/bad.pp") 3), [(0, s "types/bad.pp")]);
      (ONotFound, []);
      (OFound {| tv_name := s "mymod::car"; tv_marker := 31; tv_ts := false |}, [(0, s "types/init_typeset.pp")]);
      (OFound {| tv_name := s "mymod::uses"; tv_marker := 40; tv_ts := false |}, [(0, s "types/uses.pp")]);
      (OErr (EWrongDef 0 (s "types/wrong.pp") 1), [(0, s "types/wrong.pp")]);
      (ONotFound, []);
      (OFound {| tv_name := s "integer"; tv_marker := 0; tv_ts := false |}, []);
      (OBool true, []);
      (OList [s "init_typeset"; s "mymod::bad"; s "mymod::foo"; s "mymod::uses"; s "mymod::wrong"], []) ].
Proof. vm_compute. reflexivity. Qed.

(* the hypotheses of the path theorems are satisfiable, and the derivation computes *)
Example C15_example_path :
  let m := nth 0 (w_mods ex_world) dummy_mod in
  is_global m = false /\ seg_ok (m_name m) /\ Forall seg_ok [s "ns"; s "my_type"] /\ reserved [s "ns"; s "my_type"] = false /\
  effective_path m (s "mymod::ns::my_type") = Ok (s "types/ns/my_type.pp") /\
  key_of_rel m (s "types/ns/my_type.pp") = Some (s "mymod::ns::my_type").
Proof.
  cbv zeta. repeat split; try (vm_compute; reflexivity).
  repeat constructor; vm_compute; reflexivity.
Qed.

(* the hypotheses of C15_bad_file_surfaces and C15_good_file_found are satisfiable *)
Example C15_example_bad_file :
  let k := norm_name (s "Mymod::BAD") in let p := s "types/bad.pp" in
  shadow ex_world k = None /\ routed ex_world 0 k /\ origin_of ex_world 0 k = Some p /\ get_entry st0 0 k = None /\
  exists f, file_at (mod_at ex_world 0) p = Some f /\ bad_err 0 p f k = Some (EParse 0 p 3).
Proof.
  cbv zeta. repeat split; try (vm_compute; reflexivity).
  - right. split; vm_compute; reflexivity.
  - eexists. split; vm_compute; reflexivity.
Qed.

Example C15_example_good_file :
  let k := norm_name (s "MYMOD::foo") in let p := s "types/Foo.pp" in
  shadow ex_world k = None /\ routed ex_world 0 k /\ origin_of ex_world 0 k = Some p /\ get_entry st0 0 k = None /\
  exists f, file_at (mod_at ex_world 0) p = Some f /\
            leaf_val f k = Some {| tv_name := k; tv_marker := 10; tv_ts := false |} /\ is_qualified k = true.
Proof.
  cbv zeta. repeat split; try (vm_compute; reflexivity).
  - right. split; vm_compute; reflexivity.
  - eexists. repeat split; vm_compute; reflexivity.
Qed.

(* the hypotheses of C15_absent_no_side_effect are satisfiable *)
Example C15_example_absent :
  let k := norm_name (s "Other::Thing") in
  members_wf ex_world /\ shadow ex_world k = None /\ forall i, chain_absent ex_world i k.
Proof.
  cbv zeta. split; [|split; [vm_compute; reflexivity|]].
  - intros i p f d ms mn Hf Hc Hin. destruct i as [|i].
    + unfold file_at, mod_at, ex_world in Hf. cbn [w_mods nth m_walk] in Hf.
      repeat (cbn [List.find ex_file f_dir f_rel negb andb] in Hf;
              match type of Hf with
              | (if ?b then _ else _) = _ => destruct b eqn:?; [inversion Hf; subst f; cbn [f_content] in Hc; try discriminate Hc|]
              | _ => idtac
              end).
      * inversion Hc; subst. destruct Hin as [<-|[]]. vm_compute. reflexivity.
      * discriminate Hf.
    + unfold file_at, mod_at, ex_world in Hf. cbn [w_mods nth] in Hf. destruct i; discriminate Hf.
  - intros i. destruct i as [|i].
    + split; [vm_compute; reflexivity|]. intros a Ha. vm_compute in Ha. destruct Ha as [<-|[]]. vm_compute. reflexivity.
    + split; [|intros a _]; apply origin_of_out_of_range; cbn; apply le_n_S, Nat.le_0_l.
Qed.

(* a module loader whose parent is the environment's loader: the TypeSet file of the environment, a module file
   that refers to a member of it, the module's own TypeSet; every name is found at every lookup, each file is
   read once, HasEntry / Discover of the module loader include what the parent has *)
Definition ex_chain : world :=
  {| w_top := TopChain;
     w_mods := [ {| m_name := s "moda";
                    m_walk := [ ex_file "types" true CNoDef 0;
                                ex_file "types/init_typeset.pp" false (CTypeSet (s "Moda") [s "Car"]) 20;
                                ex_file "types/thing.pp" false (CGood (s "Moda::Thing") [s "Shapes::Circle"]) 10 ] |};
                 {| m_name := s "environment";
                    m_walk := [ ex_file "types" true CNoDef 0;
                                ex_file "types/plain.pp" false (CGood (s "Plain") []) 40;
                                ex_file "types/shapes.pp" false (CTypeSet (s "Shapes") [s "Circle"; s "Square"]) 30 ] |} ];
     w_shadow := [] |}.

Example C15_example_chain_run :
  run ex_chain 8
    [ OpLoad (-1) (s "Shapes::Circle"); OpLoad (-1) (s "Shapes::Circle"); OpLoad 0 (s "Moda::Thing"); OpLoad 0 (s "shapes::square");
      OpLoad (-1) (s "Shapes"); OpLoad 0 (s "Plain"); OpLoad (-1) (s "Moda::Car"); OpLoad 1 (s "SHAPES::CIRCLE"); OpLoad 0 (s "Shapes::Oval");
      OpHas 0 (s "Plain"); OpHas 1 (s "Moda::Thing"); OpDiscover 0 ]
  = [ (OFound {| tv_name := s "shapes::circle"; tv_marker := 31; tv_ts := false |}, [(1, s "types/shapes.pp")]);
      (OFound {| tv_name := s "shapes::circle"; tv_marker := 31; tv_ts := false |}, []);
      (OFound {| tv_name := s "moda::thing"; tv_marker := 10; tv_ts := false |}, [(0, s "types/thing.pp")]);
      (OFound {| tv_name := s "shapes::square"; tv_marker := 32; tv_ts := false |}, []);
      (OFound {| tv_name := s "shapes"; tv_marker := 0; tv_ts := true |}, []);
      (OFound {| tv_name := s "plain"; tv_marker := 40; tv_ts := false |}, [(1, s "types/plain.pp")]);
      (OFound {| tv_name := s "moda::car"; tv_marker := 21; tv_ts := false |}, [(0, s "types/init_typeset.pp")]);
      (OFound {| tv_name := s "shapes::circle"; tv_marker := 31; tv_ts := false |}, []);
      (ONotFound, []);
      (OBool true, []);
      (OBool false, []);
      (OList [s "init_typeset"; s "moda::thing"; s "plain"; s "shapes"], []) ].
Proof. vm_compute. reflexivity. Qed.

(* the hypotheses of C15_chain_parent_binding_found are satisfiable in a reachable state, with a stale cached miss
   in the loader below: after the first lookup of Shapes::Circle through the module loader the environment's
   loader (1) has the member bound and the module loader (0) holds the miss it cached while Shapes was resolved *)
Example C15_example_chain_stale_miss :
  let st := reach ex_chain 8 [OpLoad (-1) (s "Shapes::Circle")] in
  let k := norm_name (s "SHAPES::circle") in
  w_top ex_chain = TopChain /\ shadow ex_chain k = None /\ 1 < List.length (w_mods ex_chain) /\
  get_entry st 1 k = Some (Some {| tv_name := k; tv_marker := 31; tv_ts := false |}) /\
  get_entry st 0 k = Some None /\
  (forall j', 1 < j' < List.length (w_mods ex_chain) -> get_entry st j' k = Some None).
Proof.
  cbv zeta. split; [reflexivity|]. split; [vm_compute; reflexivity|]. split; [apply Nat.lt_succ_diag_r|].
  split; [vm_compute; reflexivity|]. split; [vm_compute; reflexivity|].
  intros j' [H1 H2]. exfalso. change (List.length (w_mods ex_chain)) with 2 in H2. lia.
Qed.

(* the line model computes: three lines without a token (a blank line first, a white-space-only line, a comment)
   in front of a malformed body whose offending token `c` stands on its 4th line: reported on line 7 of the file;
   the definition starts on line 4 *)
Definition ex_pre : str := s (String (ascii_of_nat 10) "") ++ s "  " ++ [9%N; 10%N] ++ s "# a comment" ++ [10%N].
Definition ex_body : str :=
  s "type Obj = Struct[{" ++ [10%N] ++ s " a => Integer," ++ [10%N] ++ s " b => String" ++ [10%N] ++ s " c => Float" ++ [10%N] ++ s "}]" ++ [10%N].
Example C15_example_lines :
  blank false ex_pre = true /\ count_lf ex_pre = 3%N /\ scan false ex_body < List.length ex_body /\
  def_line (ex_pre ++ ex_body) = 4%N /\
  line_at ex_body 52 = 4%N /\ line_at (ex_pre ++ ex_body) (List.length ex_pre + 52) = 7%N /\
  (* a byte order mark or a CR in front is a token start for DefinitionLocation, not white space *)
  def_line ([239%N; 187%N; 191%N] ++ ex_pre ++ ex_body) = 1%N /\ blank false [13%N; 10%N] = false.
Proof. repeat split; vm_compute; try reflexivity. apply Nat.leb_le. vm_compute. reflexivity. Qed.

(* two generations over the same path: bad.pp malformed at line 3, then repaired; foo.pp gone; wrong.pp now declares
   the right name: the second generation's answers are those of the second layout *)
Definition ex_world2 : world :=
  {| w_top := TopSingle;
     w_mods := [ {| m_name := s "mymod";
                    m_walk := [ ex_file "types" true CNoDef 0;
                                ex_file "types/bad.pp" false (CGood (s "Mymod::Bad") []) 120;
                                ex_file "types/init_typeset.pp" false (CTypeSet (s "Mymod") [s "Bus"]) 130;
                                ex_file "types/wrong.pp" false (CGood (s "Mymod::Wrong") []) 150 ] |} ];
     w_shadow := [(s "integer", s "integer")] |}.

Example C15_example_session :
  run_session 8
    [ (ex_world, [ OpLoad (-1) (s "Mymod::Foo"); OpLoad (-1) (s "Mymod::Bad"); OpLoad 0 (s "Mymod::Wrong"); OpLoad 0 (s "Mymod::Car") ]);
      (ex_world2, [ OpLoad (-1) (s "Mymod::Foo"); OpLoad (-1) (s "Mymod::Bad"); OpLoad 0 (s "Mymod::Wrong"); OpLoad 0 (s "Mymod::Car");
                    OpLoad 0 (s "Mymod::Bus") ]) ]
  = [ (OFound {| tv_name := s "mymod::foo"; tv_marker := 10; tv_ts := false |}, [(0, s "types/Foo.pp")]);
      (OErr (EParse 0 (s "types/bad.pp") 3), [(0, s "types/bad.pp")]);
      (OErr (EWrongDef 0 (s "types/wrong.pp") 1), [(0, s "types/wrong.pp")]);
      (OFound {| tv_name := s "mymod::car"; tv_marker := 31; tv_ts := false |}, [(0, s "types/init_typeset.pp")]);
      (ONotFound, [(0, s "types/init_typeset.pp")]);   (* the parent-name search reads the module's TypeSet: now without Car *)
      (OFound {| tv_name := s "mymod::bad"; tv_marker := 120; tv_ts := false |}, [(0, s "types/bad.pp")]);
      (OFound {| tv_name := s "mymod::wrong"; tv_marker := 150; tv_ts := false |}, [(0, s "types/wrong.pp")]);
      (ONotFound, []);
      (OFound {| tv_name := s "mymod::bus"; tv_marker := 131; tv_ts := false |}, []) ].
Proof. vm_compute. reflexivity. Qed.

(* ---- non-vacuity of C15_found_iff_file_all_topologies ---------------------------------------------------------------- *)
(* chain: Moda::Thing (module loader 0, refers to a TypeSet member of the environment's loader 1) after an error-free
   sequence that left a stale cached miss in loader 0 *)
Example C15_example_iff_chain :
  let ops := [OpLoad (-1) (s "Shapes::Circle"); OpLoad 0 (s "Plain"); OpLoad 1 (s "Nope")] in
  let k := norm_name (s "MODA::thing") in
  clean_run ex_chain 8 ops /\ consulted ex_chain k 0 /\ defined_file ex_chain 0 k /\
  consulted ex_chain (norm_name (s "Plain")) 1 /\ defined_file ex_chain 1 (norm_name (s "Plain")) /\
  fst (snd (lookup_after ex_chain 8 ops 0 (s "MODA::thing"))) = OFound {| tv_name := k; tv_marker := 10; tv_ts := false |}.
Proof.
  cbv zeta. split; [unfold clean_run; vm_compute; reflexivity|]. split; [vm_compute; apply le_S, le_n|].
  split.
  { split; [right; split; vm_compute; reflexivity|]. eexists _, _, _. split; [vm_compute; reflexivity|]. split; [vm_compute; reflexivity|].
    split; vm_compute; reflexivity. }
  split; [vm_compute; apply le_n|]. split; [|vm_compute; reflexivity].
  split; [left; vm_compute; reflexivity|]. eexists _, _, _. split; [vm_compute; reflexivity|]. split; [vm_compute; reflexivity|].
  split; vm_compute; reflexivity.
Qed.

(* dependency loader over two module loaders: a qualified name goes to the module its first segment names *)
Definition ex_dep : world :=
  {| w_top := TopDep;
     w_mods := [ {| m_name := s "moda";
                    m_walk := [ ex_file "types" true CNoDef 0;
                                ex_file "types/thing.pp" false (CGood (s "Moda::Thing") [s "Modb::Item"; s "Moda::Thing"]) 10 ] |};
                 {| m_name := s "modb";
                    m_walk := [ ex_file "types" true CNoDef 0;
                                ex_file "types/item.pp" false (CGood (s "Modb::Item") [s "Moda::Thing"]) 20 ] |} ];
     w_shadow := [] |}.

Example C15_example_iff_dep :
  let ops := [OpLoad 0 (s "Modb::Nope"); OpLoad (-1) (s "Moda::Thing")] in
  let k := norm_name (s "modb::ITEM") in
  clean_run ex_dep 8 ops /\ consulted ex_dep k 1 /\ ~ consulted ex_dep k 0 /\ defined_file ex_dep 1 k /\
  fst (snd (lookup_after ex_dep 8 ops (-1) (s "modb::ITEM"))) = OFound {| tv_name := k; tv_marker := 20; tv_ts := false |}.
Proof.
  cbv zeta. split; [unfold clean_run; vm_compute; reflexivity|]. split; [vm_compute; reflexivity|].
  split; [vm_compute; discriminate|]. split; [|vm_compute; reflexivity].
  split; [right; split; vm_compute; reflexivity|]. eexists _, _, _. split; [vm_compute; reflexivity|]. split; [vm_compute; reflexivity|].
  split; vm_compute; reflexivity.
Qed.

(* the hypotheses of C15_found_iff_file_equivalence are satisfiable: one global loader, one file *)
Definition ex_one : world :=
  {| w_top := TopSingle;
     w_mods := [ {| m_name := [];
                    m_walk := [ ex_file "types" true CNoDef 0; ex_file "types/foo.pp" false (CGood (s "Foo") []) 10 ] |} ];
     w_shadow := [] |}.

Example C15_example_iff_equiv :
  let k := norm_name (s "FOO") in
  shadow ex_one k = None /\ clean_run ex_one 4 [OpLoad 0 (s "Bar")] /\
  (forall i v, backed ex_one i k v -> consulted ex_one k i /\ defined_file ex_one i k) /\
  (exists i, consulted ex_one k i /\ defined_file ex_one i k).
Proof.
  cbv zeta. split; [vm_compute; reflexivity|]. split; [unfold clean_run; vm_compute; reflexivity|].
  assert (Hdf : defined_file ex_one 0 (norm_name (s "FOO"))).
  { split; [left; vm_compute; reflexivity|]. eexists _, _, _. split; [vm_compute; reflexivity|]. split; [vm_compute; reflexivity|].
    split; vm_compute; reflexivity. }
  split; [|exists 0; split; [reflexivity|exact Hdf]].
  intros i v Hb. destruct i as [|i].
  - split; [reflexivity|exact Hdf].
  - exfalso. destruct Hb as [(p & f & Ho & _)|(kp & p & f & d & ms & j & mn & Ho & _)];
      rewrite origin_of_out_of_range in Ho; try discriminate Ho; cbn; apply le_n_S, Nat.le_0_l.
Qed.

(* the hypothesis `clean_run` cannot be dropped: the TypeSet file types/shapes.pp is well-formed and correctly named, but
   the lookup of its member Circle reaches the malformed types/shapes/circle.pp; the first lookup of Shapes reports that
   file, the placeholder of Shapes stays, the second lookup answers "not found" *)
Definition ex_err : world :=
  {| w_top := TopSingle;
     w_mods := [ {| m_name := [];
                    m_walk := [ ex_file "types" true CNoDef 0;
                                ex_file "types/shapes" true CNoDef 0;
                                ex_file "types/shapes/circle.pp" false (CMalformed 2) 30;
                                ex_file "types/shapes.pp" false (CTypeSet (s "Shapes") [s "Circle"]) 20 ] |} ];
     w_shadow := [] |}.

Example C15_example_error_history_needed :
  consulted ex_err (norm_name (s "Shapes")) 0 /\ defined_file ex_err 0 (norm_name (s "Shapes")) /\
  run ex_err 8 [OpLoad (-1) (s "Shapes"); OpLoad (-1) (s "Shapes")] =
    [ (OErr (EParse 0 (s "types/shapes/circle.pp") 2), [(0, s "types/shapes.pp"); (0, s "types/shapes/circle.pp")]);
      (ONotFound, []) ].
Proof.
  split; [reflexivity|]. split; [|vm_compute; reflexivity].
  split; [left; vm_compute; reflexivity|]. eexists _, _, _. split; [vm_compute; reflexivity|]. split; [vm_compute; reflexivity|].
  split; vm_compute; reflexivity.
Qed.

(* the check that the correspondence run evaluates on the OBSERVED outcomes (Corr/CorrC15.v c15_iff_ok = iff_ok_from, the
   decidable reading of C15_definition_file_never_missed) rejects a "not found" for a name with a definition file, accepts
   it after an error, and accepts the model's own run (iff_ok_run: for every world, fuel and operation sequence) *)
Example C15_example_iff_check :
  iff_ok_from ex_one [OpLoad 0 (s "Foo")] [(ONotFound, [])] = false /\
  iff_ok_from ex_chain [OpLoad 0 (s "Plain"); OpLoad 0 (s "Moda::Thing")]
              [(OFound {| tv_name := s "plain"; tv_marker := 40; tv_ts := false |}, [(1, s "types/plain.pp")]); (ONotFound, [])] = false /\
  iff_ok_from ex_err [OpLoad (-1) (s "Shapes"); OpLoad (-1) (s "Shapes")] (run ex_err 8 [OpLoad (-1) (s "Shapes"); OpLoad (-1) (s "Shapes")]) = true /\
  (forall w fuel ops, iff_ok_from w ops (run w fuel ops) = true).
Proof. split; [vm_compute; reflexivity|]. split; [vm_compute; reflexivity|]. split; [vm_compute; reflexivity|exact iff_ok_run]. Qed.

(* non-vacuity of the TypeSet-member theorems: the chain world; histories that look the member up first (the TypeSet is
   instantiated while the member lookup is in progress, through the module loader that caches a miss meanwhile),
   through a file that refers to the member, or after the TypeSet; every later member lookup is found; the check on
   outcomes rejects a "not found" for such a member *)
Example C15_example_member :
  members_wf ex_chain /\
  member_claim_b ex_chain 1 (norm_name (s "Shapes::Square")) = true /\
  member_claim_b ex_chain 0 (norm_name (s "Moda::Car")) = true /\
  clean_run ex_chain 8 [OpLoad 0 (s "Moda::Thing"); OpLoad (-1) (s "Shapes::Circle")] /\
  (exists s' rd, lookup_after ex_chain 8 [OpLoad 0 (s "Moda::Thing"); OpLoad (-1) (s "Shapes::Circle")] 1 (s "shapes::SQUARE")
                 = (s', (OFound {| tv_name := s "shapes::square"; tv_marker := 32; tv_ts := false |}, rd))) /\
  clean_run ex_chain 8 [OpLoad (-1) (s "Shapes"); OpLoad 0 (s "Moda")] /\
  mem_ok_from ex_chain [OpLoad (-1) (s "Shapes"); OpLoad 0 (s "Shapes::Square")]
              [(OFound {| tv_name := s "shapes"; tv_marker := 0; tv_ts := true |}, [(1, s "types/shapes.pp")]); (ONotFound, [])] = false /\
  mem_ok_from ex_chain [OpLoad 0 (s "Moda::Thing"); OpLoad (-1) (s "Shapes::Circle"); OpLoad 1 (s "Shapes::Oval")]
              (run ex_chain 8 [OpLoad 0 (s "Moda::Thing"); OpLoad (-1) (s "Shapes::Circle"); OpLoad 1 (s "Shapes::Oval")]) = true.
Proof.
  split; [apply members_wf_b_true; vm_compute; reflexivity|].
  split; [vm_compute; reflexivity|]. split; [vm_compute; reflexivity|]. split; [vm_compute; reflexivity|].
  split; [eexists; eexists; vm_compute; reflexivity|]. split; [vm_compute; reflexivity|].
  split; vm_compute; reflexivity.
Qed.

(* non-vacuity of the theorems without the fourth guard: corpus world member-and-file-1 (global loader, types/a.pp = TypeSet A
   {B, D}, types/a/b.pp = TypeSet A::B {C}): A::B::C is a member of the TypeSet file of A::B, whose name is also a member of A.
   The old guard rejects the name, the new one accepts it.  TypeSet A first: error-free, A::B is the FILE's TypeSet, the member
   is found.  A::B::C first: the member value of A is written over the placeholder of a::b and the instantiation of
   types/a/b.pp fails with the redefinition error (the history is not error-free; the entry then holds the member value). *)
Definition ex_maf : world :=
  {| w_top := TopSingle;
     w_mods := [ {| m_name := [];
                    m_walk := [ ex_file "types" true CNoDef 0;
                                ex_file "types/a" true CNoDef 0;
                                ex_file "types/a/b.pp" false (CTypeSet (s "A::B") [s "C"]) 20;
                                ex_file "types/a.pp" false (CTypeSet (s "A") [s "B"; s "D"]) 10 ] |} ];
     w_shadow := [] |}.

Example C15_example_member_claimed :
  let k := norm_name (s "A::B::C") in let kd := norm_name (s "A::B") in
  members_wf ex_maf /\
  member_claim_b ex_maf 0 k = false /\ member_claim3_b ex_maf 0 k = true /\
  ts_member ex_maf 0 kd k /\ sole_claimant3 ex_maf 0 k /\ member_claim_ok ex_maf 0 k /\ ~ sole_claimant ex_maf 0 kd k /\
  clean_run ex_maf 8 [OpLoad (-1) (s "A"); OpLoad 0 (s "A::D")] /\
  get_entry (reach ex_maf 8 [OpLoad (-1) (s "A"); OpLoad 0 (s "A::D")]) 0 kd = Some (Some {| tv_name := kd; tv_marker := 0; tv_ts := true |}) /\
  fst (snd (lookup_after ex_maf 8 [OpLoad (-1) (s "A"); OpLoad 0 (s "A::D")] 1 (s "a::b::C")))
    = OFound {| tv_name := k; tv_marker := 21; tv_ts := false |} /\
  run ex_maf 8 [OpLoad (-1) (s "A::B::C"); OpLoad (-1) (s "A::B")]
    = [ (OErr ERedefineType, [(0, s "types/a/b.pp"); (0, s "types/a.pp")]);
        (OFound {| tv_name := kd; tv_marker := 11; tv_ts := false |}, []) ] /\
  mem_ok3_from ex_maf [OpLoad (-1) (s "A"); OpLoad 0 (s "A::B::C")]
               [(OFound {| tv_name := s "a"; tv_marker := 0; tv_ts := true |}, [(0, s "types/a.pp"); (0, s "types/a/b.pp")]); (ONotFound, [])] = false /\
  mem_ok_from ex_maf [OpLoad (-1) (s "A"); OpLoad 0 (s "A::B::C")]
               [(OFound {| tv_name := s "a"; tv_marker := 0; tv_ts := true |}, [(0, s "types/a.pp"); (0, s "types/a/b.pp")]); (ONotFound, [])] = true.
Proof.
  cbv zeta. split; [apply members_wf_b_true; vm_compute; reflexivity|].
  split; [vm_compute; reflexivity|]. split; [vm_compute; reflexivity|].
  split; [apply ts_member_b_true; vm_compute; reflexivity|].
  split; [apply sole3_b_true; vm_compute; reflexivity|].
  split; [left; apply sole2_b_true; vm_compute; reflexivity|].
  split.
  { intros (_ & _ & _ & G4).
    apply (G4 (s "types/a.pp") (ex_file "types/a.pp" false (CTypeSet (s "A") [s "B"; s "D"]) 10) (s "A") [s "B"; s "D"] (s "B"));
      [vm_compute; reflexivity|reflexivity|left; reflexivity|vm_compute; reflexivity]. }
  split; [unfold clean_run; vm_compute; reflexivity|].
  repeat split; vm_compute; reflexivity.
Qed.

(* a member that is ALSO the name of a definition file of its own (corpus member-and-file-0: types/a.pp = TypeSet A {B, D},
   types/a/b.pp = alias A::B), a member with a MALFORMED file at its own path, and a member name that the parent binds:
   all three are outside sole_claimant and inside the new guard *)
Definition ex_maf0 : world :=
  {| w_top := TopSingle;
     w_mods := [ {| m_name := [];
                    m_walk := [ ex_file "types" true CNoDef 0;
                                ex_file "types/a" true CNoDef 0;
                                ex_file "types/a/b.pp" false (CGood (s "A::B") []) 20;
                                ex_file "types/a/d.pp" false (CMalformed 2) 30;
                                ex_file "types/a.pp" false (CTypeSet (s "A") [s "B"; s "D"; s "E"]) 10 ] |} ];
     w_shadow := [(s "a::e", s "a::e")] |}.

Example C15_example_member_claimed_file :
  members_wf ex_maf0 /\
  member_claim_b ex_maf0 0 (s "a::b") = false /\ member_claim3_b ex_maf0 0 (s "a::b") = true /\
  member_claim_b ex_maf0 0 (s "a::d") = false /\ member_claim3_b ex_maf0 0 (s "a::d") = true /\
  member_claim_b ex_maf0 0 (s "a::e") = false /\ member_claim3_b ex_maf0 0 (s "a::e") = true /\
  (exists j, consulted ex_maf0 (s "a::b") j /\ defined_file ex_maf0 j (s "a::b")) /\
  sole_claimant2 ex_maf0 0 (s "a::d") /\ find_existing_path (indexes_of ex_maf0) 0 (s "a::d") <> None /\
  sole_claimant2 ex_maf0 0 (s "a::e") /\ shadow ex_maf0 (s "a::e") <> None /\
  run ex_maf0 8 [OpLoad (-1) (s "A::E"); OpLoad 0 (s "A::B"); OpLoad 0 (s "A::D"); OpLoad 0 (s "A::D")]
    = [ (OFound {| tv_name := s "a::e"; tv_marker := 0; tv_ts := false |}, []);
        (OFound {| tv_name := s "a::b"; tv_marker := 20; tv_ts := false |}, [(0, s "types/a/b.pp")]);
        (OErr (EParse 0 (s "types/a/d.pp") 2), [(0, s "types/a/d.pp")]);
        (ONotFound, []) ].
Proof.
  split; [apply members_wf_b_true; vm_compute; reflexivity|].
  do 6 (split; [vm_compute; reflexivity|]).
  split; [apply has_def_file_b_true; vm_compute; reflexivity|].
  split; [apply sole2_b_true; vm_compute; reflexivity|].
  split; [vm_compute; discriminate|].
  split; [apply sole2_b_true; vm_compute; reflexivity|].
  split; [vm_compute; discriminate|].
  vm_compute. reflexivity.
Qed.
