(* C06 — The parser is total: it terminates and fails only with located parse errors.
   This file holds ONLY the statements of the property theorems, each closed by `exact <lemma>`, and
   `Print Assumptions` beneath, plus non-vacuity examples.

   Models: Model/Lexer.v (utils/reader.go + types/lexer.go), Model/Parser.v (types/parser.go +
   types/basiccollector.go).  Oracles, universally quantified in every theorem: ol = unicode.IsLetter on non-ASCII
   runes, pf = strconv.ParseFloat, rx = regexp.Compile succeeds. *)
From Coq Require Import ZArith NArith Bool List.
From PcoreV Require Import Model.Base Model.Lexer Model.Parser Proofs.LexerProofs.
Import ListNotations.
Open Scope Z_scope.

(* ---- the lexer ---------------------------------------------------------------------------------- *)

(* For every byte string (valid UTF-8 or not) the scanning loops of the lexer stop: with fuel length+2 the token
   stream is complete, it never ends in OutOfFuel.  (On the pinned tree `lex n "1e5"` was OutOfFuel for every n:
   consumeUnsignedInteger spun at the end of the input; fix b03068e.) *)
Theorem C06_lex_terminates :
  forall (ol : N -> bool) (s : str), snd (lex ol s) <> ELexOutOfFuel.
Proof. exact lex_terminates. Qed.
Print Assumptions C06_lex_terminates.

(* The lexer and the reader never reach a Go runtime fault. *)
Theorem C06_lex_no_fault :
  forall (ol : N -> bool) (s : str), snd (lex ol s) <> ELexFault.
Proof. exact lex_no_fault. Qed.
Print Assumptions C06_lex_no_fault.

(* The reader position recorded after every token, and the position at which the lexer gives up (which is the
   location of the parse error then, parser.go:146-152 with lt = nil), lie within the input: the line is one of the
   1 + (number of line feeds) lines, the column is between 0 and the length of that line + 2. *)
Theorem C06_lex_positions_within_input :
  forall (ol : N -> bool) (s : str),
    Forall (fun t => pos_within s (pt_line t) (pt_col t)) (fst (lex ol s)) /\
    (forall l c, snd (lex ol s) = ELexErr l c -> pos_within s l c).
Proof. exact lex_positions. Qed.
Print Assumptions C06_lex_positions_within_input.

(* ---- non-vacuity ----------------------------------------------------------------------------------- *)

Definition no_letters (r : N) : bool := false.
Definition no_floats (s : str) : option Z := None.
Definition all_regexps (s : str) : bool := true.

(* "1e5" (the input on which the pinned tree never returned): one float token, then the end token *)
Example C06_lex_1e5 :
  lex no_letters [49; 101; 53]%N =
  ([mkPtok TFloat [49; 101; 53]%N 1 3; mkPtok TEnd [] 1 4], EEnd).
Proof. vm_compute. reflexivity. Qed.

(* a lexer failure on the second line: "a\n!" is rejected at line 2, column 2 *)
Example C06_lex_error_located :
  lex no_letters [97; 10; 33]%N = ([mkPtok TIdent [97]%N 1 1], ELexErr 2 2).
Proof. vm_compute. reflexivity. Qed.

(* Deferred() (a slice bounds fault wrapped as a parse error on the pinned tree; fix ac76485) is a parse error
   located at the closing parenthesis *)
Example C06_parse_deferred_empty :
  parse_string no_floats all_regexps no_letters [68; 101; 102; 101; 114; 114; 101; 100; 40; 41]%N = PErr 1 9.
Proof. vm_compute. reflexivity. Qed.

(* Foo[1, 'x'] => {a => /x/} parses to a singleton hash *)
Example C06_parse_value :
  parse_string no_floats all_regexps no_letters
    [70; 111; 111; 91; 49; 44; 32; 39; 120; 39; 93; 32; 61; 62; 32; 123; 97; 61; 62; 47; 120; 47; 125]%N
  = POk (PHash [(PType [70; 111; 111]%N (Some [PInt 1; PStr [120]%N]), PHash [(PStr [97]%N, PRegexp [120]%N)])]).
Proof. vm_compute. reflexivity. Qed.
