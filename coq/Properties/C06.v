(* C06 — The parser is total: it terminates and fails only with located parse errors.
   This file holds ONLY the statements of the property theorems, each closed by `exact <lemma>`, and
   `Print Assumptions` beneath, plus non-vacuity examples.

   Models: Model/Lexer.v (utils/reader.go + types/lexer.go), Model/Parser.v (types/parser.go +
   types/basiccollector.go), Model/Resolve.v (of the resolve stage: the positional creator of Enum,
   types/enumtype.go, and the name test of deferred.Resolve, types/deferred.go), Model/ResolveObj.v (of the resolve
   stage of user-declared Object types: the override check of members, types/annotatedmember.go + attribute.go, and
   the parameter walk of a parameterized Object type, types/objecttypeextension.go; the other creators are covered
   by the direct check only), Model/ResolveHier.v (the `equality` section of an Object type with a chain of
   ancestors, types/objecttype.go InitFromHash / EqualityAttributes / findEqualityDefiner, and the navigation of a
   Like type, types/liketype.go + TupleType.At + objectType.resolvedParent).  Oracles, universally quantified in every theorem: ol = unicode.IsLetter on non-ASCII
   runes, pf = strconv.ParseFloat, rx = regexp.Compile succeeds. *)
From Coq Require Import ZArith NArith Bool List.
From PcoreV Require Import Model.Base Model.Lexer Model.Parser Model.Resolve Model.ResolveObj
  Model.ResolveHier
  Proofs.LexerProofs Proofs.LexerColumns Proofs.ParserProofs Proofs.ResolveProofs Proofs.ResolveObjProofs
  Proofs.ResolveHierProofs.
Import ListNotations.
Open Scope Z_scope.

(* ---- the lexer ---------------------------------------------------------------------------------- *)

(* For every byte string (valid UTF-8 or not) the scanning loops of the lexer stop: with fuel length+2 the token
   stream is complete, it never ends in OutOfFuel.  (On the pinned tree `lex n "1e5"` was OutOfFuel for every n:
   consumeUnsignedInteger spun at the end of the input; fix b03068e.) *)
Theorem C06_lex_terminates :
  forall (ol : N -> bool) (s : str), snd (lex ol s) <> ELexOutOfFuel.
Proof. exact lex_terminates. Qed.
Print Assumptions C06_lex_terminates.

(* The lexer and the reader never reach a Go runtime fault. *)
Theorem C06_lex_no_fault :
  forall (ol : N -> bool) (s : str), snd (lex ol s) <> ELexFault.
Proof. exact lex_no_fault. Qed.
Print Assumptions C06_lex_no_fault.

(* The reader position recorded after every token, and the position at which the lexer gives up (which is the
   location of the parse error then, parser.go:146-152 with lt = nil), lie within the input: the line is one of the
   1 + (number of line feeds) lines, the column is between 0 and the length of that line + 1 (+ 2 after the first
   line, where the line feed that ended the previous line counts as a column). *)
Theorem C06_lex_positions_within_input :
  forall (ol : N -> bool) (s : str),
    Forall (fun t => pos_within s (pt_line t) (pt_col t)) (fst (lex ol s)) /\
    (forall l c, snd (lex ol s) = ELexErr l c -> pos_within s l c).
Proof. exact lex_positions. Qed.
Print Assumptions C06_lex_positions_within_input.

(* ---- the parser ---------------------------------------------------------------------------------- *)

(* For every byte string and all oracles, Parse (lexer + parser + collector + NamedType, with the fuel the model
   computes from the input) answers: it never reaches one of the explicit fault sites (index out of range in the
   collector, the Array type assertions on PopLast(), ... — raw or wrapped as a parse error), never runs out of fuel
   (no loop of the recursive descent spins) and never reads beyond the end token. *)
Theorem C06_parse_no_fault :
  forall (pf : str -> option Z) (rx : str -> bool) (ol : N -> bool) (s : str),
    parse_string pf rx ol s <> PFault /\ parse_string pf rx ol s <> POutOfFuel.
Proof. exact parse_no_fault. Qed.
Print Assumptions C06_parse_no_fault.

(* ... so the result is a value or a located parse error whose line and column lie within the input (pos_within:
   1 <= line <= 1 + number of line feeds, 0 <= column <= length of that line + 1, + 2 after the first line).  The column
   of a syntax error is
   the reader's column minus the number of characters of the offending token (parser.go:149): it is never negative
   because the unescaped text of a token never has more characters than were read for it. *)
Theorem C06_parse_total :
  forall (pf : str -> option Z) (rx : str -> bool) (ol : N -> bool) (s : str),
    match parse_string pf rx ol s with
    | POk _ => True
    | PErr line col => pos_within s line col
    | PFault => False
    | POutOfFuel => False
    end.
Proof. exact parse_total. Qed.
Print Assumptions C06_parse_total.

(* the location of every token of the stream (where a syntax error at that token is reported) is not negative *)
Theorem C06_token_columns_nonnegative :
  forall (ol : N -> bool) (s : str),
    Forall (fun t => 0 <= pt_col t - rune_count (pt_text t)) (fst (lex ol s)).
Proof. exact lex_text_columns. Qed.
Print Assumptions C06_token_columns_nonnegative.

(* The same over token streams, independent of the lexer: for every stream that ends with an end token or a lexer
   error, and every set P of admissible locations containing (1, 0), the lexer's error location and the location of
   every token, ParseFile answers with a value or an error located in P. *)
Theorem C06_parse_file_total :
  forall (pf : str -> option Z) (rx : str -> bool) (P : Z -> Z -> Prop) (toks : list ptok) (e : lex_end),
    P 1 0 ->
    Forall (fun t => P (pt_line t) (pt_col t - rune_count (pt_text t))) toks ->
    match e with
    | ELexErr l c => P l c
    | EEnd => toks <> [] /\ pt_kind (last toks dummy_tok) = TEnd
    | _ => False
    end ->
    match parse_file pf rx (parse_fuel toks) toks e with
    | POk _ => True
    | PErr line col => P line col
    | PFault => False
    | POutOfFuel => False
    end.
Proof. exact parse_file_total. Qed.
Print Assumptions C06_parse_file_total.

(* ---- the resolve stage: the Enum creator and the name test of deferred.Resolve ------------------------- *)

(* For every argument list (values of every shape and nesting, not only the plain ones) and every strings.ToLower,
   the positional creator of Enum (newEnumType3: the slice `enums` is sized from the argument count - recomputed
   after the array form has been flattened - and then written by argument index, truncated at the flag) never
   reaches a fault site (enums[idx] = .. beyond len, enums[:idx] beyond cap) and its recursion into a single array
   argument ends. *)
Theorem C06_enum_creator_total :
  forall (lower : str -> str) (args : list pv),
    enum_create lower args <> EFault /\ enum_create lower args <> EOutOfFuel.
Proof. exact enum_create_total. Qed.
Print Assumptions C06_enum_creator_total.

(* ... and it computes the reading without slices and indices: [] is the default Enum; a single array is read in
   place of the list; an array followed by more arguments is read as the array's elements followed by them; the
   list must be strings, optionally followed by the flag as the very last argument; otherwise the error names the
   position of the first argument that is neither. *)
Theorem C06_enum_creator_reading :
  forall (lower : str -> str) (args : list pv),
    enum_create lower args = enum_spec lower (S (args_depth args)) args.
Proof. exact enum_create_spec. Qed.
Print Assumptions C06_enum_creator_reading.

Theorem C06_enum_array_form_is_flat_form :
  forall (lower : str -> str) (l : list pv) (o : pv) (others : list pv),
    enum_create lower (PArr l :: o :: others) = of_reading lower (strings_then_flag (l ++ o :: others) 0).
Proof. exact enum_array_form_flat. Qed.
Print Assumptions C06_enum_array_form_is_flat_form.

(* Enum[[v1, .., vn], w, w1, .., wm] and Enum[[v1, .., vn], w1, .., wm, flag] of any lengths are accepted, with all
   the values in order *)
Theorem C06_enum_array_form_accepted :
  forall (lower : str -> str) (vs ws : list str),
    (forall w, enum_create lower (PArr (map PStr vs) :: map PStr (w :: ws)) = EOk (vs ++ w :: ws) false) /\
    (forall b, enum_create lower (PArr (map PStr vs) :: map PStr ws ++ [PBool b]) =
               EOk (if b then map lower (vs ++ ws) else vs ++ ws) b).
Proof. exact enum_array_form_accepted. Qed.
Print Assumptions C06_enum_array_form_accepted.

(* deferred.Resolve never indexes a name that is too short (fn[0], fn[1:]); a name is a variable exactly when it
   starts with '$', the variable's name is the rest (possibly empty); the empty name is a function name (on the
   pinned tree it was an index out of range; fix 0047197) *)
Theorem C06_deferred_name_test_total :
  forall fn : str, deferred_target fn <> DFault.
Proof. exact deferred_target_no_fault. Qed.
Print Assumptions C06_deferred_name_test_total.

Theorem C06_deferred_name_test :
  forall fn : str,
    deferred_target fn = match fn with
                         | c :: vn => if N.eqb c 36 then DVar vn else DFunc fn
                         | [] => DFunc fn
                         end.
Proof. exact deferred_target_spec. Qed.
Print Assumptions C06_deferred_name_test.

(* ---- the resolve stage: members of user-declared Object types ---------------------------------------------- *)

(* An Object type that declares a member under the name of an inherited one (any two declarations: attribute of any
   kind, constant, function, with or without final / override): the check never reaches the unchecked type assertion
   member.(px.Attribute) of assertCanBeOverridden - the outcome is a reported error, "nothing inherited", or the type
   comparison.  (Seeded change C06-m5 put the final test first: ResolveObjProofs.final_first_faults.) *)
Theorem C06_member_override_total :
  forall (parent : option decl) (d : decl), declare parent d <> OFault.
Proof. exact declare_no_fault. Qed.
Print Assumptions C06_member_override_total.

(* What the check computes, without type assertions: the kind of member first, then final (a constant may override a
   constant), then override. *)
Theorem C06_member_override_reading :
  forall a m : member,
    assert_can_be_overridden a m =
      if negb (feature_eqb (mb_feature a) (mb_feature m)) then OErr MemberMismatch
      else if mb_final a && negb (is_attr a && mb_constant a && mb_constant m) then OErr OverrideOfFinal
      else if negb (mb_override m) then OErr OverrideIsMissing
      else OPass.
Proof. exact assert_can_be_overridden_reading. Qed.
Print Assumptions C06_member_override_reading.

(* Name[arguments] for an Object type with n type parameters, any arguments (positional or named, any number): the
   walk never indexes beyond the arguments (initParameters[idx]). *)
Theorem C06_type_parameters_total :
  forall (n : nat) (args : xargs), ext_initialize n args <> XFault.
Proof. exact ext_initialize_no_fault. Qed.
Print Assumptions C06_type_parameters_total.

(* ... and it reads exactly the first n arguments: surplus arguments change nothing.  (Seeded change C06-m6 walked
   the arguments instead: ResolveObjProofs.pos_loop_args_faults.) *)
Theorem C06_type_parameters_surplus_ignored :
  forall (n : nat) (l extra : list parg),
    (n <= length l)%nat -> ext_initialize n (XPositional (l ++ extra)) = ext_initialize n (XPositional l).
Proof. exact ext_initialize_surplus. Qed.
Print Assumptions C06_type_parameters_surplus_ignored.

(* ---- non-vacuity ----------------------------------------------------------------------------------- *)

Definition no_letters (r : N) : bool := false.
Definition no_floats (s : str) : option Z := None.
Definition all_regexps (s : str) : bool := true.

(* "1e5" (the input on which the pinned tree never returned): one float token, then the end token *)
Example C06_lex_1e5 :
  lex no_letters [49; 101; 53]%N =
  ([mkPtok TFloat [49; 101; 53]%N 1 3; mkPtok TEnd [] 1 4], EEnd).
Proof. vm_compute. reflexivity. Qed.

(* a lexer failure on the second line: "a\n!" is rejected at line 2, column 2 *)
Example C06_lex_error_located :
  lex no_letters [97; 10; 33]%N = ([mkPtok TIdent [97]%N 1 1], ELexErr 2 2).
Proof. vm_compute. reflexivity. Qed.

(* Deferred() (a slice bounds fault wrapped as a parse error on the pinned tree; fix ac76485) is a parse error
   located at the closing parenthesis *)
Example C06_parse_deferred_empty :
  parse_string no_floats all_regexps no_letters [68; 101; 102; 101; 114; 114; 101; 100; 40; 41]%N = PErr 1 9.
Proof. vm_compute. reflexivity. Qed.

(* Foo[1, 'x'] => {a => /x/} parses to a singleton hash *)
Example C06_parse_value :
  parse_string no_floats all_regexps no_letters
    [70; 111; 111; 91; 49; 44; 32; 39; 120; 39; 93; 32; 61; 62; 32; 123; 97; 61; 62; 47; 120; 47; 125]%N
  = POk (PHash [(PType [70; 111; 111]%N (Some [PInt 1; PStr [120]%N]), PHash [(PStr [97]%N, PRegexp [120]%N)])]).
Proof. vm_compute. reflexivity. Qed.

(* 1 'éééééééééé' (a syntax error at a token with multi-byte characters: the column was negative on the pinned tree,
   fix 230c872): located at line 1, column 4 *)
Example C06_parse_multibyte_located :
  parse_string no_floats all_regexps no_letters
    ([49; 32; 39] ++ flat_map (fun _ => [195; 169]) (seq 0 10) ++ [39])%N = PErr 1 4.
Proof. vm_compute. reflexivity. Qed.

(* Enum[[a, b, c], true] (the array form followed by the flag): the three values, case insensitive *)
Example C06_enum_array_then_flag :
  enum_create (fun s => s) [PArr [PStr [97]%N; PStr [98]%N; PStr [99]%N]; PBool true] = EOk [[97]; [98]; [99]]%N true.
Proof. vm_compute. reflexivity. Qed.

(* Enum[[a, b], c, 3]: the third of the flattened arguments is not a string: a reported error at index 3, not a fault *)
Example C06_enum_array_then_bad :
  enum_create (fun s => s) [PArr [PStr [97]%N; PStr [98]%N]; PStr [99]%N; PInt 3] = EErr 3.
Proof. vm_compute. reflexivity. Qed.

(* Enum[[[a]]]: the recursion into the single array argument *)
Example C06_enum_nested_single_array :
  enum_create (fun s => s) [PArr [PArr [PStr [97]%N]]] = EOk [[97]]%N false.
Proof. vm_compute. reflexivity. Qed.

(* Deferred(''): a function name; Deferred('$x'): the variable x *)
Example C06_deferred_empty_name : deferred_target [] = DFunc [].
Proof. vm_compute. reflexivity. Qed.
Example C06_deferred_variable : deferred_target [36; 120]%N = DVar [120]%N.
Proof. vm_compute. reflexivity. Qed.

(* a function under the name of an inherited constant (B => Object[{parent => A, functions => {x => Callable}}] over
   A => Object[{constants => {x => 1}}]): rejected for the kind of member; a constant over a constant passes on to
   the type comparison; an attribute over a constant is rejected as an override of a final member *)
Example C06_function_over_constant : declare (Some DcConst) (DcFunc false false) = OErr MemberMismatch.
Proof. vm_compute. reflexivity. Qed.
Example C06_constant_over_constant : declare (Some DcConst) DcConst = OPass.
Proof. vm_compute. reflexivity. Qed.
Example C06_attribute_over_constant : declare (Some DcConst) (DcAttr false None true) = OErr OverrideOfFinal.
Proof. vm_compute. reflexivity. Qed.

(* A[1, 2] for A with one type parameter: the parameter is set, the second argument is not looked at; A[default]:
   a reported error *)
Example C06_more_arguments_than_parameters : ext_initialize 1 (XPositional [PgGood; PgGood]) = XOk [0%nat].
Proof. vm_compute. reflexivity. Qed.
Example C06_only_default_arguments : ext_initialize 2 (XPositional [PgDefault]) = XErr EmptyParameterList.
Proof. vm_compute. reflexivity. Qed.

(* ---- the resolve stage: Object types with ancestors (Model/ResolveHier.v) ------------------------------------- *)

(* findEqualityDefiner, the walk that words PCORE_EQUALITY_REDEFINED, ends for every chain of ancestors (of any
   length, every level with any members and any equality) and every attribute name: with fuel = the length of the
   chain it answers with one of the types of the chain - never nil, never out of fuel - namely the one as many
   levels up as there are ancestors in a row whose equality includes the attribute. *)
Theorem C06_equality_definer_total :
  forall (t : level) (anc : list level) (a : str),
    find_equality_definer (t :: anc) a = HDefiner (leading_including anc a) /\
    Nat.le (leading_including anc a) (length anc).
Proof. intros t anc a. split; [apply find_equality_definer_spec | apply leading_including_le]. Qed.
Print Assumptions C06_equality_definer_total.

(* The equality section, for every Object type with every chain of ancestors, initialized from the top: a type, or
   one of the reported errors - never a fault (a nil type worded), never a walk that does not end. *)
Theorem C06_equality_section_total :
  forall chain : list level, resolve_chain chain <> QFault /\ resolve_chain chain <> QOutOfFuel.
Proof. exact resolve_chain_total. Qed.
Print Assumptions C06_equality_section_total.

(* The reading of the redefinition error: a name of `equality` that the type does not declare itself, that is an
   inherited attribute and that the equality of the parent includes is rejected, and the error names the ancestor
   leading_including levels up (at least the parent). *)
Theorem C06_equality_redefined_names_definer :
  forall (t : level) (anc : list level) (n : str) (rest : list str),
    find_member false (lv_members t) n = None -> find_member true (lv_members t) n = None ->
    parent_member anc n = Some MkAttr ->
    names_includes (equality_attributes anc) n = true -> anc <> [] ->
    exists lv, nth_error (t :: anc) (leading_including anc n) = Some lv /\
               Nat.le 1 (leading_including anc n) /\
               equality_loop t anc (n :: rest) = QRedefined (lv_name lv).
Proof. exact equality_loop_redefined. Qed.
Print Assumptions C06_equality_redefined_names_definer.

(* ---- the resolve stage: Like types (Model/ResolveHier.v) --------------------------------------------------------- *)

(* Like[base, navigation] as the parent of an Object type, for every base type (Object, Struct, Tuple of any types
   and size, aliases resolved or not, any other type) and every navigation (any number of parts, any result of
   ParseInt): an Object parent or one of the three reported errors, never a fault - TupleType.At stays in range
   (fix 820b5a6), navigate never meets a nil value. *)
Theorem C06_like_navigation_total :
  forall (base : lty) (parts : list (str * option Z)),
    like_resolve base parts <> RFault /\ like_parent base parts <> LPFault.
Proof. intros. split; [apply like_resolve_no_fault | apply like_parent_no_fault]. Qed.
Print Assumptions C06_like_navigation_total.

Theorem C06_tuple_at_total :
  forall (ts : list lty) (max i : Z), tuple_at ts max i <> TAFault.
Proof. exact tuple_at_no_fault. Qed.
Print Assumptions C06_tuple_at_total.

(* Navigating into an alias that has no resolved type yet (declared after its user, or the alias under resolution),
   directly or over resolved aliases, with any non-empty navigation, is the reported error PCORE_UNRESOLVED_TYPE. *)
Theorem C06_like_unresolved_alias_reported :
  forall (t : lty) (p : str * option Z) (ps : list (str * option Z)),
    spine_unresolved t = true -> like_resolve t (p :: ps) = RUnresolvedAlias.
Proof. exact like_unresolved_alias. Qed.
Print Assumptions C06_like_unresolved_alias_reported.

(* C (parent B (parent A with the attribute x)) lists x in its equality: redefined, and the error names A, two
   levels up (the loop of seeded change C06-m7 never answers here: ResolveHierProofs.definer_m7_spins) *)
Example C06_equality_redefined_two_levels_up :
  resolve_chain [mkLevel [67]%N [] (Some [[120]%N]); mkLevel [66]%N [] None; mkLevel [65]%N [([120]%N, MkAttr)] None]
  = QRedefined [65]%N.
Proof. vm_compute. reflexivity. Qed.
Example C06_equality_m7_out_of_fuel :
  definer_m7 1000 [mkLevel [66]%N [] None; mkLevel [65]%N [([120]%N, MkAttr)] None] [120]%N = HOutOfFuel.
Proof. vm_compute. reflexivity. Qed.
(* Like[Tuple, '0'] as a parent: not found (a fault before fix 820b5a6); Like[B, 'a'] with B not resolved yet *)
Example C06_like_bare_tuple : like_parent (LTuple [] max_int64) [([48]%N, Some 0)] = LPUnresolvedOf.
Proof. vm_compute. reflexivity. Qed.
Example C06_like_unresolved : like_parent LAliasUnresolved [([97]%N, None)] = LPUnresolvedAlias.
Proof. vm_compute. reflexivity. Qed.
Example C06_like_struct_member :
  like_parent (LAlias (LStruct [([97]%N, LObject [])])) [([97]%N, None)] = LPObject.
Proof. vm_compute. reflexivity. Qed.
