(* C12 — Loader resolution: parents first, bindings are write-once, misses are not sticky.
   This file holds ONLY the statements of the property theorems, each closed by `exact <lemma>`,
   and `Print Assumptions` beneath.

   Model/Loader.v      the executable model of loader/loader.go, loader/dependency.go, typed names and
                       type-set lookups, with the cached misses (placeholder entries) explicit;
   Model/LoaderSpec.v  the abstract specification: every loader owns a write-once partial map, a lookup is
                       the binding of the outermost ancestor that has one, else the own one, else not found.
   Domain: configurations with `cfg_wf` (the static loader's keys are proper map keys, once each) and
   histories whose typed names satisfy `tn_wf` (authority non-empty, no '/' in namespace and name, name
   segments [A-Za-z][0-9A-Za-z_]* — outside it Go's TypedName.Parts panics with InvalidCharactersInName). *)
From Coq Require Import NArith Bool List.
From PcoreV Require Import Model.Base Model.Loader Model.LoaderSpec Model.LoaderAdd Model.LoaderCtx Model.LoaderSpecX Proofs.LoaderNames Proofs.LoaderProofs
  Proofs.LoaderCorollaries Proofs.LoaderAddProofs Proofs.LoaderAddScoped Proofs.LoaderAddCorollaries Proofs.LoaderCtxProofs Proofs.LoaderDeclProofs
  Proofs.LoaderXCorollaries Proofs.LoaderXCase.
Import ListNotations.

(* Refinement: for EVERY history of construct / define / load / load-entry / get-entry / has-entry / discover
   operations over any tree of static, dependency, parented (forked) and type-set loaders, every result of
   the model — with a cached miss projected to a miss — is the result of the write-once specification. *)
Theorem C12_loader_refines :
  forall cfg ops, cfg_wf cfg = true -> forallb op_wf ops = true ->
    map project (outs cfg ops) = spec_outs cfg ops.
Proof. exact loader_refines. Qed.
Print Assumptions C12_loader_refines.

(* ... and the model's state, with the cached misses forgotten, is the specification's state. *)
Theorem C12_loader_state_refines :
  forall cfg ops, cfg_wf cfg = true -> forallb op_wf ops = true ->
    abs (fst (run cfg ops)) = fst (spec_run cfg ops).
Proof. exact loader_state_refines. Qed.
Print Assumptions C12_loader_state_refines.

(* No operation of any history hits a Go runtime fault or an ill-formed tree; the only reported errors
   are AttemptToRedefine / AttemptToRedefineType, and only from a definition. *)
Theorem C12_no_fault :
  forall cfg ops, cfg_wf cfg = true -> forallb op_wf ops = true ->
    Forall2 (fun o r => out_ok o r = true) ops (outs cfg ops).
Proof. exact results_classified. Qed.
Print Assumptions C12_no_fault.

(* write-once: a binding a loader owns stays what it is, whatever happens afterwards *)
Theorem C12_write_once :
  forall cfg ops ops' l k v, cfg_wf cfg = true -> forallb op_wf (ops ++ ops') = true ->
    assoc k (own_binds (abs (fst (run cfg ops))) l) = Some v ->
    assoc k (own_binds (abs (fst (run cfg (ops ++ ops')))) l) = Some v.
Proof. exact write_once. Qed.
Print Assumptions C12_write_once.

(* ... re-defining it with an equal value is a no-op that answers the existing binding, with a different
   value it is rejected with a reported error; either way the bindings of all loaders stay as they are
   (`result_after cfg ops o` is the result of operation o after the history ops) *)
Theorem C12_redefine :
  forall cfg ops l n v old, cfg_wf cfg = true -> forallb op_wf (ops ++ [ODefine l n v]) = true ->
    l < length (fst (run cfg ops)) ->
    spec_own_binding (abs (fst (run cfg ops))) l (norm n) = Some old ->
    abs (fst (run cfg (ops ++ [ODefine l n v]))) = abs (fst (run cfg ops)) /\
    result_after cfg ops (ODefine l n v) =
      if val_same old v || val_equals old v then RDefined old
      else if vty old && vty v then RErr ERedefineType else RErr ERedefine.
Proof. exact redefine. Qed.
Print Assumptions C12_redefine.

(* stable resolution: as long as no proper ancestor of the loader gains a binding, a name that resolved
   once resolves to the same value ever after *)
Theorem C12_stable_resolution :
  forall cfg ops ops' l n v, cfg_wf cfg = true -> forallb op_wf (ops ++ ops') = true -> op_wf (OLoad l n) = true ->
    result_after cfg ops (OLoad l n) = RFound (Some v) ->
    (forall p, ancestor (abs (fst (run cfg ops))) l p ->
       own_binds (abs (fst (run cfg (ops ++ ops')))) p = own_binds (abs (fst (run cfg ops))) p) ->
    result_after cfg (ops ++ ops') (OLoad l n) = RFound (Some v).
Proof. exact stable_resolution. Qed.
Print Assumptions C12_stable_resolution.

(* misses are not sticky: after ANY history, if a lookup through a loader fails and the name is then
   defined through that loader, the definition is accepted and the name resolves to the defined value *)
Theorem C12_miss_not_sticky :
  forall cfg ops l n v, cfg_wf cfg = true -> forallb op_wf ops = true -> op_wf (OLoad l n) = true ->
    tn_auth (norm n) = cfg_auth cfg ->
    result_after cfg ops (OLoad l n) = RFound None ->
    result_after cfg (ops ++ [OLoad l n]) (ODefine l n v) = RDefined v /\
    result_after cfg (ops ++ [OLoad l n; ODefine l n v]) (OLoad l n) = RFound (Some v).
Proof. exact miss_not_sticky. Qed.
Print Assumptions C12_miss_not_sticky.

(* names differing only in letter case denote one entry: in any state the two operations have the same
   effect and the same result *)
Theorem C12_case_insensitive :
  forall cfg st o o', op_case_variant o o' = true -> step cfg st o = step cfg st o'.
Proof. exact case_insensitive. Qed.
Print Assumptions C12_case_insensitive.

(* discovery returns, in strictly increasing (sorted) order and therefore each once, exactly the map keys of
   the names the loader lists (`listed`: bound by the loader and not resolved by its parent, or listed by its
   parent; for a type-set loader the types of the set and the unshadowed names of its parent) that satisfy
   the predicate; and every discovered name resolves through the loader *)
Theorem C12_discover_exact :
  forall cfg ops l P ks, cfg_wf cfg = true -> forallb op_wf ops = true ->
    discover (S l) (fst (run cfg ops)) l P = DNames ks ->
    strictly_sorted ks /\ NoDup ks /\
    (forall k, In k ks <-> exists tn, listed (abs (fst (run cfg ops))) l tn /\ map_key tn = k /\ P tn = true) /\
    (forall k tn, In k ks -> tn_of_key k = Some tn -> tn_wf tn = true -> map_key tn = k ->
       spec_has (abs (fst (run cfg ops))) l tn = true).
Proof. exact discover_exact. Qed.
Print Assumptions C12_discover_exact.

(* ... conversely, along loaders without a type set every name that resolves and satisfies the predicate is
   discovered (through a type-set loader the relative names resolve without being listed, by design) *)
Theorem C12_discover_complete_plain :
  forall cfg ops l P ks tn, cfg_wf cfg = true -> forallb op_wf ops = true ->
    discover (S l) (fst (run cfg ops)) l P = DNames ks ->
    plain_chain (abs (fst (run cfg ops))) l ->
    tn_of_key (map_key tn) = Some tn -> tn_wf tn = true ->
    spec_has (abs (fst (run cfg ops))) l tn = true -> P tn = true ->
    In (map_key tn) ks.
Proof. exact discover_complete_plain. Qed.
Print Assumptions C12_discover_complete_plain.

(* a lookup, failed or not, never changes what any loader discovers: a cached miss is not listed (e8cb2ca) *)
Theorem C12_lookup_not_discovered :
  forall cfg ops o l P, cfg_wf cfg = true -> forallb op_wf (ops ++ [o]) = true ->
    (match o with OLoad _ _ | OLoadEntry _ _ | OGetEntry _ _ | OHas _ _ | ODiscover _ _ => True | _ => False end) ->
    discover (S l) (fst (run cfg (ops ++ [o]))) l P = discover (S l) (fst (run cfg ops)) l P.
Proof. exact lookup_not_discovered. Qed.
Print Assumptions C12_lookup_not_discovered.

(* the model's `relative_to` merges the nil result of typedName.child into "not relative"; that case never
   occurs: a name that has the type set's name as a proper prefix always has a relative name *)
Theorem C12_relative_total :
  forall n p, is_parent p n = true -> relative_to n p <> None.
Proof. exact relative_to_total. Qed.
Print Assumptions C12_relative_total.

(* ---------------------------------------------------------------------------------------------- *)
(* px.AddTypes with object types and type sets (Model/LoaderAdd.v): the calls px.AddTypes, resolveTypes,
   resolveTypeSet, typeSet.Resolve and objectType.Constructor make on the loaders — SetEntry, LoadEntry followed by
   `le == nil || le.Value() == nil`, NewTypeSetLoader — run on the model (`xstep`) and on the specification
   (`spec_xstep`).  A history is a list of `xop`: an operation of Model/Loader.v or px.AddTypes.  Domain `xop_wf`:
   well-formed names and type sets (checked on every correspondence case). *)

(* Refinement for EVERY history with px.AddTypes: every result of the model, a cached miss projected to a miss,
   is the result of the write-once specification, where px.AddTypes binds type/<name> of every type that is not a
   type set, constructor/<name> (and allocator/<name> unless the type's loader resolves one) of an object type,
   the members of a type set that do not resolve yet through the loader, and at last the set. *)
Theorem C12_addtypes_refines :
  forall cfg xs, cfg_wf cfg = true -> forallb (xop_wf cfg) xs = true ->
    map xproject (xouts cfg xs) = spec_xouts cfg xs.
Proof. exact xloader_refines. Qed.
Print Assumptions C12_addtypes_refines.

Theorem C12_addtypes_state_refines :
  forall cfg xs, cfg_wf cfg = true -> forallb (xop_wf cfg) xs = true ->
    abs (fst (xrun cfg xs)) = fst (spec_xrun cfg xs).
Proof. exact xloader_state_refines. Qed.
Print Assumptions C12_addtypes_state_refines.

(* a history without px.AddTypes is a history of Model/Loader.v: the theorems above are the special case *)
Theorem C12_addtypes_embeds :
  forall cfg ops, xrun cfg (map XOp ops) = (fst (run cfg ops), map XR (outs cfg ops)).
Proof. exact xrun_embed. Qed.
Print Assumptions C12_addtypes_embeds.

(* px.AddTypes ends normally, with AttemptToRedefine / AttemptToRedefineType, or with the reported error by which the
   resolution of one of its types was rejected (EOther; only when the types contain such a one): no runtime fault,
   never stuck; the other operations as in C12_no_fault *)
Theorem C12_addtypes_no_fault :
  forall cfg xs, cfg_wf cfg = true -> forallb (xop_wf cfg) xs = true ->
    Forall2 (fun x r => xout_ok x r = true) xs (xouts cfg xs).
Proof. exact xresults_classified. Qed.
Print Assumptions C12_addtypes_no_fault.

(* write-once across px.AddTypes: a binding a loader owns stays what it is (a member that is bound already is
   not bound again, an equal type set is a no-op, a different one is rejected) *)
Theorem C12_addtypes_write_once :
  forall cfg xs xs' l k v, cfg_wf cfg = true -> forallb (xop_wf cfg) (xs ++ xs') = true ->
    assoc k (own_binds (abs (fst (xrun cfg xs))) l) = Some v ->
    assoc k (own_binds (abs (fst (xrun cfg (xs ++ xs')))) l) = Some v.
Proof. exact xwrite_once. Qed.
Print Assumptions C12_addtypes_write_once.

(* misses are not sticky for px.AddTypes (the seeded change C12-m1 falsifies this): after ANY history, if the
   lookup of n through loader l (not a type-set loader) fails, px.AddTypes through l then ends normally, and the
   calls it makes contain `le := l.LoadEntry(c, n); if le == nil || le.Value() == nil { l.SetEntry(n, v); ... }`
   with no earlier call binding n — for a type set: n is the qualified name of a member and v the member — then n
   resolves to v. *)
Theorem C12_addtypes_miss_not_sticky :
  forall cfg xs l ts pre n v body post,
    cfg_wf cfg = true -> forallb (xop_wf cfg) xs = true -> xop_wf cfg (XAddTypes l ts) = true ->
    op_wf (OLoad l n) = true -> tn_auth (norm n) = cfg_auth cfg ->
    compile (cfg_auth cfg) ts = pre ++ IUnless HL n (ASet HL n v :: body) :: post ->
    ~ In (map_key (norm n)) (flat_map instr_keys pre) ->
    (exists nd, nth_error (fst (xrun cfg xs)) l = Some nd /\ is_tset (nkind nd) = false) ->
    xresult_after cfg xs (XOp (OLoad l n)) = XR (RFound None) ->
    xresult_after cfg (xs ++ [XOp (OLoad l n)]) (XAddTypes l ts) = XA AOk ->
    xresult_after cfg (xs ++ [XOp (OLoad l n); XAddTypes l ts]) (XOp (OLoad l n)) = XR (RFound (Some v)).
Proof. exact addtypes_miss_not_sticky. Qed.
Print Assumptions C12_addtypes_miss_not_sticky.

(* the calls of every px.AddTypes refer only to the context's loader and to type-set loaders that the same
   px.AddTypes has created before (used by C12_addtypes_miss_not_sticky: these loaders all define into L) *)
Theorem C12_addtypes_scoped :
  forall auth ts, scoped 0 (compile auth ts) = true.
Proof. exact compile_scoped. Qed.
Print Assumptions C12_addtypes_scoped.

(* Non-vacuity: a concrete well-formed configuration and history over a chain of depth 3 and a type-set
   loader below the static loader — a miss, a definition after the miss, equal and different
   redefinitions, shadowing by an ancestor, relative names, discovery. *)
Definition ex_auth : str := [114]%N.
Definition ex_x : str := [120]%N.
Definition v0 := mkV 0 None false.
Definition v1 := mkV 1 None false.
Definition v4 := mkV 4 (Some 0%N) false.
Definition v5 := mkV 5 (Some 0%N) false.
Definition t8 := mkV 8 (Some 20%N) true.
Definition t10 := mkV 10 (Some 21%N) true.
Definition tcar := mkV 100 (Some 100%N) true.
Definition tint := mkV 1000 (Some 1000%N) true.
Definition ex_cfg : config :=
  mkCfg ex_auth [([114;47;116;121;112;101;47;105;110;116]%N, tint)]
        [mkTs ex_auth [70;111;111]%N [([67;97;114]%N, tcar)]].
Definition a_ := mkTn ex_auth ex_x [97]%N.
Definition A_ := mkTn ex_auth ex_x [65]%N.
Definition car := mkTn ex_auth ns_type [99;97;114]%N.
Definition foocar := mkTn ex_auth ns_type [70;111;111;58;58;67;65;82]%N.
Definition nope := mkTn ex_auth ns_type [70;111;111;58;58;110;111;112;101]%N.
Definition int_ := mkTn ex_auth ns_type [73;110;116]%N.
Definition ex_ops : list op :=
  [ONewDep; ONewParented 1; ONewParented 2;
   OLoad 3 a_; OGetEntry 3 a_; OLoadEntry 2 a_; OGetEntry 2 a_; ODiscover 3 PAll;
   ODefine 3 A_ v0; OLoad 3 a_; ODefine 3 a_ v0; ODefine 3 a_ v1;
   ODefine 1 a_ v4; OLoad 3 A_; OHas 2 a_; ODefine 1 A_ v5; ODiscover 3 PAll;
   ONewParented 0; ONewTypeSet 4 0; OLoad 5 car; OLoad 5 foocar; OLoad 5 nope; OGetEntry 5 nope; OLoad 5 int_;
   ODefine 5 int_ t8; ODefine 5 nope t8; ODefine 5 nope t10; OLoad 5 nope; ODiscover 5 (PNs ns_type); OHas 9 a_].

Example C12_nonvacuous :
  cfg_wf ex_cfg = true /\ forallb op_wf ex_ops = true /\
  outs ex_cfg ex_ops =
  [RNew 1; RNew 2; RNew 3;
   RFound None; REntry EPlaceholder; REntry ENone; REntry ENone; RNames [];
   RDefined v0; RFound (Some v0); RDefined v0; RErr ERedefine;
   RDefined v4; RFound (Some v4); RBool true; RDefined v4; RNames [[114; 47; 120; 47; 97]%N];
   RNew 4; RNew 5; RFound (Some tcar); RFound (Some tcar); RFound None; REntry ENone; RFound (Some tint);
   RDefined t8; RDefined t8; RErr ERedefineType; RFound (Some t8);
   RNames [[114; 47; 116; 121; 112; 101; 47; 99; 97; 114]%N;
           [114; 47; 116; 121; 112; 101; 47; 102; 111; 111; 58; 58; 110; 111; 112; 101]%N;
           [114; 47; 116; 121; 112; 101; 47; 105; 110; 116]%N];
   RBadLoader] /\
  map project (outs ex_cfg ex_ops) = spec_outs ex_cfg ex_ops.
Proof. vm_compute. repeat split; reflexivity. Qed.

(* the hypotheses of the corollaries are satisfiable on that history: a miss followed by a definition, a
   redefinition of a bound name, a resolved name with an ancestor, two case variants *)
Example C12_nonvacuous_corollaries :
  result_after ex_cfg (firstn 3 ex_ops) (OLoad 3 a_) = RFound None /\
  tn_auth (norm a_) = cfg_auth ex_cfg /\
  spec_own_binding (abs (fst (run ex_cfg (firstn 10 ex_ops)))) 3 (norm a_) = Some v0 /\
  result_after ex_cfg (firstn 10 ex_ops) (OLoad 3 a_) = RFound (Some v0) /\
  ancestor (abs (fst (run ex_cfg (firstn 10 ex_ops)))) 3 2 /\
  op_case_variant (OLoad 3 a_) (OLoad 3 A_) = true /\
  discover 4 (fst (run ex_cfg (firstn 16 ex_ops))) 3 (pred_eval PAll) = DNames [[114; 47; 120; 47; 97]%N] /\
  plain_chain (abs (fst (run ex_cfg (firstn 16 ex_ops)))) 3 /\
  spec_has (abs (fst (run ex_cfg (firstn 16 ex_ops)))) 3 (norm a_) = true.
Proof.
  repeat split; try (vm_compute; reflexivity).
  - eapply anc_parent; vm_compute; reflexivity.
  - intros q nd p ts Hq E K.
    assert (Hq' : q = 3 \/ q = 2 \/ q = 1).
    { destruct Hq as [->|Hq]; [tauto|]. right.
      inversion Hq as [l0 nd0 p0 E0 P0|l0 nd0 p0 q0 E0 P0 A0]; subst; vm_compute in E0; injection E0 as <-; vm_compute in P0; injection P0 as <-.
      - tauto.
      - inversion A0 as [l1 nd1 p1 E1 P1|l1 nd1 p1 q1 E1 P1 A1]; subst; vm_compute in E1; injection E1 as <-; vm_compute in P1; injection P1 as <-.
        + tauto.
        + inversion A1 as [l2 nd2 p2 E2 P2|l2 nd2 p2 q2 E2 P2 A2]; subst; vm_compute in E2; injection E2 as <-; vm_compute in P2; discriminate. }
    destruct Hq' as [->|[->| ->]]; vm_compute in E; injection E as <-; vm_compute in K; discriminate.
Qed.

(* Non-vacuity for px.AddTypes: the type set Foo {Zed, Bus => Object} with a nested set Sub {X => Object}, added
   after lookups of two members failed; the calls it compiles to; the results. *)
Definition tzed := mkV 200 (Some 200%N) true.
Definition tbus := mkV 201 (Some 201%N) true.
Definition abus := mkV 202 (Some 202%N) false.
Definition cbus := mkV 203 (Some 203%N) false.
Definition tsub := mkV 204 (Some 204%N) true.
Definition tsx := mkV 205 (Some 205%N) true.
Definition asx := mkV 206 (Some 206%N) false.
Definition csx := mkV 207 (Some 207%N) false.
Definition tfoo := mkV 208 (Some 208%N) true.
Definition s_foo : str := [70;111;111]%N.
Definition s_foo_zed : str := [70;111;111;58;58;90;101;100]%N.
Definition s_foo_bus : str := [70;111;111;58;58;66;117;115]%N.
Definition s_foo_sub : str := [70;111;111;58;58;83;117;98]%N.
Definition s_foo_sub_x : str := [70;111;111;58;58;83;117;98;58;58;88]%N.
Definition ex_set : mtype :=
  MSet s_foo tfoo
    [([90;101;100]%N, MPlain s_foo_zed tzed);
     ([83;117;98]%N, MSet s_foo_sub tsub [([88]%N, MObject s_foo_sub_x tsx (Some asx) (Some csx))]);
     ([66;117;115]%N, MObject s_foo_bus tbus (Some abus) (Some cbus))].
Definition n_bus := mkTn ex_auth ns_type s_foo_bus.
Definition n_sx := mkTn ex_auth ns_type s_foo_sub_x.
Definition ex_xs : list xop :=
  [XOp ONewDep; XOp (ONewParented 1); XOp (ONewParented 2); XOp (OLoad 3 n_sx); XOp (OLoad 2 n_bus)].

Example C12_addtypes_nonvacuous :
  compile ex_auth [ex_set] =
    [INode HL (mkTs ex_auth s_foo [([90;101;100]%N, tzed); ([83;117;98]%N, tsub); ([66;117;115]%N, tbus)]);
     ICtx (CEnter (HH 0));
     INode (HH 0) (mkTs ex_auth s_foo_sub [([88]%N, tsx)]);
     ICtx (CEnter (HH 1)); ICtx CLeave; ICtx CLeave;
     IUnless HL (mkTn ex_auth ns_type s_foo_zed) [ASet HL (mkTn ex_auth ns_type s_foo_zed) tzed];
     IUnless HL n_sx [ASet HL n_sx tsx; AUnlessSet (HH 1) (mkTn ex_auth ns_alloc s_foo_sub_x) asx;
                      ASet HL (mkTn ex_auth ns_ctor s_foo_sub_x) csx];
     IUnless HL (mkTn ex_auth ns_type s_foo_sub) [ASet HL (mkTn ex_auth ns_type s_foo_sub) tsub];
     IUnless HL n_bus [ASet HL n_bus tbus; AUnlessSet (HH 0) (mkTn ex_auth ns_alloc s_foo_bus) abus;
                       ASet HL (mkTn ex_auth ns_ctor s_foo_bus) cbus];
     IAct (ASet HL (mkTn ex_auth ns_type s_foo) tfoo)] /\
  forallb (xop_wf ex_cfg) (ex_xs ++ [XAddTypes 2 [ex_set]]) = true /\
  xouts ex_cfg (ex_xs ++ [XAddTypes 2 [ex_set]; XOp (OLoad 3 n_sx); XOp (OLoad 2 n_bus); XOp (OGetEntry 2 (mkTn ex_auth ns_alloc s_foo_bus));
                          XAddTypes 3 [ex_set]; XOp (OGetEntry 3 n_bus); XOp (ONewParented 3)]) =
    [XR (RNew 1); XR (RNew 2); XR (RNew 3); XR (RFound None); XR (RFound None);
     XA AOk; XR (RFound (Some tsx)); XR (RFound (Some tbus)); XR (REntry (EVal abus));
     XA AOk; XR (REntry ENone); XR (RNew 8)] /\
  xresult_after ex_cfg (firstn 4 ex_xs) (XOp (OLoad 2 n_bus)) = XR (RFound None) /\
  xresult_after ex_cfg ex_xs (XAddTypes 2 [ex_set]) = XA AOk /\
  ~ In (map_key (norm n_bus)) (flat_map instr_keys (firstn 9 (compile ex_auth [ex_set]))).
Proof.
  split; [vm_compute; reflexivity|]. split; [vm_compute; reflexivity|]. split; [vm_compute; reflexivity|].
  split; [vm_compute; reflexivity|]. split; [vm_compute; reflexivity|].
  vm_compute. intros H. repeat (destruct H as [H|H]; [discriminate H|]). exact H.
Qed.

(* ---------------------------------------------------------------------------------------------- *)
(* The loader a context holds (Model/LoaderCtx.v): px.Load, Context.Fork and px.AddTypes go through the loader the
   px.Context holds; DoWithLoader (internal/context.go:91) changes it around the resolution of the members of a type
   set and puts it back on every way out. *)

(* the calls of every px.AddTypes: DoWithLoader calls are nested, each is left again, every type-set loader is made on
   top of the loader the context holds at that moment *)
Theorem C12_addtypes_calls_nested :
  forall auth ts, track [] (compile auth ts) = Some [].
Proof. exact compile_track. Qed.
Print Assumptions C12_addtypes_calls_nested.

(* however px.AddTypes ends (normally, AttemptToRedefine[Type], a member whose resolution is rejected) and whatever
   the loaders do (any machine `stp`/`addn`): afterwards the context holds the loader L it held before, and the
   loaders are those of Model/LoaderAdd.v `exec`.  The seeded change C12-m5 (no deferred restore in DoWithLoader)
   falsifies the first half for a call that ends in CFail. *)
Theorem C12_addtypes_ctx_restored :
  forall (S : Type) (stp : S -> op -> S * out) addn len L base s auth ts,
    let r := ctx_exec stp addn len L base s [] (compile auth ts) in
    hd L (snd r) = L /\ fst r = exec stp addn len L base s (compile auth ts).
Proof. exact @ctx_exec_restores. Qed.
Print Assumptions C12_addtypes_ctx_restored.

(* every history through contexts (px.Load / Fork / px.AddTypes take the loader the context holds): after every
   operation every context holds the loader it was made for, so the results and the loaders are those of the history
   through the loaders, to which all theorems above apply *)
Theorem C12_ctx_fixed :
  forall cfg xs, crun cfg xs = ((fst (xrun cfg xs), []), xouts cfg xs, map xop_loader xs).
Proof. exact crun_fixed. Qed.
Print Assumptions C12_ctx_fixed.

(* Non-vacuity: the type set Zoo {Cage => alias, Sub => {X => Object, Broken => rejected}, Keeper => alias}.  The call
   makes the type-set loaders of Zoo and of Zoo::Sub (two DoWithLoader calls running) and is rejected; nothing is
   bound, the context of loader 2 holds loader 2, a later fork of it is parented by loader 2, the names of the set
   stay unresolvable. *)
Definition s_zoo : str := [90;111;111]%N.
Definition s_zoo_cage : str := [90;111;111;58;58;67;97;103;101]%N.
Definition s_zoo_sub : str := [90;111;111;58;58;83;117;98]%N.
Definition s_zoo_sub_x : str := [90;111;111;58;58;83;117;98;58;58;88]%N.
Definition s_zoo_sub_b : str := [90;111;111;58;58;83;117;98;58;58;66]%N.
Definition ex_bad : mtype :=
  MSet s_zoo tfoo
    [([67;97;103;101]%N, MPlain s_zoo_cage tzed);
     ([83;117;98]%N, MSet s_zoo_sub tsub [([88]%N, MObject s_zoo_sub_x tsx (Some asx) (Some csx)); ([66]%N, MBroken s_zoo_sub_b tbus)])].
Definition n_cage := mkTn ex_auth ns_type [67;97;103;101]%N.

Example C12_ctx_nonvacuous :
  firstn 6 (compile ex_auth [ex_bad]) =
    [INode HL (mkTs ex_auth s_zoo [([67;97;103;101]%N, tzed); ([83;117;98]%N, tsub)]); ICtx (CEnter (HH 0));
     INode (HH 0) (mkTs ex_auth s_zoo_sub [([88]%N, tsx); ([66]%N, tbus)]); ICtx (CEnter (HH 1)); ICtx CFail; ICtx CLeave] /\
  forallb (xop_wf ex_cfg) (firstn 3 ex_xs ++ [XAddTypes 2 [ex_bad]]) = true /\
  (let r := crun ex_cfg (firstn 3 ex_xs ++ [XAddTypes 2 [ex_bad]; XOp (OLoad 2 n_cage); XOp (OFork 2); XOp (ODiscover 6 PAll)]) in
   snd (fst r) = [XR (RNew 1); XR (RNew 2); XR (RNew 3); XA (AErr EOther); XR (RFound None); XR (RNew 6); XR (RNames [])] /\
   snd r = [0; 1; 2; 2; 2; 2; 6]) /\
  (* the machine while the call runs: at the rejection the context holds the type-set loader of Zoo::Sub (loader 5) *)
  snd (ctx_exec (step ex_cfg) add_node (@length lnode) 2 4 (fst (xrun ex_cfg (firstn 3 ex_xs))) []
         (firstn 4 (compile ex_auth [ex_bad]))) = [5; 4].
Proof.
  split; [vm_compute; reflexivity|]. split; [vm_compute; reflexivity|]. split; [|vm_compute; reflexivity].
  vm_compute. split; reflexivity.
Qed.

(* ---------------------------------------------------------------------------------------------- *)
(* The declaration route (Model/LoaderAdd.v `XDeclare`, `compile_decl`): types handed to px.RegisterResolvableType
   (px.NewObjectType, px.NewGoObjectType, px.NewGoType register what they make) are bound by the resolveResolvables of the
   next pcore.Do / pcore.RootContext - internal/context.go:183 SetEntry of every declared type in the order of
   declaration, then resolveTypes.  Histories with XDeclare are histories of `xop`: C12_addtypes_refines,
   C12_addtypes_state_refines, C12_addtypes_no_fault, C12_addtypes_write_once and C12_ctx_fixed above cover them.  The
   theorems below say that it is a definition route like SetEntry and px.AddTypes - same calls, same verdicts - and state
   the write-once clause for it. *)

(* types that are neither object types nor type sets: in every state the declaration route does what px.AddTypes does *)
Theorem C12_declare_is_addtypes :
  forall cfg st l ts, forallb is_plain ts = true -> xstep cfg st (XDeclare l ts) = xstep cfg st (XAddTypes l ts).
Proof. exact declare_is_addtypes. Qed.
Print Assumptions C12_declare_is_addtypes.

(* one such type: in every state the declaration is the SetEntry call - the same state afterwards, the same verdict *)
Theorem C12_declare_is_define :
  forall cfg st l name v, l < length st ->
    xstep cfg st (XDeclare l [MPlain name v]) =
    (fst (step cfg st (ODefine l (mkTn (cfg_auth cfg) ns_type name) v)),
     XA (match snd (step cfg st (ODefine l (mkTn (cfg_auth cfg) ns_type name) v)) with RDefined _ => AOk | o => aout_of o end)).
Proof. exact declare_is_define. Qed.
Print Assumptions C12_declare_is_define.

(* write-once (the seeded change C12-m7 falsifies this): after ANY history, when the first declared type - of any kind -
   names an entry that the loader receiving l's definitions has bound to a value that is neither identical nor equal, the
   call is rejected with AttemptToRedefineType (both are types) / AttemptToRedefine, the bindings of all loaders stay as
   they are and none of the other declarations is bound *)
Theorem C12_declare_redefine :
  forall cfg xs l t ts old,
    cfg_wf cfg = true -> forallb (xop_wf cfg) (xs ++ [XDeclare l (t :: ts)]) = true ->
    l < length (fst (xrun cfg xs)) ->
    spec_own_binding (abs (fst (xrun cfg xs))) l (norm (mkTn (cfg_auth cfg) ns_type (mt_name t))) = Some old ->
    val_same old (mt_val t) || val_equals old (mt_val t) = false ->
    abs (fst (xrun cfg (xs ++ [XDeclare l (t :: ts)]))) = abs (fst (xrun cfg xs)) /\
    xresult_after cfg xs (XDeclare l (t :: ts)) =
      XA (AErr (if vty old && vty (mt_val t) then ERedefineType else ERedefine)).
Proof. exact declare_redefine. Qed.
Print Assumptions C12_declare_redefine.

(* ... with an identical or equal value the declaration is a no-op *)
Theorem C12_declare_equal :
  forall cfg xs l name v old,
    cfg_wf cfg = true -> forallb (xop_wf cfg) (xs ++ [XDeclare l [MPlain name v]]) = true ->
    l < length (fst (xrun cfg xs)) ->
    spec_own_binding (abs (fst (xrun cfg xs))) l (norm (mkTn (cfg_auth cfg) ns_type name)) = Some old ->
    val_same old v || val_equals old v = true ->
    abs (fst (xrun cfg (xs ++ [XDeclare l [MPlain name v]]))) = abs (fst (xrun cfg xs)) /\
    xresult_after cfg xs (XDeclare l [MPlain name v]) = XA AOk.
Proof. exact declare_equal. Qed.
Print Assumptions C12_declare_equal.

(* ... and when the entry is not bound (also after failed lookups: the state is the one with the cached misses
   forgotten) the declaration binds it in the loader that receives l's definitions *)
Theorem C12_declare_fresh :
  forall cfg xs l name v tg,
    cfg_wf cfg = true -> forallb (xop_wf cfg) (xs ++ [XDeclare l [MPlain name v]]) = true ->
    l < length (fst (xrun cfg xs)) ->
    def_target (S l) (abs (fst (xrun cfg xs))) l = Some tg ->
    assoc (map_key (norm (mkTn (cfg_auth cfg) ns_type name))) (own_binds (abs (fst (xrun cfg xs))) tg) = None ->
    xresult_after cfg xs (XDeclare l [MPlain name v]) = XA AOk /\
    abs (fst (xrun cfg (xs ++ [XDeclare l [MPlain name v]]))) =
      set_binds (abs (fst (xrun cfg xs))) tg
        (own_binds (abs (fst (xrun cfg xs))) tg ++ [(map_key (norm (mkTn (cfg_auth cfg) ns_type name)), v)]).
Proof. exact declare_fresh. Qed.
Print Assumptions C12_declare_fresh.

(* the calls of the declaration route, for declared types of every kind: they refer to the context's loader and to the
   type-set loaders the same call made; the DoWithLoader calls are nested and each is left again *)
Theorem C12_declare_calls :
  forall auth ts, scoped 0 (compile_decl auth ts) = true /\ track [] (compile_decl auth ts) = Some [].
Proof. intros auth ts. split; [exact (compile_decl_scoped auth ts)|exact (compile_decl_track auth ts)]. Qed.
Print Assumptions C12_declare_calls.

(* however the binding of the declarations ends, the context holds the loader it held before *)
Theorem C12_declare_ctx_restored :
  forall (S : Type) (stp : S -> op -> S * out) addn len L base s auth ts,
    let r := ctx_exec stp addn len L base s [] (compile_decl auth ts) in
    hd L (snd r) = L /\ fst r = exec stp addn len L base s (compile_decl auth ts).
Proof. exact @ctx_exec_restores_decl. Qed.
Print Assumptions C12_declare_ctx_restored.

(* Non-vacuity: alias types T (two equal values, one different one, also under the name in another letter case) and U
   declared through loader 2 of the chain 1 <- 2 <- 3: first declaration, equal one, a failed lookup of U followed by a
   list of declarations whose second member is the different T - U is bound, the call is rejected, W is not bound. *)
Definition s_T : str := [84]%N.
Definition s_t : str := [116]%N.
Definition s_U : str := [85]%N.
Definition s_W : str := [87]%N.
Definition n_T := mkTn ex_auth ns_type s_T.
Definition n_U := mkTn ex_auth ns_type s_U.
Definition n_W := mkTn ex_auth ns_type s_W.
Definition t9 := mkV 9 (Some 20%N) true.
Definition ex_decl : list xop :=
  [XOp ONewDep; XOp (ONewParented 1); XOp (ONewParented 2);
   XDeclare 2 [MPlain s_T t8]; XDeclare 2 [MPlain s_t t9]; XOp (OLoad 3 n_U)].

Example C12_declare_nonvacuous :
  forallb (xop_wf ex_cfg) (ex_decl ++ [XDeclare 2 [MPlain s_U tzed; MPlain s_t t10; MPlain s_W tbus]]) = true /\
  xouts ex_cfg (ex_decl ++ [XDeclare 2 [MPlain s_U tzed; MPlain s_t t10; MPlain s_W tbus];
                            XOp (OLoad 3 n_U); XOp (OLoad 3 n_T); XOp (OLoad 3 n_W); XDeclare 3 [MPlain s_T t10]; XOp (OLoad 3 n_T);
                            XDeclare 7 [MPlain s_T t10]]) =
    [XR (RNew 1); XR (RNew 2); XR (RNew 3); XA AOk; XA AOk; XR (RFound None);
     XA (AErr ERedefineType); XR (RFound (Some tzed)); XR (RFound (Some t8)); XR (RFound None); XA AOk; XR (RFound (Some t8));
     XA ABadLoader] /\
  spec_own_binding (abs (fst (xrun ex_cfg ex_decl))) 2 (norm (mkTn (cfg_auth ex_cfg) ns_type s_t)) = Some t8 /\
  val_same t8 t10 || val_equals t8 t10 = false /\ val_same t8 t9 || val_equals t8 t9 = true /\
  compile_decl ex_auth [ex_set] = IAct (ASet HL (mkTn ex_auth ns_type s_foo) tfoo) :: removelast (compile ex_auth [ex_set]).
Proof. vm_compute. repeat split; reflexivity. Qed.

(* ---------------------------------------------------------------------------------------------- *)
(* The corollaries over the FULL history language.  C12_redefine ... C12_lookup_not_discovered above speak about
   histories of Model/Loader.v operations; the theorems below state the same clauses for every history of `xop` -
   operations, px.AddTypes of object types and type sets (with the type-set loaders it makes), declarations - and, by
   C12_ctx_fixed, for every such history through contexts.  The older ones are the special case `map XOp ops`
   (C12_addtypes_embeds).  `xresult_after cfg xs x` is the result of x after the history xs.  Two clauses are also
   proved in a sharper form that needs a side condition for type-set loaders, the boolean guard `not_relative`
   (Model/LoaderSpecX.v): C12_full_stable_resolution_name and C12_full_discover_complete; C12_full_guard_needed shows
   that both are false without it. *)

(* write-once, the redefinition clause *)
Theorem C12_full_redefine :
  forall cfg xs l n v old, cfg_wf cfg = true -> forallb (xop_wf cfg) (xs ++ [XOp (ODefine l n v)]) = true ->
    l < length (fst (xrun cfg xs)) ->
    spec_own_binding (abs (fst (xrun cfg xs))) l (norm n) = Some old ->
    abs (fst (xrun cfg (xs ++ [XOp (ODefine l n v)]))) = abs (fst (xrun cfg xs)) /\
    xresult_after cfg xs (XOp (ODefine l n v)) =
      XR (if val_same old v || val_equals old v then RDefined old
          else if vty old && vty v then RErr ERedefineType else RErr ERedefine).
Proof. exact xredefine. Qed.
Print Assumptions C12_full_redefine.

(* stable resolution: as long as no proper ancestor of the loader gains a binding - whatever else the history xs' does:
   definitions, px.AddTypes, declarations through this or other loaders, new loaders - a name that resolved once
   resolves to the same value *)
Theorem C12_full_stable_resolution :
  forall cfg xs xs' l n v, cfg_wf cfg = true -> forallb (xop_wf cfg) (xs ++ xs') = true -> op_wf (OLoad l n) = true ->
    xresult_after cfg xs (XOp (OLoad l n)) = XR (RFound (Some v)) ->
    (forall p, ancestor (abs (fst (xrun cfg xs))) l p ->
       own_binds (abs (fst (xrun cfg (xs ++ xs')))) p = own_binds (abs (fst (xrun cfg xs))) p) ->
    xresult_after cfg (xs ++ xs') (XOp (OLoad l n)) = XR (RFound (Some v)).
Proof. exact xstable_resolution. Qed.
Print Assumptions C12_full_stable_resolution.

(* ... sharper: it is enough that no proper ancestor gains a binding OF THAT NAME, provided the name is not qualified by
   the name of the type set of a type-set loader on the way (then the lookup goes on with the relative name, whose
   bindings matter too) *)
Theorem C12_full_stable_resolution_name :
  forall cfg xs xs' l n v, cfg_wf cfg = true -> forallb (xop_wf cfg) (xs ++ xs') = true -> op_wf (OLoad l n) = true ->
    xresult_after cfg xs (XOp (OLoad l n)) = XR (RFound (Some v)) ->
    not_relative (abs (fst (xrun cfg xs))) l (norm n) = true ->
    (forall p, ancestor (abs (fst (xrun cfg xs))) l p ->
       assoc (map_key (norm n)) (own_binds (abs (fst (xrun cfg xs))) p) = None ->
       assoc (map_key (norm n)) (own_binds (abs (fst (xrun cfg (xs ++ xs')))) p) = None) ->
    xresult_after cfg (xs ++ xs') (XOp (OLoad l n)) = XR (RFound (Some v)).
Proof. exact xstable_resolution_name. Qed.
Print Assumptions C12_full_stable_resolution_name.

(* misses are not sticky (the SetEntry route; the px.AddTypes route is C12_addtypes_miss_not_sticky, the declaration route
   C12_declare_fresh) *)
Theorem C12_full_miss_not_sticky :
  forall cfg xs l n v, cfg_wf cfg = true -> forallb (xop_wf cfg) xs = true -> op_wf (OLoad l n) = true ->
    tn_auth (norm n) = cfg_auth cfg ->
    xresult_after cfg xs (XOp (OLoad l n)) = XR (RFound None) ->
    xresult_after cfg (xs ++ [XOp (OLoad l n)]) (XOp (ODefine l n v)) = XR (RDefined v) /\
    xresult_after cfg (xs ++ [XOp (OLoad l n); XOp (ODefine l n v)]) (XOp (OLoad l n)) = XR (RFound (Some v)).
Proof. exact xmiss_not_sticky. Qed.
Print Assumptions C12_full_miss_not_sticky.

(* names differing only in letter case denote one entry, on every definition route: operations (op_case_variant),
   px.AddTypes and declarations of types whose names - the names of the members of a type set included - differ in letter
   case only (`xop_cv`; a type set itself keeps its name and keys, its type-set loader holds the set) have the same
   effect and the same result in every state *)
Theorem C12_full_case_insensitive :
  forall cfg st x x', xop_cv x x' -> xstep cfg st x = xstep cfg st x'.
Proof. exact xcase_insensitive. Qed.
Print Assumptions C12_full_case_insensitive.

(* discovery in the state after any history - through every loader, the type-set loaders px.AddTypes made included *)
Theorem C12_full_discover_exact :
  forall cfg xs l P ks, cfg_wf cfg = true -> forallb (xop_wf cfg) xs = true ->
    discover (S l) (fst (xrun cfg xs)) l P = DNames ks ->
    strictly_sorted ks /\ NoDup ks /\
    (forall k, In k ks <-> exists tn, listed (abs (fst (xrun cfg xs))) l tn /\ map_key tn = k /\ P tn = true) /\
    (forall k tn, In k ks -> tn_of_key k = Some tn -> tn_wf tn = true -> map_key tn = k ->
       spec_has (abs (fst (xrun cfg xs))) l tn = true).
Proof. exact xdiscover_exact. Qed.
Print Assumptions C12_full_discover_exact.

(* completeness along ANY chain of loaders, type-set loaders included: a (canonical, well-formed) name that resolves
   through the loader and is not qualified by the name of a type set on the way is discovered when it satisfies the
   predicate - for predicates that do not look at the letter case of the name (a type of a type set is listed under the
   name the set gives it, `Car`, its map key is `car`); every predicate of the histories (`pred_eval`) is such a one *)
Theorem C12_full_discover_complete :
  forall cfg xs l P ks tn, cfg_wf cfg = true -> forallb (xop_wf cfg) xs = true ->
    discover (S l) (fst (xrun cfg xs)) l P = DNames ks ->
    not_relative (abs (fst (xrun cfg xs))) l tn = true ->
    tn_of_key (map_key tn) = Some tn -> tn_wf tn = true ->
    spec_has (abs (fst (xrun cfg xs))) l tn = true ->
    (forall n n', tn_case_variant n n' = true -> P n = P n') -> P tn = true ->
    In (map_key tn) ks.
Proof. exact xdiscover_complete. Qed.
Print Assumptions C12_full_discover_complete.

Theorem C12_full_discover_complete_pred :
  forall cfg xs l p ks tn, cfg_wf cfg = true -> forallb (xop_wf cfg) xs = true ->
    xresult_after cfg xs (XOp (ODiscover l p)) = XR (RNames ks) ->
    not_relative (abs (fst (xrun cfg xs))) l tn = true ->
    tn_of_key (map_key tn) = Some tn -> tn_wf tn = true ->
    spec_has (abs (fst (xrun cfg xs))) l tn = true -> pred_eval p tn = true ->
    In (map_key tn) ks.
Proof. exact xdiscover_complete_pred. Qed.
Print Assumptions C12_full_discover_complete_pred.

(* ... and along chains without type-set loaders for every predicate *)
Theorem C12_full_discover_complete_plain :
  forall cfg xs l P ks tn, cfg_wf cfg = true -> forallb (xop_wf cfg) xs = true ->
    discover (S l) (fst (xrun cfg xs)) l P = DNames ks ->
    plain_chain (abs (fst (xrun cfg xs))) l ->
    tn_of_key (map_key tn) = Some tn -> tn_wf tn = true ->
    spec_has (abs (fst (xrun cfg xs))) l tn = true -> P tn = true ->
    In (map_key tn) ks.
Proof. exact xdiscover_complete_plain. Qed.
Print Assumptions C12_full_discover_complete_plain.

(* no lookup changes any discovery *)
Theorem C12_full_lookup_not_discovered :
  forall cfg xs o l P, cfg_wf cfg = true -> forallb (xop_wf cfg) (xs ++ [XOp o]) = true ->
    (match o with OLoad _ _ | OLoadEntry _ _ | OGetEntry _ _ | OHas _ _ | ODiscover _ _ => True | _ => False end) ->
    discover (S l) (fst (xrun cfg (xs ++ [XOp o]))) l P = discover (S l) (fst (xrun cfg xs)) l P.
Proof. exact xlookup_not_discovered. Qed.
Print Assumptions C12_full_lookup_not_discovered.

(* Non-vacuity: the history of C12_addtypes_nonvacuous (px.AddTypes of Foo {Zed, Sub {X}, Bus} through loader 2 of the
   chain 1 <- 2 <- 3; it makes the type-set loaders 4 of Foo and 5 of Foo::Sub), continued by a declaration through
   loader 3, a fork of 3 and px.AddTypes of the same set through the fork (type-set loaders 7 and 8).  The hypotheses of
   the theorems hold on it: Foo::Bus resolves through 3 and no ancestor of 3 (2, 1) gains a binding; Zed resolves through
   the type-set loader 4, is not qualified by `Foo` and is discovered; a declaration and a px.AddTypes in another letter
   case. *)
Definition ex_full : list xop := ex_xs ++ [XAddTypes 2 [ex_set]].
Definition ex_more : list xop := [XDeclare 3 [MPlain s_T t8]; XOp (OFork 3); XAddTypes 6 [ex_set]].
Definition n_zed := mkTn ex_auth ns_type [122;101;100]%N.
Definition ex_set_lc : mtype :=
  MSet s_foo tfoo
    [([90;101;100]%N, MPlain [102;111;111;58;58;90;69;68]%N tzed);
     ([83;117;98]%N, MSet s_foo_sub tsub [([88]%N, MObject [70;79;79;58;58;83;117;98;58;58;120]%N tsx (Some asx) (Some csx))]);
     ([66;117;115]%N, MObject s_foo_bus tbus (Some abus) (Some cbus))].

Example C12_full_nonvacuous :
  cfg_wf ex_cfg = true /\ forallb (xop_wf ex_cfg) (ex_full ++ ex_more) = true /\
  xouts ex_cfg (ex_full ++ ex_more) =
    [XR (RNew 1); XR (RNew 2); XR (RNew 3); XR (RFound None); XR (RFound None); XA AOk; XA AOk; XR (RNew 6); XA AOk] /\
  xresult_after ex_cfg ex_full (XOp (OLoad 3 n_bus)) = XR (RFound (Some tbus)) /\
  (forall p, ancestor (abs (fst (xrun ex_cfg ex_full))) 3 p ->
     own_binds (abs (fst (xrun ex_cfg (ex_full ++ ex_more)))) p = own_binds (abs (fst (xrun ex_cfg ex_full))) p) /\
  not_relative (abs (fst (xrun ex_cfg ex_full))) 3 (norm n_bus) = true /\
  xresult_after ex_cfg (ex_full ++ ex_more) (XOp (OLoad 3 n_bus)) = XR (RFound (Some tbus)) /\
  xresult_after ex_cfg ex_full (XOp (ODiscover 4 (PNs ns_type))) =
    XR (RNames [[114;47;116;121;112;101;47;98;117;115]%N; [114;47;116;121;112;101;47;102;111;111]%N;
                [114;47;116;121;112;101;47;102;111;111;58;58;98;117;115]%N; [114;47;116;121;112;101;47;102;111;111;58;58;115;117;98]%N;
                [114;47;116;121;112;101;47;102;111;111;58;58;115;117;98;58;58;120]%N; [114;47;116;121;112;101;47;102;111;111;58;58;122;101;100]%N;
                [114;47;116;121;112;101;47;115;117;98]%N; [114;47;116;121;112;101;47;122;101;100]%N]) /\
  not_relative (abs (fst (xrun ex_cfg ex_full))) 4 n_zed = true /\ spec_has (abs (fst (xrun ex_cfg ex_full))) 4 n_zed = true /\
  tn_of_key (map_key n_zed) = Some n_zed /\ tn_wf n_zed = true /\ pred_eval (PNs ns_type) n_zed = true /\
  xop_cv (XDeclare 2 [MPlain s_T t8]) (XDeclare 2 [MPlain s_t t8]) /\
  xop_cv (XAddTypes 2 [ex_set]) (XAddTypes 2 [ex_set_lc]) /\
  xstep ex_cfg (fst (xrun ex_cfg ex_xs)) (XAddTypes 2 [ex_set_lc]) = xstep ex_cfg (fst (xrun ex_cfg ex_xs)) (XAddTypes 2 [ex_set]).
Proof.
  assert (Hc : cfg_wf ex_cfg = true) by (vm_compute; reflexivity).
  assert (Hw : forallb (xop_wf ex_cfg) ex_full = true) by (vm_compute; reflexivity).
  split; [exact Hc|]. split; [vm_compute; reflexivity|]. split; [vm_compute; reflexivity|]. split; [vm_compute; reflexivity|].
  split.
  { intros p Hp. apply (ancestor_in_chain 4 _ 3 p (xreachable_tree _ _ Hc Hw) ltac:(repeat constructor)) in Hp.
    vm_compute in Hp. destruct Hp as [<-|[<-|[]]]; vm_compute; reflexivity. }
  repeat (split; [vm_compute; reflexivity|]).
  split; [repeat constructor|]. split; [repeat constructor|].
  vm_compute. reflexivity.
Qed.

(* The guard is needed.  Loaders 1 <- 2 <- 3 with 3 the type-set loader of Foo {Car}; `bar` is bound in 2, so Foo::Bar
   resolves through 3 (as the relative name Bar).  (a) Loader 1 - an ancestor of 3 - then gains a binding of `bar`: no
   ancestor has gained a binding of `foo::bar`, yet Foo::Bar resolves to another value.  (b) foo::bar resolves through 3,
   is canonical and satisfies the predicate, yet Discover(3, all) does not list it. *)
Definition n_bar := mkTn ex_auth ns_type [98;97;114]%N.
Definition n_foobar := mkTn ex_auth ns_type [102;111;111;58;58;98;97;114]%N.
Definition ex_g : list xop := [XOp ONewDep; XOp (ONewParented 1); XOp (ONewTypeSet 2 0); XOp (ODefine 2 n_bar v0)].

Example C12_full_guard_needed :
  cfg_wf ex_cfg = true /\ forallb (xop_wf ex_cfg) (ex_g ++ [XOp (ODefine 1 n_bar v1)]) = true /\
  not_relative (abs (fst (xrun ex_cfg ex_g))) 3 (norm n_foobar) = false /\
  (* (a) *)
  xresult_after ex_cfg ex_g (XOp (OLoad 3 n_foobar)) = XR (RFound (Some v0)) /\
  (forall p, ancestor (abs (fst (xrun ex_cfg ex_g))) 3 p ->
     assoc (map_key (norm n_foobar)) (own_binds (abs (fst (xrun ex_cfg (ex_g ++ [XOp (ODefine 1 n_bar v1)])))) p) = None) /\
  xresult_after ex_cfg (ex_g ++ [XOp (ODefine 1 n_bar v1)]) (XOp (OLoad 3 n_foobar)) = XR (RFound (Some v1)) /\
  (* (b) *)
  xresult_after ex_cfg ex_g (XOp (ODiscover 3 PAll)) =
    XR (RNames [[114;47;116;121;112;101;47;98;97;114]%N; [114;47;116;121;112;101;47;99;97;114]%N]) /\
  spec_has (abs (fst (xrun ex_cfg ex_g))) 3 n_foobar = true /\ tn_of_key (map_key n_foobar) = Some n_foobar /\
  tn_wf n_foobar = true /\ pred_eval PAll n_foobar = true /\
  ~ In (map_key n_foobar) [[114;47;116;121;112;101;47;98;97;114]%N; [114;47;116;121;112;101;47;99;97;114]%N].
Proof.
  assert (Hc : cfg_wf ex_cfg = true) by (vm_compute; reflexivity).
  assert (Hw : forallb (xop_wf ex_cfg) ex_g = true) by (vm_compute; reflexivity).
  split; [exact Hc|]. split; [vm_compute; reflexivity|]. split; [vm_compute; reflexivity|]. split; [vm_compute; reflexivity|].
  split.
  { intros p Hp. apply (ancestor_in_chain 4 _ 3 p (xreachable_tree _ _ Hc Hw) ltac:(repeat constructor)) in Hp.
    vm_compute in Hp. destruct Hp as [<-|[<-|[]]]; vm_compute; reflexivity. }
  repeat (split; [vm_compute; reflexivity|]).
  vm_compute. intros H. repeat (destruct H as [H|H]; [discriminate H|]). exact H.
Qed.
