(* C12 — Loader resolution: parents first, bindings are write-once, misses are not sticky.
   This file holds ONLY the statements of the property theorems, each closed by `exact <lemma>`,
   and `Print Assumptions` beneath.

   Model/Loader.v      the executable model of loader/loader.go, loader/dependency.go, typed names and
                       type-set lookups, with the cached misses (placeholder entries) explicit;
   Model/LoaderSpec.v  the abstract specification: every loader owns a write-once partial map, a lookup is
                       the binding of the outermost ancestor that has one, else the own one, else not found.
   Domain: configurations with `cfg_wf` (the static loader's keys are proper map keys, once each) and
   histories whose typed names satisfy `tn_wf` (authority non-empty, no '/' in namespace and name, name
   segments [A-Za-z][0-9A-Za-z_]* — outside it Go's TypedName.Parts panics with InvalidCharactersInName). *)
From Coq Require Import NArith Bool List.
From PcoreV Require Import Model.Base Model.Loader Model.LoaderSpec Proofs.LoaderNames Proofs.LoaderProofs.
Import ListNotations.

(* Refinement: for EVERY history of construct / define / load / load-entry / get-entry / has-entry / discover
   operations over any tree of static, dependency, parented (forked) and type-set loaders, every result of
   the model — with a cached miss projected to a miss — is the result of the write-once specification. *)
Theorem C12_loader_refines :
  forall cfg ops, cfg_wf cfg = true -> forallb op_wf ops = true ->
    map project (outs cfg ops) = spec_outs cfg ops.
Proof. exact loader_refines. Qed.
Print Assumptions C12_loader_refines.

(* ... and the model's state, with the cached misses forgotten, is the specification's state. *)
Theorem C12_loader_state_refines :
  forall cfg ops, cfg_wf cfg = true -> forallb op_wf ops = true ->
    abs (fst (run cfg ops)) = fst (spec_run cfg ops).
Proof. exact loader_state_refines. Qed.
Print Assumptions C12_loader_state_refines.

(* No operation of any history hits a Go runtime fault or an ill-formed tree; the only reported errors
   are AttemptToRedefine / AttemptToRedefineType, and only from a definition. *)
Theorem C12_no_fault :
  forall cfg ops, cfg_wf cfg = true -> forallb op_wf ops = true ->
    Forall2 (fun o r => out_ok o r = true) ops (outs cfg ops).
Proof. exact results_classified. Qed.
Print Assumptions C12_no_fault.

(* Non-vacuity: a concrete well-formed configuration and history over a chain of depth 3 and a type-set
   loader below the static loader — a miss, a definition after the miss, equal and different
   redefinitions, shadowing by an ancestor, relative names, discovery. *)
Definition ex_auth : str := [114]%N.
Definition ex_x : str := [120]%N.
Definition v0 := mkV 0 None false.
Definition v1 := mkV 1 None false.
Definition v4 := mkV 4 (Some 0%N) false.
Definition v5 := mkV 5 (Some 0%N) false.
Definition t8 := mkV 8 (Some 20%N) true.
Definition t10 := mkV 10 (Some 21%N) true.
Definition tcar := mkV 100 (Some 100%N) true.
Definition tint := mkV 1000 (Some 1000%N) true.
Definition ex_cfg : config :=
  mkCfg ex_auth [([114;47;116;121;112;101;47;105;110;116]%N, tint)]
        [mkTs ex_auth [70;111;111]%N [([67;97;114]%N, tcar)]].
Definition a_ := mkTn ex_auth ex_x [97]%N.
Definition A_ := mkTn ex_auth ex_x [65]%N.
Definition car := mkTn ex_auth ns_type [99;97;114]%N.
Definition foocar := mkTn ex_auth ns_type [70;111;111;58;58;67;65;82]%N.
Definition nope := mkTn ex_auth ns_type [70;111;111;58;58;110;111;112;101]%N.
Definition int_ := mkTn ex_auth ns_type [73;110;116]%N.
Definition ex_ops : list op :=
  [ONewDep; ONewParented 1; ONewParented 2;
   OLoad 3 a_; OGetEntry 3 a_; OLoadEntry 2 a_; OGetEntry 2 a_; ODiscover 3 PAll;
   ODefine 3 A_ v0; OLoad 3 a_; ODefine 3 a_ v0; ODefine 3 a_ v1;
   ODefine 1 a_ v4; OLoad 3 A_; OHas 2 a_; ODefine 1 A_ v5; ODiscover 3 PAll;
   ONewParented 0; ONewTypeSet 4 0; OLoad 5 car; OLoad 5 foocar; OLoad 5 nope; OGetEntry 5 nope; OLoad 5 int_;
   ODefine 5 int_ t8; ODefine 5 nope t8; ODefine 5 nope t10; OLoad 5 nope; ODiscover 5 (PNs ns_type); OHas 9 a_].

Example C12_nonvacuous :
  cfg_wf ex_cfg = true /\ forallb op_wf ex_ops = true /\
  outs ex_cfg ex_ops =
  [RNew 1; RNew 2; RNew 3;
   RFound None; REntry EPlaceholder; REntry ENone; REntry ENone; RNames [];
   RDefined v0; RFound (Some v0); RDefined v0; RErr ERedefine;
   RDefined v4; RFound (Some v4); RBool true; RDefined v4; RNames [[114; 47; 120; 47; 97]%N];
   RNew 4; RNew 5; RFound (Some tcar); RFound (Some tcar); RFound None; REntry ENone; RFound (Some tint);
   RDefined t8; RDefined t8; RErr ERedefineType; RFound (Some t8);
   RNames [[114; 47; 116; 121; 112; 101; 47; 99; 97; 114]%N;
           [114; 47; 116; 121; 112; 101; 47; 102; 111; 111; 58; 58; 110; 111; 112; 101]%N;
           [114; 47; 116; 121; 112; 101; 47; 105; 110; 116]%N];
   RBadLoader] /\
  map project (outs ex_cfg ex_ops) = spec_outs ex_cfg ex_ops.
Proof. vm_compute. repeat split; reflexivity. Qed.
