(* C05 — Printing and parsing are inverse for types and literal values.
   This file holds ONLY the statements of the property theorems, each closed by `exact <lemma>`,
   and `Print Assumptions` beneath.

   Layer L1 (characters <-> tokens): what utils.PuppetQuote / utils.RegexpQuote / strconv.FormatInt write,
   the lexer (types/lexer.go: consumeString, consumeRegexp, consumeNumber) reads back as one token with
   exactly the original payload, for ALL strings / regexp sources / int64 values (models: Model/QuoteLex.v).
   Floats: the digits are produced and read by Go's fmt / strconv, which are not modelled (partial; the
   direct check exercises them).

   Layer L3 (parameters <-> types, models: Model/TypePrint.v): for EVERY type T of the fragment Model/Ty.v that
   the Go constructors can build, resolving the expression that T prints (its name and, parameter by parameter,
   what Parameters() writes, nested types recursively) through the positional creators yields T again, and that
   result prints the same text.

   Layer L2 (tokens <-> expressions, model: Model/TokenParse.v of parser.go): for EVERY printable expression
   (literals, type names with parameter lists, arrays, hashes with `=>` entries, nested to any depth) the parser
   reads exactly the tokens the expression prints as and yields the expression (section "the parser" at the end of this
   file), composed with layer L1 into an end-to-end statement at the level of characters for literal values
   (print, lex, parse gives the value back).

   Container values (model: Model/ValuePrint.v): a value is a graph of Array / Hash instances in which one
   instance may sit at several positions (aliasing, e.g. the library's shared px.EmptyArray); the printer walks
   it with one recursion detector shared by all nested calls. On EVERY graph without cycles it writes exactly the
   tokens of the tree the graph stands for and never the `<recursive reference>` marker. *)
From Coq Require Import ZArith NArith Bool List Permutation.
From PcoreV Require Import Model.Base Model.Ty Model.QuoteLex Model.TypePrint Model.TokenParse Model.ValuePrint
  Model.ObjectPrint Model.LiteralText Model.TypeExpr Proofs.QuoteLexUtf8 Proofs.QuoteLexProofs Proofs.TypePrintProofs Proofs.ValuePrintProofs
  Proofs.ObjectPrintProofs Proofs.TokenParseProofs Proofs.LiteralTextProofs Proofs.TypeExprProofs
  Model.ObjectExt Proofs.ObjectExtProofs.
Import ListNotations.
Open Scope N_scope.

(* ---- strings ---- *)

(* The statement at full strength: every string survives print + lex. *)
Definition C05_string_statement : Prop :=
  forall s : str, lex_string (puppet_quote s) = LOk s [].

(* It holds for every string that is text (valid UTF-8) and has no U+FFFD character; k is whatever follows
   the literal in the input (the lexer stops right after the closing quote). *)
Theorem C05_quote_lex :
  forall s k, valid_utf8 s = true -> no_replacement s = true ->
              lex_string (puppet_quote s ++ k) = LOk s k.
Proof. exact quote_lex_k. Qed.
Print Assumptions C05_quote_lex.

(* Open finding C05-lexer-rejects-replacement-character: a well-formed U+FFFD is printed as it is and then
   rejected by the lexer, which takes it for an invalid byte. *)
Theorem C05_replacement_character_refuted :
  exists s, valid_utf8 s = true /\ lex_string (puppet_quote s) <> LOk s [].
Proof. exists [239; 191; 189]. split; [vm_compute; reflexivity|vm_compute; discriminate]. Qed.
Print Assumptions C05_replacement_character_refuted.

(* Outside the property (a Go string that is not text): an invalid byte is printed as U+FFFD. *)
Example C05_invalid_utf8_is_not_text :
  valid_utf8 [97; 255] = false /\ puppet_quote [97; 255] = [39; 97; 239; 191; 189; 39].
Proof. split; vm_compute; reflexivity. Qed.

(* ---- regexps ---- *)

Definition C05_regexp_statement : Prop :=
  forall s : str, valid_utf8 s = true -> lex_regexp (regexp_quote s) = LOk s [].

Theorem C05_regexp_quote_lex :
  forall s k, valid_utf8 s = true -> no_replacement s = true -> regexp_printable s = true ->
              lex_regexp (regexp_quote s ++ k) = LOk s k.
Proof. exact regexp_quote_lex_k. Qed.
Print Assumptions C05_regexp_quote_lex.

(* Open finding C05-regexp-source-not-representable: the source \/ (an escaped slash) is read back as / . *)
Theorem C05_regexp_escaped_slash_refuted :
  exists s, valid_utf8 s = true /\ no_replacement s = true /\ lex_regexp (regexp_quote s) <> LOk s [].
Proof. exists [92; 47]. repeat split; try (vm_compute; reflexivity). vm_compute; discriminate. Qed.
Print Assumptions C05_regexp_escaped_slash_refuted.

(* ---- integers ---- *)

(* The decimal text of every int64 is lexed as one integer token holding that text (whatever ASCII character
   that cannot continue a number follows, e.g. ',' ']' '}' ')' ' '), for any unicode.IsLetter oracle ... *)
Theorem C05_format_int_lex :
  forall (is_letter : N -> bool) z k, in_int64 z = true -> num_stop k = true ->
    lex_number is_letter (format_int z ++ k) = LOk (KInteger, format_int z) k.
Proof. exact format_int_lex. Qed.
Print Assumptions C05_format_int_lex.

(* ... and strconv.ParseInt(text, 0, 64), as the parser calls it, gives the integer back. *)
Theorem C05_parse_format_int :
  forall z, in_int64 z = true -> parse_int0 (format_int z) = Some z.
Proof. exact parse_format_int. Qed.
Print Assumptions C05_parse_format_int.

(* ---- UTF-8 (what "text" means above) ---- *)

Theorem C05_utf8_decode_encode :
  forall r k, valid_rune r = true -> decode_valid (encode_rune r ++ k) = Some (r, k).
Proof. exact decode_encode. Qed.
Print Assumptions C05_utf8_decode_encode.

Theorem C05_utf8_valid_is_encoding :
  forall s, valid_utf8 s = true -> exists rs, forallb valid_rune rs = true /\ s = encode_runes rs.
Proof. exact valid_utf8_decompose. Qed.
Print Assumptions C05_utf8_valid_is_encoding.

(* ---- non-vacuity: the guards are satisfiable and the model computes ---- *)

(* the string  a'b\c<LF>é$  is printed double quoted with four escapes and read back *)
Example C05_string_nonvacuous :
  let s := [97; 39; 98; 92; 99; 10; 195; 169; 36] in
  valid_utf8 s = true /\ no_replacement s = true /\
  puppet_quote s = [34; 97; 39; 98; 92; 92; 99; 92; 110; 195; 169; 92; 36; 34] /\
  lex_string (puppet_quote s ++ [44; 32]) = LOk s [44; 32].
Proof. repeat split; vm_compute; reflexivity. Qed.

(* the single quoted form:  it's  ->  'it\'s' ; a control character:  U+0001 -> "\u{1}" *)
Example C05_string_single_quoted :
  puppet_quote [105; 116; 39; 115] = [39; 105; 116; 92; 39; 115; 39] /\
  puppet_quote [1] = [34; 92; 117; 123; 49; 125; 34] /\
  lex_string [34; 92; 117; 123; 49; 125; 34] = LOk [1] [].
Proof. repeat split; vm_compute; reflexivity. Qed.

(* the regexp  a/\d  is printed as /a\/\d/ and read back *)
Example C05_regexp_nonvacuous :
  let s := [97; 47; 92; 100] in
  valid_utf8 s = true /\ no_replacement s = true /\ regexp_printable s = true /\
  regexp_quote s = [47; 97; 92; 47; 92; 100; 47] /\ lex_regexp (regexp_quote s) = LOk s [].
Proof. repeat split; vm_compute; reflexivity. Qed.

Example C05_int_nonvacuous :
  format_int (-9223372036854775808) = [45; 57; 50; 50; 51; 51; 55; 50; 48; 51; 54; 56; 53; 52; 55; 55; 53; 56; 48; 56] /\
  lex_number ascii_letter (format_int (-9223372036854775808) ++ [93]) =
    LOk (KInteger, format_int (-9223372036854775808)) [93] /\
  parse_int0 (format_int (-9223372036854775808)) = Some (-9223372036854775808)%Z /\
  parse_int0 [48; 120; 49; 70] = Some 31%Z /\ parse_int0 [48; 49; 48] = Some 8%Z /\
  parse_int0 [57; 50; 50; 51; 51; 55; 50; 48; 51; 54; 56; 53; 52; 55; 55; 53; 56; 48; 56] = None.
Proof. repeat split; vm_compute; reflexivity. Qed.

(* ------------------------------------------------------------------------------------------ *)
(* ---- types: Parameters() against the positional creators ---- *)
Open Scope Z_scope.

(* The statement at full strength: every type comes back from its own parameters. *)
Definition C05_types_statement : Prop :=
  forall (to_lower : str -> str) (rx_ok : str -> bool) (accepts_undef : ty -> bool) (T : ty),
    reparse to_lower rx_ok accepts_undef T = COk T.

(* It holds, up to the Tuple flag `size != nil` that TupleType.Equals ignores (canon), for every type that
   the constructors build (c05_ok: bounds in order, Enum values lower-cased when case-insensitive, Struct keys
   well-formed, no one-member Variant) except, by specification, an exact-value String type where it prints
   as String. to_lower (strings.ToLower), rx_ok (regexp.Compile succeeds) and accepts_undef (the lattice's
   isAssignable(t, Undef), which decides how a Struct key is written) are arbitrary: the round trip does not
   depend on them beyond accepts_undef ignoring the Tuple flag. *)
Theorem C05_resolve_params :
  forall (to_lower : str -> str) (rx_ok : str -> bool) (accepts_undef : ty -> bool),
    (forall t, accepts_undef (canon t) = accepts_undef t) ->
    forall T, c05_ok to_lower T = true ->
              reparse to_lower rx_ok accepts_undef T = COk (canon T).
Proof. exact reparse_canon. Qed.
Print Assumptions C05_resolve_params.

(* A type as the parser builds it (canon T) is reproduced exactly ... *)
Theorem C05_resolve_params_exact :
  forall (to_lower : str -> str) (rx_ok : str -> bool) (accepts_undef : ty -> bool),
    (forall t, accepts_undef (canon t) = accepts_undef t) ->
    forall T, c05_ok to_lower T = true ->
              reparse to_lower rx_ok accepts_undef (canon T) = COk (canon T).
Proof. exact reparse_fixpoint. Qed.
Print Assumptions C05_resolve_params_exact.

(* ... and prints the same text as T (whatever the float rendering oracle is). *)
Theorem C05_prints_same :
  forall (float_text : Z -> str) (accepts_undef : ty -> bool),
    (forall t, accepts_undef (canon t) = accepts_undef t) ->
    forall T, print_ty float_text accepts_undef (canon T) = print_ty float_text accepts_undef T.
Proof. exact print_canon. Qed.
Print Assumptions C05_prints_same.

Theorem C05_canon_idempotent : forall T, canon (canon T) = canon T.
Proof. exact canon_idem. Qed.
Print Assumptions C05_canon_idempotent.

(* The by-specification exception, on the model: String['a'] prints as String and comes back as String. *)
Example C05_exact_string_prints_as_string :
  let au := fun _ : ty => false in
  print_ty (fun _ => []) au (TStringVal [97]%N) = [83; 116; 114; 105; 110; 103]%N /\
  reparse (fun s => s) (fun _ => true) au (TStringVal [97]%N) = COk TString.
Proof. split; vm_compute; reflexivity. Qed.

(* Why c05_ok excludes a one-member Variant (NewVariantType never builds one): Variant[T] is T. *)
Example C05_single_variant_is_its_member :
  reparse (fun s => s) (fun _ => true) (fun _ => false) (TVariant [TInteger 0 5]) = COk (TInteger 0 5).
Proof. vm_compute. reflexivity. Qed.

(* Non-vacuity: Struct[{'a' => Optional[Integer[0, 5]], Optional['b'] => Tuple[String, Integer, 1, default],
   'c' => Array[0, 0], 'd' => Hash[String, Enum['x', true], 2, 3]}] satisfies the hypotheses, prints that text
   (the key of 'a' is written NotUndef['a'] because its value accepts undef) and is resolved back. *)
Example C05_types_nonvacuous :
  let au := fun t : ty => match t with TOptional _ | TAny | TUndef => true | _ => false end in
  let T := TStruct [ ([97]%N, (TStringVal [97]%N, TOptional (TInteger 0 5)));
                     ([98]%N, (TOptional (TStringVal [98]%N), TTuple [TString; TInteger min_int64 max_int64] true 1 max_int64));
                     ([99]%N, (TStringVal [99]%N, TArray TUnit 0 0));
                     ([100]%N, (TStringVal [100]%N, THash TString (TEnum true [[120]%N]) 2 3)) ] in
  c05_ok (fun s => s) T = true /\
  reparse (fun s => s) (fun _ => true) au T = COk T /\
  print_ty (fun _ => []) au T =
    [83;116;114;117;99;116;91;123;78;111;116;85;110;100;101;102;91;39;97;39;93;32;61;62;32;79;112;116;105;111;110;
     97;108;91;73;110;116;101;103;101;114;91;48;44;32;53;93;93;44;32;79;112;116;105;111;110;97;108;91;39;98;39;93;32;
     61;62;32;84;117;112;108;101;91;83;116;114;105;110;103;44;32;73;110;116;101;103;101;114;44;32;49;44;32;100;101;
     102;97;117;108;116;93;44;32;39;99;39;32;61;62;32;65;114;114;97;121;91;48;44;32;48;93;44;32;39;100;39;32;61;62;
     32;72;97;115;104;91;83;116;114;105;110;103;44;32;69;110;117;109;91;39;120;39;44;32;116;114;117;101;93;44;32;50;
     44;32;51;93;125;93]%N.
Proof. repeat split; vm_compute; reflexivity. Qed.

(* ------------------------------------------------------------------------------------------ *)
(* ---- container values: the printer on an object graph with aliasing ---- *)
Open Scope nat_scope.

(* For every heap of Array / Hash instances without cycles (instances numbered children before parents; any
   amount of sharing, any depth) and every reference into it: Array.ToString2 / Hash.ToString2 with the shared
   recursion detector write the tokens of the unfolded tree, nothing else, and the detector is empty again. *)
Theorem C05_print_shared_value :
  forall (h : heap) (r : ref), acyclic h = true -> ref_below (length h) r = true ->
    exists t, value_of h r = Some t /\ print_value h r = VOk (map PT (tokens_tree t), []).
Proof. exact print_value_shared. Qed.
Print Assumptions C05_print_shared_value.

(* In particular the text has no `<recursive reference>` marker (which the lexer rejects). *)
Theorem C05_print_no_recursive_marker :
  forall (h : heap) (r : ref), acyclic h = true -> ref_below (length h) r = true ->
    exists out, print_value h r = VOk (out, []) /\ existsb is_rec out = false /\
                exists t, value_of h r = Some t /\ strip out = tokens_tree t.
Proof. exact print_value_no_marker. Qed.
Print Assumptions C05_print_no_recursive_marker.

(* The tree of a literal value of layer L2 has the tokens that layer gives the literal (Model/TokenParse.v). *)
Theorem C05_tree_tokens_are_literal_tokens : forall v : pval, tokens_tree (tree_of v) = tokens_of v.
Proof. exact tokens_tree_of. Qed.
Print Assumptions C05_tree_tokens_are_literal_tokens.

(* Non-vacuity: one empty array instance at three positions and two depths, [e, [e], {'k' => e}], prints as
   [[], [[]], {'k' => []}]; the detector does its work on a graph WITH a cycle (an array that holds itself). *)
Example C05_shared_empty_array :
  let k := KString [107]%N in
  let h := [NArr []; NArr [RNode 0]; NHash [(RLeaf [k], RNode 0)]; NArr [RNode 0; RNode 1; RNode 2]] in
  acyclic h = true /\
  print_value h (RNode 3) =
    VOk (map PT [KLBracket; KLBracket; KRBracket; KComma; KLBracket; KLBracket; KRBracket; KRBracket; KComma;
                 KLBrace; k; KRocket; KLBracket; KRBracket; KRBrace; KRBracket], []).
Proof. split; vm_compute; reflexivity. Qed.

Example C05_cycle_prints_marker :
  acyclic [NArr [RNode 0]] = false /\
  print_value [NArr [RNode 0]] (RNode 0) = VOk ([PT KLBracket; PRec; PT KRBracket], []).
Proof. split; vm_compute; reflexivity. Qed.

(* Object types printed in full (model: Model/ObjectPrint.v): the attributes of an Object type against its init
   hash. Types and values are abstract (T = types up to px.Equals, V = values up to Equals) and everything the code
   asks about them is an oracle; the statements hold for EVERY oracle with the three laws of `oracle_ok` (px.Equals
   on types identifies; undef is the only value equal to undef; an Optional type takes undef).
   For EVERY list of attributes as InitFromHash leaves them (`wf_attr`, any kinds, any declared types - equal to,
   wider or narrower than the type of the value -, with and without values, final or not) with distinct names,
   initHash() succeeds and InitFromHash reads its result back as the same attributes, the constants written in the
   short form `constants => {name => value}` moved behind the others (`reorder`, a permutation; the attributes of
   an Object type are compared by name). *)
Theorem C05_object_init_hash_round_trip :
  forall (T V : Type) (O : oracle T V), oracle_ok O ->
  forall l : list (attr T V), Forall (wf_attr O) l -> NoDup (map (@a_name T V) l) ->
    exists h, init_hash O l = OOk h /\ init_from_hash O h = OOk (reorder O l).
Proof. exact init_hash_round_trip. Qed.
Print Assumptions C05_object_init_hash_round_trip.

Theorem C05_object_reorder_is_permutation :
  forall (T V : Type) (O : oracle T V) (l : list (attr T V)), Permutation l (reorder O l).
Proof. exact reorder_perm. Qed.
Print Assumptions C05_object_reorder_is_permutation.

(* The attributes as read back print the same init hash again (the text of the second generation is the same). *)
Theorem C05_object_prints_same :
  forall (T V : Type) (O : oracle T V), oracle_ok O ->
  forall l : list (attr T V), Forall (wf_attr O) l -> init_hash O (reorder O l) = init_hash O l.
Proof. exact init_hash_reorder. Qed.
Print Assumptions C05_object_prints_same.

(* Non-vacuity. Types: 0 Integer, 1 Numeric, 2 Optional[Integer], 3 String; values: 0 undef, 1 the integer 3,
   2 'x'. The attributes a: Integer constant 3 (short form), b: Numeric constant 3 (declared type WIDER than the
   type of the value: full form), c: Optional[Integer] with the implied value undef (the type alone),
   e: Optional[Integer] constant undef (keeps its value, fix 33f28f4), f: String, final, value 'x'. *)
Definition ex_oracle (wide_is_equal : bool) : oracle N N :=
  {| teq := fun a b => N.eqb a b || (wide_is_equal && N.eqb a 1 && N.eqb b 0);
     gen_type := fun v => match v with 1%N => 0%N | 2%N => 3%N | _ => 4%N end;
     is_optional := fun t => N.eqb t 2; optional_of := fun _ => 2%N;
     is_undef := fun v => N.eqb v 0; is_default := fun _ => false;
     is_instance := fun t v => match t, v with
                                | 0%N, 1%N | 1%N, 1%N | 2%N, 1%N | 2%N, 0%N | 3%N, 2%N | 4%N, 0%N => true
                                | _, _ => false end;
     undef := 0%N |}.
Definition ex_attrs : list (attr N N) :=
  [ {| a_name := [97]%N; a_type := 0%N; a_kind := KConstant; a_value := Some 1%N; a_final := true; a_override := false |};
    {| a_name := [98]%N; a_type := 1%N; a_kind := KConstant; a_value := Some 1%N; a_final := true; a_override := false |};
    {| a_name := [99]%N; a_type := 2%N; a_kind := KDefault; a_value := Some 0%N; a_final := false; a_override := false |};
    {| a_name := [101]%N; a_type := 2%N; a_kind := KConstant; a_value := Some 0%N; a_final := true; a_override := false |};
    {| a_name := [102]%N; a_type := 3%N; a_kind := KDefault; a_value := Some 2%N; a_final := true; a_override := false |} ].

Example C05_object_example :
  init_hash (ex_oracle false) ex_attrs =
    OOk {| h_attributes :=
             [ ([98]%N, MHash {| s_type := 1%N; s_final := Some true; s_override := None; s_kind := Some KConstant; s_value := Some 1%N |});
               ([99]%N, MBare 2%N);
               ([101]%N, MHash {| s_type := 2%N; s_final := Some true; s_override := None; s_kind := Some KConstant; s_value := Some 0%N |});
               ([102]%N, MHash {| s_type := 3%N; s_final := Some true; s_override := None; s_kind := None; s_value := Some 2%N |}) ];
           h_constants := [ ([97]%N, 1%N) ] |} /\
  (forall h, init_hash (ex_oracle false) ex_attrs = OOk h -> init_from_hash (ex_oracle false) h = OOk (reorder (ex_oracle false) ex_attrs)).
Proof. split; [vm_compute; reflexivity|]. intros h H. vm_compute in H. injection H as <-. vm_compute. reflexivity. Qed.

(* Why the test of the short form must be EQUALITY of the declared type with the type of the value: were a wider
   declared type (Numeric for 3) taken for equal, b would be written as `constants => {b => 3}` and read back with the
   type Integer - not the attribute it was. *)
Example C05_object_wider_constant_needs_full_form :
  let b t := {| a_name := [98]%N; a_type := t; a_kind := KConstant; a_value := Some 1%N; a_final := true; a_override := false |} in
  exists h l, init_hash (ex_oracle true) ex_attrs = OOk h /\ init_from_hash (ex_oracle false) h = OOk l /\
              In (b 0%N) l /\ ~ In (b 1%N) l.
Proof.
  cbv zeta. eexists. eexists. split; [vm_compute; reflexivity|]. split; [vm_compute; reflexivity|].
  split; [cbn; tauto|].
  intro H. cbn in H. repeat (destruct H as [H|H]; [discriminate H|]). exact H.
Qed.

(* ------------------------------------------------------------------------------------------ *)
(* ---- extensions of parameterized Object types: My::P[1, 'x'], My::P[default, 'x'], My::Q[{c => true}] ---- *)

(* Model/ObjectExt.v: an Object type that declares type_parameters is used with arguments; the extension keeps the
   GIVEN parameters by name (`default` = not given). Parameters() writes them positionally (`default` for a
   parameter that is not given, cut after the last given one) or, for a type with more than two parameters, as one
   Hash of named arguments - unless that Hash would be taken for the value of the first parameter (fix in
   objecttypeextension.go); NewObjectTypeExtension (called by the resolver with the parsed arguments) reads one Hash
   that is no instance of the first parameter's type as named arguments, everything else positionally.
   `inst` is the oracle px.IsInstance(type of the parameter named k, v): the statements hold for EVERY such oracle.
   For EVERY list of distinct parameter names (any number: one, two, three, more) and EVERY set of given parameters
   an extension can hold (`ext_wf`: any non-empty subset - only the first, only the second, only the last, all -,
   stored in any order), the arguments it prints are read back as an extension with the same parameters. *)
Theorem C05_ext_round_trip :
  forall (inst : str -> xval -> bool) (names : list str) (m : pmap),
    NoDup names -> ext_wf inst names m ->
    exists p, reparse_ext inst names m = XOk p /\ pmap_equal p m /\ ext_wf inst names p.
Proof. exact ext_round_trip. Qed.
Print Assumptions C05_ext_round_trip.

(* ... and that extension prints the same arguments again, provided IsInstance of a Hash does not depend on the order
   of its entries (the only thing asked of the oracle). *)
Theorem C05_ext_prints_same :
  forall (inst : str -> xval -> bool) (names : list str) (m p : pmap),
    NoDup names -> ext_wf inst names m ->
    (forall k a b, pmap_equal a b -> inst k (XHash a) = inst k (XHash b)) ->
    reparse_ext inst names m = XOk p ->
    parameters inst names p = parameters inst names m.
Proof. exact ext_prints_same. Qed.
Print Assumptions C05_ext_prints_same.

(* ext_wf is exactly what the constructor establishes: whatever arguments NewObjectTypeExtension accepts (by
   position, by name, with `default` anywhere, surplus arguments, a key given twice), the result satisfies it. *)
Theorem C05_ext_constructor_establishes_wf :
  forall (inst : str -> xval -> bool) (names : list str) (args : list xval) (p : pmap),
    initialize inst names args = XOk p -> ext_wf inst names p.
Proof. exact initialize_wf. Qed.
Print Assumptions C05_ext_constructor_establishes_wf.

(* Non-vacuity. Parameters a, b (and c); values 1 = XAtom 1, 'x' = XAtom 2, true = XAtom 3. Only the SECOND given:
   prints as [default, 'x'] and reads back; three parameters, only the last: the named form; when the first
   parameter takes any value (also a Hash) the positional form [default, default, true] is written instead. *)
Definition ex_inst (first_takes_hash : bool) (k : str) (v : xval) : bool :=
  match v with
  | XAtom n => (str_eqb k [97] && N.eqb n 1) || (str_eqb k [98] && N.eqb n 2) || (str_eqb k [99] && N.eqb n 3)
               || (first_takes_hash && str_eqb k [97])
  | XHash _ => first_takes_hash && str_eqb k [97]
  | XDefault => false
  end%N.
Example C05_ext_second_parameter_only :
  parameters (ex_inst false) [[97]; [98]]%N [([98]%N, XAtom 2)] = [XDefault; XAtom 2] /\
  reparse_ext (ex_inst false) [[97]; [98]]%N [([98]%N, XAtom 2)] = XOk [([98]%N, XAtom 2)] /\
  initialize (ex_inst false) [[97]; [98]]%N [XHash [([98]%N, XAtom 2); ([97]%N, XAtom 1)]] = XOk [([98]%N, XAtom 2); ([97]%N, XAtom 1)] /\
  reparse_ext (ex_inst false) [[97]; [98]]%N [([98]%N, XAtom 2); ([97]%N, XAtom 1)] = XOk [([97]%N, XAtom 1); ([98]%N, XAtom 2)] /\
  initialize (ex_inst false) [[97]; [98]]%N [XDefault; XDefault] = XErr XEmptyList.
Proof. vm_compute. repeat split. Qed.
Example C05_ext_three_parameters :
  parameters (ex_inst false) [[97]; [98]; [99]]%N [([99]%N, XAtom 3)] = [XHash [([99]%N, XAtom 3)]] /\
  reparse_ext (ex_inst false) [[97]; [98]; [99]]%N [([99]%N, XAtom 3)] = XOk [([99]%N, XAtom 3)] /\
  parameters (ex_inst true) [[97]; [98]; [99]]%N [([99]%N, XAtom 3)] = [XDefault; XDefault; XAtom 3] /\
  reparse_ext (ex_inst true) [[97]; [98]; [99]]%N [([99]%N, XAtom 3)] = XOk [([99]%N, XAtom 3)] /\
  (* what the named form would be read as there: the value of the first parameter (the defect repaired) *)
  initialize (ex_inst true) [[97]; [98]; [99]]%N [XHash [([99]%N, XAtom 3)]] = XOk [([97]%N, XHash [([99]%N, XAtom 3)])].
Proof. vm_compute. repeat split. Qed.

(* ------------------------------------------------------------------------------------------ *)
(* ---- the parser: tokens <-> expressions (layer L2) ---- *)

(* Which expressions are printable (Model/TokenParse.v `printable`): integers of 64 bits, regexps that compile
   (rx_ok = regexp.Compile succeeds, an oracle), no bare `k => v` entry outside a hash, no empty parameter list;
   everything else - undef, default, booleans, floats (the token text is kept), strings of any content, type names,
   arrays, hashes, parameter lists, nested to any depth - without condition.
   For EVERY printable expression v, EVERY continuation k whose first token does not open an argument list (in printed
   text the token after a value is one of , ] } => or the end) and every fuel >= 2 tokens' worth: element() +
   handleTypeArgs() on tokens_of v ++ k yield v, consume exactly tokens_of v and return the first token of k as the
   look-ahead, leaving the rest of k. *)
Theorem C05_parse_print :
  forall (rx_ok : str -> bool) (v : pval), printable rx_ok v = true ->
  forall (k : list tok) (fuel : nat), no_args (fst (next k)) = true -> 2 * length (tokens_of v) <= fuel ->
    pvalue rx_ok fuel (fst (next (tokens_of v ++ k))) (snd (next (tokens_of v ++ k)))
    = POk (Some v, fst (next k), snd (next k)).
Proof. exact pvalue_tokens_of. Qed.
Print Assumptions C05_parse_print.

(* Hence types.Parse on the tokens of a printable expression (with the fuel parse_tokens gives itself) is that expression. *)
Theorem C05_parse_print_whole :
  forall (rx_ok : str -> bool) (v : pval), printable rx_ok v = true -> parse_tokens rx_ok (tokens_of v) = POk v.
Proof. exact parse_tokens_of. Qed.
Print Assumptions C05_parse_print_whole.

(* Why `printable` excludes an empty parameter list and a bare entry: `Name[]` is a syntax error, and an entry in an
   array is read back as a hash. *)
Example C05_unprintable_expressions :
  parse_tokens (fun _ => true) (tokens_of (PVType [65]%N (Some []))) = PErr /\
  parse_tokens (fun _ => true) (tokens_of (PVArr [PVEntry PVUndef PVDefault])) = POk (PVArr [PVHash [(PVUndef, PVDefault)]]).
Proof. split; vm_compute; reflexivity. Qed.

(* Non-vacuity: Struct[{'a' => Optional[Integer[0, 5]], NotUndef['b'] => /x/}] followed by `, 1.5]` *)
Example C05_parse_print_nonvacuous :
  let v := PVType [83;116;114;117;99;116]%N
             (Some [PVHash [(PVStr [97]%N, PVType [79;112;116]%N (Some [PVType [73;110;116]%N (Some [PVInt 0; PVInt 5])]));
                            (PVType [78;111;116]%N (Some [PVStr [98]%N]), PVRegexp [120]%N)]]) in
  let k := [KComma; KFloat [49;46;53]%N; KRBracket] in
  printable (fun _ => true) v = true /\ length (tokens_of v) = 23 /\
  pvalue (fun _ => true) 46 (fst (next (tokens_of v ++ k))) (snd (next (tokens_of v ++ k)))
  = POk (Some v, KComma, [KFloat [49;46;53]%N; KRBracket]).
Proof. repeat split; vm_compute; reflexivity. Qed.

(* ---- the output of the type printer is printable (layers L2 + L3 meet) ---- *)

(* Model/TypeExpr.v: expr_of_ty T = the expression T.String() stands for (name + Parameters(), nested types recursively;
   the recursion of print_ty with expressions for texts). For EVERY type T whose integer bounds are 64 bit integers and
   whose regexps compile (ty_lits_ok; any float rendering, any undef-acceptance oracle) that expression is printable ... *)
Theorem C05_type_expression_printable :
  forall (float_text : Z -> str) (accepts_undef : ty -> bool) (rx_ok : str -> bool) (T : ty),
    ty_lits_ok rx_ok T = true -> printable rx_ok (expr_of_ty float_text accepts_undef T) = true.
Proof. exact expr_of_ty_printable. Qed.
Print Assumptions C05_type_expression_printable.

(* ... so the parser makes exactly that expression of the tokens a type prints as. *)
Theorem C05_parse_type_tokens :
  forall (float_text : Z -> str) (accepts_undef : ty -> bool) (rx_ok : str -> bool) (T : ty),
    ty_lits_ok rx_ok T = true ->
    parse_tokens rx_ok (tokens_of (expr_of_ty float_text accepts_undef T)) = POk (expr_of_ty float_text accepts_undef T).
Proof. exact parse_tokens_of_ty. Qed.
Print Assumptions C05_parse_type_tokens.

(* Non-vacuity: Struct[{NotUndef['a'] => Optional[Integer[0, 5]], 'c' => Array[0, 0]}] *)
Example C05_type_expression_nonvacuous :
  let au := fun t : ty => match t with TOptional _ | TAny | TUndef => true | _ => false end in
  let T := TStruct [ ([97]%N, (TStringVal [97]%N, TOptional (TInteger 0 5)));
                     ([99]%N, (TStringVal [99]%N, TArray TUnit 0 0)) ] in
  ty_lits_ok (fun _ => true) T = true /\
  expr_of_ty (fun _ => []) au T =
    PVType [83;116;114;117;99;116]%N
      (Some [PVHash [(PVType [78;111;116;85;110;100;101;102]%N (Some [PVStr [97]%N]),
                      PVType [79;112;116;105;111;110;97;108]%N (Some [PVType [73;110;116;101;103;101;114]%N (Some [PVInt 0; PVInt 5])]));
                     (PVStr [99]%N, PVType [65;114;114;97;121]%N (Some [PVInt 0; PVInt 0]))]]) /\
  lex_text ascii_letter (print_ty (fun _ => []) au T) = LOk (tokens_of (expr_of_ty (fun _ => []) au T)) [].
Proof. repeat split; vm_compute; reflexivity. Qed.

(* ---- literal values, end to end at the level of characters (layers L1 + L2) ---- *)

(* Model/LiteralText.v: print_lit = px.ToString2(v, Program) of a literal value; lex_all = the whole lexer (nextToken
   until the end token) built on the token readers of layer L1.
   The fragment `lit_ok`: undef, default, booleans, 64 bit integers, strings that are text without U+FFFD (open
   finding), regexps RegexpQuote can represent (open finding), arrays and hashes of these nested to any depth.
   For EVERY such v and EVERY text k that follows it (nothing, or text starting with , ] } or a space): the lexer
   reads print_lit v ++ k as the tokens of v followed by the tokens of k. *)
Theorem C05_lex_literal_text :
  forall (is_letter : N -> bool) (v : pval), lit_ok v = true ->
  forall (k : str) (ts : list tok) (f : nat) (r : str), lit_stop k = true -> lex_all is_letter f k = LOk ts r ->
    lex_all is_letter (length (tokens_of v) + f) (print_lit v ++ k) = LOk (tokens_of v ++ ts) r.
Proof. exact lex_print_lit. Qed.
Print Assumptions C05_lex_literal_text.

(* print, lex, parse: the value comes back. Given lit_ok, `printable rx_ok v` only adds that the regexps in v compile
   (regexp.Compile, an oracle); the fuel of the lexer is one unit per token, any larger amount gives the same. *)
Theorem C05_literal_round_trip :
  forall (is_letter : N -> bool) (v : pval) (f : nat), lit_ok v = true -> length (tokens_of v) < f ->
    exists ts, lex_all is_letter f (print_lit v) = LOk ts [] /\
               forall rx_ok, printable rx_ok v = true -> parse_tokens rx_ok ts = POk v.
Proof. exact parse_lex_print_lit. Qed.
Print Assumptions C05_literal_round_trip.

(* Non-vacuity: [-12, 'a', {undef => /x/, true => []}, "\u{1}", default] *)
Example C05_literal_round_trip_nonvacuous :
  let v := PVArr [PVInt (-12); PVStr [97]%N; PVHash [(PVUndef, PVRegexp [120]%N); (PVBool true, PVArr [])]; PVStr [1]%N; PVDefault] in
  lit_ok v = true /\
  print_lit v = [91;45;49;50;44;32;39;97;39;44;32;123;117;110;100;101;102;32;61;62;32;47;120;47;44;32;116;114;117;101;32;61;62;32;
                 91;93;125;44;32;34;92;117;123;49;125;34;44;32;100;101;102;97;117;108;116;93]%N /\
  lex_text ascii_letter (print_lit v) = LOk (tokens_of v) [] /\
  parse_tokens (fun _ => true) (tokens_of v) = POk v.
Proof. repeat split; vm_compute; reflexivity. Qed.

(* Outside the fragment, on the model: a float is printed and read by Go's fmt / strconv (the model keeps the token
   text); a string with U+FFFD is not lexed (open finding). *)
Example C05_literal_outside_fragment :
  lit_ok (PVFloat [49;46;53]%N) = false /\ lit_ok (PVStr [239;191;189]%N) = false /\
  lex_text ascii_letter (print_lit (PVStr [239;191;189]%N)) = LErr EBadToken.
Proof. repeat split; vm_compute; reflexivity. Qed.
