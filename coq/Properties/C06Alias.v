(* C06, resolve clause, the walk over a set of named alias declarations: ONLY statements (each closed by `exact`),
   `Print Assumptions` beneath, non-vacuity examples.

   Model: Model/ResolveAlias.v - typeSet.Resolve over the members (types/typeset.go:412-438), TypeAliasType.Resolve with
   its resolved / being-resolved state (types/typealiastype.go:155-165), DeferredType.Resolve of the expressions
   (types/deferredtype.go:56-76 with resolver.go: core type / loader / TypeReference, arguments first, then the
   creator), the Resolve of containers and TypeReference on a type value, and the one place where resolving one alias
   asks for another: the parent of an Object type written in place (types/objecttype.go:383-400) with the walk
   resolvedParent over the aliases (objecttype.go:1337-1362). The loader is the finite map of declarations.
   The code has NO error for an alias that leads only to itself (A = A, A = Variant[A], A = B with B = A): such a set
   resolves, and the theorems say so. *)
From Coq Require Import List Arith Bool.
From PcoreV Require Import Model.ResolveAlias Proofs.ResolveAliasProofs Proofs.ResolveAliasPrintProofs
  Proofs.ResolveAliasPrintMono.
Import ListNotations.

(* ---- (1) the walk ends ---------------------------------------------------------------------------- *)

(* For EVERY state of EVERY finite set of declarations (whatever is resolved, being resolved or untouched) and every
   expression: fuel = size of the expression + the sizes (+1 each) of the declarations nobody has asked for yet
   is enough - the result is a type (with a state that has not grown in weight) or a reported error. An alias is
   entered at most once: entering it takes its size off the weight. *)
Theorem C06_alias_expression_walk_total :
  forall (st : state) (e : aexp) (fuel : nat),
    esize e + weight st <= fuel -> dt_resolve fuel st e <> ROutOfFuel.
Proof. exact dt_resolve_total. Qed.
Print Assumptions C06_alias_expression_walk_total.

Theorem C06_alias_resolve_total :
  forall (st : state) (n : nat) (fuel : nat),
    1 + weight st <= fuel -> alias_resolve fuel st n <> ROutOfFuel.
Proof. exact alias_resolve_total. Qed.
Print Assumptions C06_alias_resolve_total.

(* typeSet.Resolve over any list of declarations, and any expression resolved against any set *)
Theorem C06_alias_set_total :
  forall decls : list (nat * aexp), resolve_all decls <> ROutOfFuel.
Proof. exact resolve_all_total. Qed.
Print Assumptions C06_alias_set_total.

Theorem C06_alias_expression_in_set_total :
  forall (decls : list (nat * aexp)) (e : aexp), resolve_in decls e <> ROutOfFuel.
Proof. exact resolve_in_total. Qed.
Print Assumptions C06_alias_expression_in_set_total.

(* the walk up the parents over aliases that refer to each other in any way (a circle included) ends within
   1 + number of declarations rounds *)
Theorem C06_alias_parent_walk_total :
  forall (st : state) (tp : rty), resolved_parent st tp <> POutOfFuel.
Proof. exact resolved_parent_ends. Qed.
Print Assumptions C06_alias_parent_walk_total.

(* ---- (2) which outcome ----------------------------------------------------------------------------- *)

(* A set whose expressions hold no Object type with a parent written in place and no arguments to a name that is no
   core type resolves, and every declared alias has a resolved type afterwards: chains, forward references, circles
   through Array / Hash, circles through Variant and aliases only (A = A, A = Variant[A], A = B and B = A - the code
   has no error for them), undeclared names (they become TypeReference types). *)
Theorem C06_alias_plain_set_resolves :
  forall decls : list (nat * aexp),
    forallb (fun d => plain (snd d)) decls = true ->
    exists st, resolve_all decls = ROk st TCore /\ forall n, In n (map fst decls) -> done st n.
Proof. exact plain_set_resolves. Qed.
Print Assumptions C06_alias_plain_set_resolves.

(* an undeclared name: a TypeReference where it stands; PCORE_UNRESOLVED_TYPE as the parent of an Object type, directly
   or inside a container *)
Theorem C06_alias_undeclared_name :
  forall (st : state) (n : nat) (k : k1) (f : nat),
    lookup st n = None ->
    dt_resolve (S f) st (XName n) = ROk st (TRef n) /\
    dt_resolve (S (S f)) st (XObj (XName n)) = RErr EUnresolvedType /\
    dt_resolve (S (S (S f))) st (XObj (XCont1 k (XName n))) = RErr EUnresolvedType.
Proof.
  exact (fun st n k f H => conj (undeclared_is_reference st n f H)
                          (conj (undeclared_parent st n f H) (undeclared_parent_in_container st n k f H))).
Qed.
Print Assumptions C06_alias_undeclared_name.

(* Name[argument] for a name that is no core type: NOT_PARAMETERIZED_TYPE when declared, the creator of TypeReference
   rejects a type argument otherwise - and words the error with the type of the argument: what leaves is
   ILLEGAL_ARGUMENT_TYPE or, when the printer asks an alias without resolved type, UNRESOLVED_TYPE (section 4) *)
Theorem C06_alias_with_arguments :
  forall (st : state) (n : nat) (a : aexp) (f : nat),
    plain a = true -> esize a <= f ->
    exists t, dt_resolve f st a = ROk st t /\
    dt_resolve (S f) st (XArgs n a) =
      RErr (match lookup st n with
            | Some _ => ENotParameterized
            | None => worded EIllegalArgument EIllegalArgumentOrUnresolved (print_pred st t)
            end).
Proof. exact alias_with_arguments. Qed.
Print Assumptions C06_alias_with_arguments.

(* the alias under resolution as the parent of an Object type in its own expression (re-entrant Resolve, fix 32b5790):
   PCORE_UNRESOLVED_TYPE; a resolved alias of itself: the walk meets it twice, PCORE_ILLEGAL_OBJECT_INHERITANCE; a
   resolved alias of anything that is neither Object nor alias: PCORE_ILLEGAL_OBJECT_INHERITANCE *)
Theorem C06_alias_parent_under_resolution :
  forall (st : state) (n : nat) (d : aexp) (f : nat),
    lookup st n = Some (d, SResolving) -> dt_resolve (S (S (S f))) st (XObj (XName n)) = RErr EUnresolvedType.
Proof. exact parent_under_resolution. Qed.
Print Assumptions C06_alias_parent_under_resolution.

Theorem C06_alias_self_alias_parent :
  forall (st : state) (n : nat) (d : aexp) (f : nat),
    lookup st n = Some (d, SDone (TAlias n)) ->
    dt_resolve (S (S (S f))) st (XObj (XName n)) = RErr EIllegalInheritance.
Proof. exact self_alias_parent. Qed.
Print Assumptions C06_alias_self_alias_parent.

Theorem C06_alias_non_object_parent :
  forall (st : state) (n : nat) (d : aexp) (t : rty) (f : nat),
    lookup st n = Some (d, SDone t) -> (match t with TObj | TAlias _ => False | _ => True end) ->
    dt_resolve (S (S (S f))) st (XObj (XName n)) =
      RErr (worded EIllegalInheritance EIllegalInheritanceOrUnresolved (print_pred st t)).
Proof. exact non_object_parent. Qed.
Print Assumptions C06_alias_non_object_parent.

(* ---- (4) the wording of the two errors that print a type (depth pass 7) ----------------------------------
   The walk of sections 1-3 now INCLUDES the printer: types.go:212 and objecttype.go:1379-1382 word the error with
   Type[t], the printer folds commonType over every parameter list of two, and the assignability test behind it asks
   aliases for their resolved type (Model/ResolveAlias.v asg / common_pred / print_walk / print_pred). All theorems of
   section 1 are about this extended walk: it ends within the same fuel (the printer has its own depth bound and
   answers "not predicted" beyond it: the error is then one of the two, class 21 / 41). *)

(* whatever the walk ends with, it is a type, or one of the reported errors (four codes; 21 / 41: one of two codes) -
   out of fuel is excluded by C06_alias_expression_walk_total; the model has no other outcome *)
Theorem C06_alias_error_is_reported :
  forall (c : ecode), In (rres_class (RErr c)) [1; 2; 3; 4; 21; 41].
Proof. exact error_is_reported. Qed.
Print Assumptions C06_alias_error_is_reported.

Theorem C06_alias_wording_hands_on :
  forall (c either : ecode) (p : ppred),
    worded c either p = c \/ worded c either p = EUnresolvedType \/ worded c either p = either.
Proof. exact worded_cases. Qed.
Print Assumptions C06_alias_wording_hands_on.

(* WHEN the wording cannot raise: every alias that occurs in the type, and in the resolved type of every alias of the
   state, has a resolved type (induction on the depth of the assignability test over its mutual recursion, every
   state, every guard): the assignability test never reaches ResolvedType() of an alias without one *)
Theorem C06_alias_assignability_never_raises :
  forall (st : state), st_closed st -> forall (fuel : nat) (g : list (aty * aty)) (a b : aty),
    aclosed st a -> aclosed st b -> asg fuel st g a b <> TRaise /\ asg_left fuel st g a b <> TRaise.
Proof.
  exact (fun st Hst fuel g a b Ha Hb =>
           conj (proj1 (asg_closed_no_raise st Hst fuel) g a b Ha Hb) (proj2 (asg_closed_no_raise st Hst fuel) g a b Ha Hb)).
Qed.
Print Assumptions C06_alias_assignability_never_raises.

(* the depth bound of the assignability test never changes an answer: what the test answers (true / false / raises)
   with some depth it answers with every larger one - beyond the bound the model says `not predicted`, never something
   a deeper look would take back *)
Theorem C06_alias_assignability_answer_stable :
  forall (st : state) (g : list (aty * aty)) (a b : aty) (r : tri) (d f : nat),
    asg f st g a b = r -> r <> TUnk -> asg (d + f) st g a b = r.
Proof. exact asg_stable. Qed.
Print Assumptions C06_alias_assignability_answer_stable.

Theorem C06_alias_wording_resolved_never_raises :
  forall (st : state) (t : rty), st_closed st -> closed st t -> print_pred st t <> PRaises.
Proof. exact print_pred_closed. Qed.
Print Assumptions C06_alias_wording_resolved_never_raises.

(* WHEN it raises / does not, on the shapes the run meets: one parameter asks nobody; Integer next to an alias without
   resolved type (either order, Hash / Tuple / Variant) raises; two different aliases without resolved type do not *)
Theorem C06_alias_wording_single_parameter :
  forall (st : state) (k : k1) (n : nat), print_pred st (TC1 k (TAlias n)) = PFine.
Proof. exact single_parameter_fine. Qed.
Print Assumptions C06_alias_wording_single_parameter.

Theorem C06_alias_wording_raises_next_to_core :
  forall (st : state) (k : k2) (n : nat) (d : aexp) (s : slot),
    lookup st n = Some (d, s) -> (forall t, s <> SDone t) ->
    print_pred st (TC2 k TCore (TAlias n)) = PRaises /\ print_pred st (TC2 k (TAlias n) TCore) = PRaises.
Proof. exact alias_next_to_core_raises. Qed.
Print Assumptions C06_alias_wording_raises_next_to_core.

Theorem C06_alias_wording_two_unresolved :
  forall (st : state) (k : k2) (n m : nat),
    Nat.eqb n m = false -> unresolved st n -> unresolved st m ->
    print_pred st (TC2 k (TAlias n) (TAlias m)) = PFine.
Proof. exact two_unresolved_fine. Qed.
Print Assumptions C06_alias_wording_two_unresolved.

(* ---- examples (names: 0 = A, 1 = B, 2 = C, 9 = undeclared) ------------------------------------------ *)

(* A = B, B = C, C = A: resolves, every alias is an alias of the next *)
Example C06_alias_circle :
  resolved_heads (resolve_all [(0, XName 1); (1, XName 2); (2, XName 0)]) = [2; 2; 2].
Proof. vm_compute. reflexivity. Qed.
(* A = Variant[A] (the alias itself), B = Hash[B, Undeclared], C = Array[A] *)
Example C06_alias_self_variant :
  resolved_heads (resolve_all [(0, XVar1 (XName 0)); (1, XCont2 KHash (XName 1) (XName 9)); (2, XCont1 KArray (XName 0))]) = [2; 3; 3].
Proof. vm_compute. reflexivity. Qed.
(* A = Array[Object[{parent => A}]]: the stack overflow of the pinned tree (fix 32b5790), PCORE_UNRESOLVED_TYPE now *)
Example C06_alias_own_parent :
  resolve_all [(0, XCont1 KArray (XObj (XName 0)))] = RErr EUnresolvedType.
Proof. vm_compute. reflexivity. Qed.
(* A = Array[Object[{parent => B}]], B = Variant[Object[{}]]: B is resolved from inside A, the parent is an Object *)
Example C06_alias_parent_resolved_on_demand :
  resolved_heads (resolve_all [(0, XCont1 KArray (XObj (XName 1))); (1, XVar1 XObj0)]) = [3; 4].
Proof. vm_compute. reflexivity. Qed.
(* .. but not through a second alias that nobody has asked for: B = C is resolved, C is not *)
Example C06_alias_parent_forward_chain :
  resolve_all [(0, XCont1 KArray (XObj (XName 1))); (1, XName 2); (2, XVar1 XObj0)] = RErr EUnresolvedType.
Proof. vm_compute. reflexivity. Qed.
(* A = B, B = C, C = A, D = Array[Object[{parent => A}]]: the circle is an illegal parent *)
Example C06_alias_circle_parent :
  resolve_all [(0, XName 1); (1, XName 2); (2, XName 0); (3, XCont1 KArray (XObj (XName 0)))] = RErr EIllegalInheritance.
Proof. vm_compute. reflexivity. Qed.
(* the fuel bound is not idle: Object[{parent => A}] against A = Array[Object[{parent => A}]] enters A and comes back to
   it; with less fuel than the depth of that walk the answer is out of fuel, with the stated bound it is the error *)
Example C06_alias_fuel_is_needed :
  dt_resolve 3 (init_state [(0, XCont1 KArray (XObj (XName 0)))]) (XObj (XName 0)) = ROutOfFuel /\
  resolve_in [(0, XCont1 KArray (XObj (XName 0)))] (XObj (XName 0)) = RErr EUnresolvedType.
Proof. vm_compute. split; reflexivity. Qed.
(* A = U[Hash[Integer, A]]: the creator of TypeReference rejects the argument, wording it asks A (under resolution)
   whether it accepts Integer: PCORE_UNRESOLVED_TYPE leaves; A = U[Array[A]]: nobody is asked, ILLEGAL_ARGUMENT_TYPE *)
Example C06_alias_wording_raises :
  resolve_all [(0, XArgs 9 (XCont2 KHash XCore (XName 0)))] = RErr EUnresolvedType /\
  resolve_all [(0, XArgs 9 (XCont1 KArray (XName 0)))] = RErr EIllegalArgument.
Proof. vm_compute. split; reflexivity. Qed.
(* A = Hash[Integer, B], B = Array[Object[{parent => A}]]: A is an illegal parent, worded with Hash[Integer, B] while B
   has no resolved type *)
Example C06_alias_wording_raises_parent :
  resolve_all [(0, XCont2 KHash XCore (XName 1)); (1, XCont1 KArray (XObj (XName 0)))] = RErr EUnresolvedType.
Proof. vm_compute. reflexivity. Qed.
(* the assignability test itself: A (under resolution) asked whether it accepts Integer raises; Integer asked whether
   it accepts A answers false (the nil resolved type); depth 1 is not enough for the first *)
Example C06_alias_assignability_raises :
  asg 2 [(0, (XCore, SResolving))] [] (AT (TAlias 0)) (AT TCore) = TRaise /\
  asg 2 [(0, (XCore, SResolving))] [] (AT TCore) (AT (TAlias 0)) = TF /\
  asg 1 [(0, (XCore, SResolving))] [] (AT (TAlias 0)) (AT TCore) = TUnk.
Proof. vm_compute. repeat split; reflexivity. Qed.
