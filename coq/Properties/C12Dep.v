(* C12, dependency loader with module loaders (loader/dependency.go): the module-qualified routing clause.
   ONLY statements; proofs in Proofs/LoaderDepProofs.v and Proofs/LoaderDepCorollaries.v.
   History = operations `pre` on a loader tree (Model/Loader.v), then px.NewDependencyLoader(mods) where every module
   loader is a loader of that tree with the name its ModuleName() answers, then operations `ds` on the tree (the
   module side) and on the dependency loader (Model/LoaderDep.v), arbitrarily interleaved. *)
From Coq Require Import NArith Bool List.
From PcoreV Require Import Model.Base Model.Loader Model.LoaderSpec Model.LoaderDep Model.LoaderDepChild
  Proofs.LoaderProofs Proofs.LoaderDepProofs Proofs.LoaderDepCorollaries Proofs.LoaderDepChildProofs.
Import ListNotations.

(* Every result of every history - entries, error codes, and the list of module loaders each lookup asks, in order -
   is that of the specification: own write-once binding first; else a name qualified by a module's name through that
   module's loader only; else the module loaders in order, the first that resolves; a value found becomes the
   dependency loader's own binding, a miss leaves no trace. *)
Theorem C12_dep_refines :
  forall cfg pre mods ds,
  cfg_wf cfg = true -> forallb op_wf pre = true -> mods_ok (fst (run cfg pre)) mods = true ->
  forallb dop_wf ds = true ->
  map dproject (douts cfg pre mods ds) = dspec_outs cfg pre mods ds.
Proof. exact dep_refines. Qed.
Print Assumptions C12_dep_refines.

Theorem C12_dep_state_refines :
  forall cfg pre mods ds,
  cfg_wf cfg = true -> forallb op_wf pre = true -> mods_ok (fst (run cfg pre)) mods = true ->
  forallb dop_wf ds = true ->
  dabs (fst (drun cfg pre mods ds)) = fst (dspec_run cfg pre mods ds).
Proof. exact dep_state_refines. Qed.
Print Assumptions C12_dep_state_refines.

(* no runtime fault, never stuck; LoadEntry of the dependency loader never answers nil; a reported error only
   from a definition (AttemptToRedefine / AttemptToRedefineType); GetEntry / HasEntry / SetEntry ask no module loader *)
Theorem C12_dep_no_fault :
  forall cfg pre mods ds,
  cfg_wf cfg = true -> forallb op_wf pre = true -> mods_ok (fst (run cfg pre)) mods = true ->
  forallb dop_wf ds = true ->
  Forall2 (fun d r => dout_ok d r = true) ds (douts cfg pre mods ds).
Proof. exact dep_results_classified. Qed.
Print Assumptions C12_dep_no_fault.

(* for EVERY module list: the index (LoaderFor, and the routing) holds for a name the LAST module loader of the list
   that answers to it; loaders without a name are not indexed *)
Theorem C12_dep_index_last :
  forall (ms : modset) m l,
  dep_index ms m = Some l <->
  exists ms1 ms2, ms = ms1 ++ (m, l) :: ms2 /\ nonempty m = true /\ forall kv, In kv ms2 -> fst kv <> m.
Proof. exact dep_index_some. Qed.
Print Assumptions C12_dep_index_last.

(* ROUTING.  After any history, for every module list: a name `m::rest` (first part m, more parts follow) where m is
   the name of a module with loader l, not bound in the dependency loader itself, is looked up by asking exactly the
   loader l - the list of loaders asked is [l] -, the answer is the answer of l.LoadEntry (a miss projected), and the
   loader tree afterwards is the one that l.LoadEntry alone leaves: no other module loader is touched. *)
Theorem C12_dep_routing :
  forall cfg pre mods,
  cfg_wf cfg = true -> forallb op_wf pre = true -> mods_ok (fst (run cfg pre)) mods = true ->
  forall ds n0 m rest l,
  forallb dop_wf ds = true -> tn_wf (norm n0) = true ->
  parts (norm n0) = m :: rest -> rest <> [] -> dep_index mods m = Some l ->
  dresult_after cfg pre mods ds (DGetEntry n0) = DR (REntry ENone) [] ->
  exists x,
    dresult_after cfg pre mods ds (DBase (OLoadEntry l n0)) = DB x /\
    dproject (dresult_after cfg pre mods ds (DLoadEntry n0)) = DR (project x) [l] /\
    fst (fst (dstep cfg mods (fst (drun cfg pre mods ds)) (DLoadEntry n0))) =
    fst (fst (dstep cfg mods (fst (drun cfg pre mods ds)) (DBase (OLoadEntry l n0)))).
Proof. exact dep_routing. Qed.
Print Assumptions C12_dep_routing.

(* THE OTHER NAMES (not qualified, or qualified by no module's name), not bound in the dependency loader itself:
   the module loaders are asked in the order of the list up to and including the first that resolves the name, whose
   value is the answer; if none resolves it, all are asked and the answer is a miss. *)
Theorem C12_dep_first_wins :
  forall cfg pre mods,
  cfg_wf cfg = true -> forallb op_wf pre = true -> mods_ok (fst (run cfg pre)) mods = true ->
  forall ds n0 r tr,
  forallb dop_wf ds = true -> tn_wf (norm n0) = true ->
  route mods (norm n0) = None ->
  dresult_after cfg pre mods ds (DGetEntry n0) = DR (REntry ENone) [] ->
  dproject (dresult_after cfg pre mods ds (DLoadEntry n0)) = DR r tr ->
  let a := abs (fst (fst (drun cfg pre mods ds))) in
  (exists v ms1 k l ms2, r = REntry (EVal v) /\ mods = ms1 ++ (k, l) :: ms2 /\
      (forall kv, In kv ms1 -> spec_resolve_top a (snd kv) (norm n0) = Some None) /\
      spec_resolve_top a l (norm n0) = Some (Some v) /\ tr = map snd ms1 ++ [l])
  \/ (r = REntry ENone /\ (forall kv, In kv mods -> spec_resolve_top a (snd kv) (norm n0) = Some None) /\ tr = map snd mods).
Proof. exact dep_first_wins. Qed.
Print Assumptions C12_dep_first_wins.

(* NO REBINDING.  Once the dependency loader answered a name with a value - found through a module loader or defined -
   it answers every name of the same key with that value after ANY further history (definitions in the module
   loaders and their ancestors, other lookups, rejected redefinitions), and asks no module loader for it. *)
Theorem C12_dep_sticky :
  forall cfg pre mods,
  cfg_wf cfg = true -> forallb op_wf pre = true -> mods_ok (fst (run cfg pre)) mods = true ->
  forall ds ds' n0 n1 v tr,
  forallb dop_wf ds = true -> forallb dop_wf ds' = true -> tn_wf (norm n0) = true -> tn_wf (norm n1) = true ->
  map_key (norm n1) = map_key (norm n0) ->
  dresult_after cfg pre mods ds (DLoadEntry n0) = DR (REntry (EVal v)) tr ->
  dresult_after cfg pre mods (ds ++ DLoadEntry n0 :: ds') (DLoadEntry n1) = DR (REntry (EVal v)) [].
Proof. exact dep_sticky. Qed.
Print Assumptions C12_dep_sticky.

(* ---------------------------------------------------------------------------------------------- *)
(* Non-vacuity: two modules `a` (loader 1, a fresh root) and `b` (loader 3, a child of the fresh root 2) *)
Definition dx_auth : str := [114]%N.
Definition dx_ns : str := [120]%N.
Definition dv0 := mkV 0 None false.
Definition dv1 := mkV 1 None false.
Definition dv2 := mkV 2 None false.
Definition dx_cfg : config := mkCfg dx_auth [] [].
Definition s_a : str := [97]%N.
Definition s_b : str := [98]%N.
Definition n_ax := mkTn dx_auth dx_ns [97;58;58;120]%N.     (* a::x *)
Definition n_AX := mkTn dx_auth dx_ns [65;58;58;88]%N.      (* A::X *)
Definition n_bx := mkTn dx_auth dx_ns [98;58;58;120]%N.     (* b::x *)
Definition n_y := mkTn dx_auth dx_ns [121]%N.               (* y *)
Definition n_cz := mkTn dx_auth dx_ns [99;58;58;122]%N.     (* c::z *)
(* loaders: 0 static, 1 fresh root, 2 fresh root, 3 parented over 2 *)
Definition dx_pre : list op :=
  [ONewDep; ONewDep; ONewParented 2;
   ODefine 1 n_ax dv0;       (* module a binds a::x *)
   ODefine 2 n_ax dv1;       (* the root of module b binds a::x too: never asked for it *)
   ODefine 3 n_y dv2].       (* module b binds y *)
Definition dx_mods : modset := [(s_a, 1); (s_b, 3)].
Definition dx_ds : list dop :=
  [DLoaderFor s_a; DLoaderFor [99]%N;
   DLoadEntry n_bx;                     (* routed to b only: a miss, not cached *)
   DGetEntry n_bx;
   DLoadEntry n_ax;                     (* routed to a only *)
   DLoadEntry n_y;                      (* not qualified: a asked first, then b *)
   DLoadEntry n_cz;                     (* qualified by no module: all asked *)
   DBase (ODefine 1 n_bx dv0);          (* module a binds b::x: invisible, b::x is routed to b *)
   DLoadEntry n_bx;
   DBase (ODefine 2 n_bx dv1);          (* an ancestor of module b binds it *)
   DLoadEntry n_bx;
   DDefine n_ax dv1;                    (* the cached answer is a binding: redefinition rejected *)
   DLoadEntry n_AX;                     (* same key: the cached answer, nobody asked *)
   DHas n_y; DLoad n_cz].

Example C12_dep_nonvacuous :
  cfg_wf dx_cfg = true /\ forallb op_wf dx_pre = true /\ mods_ok (fst (run dx_cfg dx_pre)) dx_mods = true /\
  forallb dop_wf dx_ds = true /\
  douts dx_cfg dx_pre dx_mods dx_ds =
  [DFor (Some 1); DFor None;
   DR (REntry EPlaceholder) [3]; DR (REntry ENone) [];
   DR (REntry (EVal dv0)) [1];
   DR (REntry (EVal dv2)) [1; 3];
   DR (REntry EPlaceholder) [1; 3];
   DB (RDefined dv0); DR (REntry EPlaceholder) [3];
   DB (RDefined dv1); DR (REntry (EVal dv1)) [3];
   DR (RErr ERedefine) []; DR (REntry (EVal dv0)) [];
   DR (RBool true) []; DR (RFound None) [1; 3]] /\
  map dproject (douts dx_cfg dx_pre dx_mods dx_ds) = dspec_outs dx_cfg dx_pre dx_mods dx_ds.
Proof. vm_compute. repeat split; reflexivity. Qed.

(* the hypotheses of the routing, first-wins and no-rebinding theorems are satisfiable on that history *)
Example C12_dep_nonvacuous_hyps :
  parts (norm n_ax) = s_a :: [[120]%N] /\ dep_index dx_mods s_a = Some 1 /\
  dresult_after dx_cfg dx_pre dx_mods (firstn 4 dx_ds) (DGetEntry n_ax) = DR (REntry ENone) [] /\
  route dx_mods (norm n_y) = None /\ route dx_mods (norm n_cz) = None /\
  dresult_after dx_cfg dx_pre dx_mods (firstn 4 dx_ds) (DLoadEntry n_ax) = DR (REntry (EVal dv0)) [1] /\
  map_key (norm n_AX) = map_key (norm n_ax).
Proof. vm_compute. repeat split; reflexivity. Qed.

(* ---------------------------------------------------------------------------------------------- *)
(* A LOADER PARENTED BY THE DEPENDENCY LOADER (Model/LoaderDepChild.v: px.NewParentedLoader(dep); proofs in
   Proofs/LoaderDepChildProofs.v, a composition over the lemmas of Proofs/LoaderDepProofs.v).
   History = `pre` on the tree, px.NewDependencyLoader(mods), px.NewParentedLoader over it, then operations on the tree,
   on the dependency loader and on the child, arbitrarily interleaved. *)

(* Every result of every history is that of the specification: a lookup through the child answers what the dependency
   loader answers (own binding, else the module routed to, else the modules in order; the value becomes the dependency
   loader's binding), otherwise the child's own write-once binding, otherwise not found; px.Load caches its miss in the
   child's map, which no later answer shows; HasEntry of the child sees the two own maps only (the dependency loader's
   HasEntry is basicLoader's: it asks no module). *)
Theorem C12_depchild_refines :
  forall cfg pre mods cs,
  cfg_wf cfg = true -> forallb op_wf pre = true -> mods_ok (fst (run cfg pre)) mods = true ->
  forallb cop_wf cs = true ->
  map dproject (couts cfg pre mods cs) = cspec_outs cfg pre mods cs.
Proof. exact child_refines. Qed.
Print Assumptions C12_depchild_refines.

Theorem C12_depchild_state_refines :
  forall cfg pre mods cs,
  cfg_wf cfg = true -> forallb op_wf pre = true -> mods_ok (fst (run cfg pre)) mods = true ->
  forallb cop_wf cs = true ->
  cabs (fst (crun cfg pre mods cs)) = fst (cspec_run cfg pre mods cs).
Proof. exact child_state_refines. Qed.
Print Assumptions C12_depchild_state_refines.

(* no runtime fault, never stuck, a reported error only from a definition *)
Theorem C12_depchild_no_fault :
  forall cfg pre mods cs,
  cfg_wf cfg = true -> forallb op_wf pre = true -> mods_ok (fst (run cfg pre)) mods = true ->
  forallb cop_wf cs = true ->
  Forall2 (fun c r => cout_ok c r = true) cs (couts cfg pre mods cs).
Proof. exact child_results_classified. Qed.
Print Assumptions C12_depchild_no_fault.

(* THE COMPOSITION, in every state (so after every history): LoadEntry of the child = LoadEntry of the dependency loader
   in that state when that is a value; when it is a miss, the child's own entry (what its GetEntry shows), the same module
   loaders having been asked; and it leaves the state that the dependency loader's LoadEntry leaves. *)
Theorem C12_depchild_compose :
  forall cfg mods s n0,
  snd (cstep cfg mods s (CLoadEntry n0)) =
    compose (snd (cstep cfg mods s (CDep (DLoadEntry n0)))) (snd (cstep cfg mods s (CGetEntry n0))) /\
  fst (cstep cfg mods s (CLoadEntry n0)) = fst (cstep cfg mods s (CDep (DLoadEntry n0))).
Proof. exact child_lookup_compose. Qed.
Print Assumptions C12_depchild_compose.

(* Non-vacuity, over the modules of C12_dep_nonvacuous: the child misses b::x (module b asked), px.Load caches the miss in
   the child; the child binds b::x itself; the module side then binds b::x - parents first: the child now answers the
   module's value, which has become the dependency loader's binding, and its own binding is shadowed; HasEntry of the
   child does not see y before a lookup made it the dependency loader's binding. *)
Definition cx_cs : list cop :=
  [CLoadEntry n_bx; CLoad n_bx; CGetEntry n_bx; CDefine n_bx dv2; CLoadEntry n_bx; CHas n_bx;
   CDep (DBase (ODefine 3 n_bx dv1)); CLoadEntry n_bx; CGetEntry n_bx; CDep (DGetEntry n_bx); CDefine n_bx dv0;
   CHas n_y; CLoad n_y; CHas n_y; CLoadEntry n_ax; CDep (DLoadEntry n_ax)].

Example C12_depchild_nonvacuous :
  forallb cop_wf cx_cs = true /\
  couts dx_cfg dx_pre dx_mods cx_cs =
  [DR (REntry ENone) [3]; DR (RFound None) [3]; DR (REntry EPlaceholder) []; DR (RDefined dv2) []; DR (REntry (EVal dv2)) [3]; DR (RBool true) [];
   DB (RDefined dv1); DR (REntry (EVal dv1)) [3]; DR (REntry (EVal dv2)) []; DR (REntry (EVal dv1)) []; DR (RErr ERedefine) [];
   DR (RBool false) []; DR (RFound (Some dv2)) [1; 3]; DR (RBool true) []; DR (REntry (EVal dv0)) [1]; DR (REntry (EVal dv0)) []] /\
  map dproject (couts dx_cfg dx_pre dx_mods cx_cs) = cspec_outs dx_cfg dx_pre dx_mods cx_cs.
Proof. vm_compute. repeat split; reflexivity. Qed.
