(* C13 - Shared loaders, types and values are safe under concurrent use.

   Statements about Model/Conc.v (loaders: every operation is cut into the atomic segments that the code has
   between its critical sections; a schedule is any list of thread ids) and Model/ConcLazy.v (lazily cached
   inferred types).  Every theorem quantifies over EVERY configuration (loader tree), EVERY program (any number
   of threads, any operation lists) and EVERY schedule; the proofs are inductions over the schedule with an
   invariant on the shared state (Proofs/ConcProofs.v, Proofs/ConcLockProofs.v, Proofs/ConcLazyProofs.v).

   Partial, by design (DESIGN.md 5/C13): the property's clause "every operation returns what some sequential
   ordering would return" is proved in the form of the named consequences below; sequential consistency of whole
   histories is tested by the schedule-exploring harness (sequential oracle on the real implementation), not
   proved.  Go-memory-model data races are outside the model (each segment is atomic here); the race-detector
   build of the stress program is the evidence for that. *)
From Coq Require Import NArith Arith Bool List Lia.
From PcoreV Require Import Model.Conc Model.ConcLazy Model.ConcReg Proofs.ConcProofs Proofs.ConcLockProofs
  Proofs.ConcLiveProofs Proofs.ConcLazyProofs Proofs.ConcRegProofs Model.ConcDisc Proofs.ConcDiscProofs
  Proofs.ConcDefineProofs Model.ConcInit Proofs.ConcInitProofs Model.ConcNs Proofs.ConcNsProofs.
Import ListNotations.

(* ---- no_fault ------------------------------------------------------------------------------------------ *)

(* No operation of any thread ends in a runtime fault; HasEntry never raises an error; the only errors are
   - the AttemptToRedefine of a Define whose name the program also defines in the same loader with a value that is
     not equal (an error that every sequential order which runs the other Define first raises, too), and
   - the error of the instantiator, raised by a px.Load of a name for which a file based loader of the chain has a
     file that cannot be instantiated (l_bad: syntax error, wrong or no definition) - the error that the first load
     of that name raises in every sequential order.
   Hypothesis: the program does not explicitly Define a name in a file based loader that has a file for that very
   name (see C13_define_over_file_refuted). *)
Theorem C13_no_fault :
  forall (cfg : config) (p : prog) (s : sched),
    no_define_over_file cfg p ->
    forall t o r, In (EvRes t o r) (trace cfg p s) ->
      r <> RFault /\
      (r = RErr -> exists l n v, o = ODefine l n v /\
                   exists t' v', In (ODefine l n v') (nth t' p []) /\ veq v' v = false) /\
      (r = RFileErr -> exists l n d, o = OLoad l n /\ In d (chain cfg l) /\ file_bad cfg d n = true).
Proof. exact no_fault. Qed.
Print Assumptions C13_no_fault.

(* ---- agreement ----------------------------------------------------------------------------------------- *)

(* All loads of a name through a loader that return a value return the same one, by whichever threads and
   whenever they run.  Hypothesis single_definer: all definitions of the name inside the loader's chain (Define
   operations anywhere in the program, and files) are in one loader - without it the answer of px.Load changes
   already sequentially when an ancestor gains a binding (C13_agreement_needs_single_definer, and C12). *)
Theorem C13_agreement :
  forall (cfg : config) (p : prog) (s : sched) (l : lid) (n : key),
    single_definer cfg p l n ->
    forall t1 t2 v1 v2,
      In (EvRes t1 (OLoad l n) (RFound (Some v1))) (trace cfg p s) ->
      In (EvRes t2 (OLoad l n) (RFound (Some v2))) (trace cfg p s) ->
      v1 = v2.
Proof. exact agreement. Qed.
Print Assumptions C13_agreement.

(* Bindings are write-once under every schedule: the value that a load handed out stays bound, in a loader of the
   chain, whatever any thread does afterwards (no hypothesis). *)
Theorem C13_found_stays_bound :
  forall (cfg : config) (p : prog) (s s' : sched) t l n v,
    In (EvRes t (OLoad l n) (RFound (Some v))) (trace cfg p s) ->
    exists d, In d (chain cfg l) /\ ents (st_sh (exec cfg p (s ++ s'))) d n = Some (Some v).
Proof. exact found_stays_bound. Qed.
Print Assumptions C13_found_stays_bound.

(* ---- instantiate_once ------------------------------------------------------------------------------------ *)

(* The file of a name is read and parsed at most once per file based loader (no hypothesis at all: any number of
   threads, explicit definitions of the same name included). *)
Theorem C13_instantiate_once :
  forall (cfg : config) (p : prog) (s : sched) (d : lid) (n : key), nparse d n (trace cfg p s) <= 1.
Proof. exact instantiate_once. Qed.
Print Assumptions C13_instantiate_once.

(* ... and never for a name that has an entry: parsing is what creates the entry *)
Theorem C13_parsed_has_entry :
  forall (cfg : config) (p : prog) (s : sched) (d : lid) (n : key),
    nparse d n (trace cfg p s) >= 1 -> ents (st_sh (exec cfg p s)) d n <> None.
Proof. exact parsed_has_entry. Qed.
Print Assumptions C13_parsed_has_entry.

(* ---- no operation blocks for ever ------------------------------------------------------------------------ *)

(* The per-name mutex of fileBasedLoader.instantiate is released on every path - also when the instantiator
   panics (a file that cannot be instantiated: the Unlock is in the deferred function, filebased.go:264) - so:
   while some thread of the program has not finished, some thread of the program can move (no hypothesis). *)
Theorem C13_no_deadlock :
  forall (cfg : config) (p : prog) (s : sched),
    all_done (exec cfg p s) (length p) = false ->
    exists t, t < length p /\ enabled cfg (exec cfg p s) t = true.
Proof. exact no_deadlock. Qed.
Print Assumptions C13_no_deadlock.

(* A thread that waits for the name lock waits for another thread, and that thread can move. *)
Theorem C13_lock_holder_can_move :
  forall (cfg : config) (p : prog) (s : sched) t l n d lk rest,
    t_pc (st_thr (exec cfg p s) t) = PBeforeLock l n d lk rest -> enabled cfg (exec cfg p s) t = false ->
    exists t', held (st_sh (exec cfg p s)) lk = Some t' /\ t' <> t /\ enabled cfg (exec cfg p s) t' = true.
Proof. exact waits_for_a_running_thread. Qed.
Print Assumptions C13_lock_holder_can_move.

(* Whatever has happened so far (any schedule s), the schedule can be continued so that every thread finishes, and
   then every operation of the program has returned exactly one result: nobody is left waiting.  (Every step of an
   enabled thread strictly decreases that thread's remaining work, ConcLiveProofs.step_decreases, so in fact every
   continuation that keeps scheduling enabled threads finishes.) *)
Theorem C13_every_operation_returns :
  forall (cfg : config) (p : prog) (s : sched),
    exists s', all_done (exec cfg p (s ++ s')) (length p) = true /\
               forall t, length (results_of t (trace cfg p (s ++ s'))) = length (nth t p []).
Proof.
  intros cfg p s. destruct (can_complete cfg p s) as [s' Hs']. exists s'. split; [exact Hs'|].
  now apply all_results.
Qed.
Print Assumptions C13_every_operation_returns.

(* a file that cannot be instantiated, two loads of its name, one of them queued on the name lock while the other's
   instantiator fails: the first load escapes with the instantiator's error, the second one is released and
   answers "not found" (the outcome of the sequential order first-then-second), the file was read once *)
Definition cfgB : config := [mkL None false [] []; mkL (Some 0) true [(0%N, mkV 110 None)] [0%N]].
Example C13_broken_file_waiter_released :
  let p := [[OLoad 1 0%N]; [OLoad 1 0%N]] in
  let st := exec cfgB p [0; 0; 0; 1; 1; 1; 1] in
  enabled cfgB st 0 = false /\ enabled cfgB st 1 = true /\
  trace cfgB p [0; 0; 0; 1; 1; 1; 1; 0; 0; 0; 0; 1; 1; 1; 1; 0; 0; 0] =
    [EvParse 1 1 0%N; EvRes 1 (OLoad 1 0%N) RFileErr; EvRes 0 (OLoad 1 0%N) (RFound None)] /\
  all_done (exec cfgB p [0; 0; 0; 1; 1; 1; 1; 0; 0; 0; 0; 1; 1; 1; 1; 0; 0; 0]) 2 = true.
Proof. vm_compute. repeat split. Qed.

(* ---- pending declarations and pcore.Do (Model/ConcReg.v) ---------------------------------------------------- *)

(* Threads declare types, mappings, constructors and functions (appends to the four pending lists, each under its
   lock) and call pcore.Do, which takes each list, replaces it by a new empty one, and binds and resolves what it took
   outside that lock, under resolveLock; a Do is cut at the yield points of resolveResolvables.  For EVERY program
   (any number of threads) and EVERY schedule: *)

(* what was taken from a list is private to the thread that took it: an item is never taken from list l and processed
   more often than it has been declared so far, and never from a list that its kind of declaration does not go to *)
Theorem C13_declared_processed_at_most_once :
  forall (p : rprog) (s : sched) (l : nat) (x : item),
    nproc l x (rtrace p s) <= (if goes_to x l then ndecl x (rtrace p s) else 0).
Proof. exact reg_once. Qed.
Print Assumptions C13_declared_processed_at_most_once.

(* the function of a Do finds every item that its own thread declared before resolved and usable - as in every
   sequential order of the operations - when no declaration of the program fails to resolve.  (For an item with a
   mapping, KG, this is about the type; the mapping lives in the context of whichever Do took it, see
   C13_mapping_goes_to_the_taker.)  Since fix c862d91: before it, a Do that found the lists empty ran its function
   while another thread was still binding and resolving what it had taken. *)
Theorem C13_do_sees_own_declarations :
  forall (p : rprog) (s : sched),
    no_failing p ->
    forall t obs, In (EvR t RDo (RRDone obs)) (rtrace p s) -> forall x b, In (x, b) obs -> fst x <> KG -> b = true.
Proof. exact reg_sees_own. Qed.
Print Assumptions C13_do_sees_own_declarations.

(* resolveLock is released on every path (also when a Resolve panics: deferred Unlock): while some thread has not
   finished some thread can move, and every schedule can be continued so that every thread finishes *)
Theorem C13_resolve_no_deadlock :
  forall (p : rprog) (s : sched),
    rall_done (rexec p s) (length p) = false -> exists t, t < length p /\ renabled (rexec p s) t = true.
Proof. exact reg_no_deadlock. Qed.
Print Assumptions C13_resolve_no_deadlock.

Theorem C13_every_do_returns :
  forall (p : rprog) (s : sched), exists s', rall_done (rexec p (s ++ s')) (length p) = true.
Proof. exact reg_can_complete. Qed.
Print Assumptions C13_every_do_returns.

(* thread 1 declares while thread 0 is between two steps of its resolution, thread 2 waits for the lock: everything is
   processed once, every function sees its own declarations *)
Example C13_declarations_nonvacuous :
  let p := [[RDecl (KT, 0); RDecl (KC, 1); RDo]; [RDecl (KT, 2); RDecl (KF, 3); RDo]; [RDo]] in
  let s := [0; 0; 0; 0; 2; 1; 0; 1; 0; 1; 0; 0; 2; 1; 1; 1; 1; 1; 1; 2; 2; 2; 2; 2; 1; 1; 1; 1; 1; 1] in
  no_failing p /\ rall_done (rexec p s) 3 = true /\
  rresults_of 0 (rtrace p s) = [RRDeclared; RRDeclared; RRDone [((KT, 0), true); ((KC, 1), true)]] /\
  rresults_of 1 (rtrace p s) = [RRDeclared; RRDeclared; RRDone [((KT, 2), true); ((KF, 3), true)]] /\
  map (fun x => nproc (home x) x (rtrace p s)) [(KT, 0); (KC, 1); (KT, 2); (KF, 3)] = [1; 1; 1; 1].
Proof.
  split; [|vm_compute; repeat split].
  intros t n H. destruct t as [|[|[|t]]]; cbn in H; repeat (destruct H as [H|H]; [discriminate|]); try contradiction;
    destruct t; contradiction.
Qed.

(* a declaration that cannot be resolved: the Do that takes it escapes with the panic, the lock is free again *)
Example C13_failing_resolve_releases_the_lock :
  let p := [[RDecl (KX, 0); RDo]; [RDecl (KT, 1); RDo]] in
  let s := [0; 0; 0; 1; 1; 0; 0; 1; 1; 1; 1; 1; 1] in
  renabled (rexec p [0; 0; 0; 1; 1]) 1 = false /\
  rresults_of 0 (rtrace p s) = [RRDeclared; RRPanic] /\
  rresults_of 1 (rtrace p s) = [RRDeclared; RRDone [((KT, 1), true)]].
Proof. vm_compute. repeat split. Qed.

(* the mapping of a px.NewGoObjectType is registered in the context of the Do that takes it - already sequentially
   (thread 1's Do runs between thread 0's declaration and thread 0's Do): not a property of the own Do *)
Example C13_mapping_goes_to_the_taker :
  rresults_of 0 (rtrace [[RDecl (KG, 0); RDo]; [RDo]] [0; 1; 1; 1; 1; 1; 1; 1; 0; 0; 0; 0; 0; 0]) =
    [RRDeclared; RRDone [((KG, 0), false)]].
Proof. vm_compute. reflexivity. Qed.

(* Open finding mapping-split: resolveResolvables takes the list of types and the list of mappings in two critical
   sections (context.go:181, :187).  A px.NewGoObjectType (one declaration: a type and a mapping) that is declared
   while a Do is between the two has its mapping taken by that Do and its type by a later one - a declaration is not
   taken as a whole.  Witness: thread 1 declares X0 (cannot be resolved) and G1; thread 0's Do takes the types [X0],
   thread 1 declares G1, thread 0 takes the mapping of G1 and escapes with the panic of X0; thread 1's Do takes and
   resolves the type G1.  (Every sequential order in which thread 0's Do takes the mapping of G1 hands it the type too,
   behind X0, where it stays unresolved.) *)
Definition C13_statement_declaration_taken_whole : Prop :=
  forall (p : rprog) (s : sched) (t : nat) (x : item),
    In (EvProc t 1 x) (rtrace p s) -> In (EvProc t 0 x) (rtrace p s).
Theorem C13_mapping_split_refuted : ~ C13_statement_declaration_taken_whole.
Proof.
  intros H.
  pose proof (H [[RDo]; [RDecl (KX, 0); RDecl (KG, 1); RDo]] [1; 0; 0; 1; 0; 0; 0; 1; 1; 1; 1; 1; 1] 0 (KG, 1)) as Hx.
  vm_compute in Hx.
  assert (Hin : In (EvProc 0 1 (KG, 1)) (rtrace [[RDo]; [RDecl (KX, 0); RDecl (KG, 1); RDo]] [1; 0; 0; 1; 0; 0; 0; 1; 1; 1; 1; 1; 1])).
  { vm_compute. tauto. }
  vm_compute in Hin. specialize (Hx Hin).
  repeat (destruct Hx as [Hx|Hx]; [discriminate Hx|]). exact Hx.
Qed.
Print Assumptions C13_mapping_split_refuted.

Example C13_mapping_split_results :
  let p := [[RDo]; [RDecl (KX, 0); RDecl (KG, 1); RDo]] in
  let s := [1; 0; 0; 1; 0; 0; 0; 1; 1; 1; 1; 1; 1] in
  (rresults_of 0 (rtrace p s) = [RRPanic]) /\
  (rresults_of 1 (rtrace p s) = [RRDeclared; RRDeclared; RRDone [((KX, 0), false); ((KG, 1), false)]]) /\
  (resolved_by 1 (rtrace p s) = [(KG, 1)]).
Proof. vm_compute. repeat split. Qed.

(* ---- never_half_built --------------------------------------------------------------------------------------- *)

(* Every observation of a lazily cached inferred type (or key index) of a shared value, by whichever thread and
   under whichever schedule, sees a completely built object - for every cache whose code builds the object before
   it stores the pointer (pf c = false: Array.reducedType, Array.detailedType, Hash.detailedType, Hash.index in
   the current tree), whatever the other caches do (Model/ConcLazy.v). *)
Theorem C13_never_half_built :
  forall (pf : cell -> bool) (p : lprog) (s : sched) t c b f,
    In (LGot t c b f) (ltrace pf p s) -> pf c = false -> f = true.
Proof. exact never_half_built. Qed.
Print Assumptions C13_never_half_built.

Example C13_never_half_built_nonvacuous :
  ltrace (fun _ => false) [[LInfer 0]; [LInfer 0]; [LInfer 0]] [0; 1; 0; 2; 1] =
    [LGot 0 0 0 true; LGot 2 0 0 true; LGot 1 0 1 true].
Proof. vm_compute. reflexivity. Qed.

(* The unguarded statement ... *)
Definition C13_statement_never_half_built : Prop :=
  forall (pf : cell -> bool) (p : lprog) (s : sched) t c b f, In (LGot t c b f) (ltrace pf p s) -> f = true.

(* ... is false for a cache that stores the pointer first and fills in the object afterwards.  That is what
   Hash.privateReducedType still does (hashtype.go: `hv.reducedType = ht` before the key and value types are known;
   open finding hash-reduced-half-built - the early store also ends the recursion for a mutable hash that contains
   itself, so the two statements cannot simply be swapped), and what Array.privateReducedType /
   privateDetailedType did before their fix commits. *)
Theorem C13_half_built_refuted : ~ C13_statement_never_half_built.
Proof.
  intros H. specialize (H (fun _ => true) [[LInfer 0]; [LInfer 0]] [0; 1] 1 0 0 false).
  assert (Hc : false = true); [|discriminate Hc]. apply H. vm_compute. auto.
Qed.
Print Assumptions C13_half_built_refuted.

(* ---- non-vacuity ------------------------------------------------------------------------------------------- *)

Definition v0 := mkV 0 None.
Definition v1 := mkV 1 None.
Definition fv := mkV 110 None.
(* static <- A <- B *)
Definition cfgA : config := [mkL None false [] []; mkL (Some 0) false [] []; mkL (Some 1) false [] []].
(* static <- F, a file based loader with a file for name 0 *)
Definition cfgF : config := [mkL None false [] []; mkL (Some 0) true [(0%N, fv)] []].

(* three threads, one of them defines: the hypotheses of no_fault and agreement hold, a load misses, another finds,
   a conflicting Define is rejected *)
Definition pA : prog := [[OLoad 2 0%N; OLoad 2 0%N]; [ODefine 1 0%N v0; OLoad 1 0%N]; [ODefine 1 0%N v1]].

Example C13_hypotheses_satisfiable :
  no_define_over_file cfgA pA /\ single_definer cfgA pA 2 0%N /\
  trace cfgA pA [0; 0; 1; 0; 0; 2; 0; 0; 1; 1] =
    [EvRes 1 (ODefine 1 0%N v0) (RDefined v0);
     EvRes 0 (OLoad 2 0%N) (RFound None);
     EvRes 2 (ODefine 1 0%N v1) RErr;
     EvRes 0 (OLoad 2 0%N) (RFound (Some v0));
     EvRes 1 (OLoad 1 0%N) (RFound (Some v0))].
Proof.
  split; [|split].
  - intros t l n v H. destruct t as [|[|[|t]]]; cbn in H; repeat (destruct H as [H|H]; [inversion H; subst; reflexivity|]);
      try contradiction; destruct t; contradiction.
  - exists 1. intros d v Hd [Hf | [t Hin]].
    + cbn in Hd. destruct Hd as [<-|[<-|[<-|[]]]]; discriminate.
    + destruct t as [|[|[|t]]]; cbn in Hin; repeat (destruct Hin as [Hin|Hin]; [inversion Hin; subst; reflexivity|]);
        try contradiction; destruct t; contradiction.
  - vm_compute. reflexivity.
Qed.

(* two threads load the same file name, one waits for the name lock: parsed once, both get the value *)
Example C13_instantiate_once_nonvacuous :
  let tr := trace cfgF [[OLoad 1 0%N]; [OLoad 1 0%N]] [0; 0; 0; 1; 1; 1; 1; 0; 0; 1; 1; 1; 1; 0; 0; 0] in
  nparse 1 0%N tr = 1 /\
  results_of 0 tr = [RFound (Some fv)] /\ results_of 1 tr = [RFound (Some fv)].
Proof. vm_compute. repeat split. Qed.

(* without single_definer the answer changes already in a sequential run (an ancestor gains a binding) *)
Example C13_agreement_needs_single_definer :
  trace cfgA [[OLoad 2 0%N; OLoad 2 0%N]; [ODefine 2 0%N v0]; [ODefine 1 0%N v1]] [1; 0; 0; 0; 2; 0; 0] =
    [EvRes 1 (ODefine 2 0%N v0) (RDefined v0);
     EvRes 0 (OLoad 2 0%N) (RFound (Some v0));
     EvRes 2 (ODefine 1 0%N v1) (RDefined v1);
     EvRes 0 (OLoad 2 0%N) (RFound (Some v1))].
Proof. vm_compute. reflexivity. Qed.

(* ---- open finding: a load that meets an instantiation in progress answers "not found" ------------------- *)

(* The statement that the property asks for (a name that has a file and is never defined otherwise is found by
   every load) ... *)
Definition C13_statement_file_load_found : Prop :=
  forall (cfg : config) (p : prog) (s : sched) t l n r d v,
    (forall t' l' v', ~ In (ODefine l' n v') (nth t' p [])) ->
    In d (chain cfg l) -> file_of cfg d n = Some v ->
    In (EvRes t (OLoad l n) r) (trace cfg p s) -> r = RFound (Some v).

(* ... is false of the code: while one goroutine is between "instantiate.marked" and the instantiator's SetEntry,
   the entry without value that marks the instantiation is visible to everybody, and load() answers (nil, false)
   for it (filebased.go:82, loader.go:84).  Known finding C13-load-during-instantiate. *)
Theorem C13_load_during_instantiate_refuted : ~ C13_statement_file_load_found.
Proof.
  intros H.
  specialize (H cfgF [[OLoad 1 0%N]; [OLoad 1 0%N]] [1; 1; 1; 1; 1; 1; 0; 0; 1; 1] 0 1 0%N (RFound None) 1 fv).
  assert (Hc : RFound None = RFound (Some fv)); [|discriminate Hc].
  apply H.
  - intros t' l' v' Hin. destruct t' as [|[|t']]; cbn in Hin.
    + destruct Hin as [Hin|[]]; discriminate.
    + destruct Hin as [Hin|[]]; discriminate.
    + destruct t'; contradiction.
  - vm_compute. auto.
  - vm_compute. reflexivity.
  - vm_compute. auto.
Qed.
Print Assumptions C13_load_during_instantiate_refuted.

(* What is proved about such loads instead: C13_no_fault (no error), C13_agreement (whoever gets a value gets the
   same one), C13_instantiate_once.  The answer "not found" itself is reported by the harness on every run as
   KNOWN-FINDING (sequential-consistency / load-during-instantiate). *)

(* ---- the definers of a name agree ---------------------------------------------------------------------------- *)

(* Every Define of name n in loader l that is accepted - by any thread, under any schedule, whatever entry without
   value (the cached miss of an earlier px.Load, the mark of an instantiation) the name held - is handed one and
   the same value, the value bound to n in l, and the definer's own value equals it (identical, or equal by
   px.Equality): two different definitions are never both accepted.  (basicLoader.SetEntry is ONE critical section;
   seeded change C13-m6 splits look-up and update, and two definitions of a name that holds a cached miss are both
   told that their value is bound.) *)
Theorem C13_definers_agree :
  forall (cfg : config) (p : prog) (s : sched) l n t1 t2 v1 v2 x1 x2,
    In (EvRes t1 (ODefine l n v1) (RDefined x1)) (trace cfg p s) ->
    In (EvRes t2 (ODefine l n v2) (RDefined x2)) (trace cfg p s) ->
    x1 = x2 /\ veq x1 v1 = true /\ veq x1 v2 = true.
Proof. exact definers_agree. Qed.
Print Assumptions C13_definers_agree.

Theorem C13_defined_stays_bound :
  forall (cfg : config) (p : prog) (s s' : sched) t l n v x,
    In (EvRes t (ODefine l n v) (RDefined x)) (trace cfg p s) ->
    ents (st_sh (exec cfg p (s ++ s'))) l n = Some (Some x).
Proof. exact defined_stays_bound. Qed.
Print Assumptions C13_defined_stays_bound.

(* a missed load first, then two different definitions that overlap: one is accepted, the other refused *)
Example C13_definers_agree_nonvacuous :
  let tr := trace cfgA [[OLoad 1 0%N; ODefine 1 0%N v0]; [ODefine 1 0%N v1]] [0; 0; 0; 1; 0] in
  results_of 0 tr = [RFound None; RErr] /\ results_of 1 tr = [RDefined v1].
Proof. vm_compute. auto. Qed.

(* ---- Discover with a predicate that asks the loader (Model/ConcDisc.v) ----------------------------------------- *)

(* The predicate of a Discover is user code; it may ask the loader that is being discovered about the name it is
   offered, while other threads define names in the same loaders.  In the model of the code (CbOutside: the bound
   keys are copied under the read lock, the predicate runs with no lock held) a thread that is parked anywhere -
   also inside a predicate - holds no lock, no writer ever waits, and therefore: while a thread has operations left
   some thread can move (in fact every unfinished one), and every schedule can be continued to one in which all
   operations have returned.  For EVERY loader tree, program, number of threads, schedule. *)
Theorem C13_discover_no_deadlock :
  forall (cfg : config) (p : dprog) (s : sched),
    dall_done (dexec CbOutside cfg p s) (length p) = false ->
    exists t, t < length p /\ denabled CbOutside cfg (length p) (dexec CbOutside cfg p s) t = true.
Proof. exact disc_no_deadlock. Qed.
Print Assumptions C13_discover_no_deadlock.

Theorem C13_discover_every_operation_returns :
  forall (cfg : config) (p : dprog) (s : sched),
    exists s', dall_done (dexec CbOutside cfg p (s ++ s')) (length p) = true.
Proof. exact disc_can_complete. Qed.
Print Assumptions C13_discover_every_operation_returns.

(* The statement is about where the predicate is called: with the predicate called inside the read lock (seeded
   change C13-m5; sync.RWMutex keeps readers out while a writer waits, also a reader that holds the lock already)
   [Define(l1,Na); Discover(l1, asks, [Na])] || [Define(l1,Nb)] under schedule [0;0;1] ends with both threads blocked. *)
Theorem C13_callback_under_lock_refuted :
  exists (cfg : config) (p : dprog) (s : sched),
    let st := dexec CbUnderLock cfg p s in
    dall_done st (length p) = false /\ forall t, t < length p -> denabled CbUnderLock cfg (length p) st t = false.
Proof.
  exists cfg_sa, prog_m5, sched_m5. destruct callback_under_lock_deadlocks as (H0 & H1 & H2).
  split; [exact H0|]. intros t Ht. destruct t as [|[|t]]; [exact H1|exact H2|cbn in Ht; lia].
Qed.
Print Assumptions C13_callback_under_lock_refuted.

Example C13_discover_nonvacuous :
  let st := dexec CbOutside cfg_sa prog_m5 sched_m5 in
  denabled CbOutside cfg_sa 2 st 0 = true /\
  dresults_of 0 (ds_log (dexec CbOutside cfg_sa prog_m5 (sched_m5 ++ [0]))) = [DDefined dv0; DNames [0%N]].
Proof. exact callback_outside_moves. Qed.

(* Open finding discover-shadowed-name: a name that is bound in two loaders of one chain - in the descendant before
   the Discover starts, in the ancestor while the Discover is parked between the ancestor's part and the offer of
   that name - is returned by neither part (every sequential order returns Na and Nb). *)
Definition C13_statement_discover_bound_before : Prop :=
  forall (cfg : config) (p : dprog) (s : sched),
    dall_done (dexec CbOutside cfg p s) (length p) = true ->
    dresults_of 0 (ds_log (dexec CbOutside cfg p s)) <> [DBool false; DDefined dv5; DDefined dv0; DNames [1%N]].
Theorem C13_discover_shadowed_name_refuted : ~ C13_statement_discover_bound_before.
Proof.
  intros H. destruct discover_shadowed_name_missed as (Hd & H0 & _).
  exact (H cfg_sab prog_shadow sched_shadow Hd H0).
Qed.
Print Assumptions C13_discover_shadowed_name_refuted.

(* ---- the hypothesis of no_fault is needed ------------------------------------------------------------------ *)

(* A program that explicitly defines a name in a file based loader that also has a file for it: a Load that is
   instantiating the file then escapes with AttemptToRedefine (the instantiator's SetEntry meets the other
   definition) - which no sequential order does.  Outside the generated programs; recorded in design_notes/C13.md. *)
Example C13_define_over_file_refuted :
  In (EvRes 0 (OLoad 1 0%N) RErr)
     (trace cfgF [[OLoad 1 0%N]; [ODefine 1 0%N v0]] [0; 0; 0; 0; 0; 0; 1; 0; 0; 0]).
Proof. vm_compute. auto. Qed.


(* ---- the first initialization of the runtime, entered by several goroutines at once (Model/ConcInit.v) ------------ *)

(* For EVERY schedule of EVERY number of goroutines whose first pcore.Do / RootContext / Try race: a goroutine whose
   use of the runtime has returned saw a completely initialized runtime (implementation registry set, the Pcore::
   aliases and the declarations of the init() functions resolved in the static loader) - the answers of a sequential
   order.  InitializeRuntime is one critical section under staticLock; the logger, its "initialized" flag, is the
   first thing it assigns, and only the lock makes a second caller wait for the rest. *)
Theorem C13_first_use_sees_initialized_runtime :
  forall (s : list nat) (t : nat) (complete : bool),
    i_pc (iexec ILocked s) t = IDone complete -> complete = true.
Proof. exact first_use_complete. Qed.
Print Assumptions C13_first_use_sees_initialized_runtime.

(* the declarations of the init() functions end up in the static loader, never in the loader of somebody's context *)
Theorem C13_first_use_declarations_stay_static :
  forall (s : list nat), i_stolen (iexec ILocked s) = false.
Proof. exact first_use_never_stolen. Qed.
Print Assumptions C13_first_use_declarations_stay_static.

(* staticLock is released on every path: as long as some goroutine has not returned, some goroutine can move *)
Theorem C13_first_use_no_deadlock :
  forall (s : list nat) (t : nat),
    is_done (i_pc (iexec ILocked s) t) = false -> exists t', ienabled (iexec ILocked s) t' = true.
Proof. exact first_use_no_deadlock. Qed.
Print Assumptions C13_first_use_no_deadlock.

(* The double-checked fast path (the test of the logger repeated in front of the lock: seeded change C13-m7) does
   not have the property: the second goroutine uses a runtime without implementation registry, and takes the
   declarations of the init() functions away from the initializer. *)
Definition C13_statement_first_use (m : imode) : Prop :=
  forall (s : list nat) (t : nat) (complete : bool), i_pc (iexec m s) t = IDone complete -> complete = true.
Theorem C13_fast_path_refuted : ~ C13_statement_first_use IFastPath.
Proof. intros H. destruct fast_path_refuted as (s & t & Hs). specialize (H s t false Hs). discriminate. Qed.
Print Assumptions C13_fast_path_refuted.

Example C13_first_use_nonvacuous :
  (park_obs ILocked 3 0 = [(false, true); (false, true); (false, true)]) /\
  (park_obs IFastPath 3 0 = [(false, false); (true, false); (true, false)]) /\
  (park_obs IFastPath 3 1 = [(false, true); (true, false); (true, false)]).
Proof. vm_compute. auto. Qed.


(* ---- a file based loader whose SmartPath serves several namespaces (Model/ConcNs.v) ------------------------------ *)

(* For EVERY set of files (good and broken), EVERY number of namespaces of the path, EVERY program of loads and
   HasEntry questions through any of the namespaces and EVERY schedule: a file is read and instantiated at most once.
   fileBasedLoader.instantiate maps the requested name to the name of the FIRST namespace before it looks up the name
   mutex, marks the file under that name before the mutex is released for the first time, and the mutex leaves the
   table only through threads that have seen the mark: while the first-namespace name has no entry, all threads on
   their way into the instantiation of that file use one and the same mutex (invariant ConcNsProofs.ninv). *)
Theorem C13_namespaces_instantiate_once :
  forall (c : ncfg) (p : nprog) (s : list nat) (b : N),
    nsparse b (ntrace KeyMapped c p s) <= 1.
Proof. exact ns_instantiate_once. Qed.
Print Assumptions C13_namespaces_instantiate_once.

(* whoever is inside the critical section of instantiate nholds its name mutex *)
Theorem C13_namespaces_lock_holder :
  forall (c : ncfg) (p : nprog) (s : list nat) (t : nat) (lk : nat),
    nholds (pcof (nexec KeyMapped c p s) t) = Some lk -> nheld (ns_sh (nexec KeyMapped c p s)) lk = Some t.
Proof. exact ns_lock_holder. Qed.
Print Assumptions C13_namespaces_lock_holder.

(* The lock table keyed by the name that was asked for (key computed before the name is mapped: seeded change
   C13-m8) does not have the property: step/Na and definition/Na use two mutexes and instantiate the file twice;
   and a load through the second namespace that meets the mark of the first does not wait: "not found". *)
Definition C13_statement_namespaces_once (m : keymode) : Prop :=
  forall (c : ncfg) (p : nprog) (s : list nat) (b : N), nsparse b (ntrace m c p s) <= 1.
Theorem C13_key_before_mapping_refuted : ~ C13_statement_namespaces_once KeyRequested.
Proof.
  intros H. pose proof (H cfg_one [[NLoad 0 0%N]; [NLoad 1 0%N]] [0;0;0;0;0; 1;1;1;1;1; 0;0;0; 1;1;1] 0%N) as Hx.
  rewrite key_requested_refuted in Hx. lia.
Qed.
Print Assumptions C13_key_before_mapping_refuted.

Example C13_namespaces_nonvacuous :
  (nresults_of 1 (ntrace KeyRequested cfg_one [[NLoad 0 0%N]; [NLoad 1 0%N]] [0;0;0;0;0;0; 1;1;1;1;1;1;1; 0;0]) = [NFound None]) /\
  (nresults_of 1 (ntrace KeyMapped cfg_one [[NLoad 0 0%N]; [NLoad 1 0%N]] [0;0;0;0;0;0; 1;1;1;1;1;1;1; 0;0; 1;1;1;1]) = [NFound (Some 0)]).
Proof. exact key_requested_not_found. Qed.


(* ---- several namespaces, one file: WHAT the loads return, and that they return (depth pass) ---------------------- *)
From PcoreV Require Import Proofs.ConcNsLoadProofs Proofs.ConcNsLiveProofs Model.ConcNsChain Proofs.ConcNsChainProofs
  Proofs.ConcNsChainLiveProofs.

(* For EVERY set of files, number of namespaces, program and schedule (also unfinished ones): a px.Load of a file that
   can be instantiated, through a namespace OTHER than the first, that has returned has returned the value which the
   one instantiation of the file bound - never "not found", never an error.  (Invariant ConcNsLoadProofs.linv: while a
   thread is at "instantiate.marked" the lock table still maps the first-namespace name to the mutex it holds, all
   threads on their way in have that mutex, nobody is past the critical section; the other namespaces' names of a good
   file never hold an entry without value; a value is bound in all namespaces in one step.)  Through the FIRST
   namespace the statement is false - open finding load-during-instantiate, C13_namespaces_first_namespace_refuted. *)
Theorem C13_namespaces_load_finds_value :
  forall (c : ncfg) (p : nprog) (sch : list nat) (t : nat) (s : nat) (b : N) (r : nres),
    has_file c b = true -> is_bad c b = false -> 1 <= s -> s <= n_extra c ->
    In (NvRes t (NLoad s b) r) (ntrace KeyMapped c p sch) -> r = NFound (Some 0).
Proof. exact ns_load_finds_value. Qed.
Print Assumptions C13_namespaces_load_finds_value.

Definition C13_statement_namespaces_load_finds_value_any_namespace : Prop :=
  forall (c : ncfg) (p : nprog) (sch : list nat) (t : nat) (s : nat) (b : N) (r : nres),
    has_file c b = true -> is_bad c b = false -> s <= n_extra c ->
    In (NvRes t (NLoad s b) r) (ntrace KeyMapped c p sch) -> r = NFound (Some 0).
Theorem C13_namespaces_first_namespace_refuted : ~ C13_statement_namespaces_load_finds_value_any_namespace.
Proof.
  intros H.
  assert (Hx : In (NvRes 1 (NLoad 0 0%N) (NFound None))
                  (ntrace KeyMapped cfg_one [[NLoad 0 0%N]; [NLoad 0 0%N]] [0;0;0;0;0;0; 1;1])) by (vm_compute; auto).
  apply H in Hx; [discriminate|reflexivity|reflexivity|cbn; lia].
Qed.
Print Assumptions C13_namespaces_first_namespace_refuted.

(* While some thread of the program has not finished, some thread of the program can move: whoever holds a name mutex
   is in the critical section of instantiate (ConcNsLiveProofs.nhinv) and never waits there. *)
Theorem C13_namespaces_no_deadlock :
  forall (c : ncfg) (p : nprog) (s : list nat),
    nall_done (nexec KeyMapped c p s) (length p) = false ->
    exists t, t < length p /\ nenabled (nexec KeyMapped c p s) t = true.
Proof. exact ns_no_deadlock. Qed.
Print Assumptions C13_namespaces_no_deadlock.

(* Liveness + result: whatever has happened so far, the schedule can be continued until every thread has finished
   (every step of an enabled thread decreases ConcNsLiveProofs.ntm), and then every thread has exactly one result per
   operation of its program, in program order, and every load of a good file through a namespace other than the first
   has returned the value of the file. *)
Theorem C13_namespaces_every_load_returns_value :
  forall (c : ncfg) (p : nprog) (s : list nat),
    exists s', nall_done (nexec KeyMapped c p (s ++ s')) (length p) = true /\
      forall t, map fst (nevs_of t (ntrace KeyMapped c p (s ++ s'))) = nth t p [] /\
        forall sn b r, has_file c b = true -> is_bad c b = false -> 1 <= sn -> sn <= n_extra c ->
          In (NLoad sn b, r) (nevs_of t (ntrace KeyMapped c p (s ++ s'))) -> r = NFound (Some 0).
Proof. exact ns_every_load_returns_value. Qed.
Print Assumptions C13_namespaces_every_load_returns_value.

(* ... and the same for EVERY schedule after which all threads have finished *)
Theorem C13_namespaces_finished_loads_have_value :
  forall (c : ncfg) (p : nprog) (s : list nat),
    nall_done (nexec KeyMapped c p s) (length p) = true ->
    forall t, map fst (nevs_of t (ntrace KeyMapped c p s)) = nth t p [] /\
      forall sn b r, has_file c b = true -> is_bad c b = false -> 1 <= sn -> sn <= n_extra c ->
        In (NLoad sn b, r) (nevs_of t (ntrace KeyMapped c p s)) -> r = NFound (Some 0).
Proof. exact ns_finished_loads_have_value. Qed.
Print Assumptions C13_namespaces_finished_loads_have_value.

Example C13_namespaces_loads_nonvacuous :
  let st := nexec KeyMapped cfg_one [[NLoad 1 0%N]; [NLoad 2 0%N]; [NLoad 0 0%N; NLoad 2 0%N]]
                  [0;0;0;0;0; 1;1;1;1; 2;2;2;2; 0;0;0;0; 1;1;1;1;1; 2;2;2;2;2;2;2;2] in
  nall_done st 3 = true /\ nsparse 0%N (ns_log st) = 1 /\
  nevs_of 0 (ns_log st) = [(NLoad 1 0%N, NFound (Some 0))] /\ nevs_of 1 (ns_log st) = [(NLoad 2 0%N, NFound (Some 0))] /\
  map snd (nevs_of 2 (ns_log st)) = [NFound (Some 0); NFound (Some 0)].
Proof. vm_compute. auto. Qed.

(* ---- the same loader inside a chain  static <- A.. <- M <- C..  of parented loaders (Model/ConcNsChain.v) ---------- *)

(* Simulation: for EVERY chain (number of parented loaders above and below M), program of loads and HasEntry questions
   through ANY loader of the chain, and schedule, the state of M moves by steps of Model/ConcNs.v only (a parented
   loader is a pass-through with yield points for names that it does not bind): every invariant of ConcNs.v that
   survives handing an idle thread its next load holds of M in every chain. *)
Theorem C13_chain_simulation :
  forall (c : ccfg) (I : nstate -> Prop),
    I (ninit []) ->
    (forall st t, I st -> I (nstep KeyMapped (c_m c) st t)) ->
    (forall st t s b, I st -> nt_pc (ns_thr st t) = NIdle -> I (nenter st t s b)) ->
    forall (p : cprog) (s : list nat), I (cs_in (cexec c p s)).
Proof. exact cs_in_invariant. Qed.
Print Assumptions C13_chain_simulation.

Theorem C13_chain_instantiate_once :
  forall (c : ccfg) (p : cprog) (s : list nat) (b : N), nsparse b (ns_log (cs_in (cexec c p s))) <= 1.
Proof. exact chain_instantiate_once. Qed.
Print Assumptions C13_chain_instantiate_once.

Theorem C13_chain_lock_holder :
  forall (c : ccfg) (p : cprog) (s : list nat) (t : nat) (lk : nat),
    nholds (pcof (cs_in (cexec c p s)) t) = Some lk -> nheld (ns_sh (cs_in (cexec c p s))) lk = Some t.
Proof. exact chain_lock_holder. Qed.
Print Assumptions C13_chain_lock_holder.

(* a load of a good file through a namespace other than the first, through M or through any loader BELOW M, that has
   returned has returned the value of the one instantiation (what a loader below M returns is what M handed up) *)
Theorem C13_chain_load_finds_value :
  forall (c : ccfg) (p : cprog) (sch : list nat) (t : nat) (l : nat) (s : nat) (b : N) (r : nres),
    has_file (c_m c) b = true -> is_bad (c_m c) b = false -> 1 <= s -> s <= n_extra (c_m c) ->
    c_above c + 1 <= l -> l <= c_above c + 1 + c_below c ->
    In (t, CLoad l s b, r) (cs_log (cexec c p sch)) -> r = NFound (Some 0).
Proof. exact chain_load_finds_value. Qed.
Print Assumptions C13_chain_load_finds_value.

(* In every chain: while some thread of the program has not finished, some thread of the program can move (the steps of
   the parented loaders are always enabled; a thread that waits for a name mutex waits for a thread inside M.LoadEntry
   that can move). *)
Theorem C13_chain_no_deadlock :
  forall (c : ccfg) (p : cprog) (s : list nat),
    call_done (cexec c p s) (length p) = false ->
    exists t, t < length p /\ cenabled (cexec c p s) t = true.
Proof. exact chain_no_deadlock. Qed.
Print Assumptions C13_chain_no_deadlock.

(* Liveness + result in every chain: whatever has happened so far, the schedule can be continued until every thread has
   finished (measure ConcNsChainLiveProofs.ctm: loaders above M still to pass, the measure of ConcNs.v inside M, loaders
   below M still to pass); then every thread has one result per operation of its program, in program order, and every
   load of a good file through a namespace other than the first, through M or a loader below M, has the value. *)
Theorem C13_chain_every_load_returns_value :
  forall (c : ccfg) (p : cprog) (s : list nat),
    exists s', call_done (cexec c p (s ++ s')) (length p) = true /\
      forall t, map fst (cevs_of t (cs_log (cexec c p (s ++ s')))) = nth t p [] /\
        forall l sn b r, has_file (c_m c) b = true -> is_bad (c_m c) b = false -> 1 <= sn -> sn <= n_extra (c_m c) ->
          c_above c + 1 <= l -> l <= c_above c + 1 + c_below c ->
          In (CLoad l sn b, r) (cevs_of t (cs_log (cexec c p (s ++ s')))) -> r = NFound (Some 0).
Proof. exact chain_every_load_returns_value. Qed.
Print Assumptions C13_chain_every_load_returns_value.

(* static <- A <- M <- C: a load through C and one through M find the value of one instantiation; a load through A
   (above M: the file is not visible there) caches a miss in A *)
Example C13_chain_nonvacuous :
  let st := cexec (mkCC cfg_one 1 1) [[CLoad 3 1 0%N]; [CLoad 2 2 0%N]; [CLoad 1 1 0%N; CLoad 1 1 0%N]]
                  [0;0;0;0;0; 1;1;1;1; 2;2;2; 0;0;0;0;0;0; 1;1;1;1;1;1; 2;2;2;2;2] in
  call_done st 3 = true /\ nsparse 0%N (ns_log (cs_in st)) = 1 /\
  cresults_of 0 (cs_log st) = [NFound (Some 0)] /\ cresults_of 1 (cs_log st) = [NFound (Some 0)] /\
  cresults_of 2 (cs_log st) = [NFound None; NFound None] /\ cs_miss st 1 1 0%N = true.
Proof. vm_compute. auto 10. Qed.
