(* C13 - Shared loaders, types and values are safe under concurrent use.

   Statements about Model/Conc.v (loaders: every operation is cut into the atomic segments that the code has
   between its critical sections; a schedule is any list of thread ids) and Model/ConcLazy.v (lazily cached
   inferred types).  Every theorem quantifies over EVERY configuration (loader tree), EVERY program (any number
   of threads, any operation lists) and EVERY schedule; the proofs are inductions over the schedule with an
   invariant on the shared state (Proofs/ConcProofs.v, Proofs/ConcLockProofs.v, Proofs/ConcLazyProofs.v).

   Partial, by design (DESIGN.md 5/C13): the property's clause "every operation returns what some sequential
   ordering would return" is proved in the form of the named consequences below; sequential consistency of whole
   histories is tested by the schedule-exploring harness (sequential oracle on the real implementation), not
   proved.  Go-memory-model data races are outside the model (each segment is atomic here); the race-detector
   build of the stress program is the evidence for that. *)
From Coq Require Import NArith Arith Bool List Lia.
From PcoreV Require Import Model.Conc Model.ConcLazy Proofs.ConcProofs Proofs.ConcLockProofs Proofs.ConcLazyProofs.
Import ListNotations.

(* ---- no_fault ------------------------------------------------------------------------------------------ *)

(* No operation of any thread ends in a runtime fault; px.Load and HasEntry never raise an error; the only error
   is the AttemptToRedefine of a Define whose name the program also defines in the same loader with a value that is
   not equal (an error that every sequential order which runs the other Define first raises, too).
   Hypothesis: the program does not explicitly Define a name in a file based loader that has a file for that very
   name (see C13_define_over_file_refuted). *)
Theorem C13_no_fault :
  forall (cfg : config) (p : prog) (s : sched),
    no_define_over_file cfg p ->
    forall t o r, In (EvRes t o r) (trace cfg p s) ->
      r <> RFault /\
      (r = RErr -> exists l n v, o = ODefine l n v /\
                   exists t' v', In (ODefine l n v') (nth t' p []) /\ veq v' v = false).
Proof. exact no_fault. Qed.
Print Assumptions C13_no_fault.

(* ---- agreement ----------------------------------------------------------------------------------------- *)

(* All loads of a name through a loader that return a value return the same one, by whichever threads and
   whenever they run.  Hypothesis single_definer: all definitions of the name inside the loader's chain (Define
   operations anywhere in the program, and files) are in one loader - without it the answer of px.Load changes
   already sequentially when an ancestor gains a binding (C13_agreement_needs_single_definer, and C12). *)
Theorem C13_agreement :
  forall (cfg : config) (p : prog) (s : sched) (l : lid) (n : key),
    single_definer cfg p l n ->
    forall t1 t2 v1 v2,
      In (EvRes t1 (OLoad l n) (RFound (Some v1))) (trace cfg p s) ->
      In (EvRes t2 (OLoad l n) (RFound (Some v2))) (trace cfg p s) ->
      v1 = v2.
Proof. exact agreement. Qed.
Print Assumptions C13_agreement.

(* Bindings are write-once under every schedule: the value that a load handed out stays bound, in a loader of the
   chain, whatever any thread does afterwards (no hypothesis). *)
Theorem C13_found_stays_bound :
  forall (cfg : config) (p : prog) (s s' : sched) t l n v,
    In (EvRes t (OLoad l n) (RFound (Some v))) (trace cfg p s) ->
    exists d, In d (chain cfg l) /\ ents (st_sh (exec cfg p (s ++ s'))) d n = Some (Some v).
Proof. exact found_stays_bound. Qed.
Print Assumptions C13_found_stays_bound.

(* ---- instantiate_once ------------------------------------------------------------------------------------ *)

(* The file of a name is read and parsed at most once per file based loader (no hypothesis at all: any number of
   threads, explicit definitions of the same name included). *)
Theorem C13_instantiate_once :
  forall (cfg : config) (p : prog) (s : sched) (d : lid) (n : key), nparse d n (trace cfg p s) <= 1.
Proof. exact instantiate_once. Qed.
Print Assumptions C13_instantiate_once.

(* ... and never for a name that has an entry: parsing is what creates the entry *)
Theorem C13_parsed_has_entry :
  forall (cfg : config) (p : prog) (s : sched) (d : lid) (n : key),
    nparse d n (trace cfg p s) >= 1 -> ents (st_sh (exec cfg p s)) d n <> None.
Proof. exact parsed_has_entry. Qed.
Print Assumptions C13_parsed_has_entry.

(* ---- never_half_built --------------------------------------------------------------------------------------- *)

(* Every observation of a lazily cached inferred type (or key index) of a shared value, by whichever thread and
   under whichever schedule, sees a completely built object - for every cache whose code builds the object before
   it stores the pointer (pf c = false: Array.reducedType, Array.detailedType, Hash.detailedType, Hash.index in
   the current tree), whatever the other caches do (Model/ConcLazy.v). *)
Theorem C13_never_half_built :
  forall (pf : cell -> bool) (p : lprog) (s : sched) t c b f,
    In (LGot t c b f) (ltrace pf p s) -> pf c = false -> f = true.
Proof. exact never_half_built. Qed.
Print Assumptions C13_never_half_built.

Example C13_never_half_built_nonvacuous :
  ltrace (fun _ => false) [[LInfer 0]; [LInfer 0]; [LInfer 0]] [0; 1; 0; 2; 1] =
    [LGot 0 0 0 true; LGot 2 0 0 true; LGot 1 0 1 true].
Proof. vm_compute. reflexivity. Qed.

(* The unguarded statement ... *)
Definition C13_statement_never_half_built : Prop :=
  forall (pf : cell -> bool) (p : lprog) (s : sched) t c b f, In (LGot t c b f) (ltrace pf p s) -> f = true.

(* ... is false for a cache that stores the pointer first and fills in the object afterwards.  That is what
   Hash.privateReducedType still does (hashtype.go: `hv.reducedType = ht` before the key and value types are known;
   open finding hash-reduced-half-built - the early store also ends the recursion for a mutable hash that contains
   itself, so the two statements cannot simply be swapped), and what Array.privateReducedType /
   privateDetailedType did before their fix commits. *)
Theorem C13_half_built_refuted : ~ C13_statement_never_half_built.
Proof.
  intros H. specialize (H (fun _ => true) [[LInfer 0]; [LInfer 0]] [0; 1] 1 0 0 false).
  assert (Hc : false = true); [|discriminate Hc]. apply H. vm_compute. auto.
Qed.
Print Assumptions C13_half_built_refuted.

(* ---- non-vacuity ------------------------------------------------------------------------------------------- *)

Definition v0 := mkV 0 None.
Definition v1 := mkV 1 None.
Definition fv := mkV 110 None.
(* static <- A <- B *)
Definition cfgA : config := [mkL None false []; mkL (Some 0) false []; mkL (Some 1) false []].
(* static <- F, a file based loader with a file for name 0 *)
Definition cfgF : config := [mkL None false []; mkL (Some 0) true [(0%N, fv)]].

(* three threads, one of them defines: the hypotheses of no_fault and agreement hold, a load misses, another finds,
   a conflicting Define is rejected *)
Definition pA : prog := [[OLoad 2 0%N; OLoad 2 0%N]; [ODefine 1 0%N v0; OLoad 1 0%N]; [ODefine 1 0%N v1]].

Example C13_hypotheses_satisfiable :
  no_define_over_file cfgA pA /\ single_definer cfgA pA 2 0%N /\
  trace cfgA pA [0; 0; 1; 0; 0; 2; 0; 0; 1; 1] =
    [EvRes 1 (ODefine 1 0%N v0) (RDefined v0);
     EvRes 0 (OLoad 2 0%N) (RFound None);
     EvRes 2 (ODefine 1 0%N v1) RErr;
     EvRes 0 (OLoad 2 0%N) (RFound (Some v0));
     EvRes 1 (OLoad 1 0%N) (RFound (Some v0))].
Proof.
  split; [|split].
  - intros t l n v H. destruct t as [|[|[|t]]]; cbn in H; repeat (destruct H as [H|H]; [inversion H; subst; reflexivity|]);
      try contradiction; destruct t; contradiction.
  - exists 1. intros d v Hd [Hf | [t Hin]].
    + cbn in Hd. destruct Hd as [<-|[<-|[<-|[]]]]; discriminate.
    + destruct t as [|[|[|t]]]; cbn in Hin; repeat (destruct Hin as [Hin|Hin]; [inversion Hin; subst; reflexivity|]);
        try contradiction; destruct t; contradiction.
  - vm_compute. reflexivity.
Qed.

(* two threads load the same file name, one waits for the name lock: parsed once, both get the value *)
Example C13_instantiate_once_nonvacuous :
  let tr := trace cfgF [[OLoad 1 0%N]; [OLoad 1 0%N]] [0; 0; 0; 1; 1; 1; 1; 0; 0; 1; 1; 1; 1; 0; 0; 0] in
  nparse 1 0%N tr = 1 /\
  results_of 0 tr = [RFound (Some fv)] /\ results_of 1 tr = [RFound (Some fv)].
Proof. vm_compute. repeat split. Qed.

(* without single_definer the answer changes already in a sequential run (an ancestor gains a binding) *)
Example C13_agreement_needs_single_definer :
  trace cfgA [[OLoad 2 0%N; OLoad 2 0%N]; [ODefine 2 0%N v0]; [ODefine 1 0%N v1]] [1; 0; 0; 0; 2; 0; 0] =
    [EvRes 1 (ODefine 2 0%N v0) (RDefined v0);
     EvRes 0 (OLoad 2 0%N) (RFound (Some v0));
     EvRes 2 (ODefine 1 0%N v1) (RDefined v1);
     EvRes 0 (OLoad 2 0%N) (RFound (Some v1))].
Proof. vm_compute. reflexivity. Qed.

(* ---- open finding: a load that meets an instantiation in progress answers "not found" ------------------- *)

(* The statement that the property asks for (a name that has a file and is never defined otherwise is found by
   every load) ... *)
Definition C13_statement_file_load_found : Prop :=
  forall (cfg : config) (p : prog) (s : sched) t l n r d v,
    (forall t' l' v', ~ In (ODefine l' n v') (nth t' p [])) ->
    In d (chain cfg l) -> file_of cfg d n = Some v ->
    In (EvRes t (OLoad l n) r) (trace cfg p s) -> r = RFound (Some v).

(* ... is false of the code: while one goroutine is between "instantiate.marked" and the instantiator's SetEntry,
   the entry without value that marks the instantiation is visible to everybody, and load() answers (nil, false)
   for it (filebased.go:82, loader.go:84).  Known finding C13-load-during-instantiate. *)
Theorem C13_load_during_instantiate_refuted : ~ C13_statement_file_load_found.
Proof.
  intros H.
  specialize (H cfgF [[OLoad 1 0%N]; [OLoad 1 0%N]] [1; 1; 1; 1; 1; 1; 0; 0; 1; 1] 0 1 0%N (RFound None) 1 fv).
  assert (Hc : RFound None = RFound (Some fv)); [|discriminate Hc].
  apply H.
  - intros t' l' v' Hin. destruct t' as [|[|t']]; cbn in Hin.
    + destruct Hin as [Hin|[]]; discriminate.
    + destruct Hin as [Hin|[]]; discriminate.
    + destruct t'; contradiction.
  - vm_compute. auto.
  - vm_compute. reflexivity.
  - vm_compute. auto.
Qed.
Print Assumptions C13_load_during_instantiate_refuted.

(* What is proved about such loads instead: C13_no_fault (no error), C13_agreement (whoever gets a value gets the
   same one), C13_instantiate_once.  The answer "not found" itself is reported by the harness on every run as
   KNOWN-FINDING (sequential-consistency / load-during-instantiate). *)

(* ---- the hypothesis of no_fault is needed ------------------------------------------------------------------ *)

(* A program that explicitly defines a name in a file based loader that also has a file for it: a Load that is
   instantiating the file then escapes with AttemptToRedefine (the instantiator's SetEntry meets the other
   definition) - which no sequential order does.  Outside the generated programs; recorded in design_notes/C13.md. *)
Example C13_define_over_file_refuted :
  In (EvRes 0 (OLoad 1 0%N) RErr)
     (trace cfgF [[OLoad 1 0%N]; [ODefine 1 0%N v0]] [0; 0; 0; 0; 0; 0; 1; 0; 0; 0]).
Proof. vm_compute. auto. Qed.
