(* C04 — Inferred types contain their values; common type and generalisation are bounds.
   This file holds ONLY the statements of the property theorems, each closed by `exact <lemma>`, with
   `Print Assumptions` beneath, non-vacuity examples, and the refutations that belong to the open findings.
   Model: Model/Infer.v (infer = v.PType(), infer_detailed = px.DetailedValueType, common = commonType,
   generalize = px.Generalize, generic = px.GenericType) over Model/Lattice.v (`asg rx true` = GuardedIsAssignable
   + IsAssignable as the code is, `inst rx true` = IsInstance).  `rx` (Go regexp matching) is arbitrary. *)
From Coq Require Import ZArith NArith Bool List.
From PcoreV Require Import Model.Base Model.Ty Model.Lattice Model.Infer Model.InferHist Model.InferAsk Proofs.LatticeBasics Proofs.LatticeRule Proofs.InferProofs Proofs.InferCommon Proofs.InferInst Proofs.InferHistProofs Proofs.InferAskProofs
  Proofs.LatticeTransSound Proofs.InferTransKeq Proofs.InferTransCommon Proofs.InferTransInst Proofs.InferTransDetailed
  Model.InferRuntime Proofs.InferRuntimeProofs Model.InferRuntimeColl Proofs.InferRuntimeCollProofs Proofs.InferRuntimeCollSound Proofs.InferRuntimeCollComplete Proofs.InferRuntimeLocal.
Import ListNotations.
Open Scope Z_scope.

(* ---- the generalisation of a type accepts that type ---- *)
(* Full statement; gen_ok t = what the Go constructors guarantee (int64 integer bounds, non-negative int64 sizes,
   distinct Struct member names, float bounds that are order keys of floats, i.e. between the keys -InfF / InfF of
   -Inf / +Inf) + no constructor outside the model
   + UniqueTypes drops only structurally equal members of a generalised Variant (dedup_exact). *)
Definition C04_generalize_statement : Prop :=
  forall (rx : str -> str -> bool) (t : ty), gen_ok t = true -> asg rx true (generalize t) t = true.
Theorem C04_generalize_ub : C04_generalize_statement.
Proof. intros rx t H. exact (gen_ub rx true t true H). Qed.
Print Assumptions C04_generalize_ub.

(* the same for px.GenericType, which Generic() applies to type parameters *)
Theorem C04_generic_ub :
  forall (rx : str -> str -> bool) (t : ty), gen_ok t = true -> asg rx true (generic t) t = true.
Proof. intros rx t H. exact (gen_ub rx true t false H). Qed.
Print Assumptions C04_generic_ub.

Example C04_generalize_nonvacuous :
  let rx := fun _ _ => false in
  let t := TStruct [([97%N], (TStringVal [97%N], TTuple [TInteger 1 5; TVariant [TStringVal [98%N]; TEnum false [[99%N]]; TFloat 0 5]] false 2 2));
                    ([98%N], (TOptional (TStringVal [98%N]), TNotUndef (TOptional (TArray (TPattern [[97%N]]) 1 3))))] in
  gen_ok t = true /\
  generalize t = TStruct [([97%N], (TStringVal [97%N], TTuple [TInteger MinI MaxI; TVariant [TString; TEnum false []; TFloat (- InfF) InfF]] false 2 2));
                          ([98%N], (TOptional (TStringVal [98%N]), TNotUndef (TOptional (TArray (TPattern []) 0 MaxI))))] /\
  asg rx true (generalize t) t = true /\ asg rx true t (generalize t) = false.
Proof. vm_compute. repeat split; reflexivity. Qed.

(* fixed finding C04/nonfinite-float-generalize: the unbounded Float type reaches from -Inf to +Inf, so the
   generalisation of the type of an infinity accepts it (it was [-MaxFloat64, MaxFloat64]) *)
Example C04_nonfinite_float_generalize :
  gen_ok (TFloat InfF InfF) = true /\ gen_ok (TFloat (- InfF) (- InfF)) = true /\
  generalize (TFloat InfF InfF) = TFloat (- InfF) InfF /\
  asg (fun _ _ => false) true (generalize (TFloat InfF InfF)) (TFloat InfF InfF) = true /\
  asg (fun _ _ => false) true (generalize (TFloat (- InfF) (- InfF))) (TFloat (- InfF) (- InfF)) = true.
Proof. vm_compute. repeat split; reflexivity. Qed.

(* ---- every value is an instance of its detailed type ---- *)
(* dv_ok2 v: nothing outside the model, string hash keys pairwise different, the types used as values (at any depth)
   are as the Go constructors build them (wf_ty) - that such a type accepts itself is C03_refl, no hypothesis - and
   UniqueTypes drops only structurally equal detailed key/value types of a hash (dedup_exact) - `_partial` for this
   last condition only: two detailed types with the same hash key that are not structurally equal (member order of a
   Variant / Enum / Pattern inside) are interchangeable only by a congruence of inst AND asg under key equality on
   both sides; transitivity (C03_trans) does not give it because detailed types contain Unit (Array[Unit,0,0]). *)
Theorem C04_infer_detailed_inst_partial :
  forall (rx : str -> str -> bool) (v : value), dv_ok2 rx v = true -> inst rx true (infer_detailed rx v) v = true.
Proof. exact detailed_inst2. Qed.
Print Assumptions C04_infer_detailed_inst_partial.

Example C04_detailed_nonvacuous :
  let rx := fun _ _ => false in
  let v := VArr [VHash [(VStr [97%N], VInt 1); (VStr [98%N], VUndef)]; VHash [(VInt 1, VStr [97%N]); (VStr [], VArr [])];
                 VSensitive (VArr [VFloat 5; VType (TInteger 0 5)]); VArr []] in
  dv_ok2 rx v = true /\
  infer_detailed rx v =
    TTuple [TStruct [([97%N], (TStringVal [97%N], TInteger 1 1)); ([98%N], (TOptional (TStringVal [98%N]), TUndef))];
            THash (TVariant [TInteger 1 1; TStringVal []]) (TVariant [TStringVal [97%N]; TArray TUnit 0 0]) 2 2;
            TSensitive (TTuple [TFloat 5 5; TType (TInteger 0 5)] false 2 2);
            TArray TUnit 0 0] false 4 4 /\
  inst rx true (infer_detailed rx v) v = true.
Proof. vm_compute. repeat split; reflexivity. Qed.

(* types used as values, nested in collections: a hash of arrays of types (a Struct with a Hash type inside among them) *)
Example C04_detailed_types_as_values :
  let rx := fun _ _ => false in
  let s := TStruct [([97%N], (TOptional (TStringVal [97%N]), THash TString (TVariant [TInteger 0 5; TUndef]) 0 3))] in
  let v := VHash [(VStr [97%N], VArr [VType s; VType (TTuple [TEnum true [[97%N]]; TNotUndef (TOptional TString)] true 1 5)]);
                  (VInt 1, VArr [VSensitive (VType (TType s)); VArr []])] in
  dv_ok2 rx v = true /\
  infer_detailed rx v =
    THash (TVariant [TStringVal [97%N]; TInteger 1 1])
          (TVariant [TTuple [TType s; TType (TTuple [TEnum true [[97%N]]; TNotUndef (TOptional TString)] true 1 5)] false 2 2;
                     TTuple [TSensitive (TType (TType s)); TArray TUnit 0 0] false 2 2]) 2 2 /\
  inst rx true (infer_detailed rx v) v = true.
Proof. vm_compute. repeat split; reflexivity. Qed.

(* fixed findings C04/nonfinite-float-infer, -detailed: NaN infers the unbounded Float type, which - and only which -
   has it as an instance; the infinities are instances of their types and of Float (it was Float[NaN, NaN], which
   contains nothing) *)
Example C04_nonfinite_float_infer :
  let rx := fun _ _ => false in
  let v := VArr [VArr [VNaN; VFloat InfF; VFloat (- InfF)]; VArr [VFloat 0]; VArr [VNaN]] in
  iv_all rx v = true /\ dv_ok2 rx v = true /\ cv_ok0 v = true /\
  infer rx VNaN = TFloat (- InfF) InfF /\ inst rx true (infer rx VNaN) VNaN = true /\
  inst rx true (TFloat (- InfF) 0) VNaN = false /\ inst rx true (TFloat InfF InfF) VNaN = false /\
  infer rx v = TArray (TArray (TFloat (- InfF) InfF) 1 3) 3 3 /\
  inst rx true (infer rx v) v = true /\ inst rx true (infer_detailed rx v) v = true /\
  inst rx true (infer_detailed rx (VHash [(VStr [97%N], VNaN)])) (VHash [(VStr [97%N], VNaN)]) = true /\
  inst rx true (TFloat (- InfF) InfF) (VFloat InfF) = true /\ inst rx true (TFloat 0 InfF) (VFloat InfF) = true /\
  asg rx true (TArray TScalarData 0 MaxI) (infer_detailed rx (VArr [VNaN; VFloat InfF])) = true.
Proof. vm_compute. repeat split; reflexivity. Qed.

(* ---- a type that accepts the detailed type of a value has the value as an instance ---- *)
(* The full statement is this one with vals = all values and excl = no exclusion. *)
Definition C04_detailed_sound_statement (vals : (str -> str -> bool) -> value -> bool) (excl : ty -> ty -> bool) : Prop :=
  forall (rx : str -> str -> bool) (v : value) (T : ty),
    vals rx v = true -> excl T (infer_detailed rx v) = true ->
    asg rx true T (infer_detailed rx v) = true -> inst rx true T v = true.

(* Proved with the open finding C04/byspec-struct-accepts-hash-sound excluded by the syntactic guard of C01
   (rule_free T D: T contains no Struct or D contains no Hash); `_partial`: the UniqueTypes condition of dv_ok2 (see
   above); a type used as a value needs wf_ty only (reflexivity is C03_refl). *)
Theorem C04_detailed_sound_partial : C04_detailed_sound_statement dv_ok2 LatticeRule.rule_free.
Proof. intros rx v T Hv. exact (detailed_sound2 rx v Hv T). Qed.
Print Assumptions C04_detailed_sound_partial.

Example C04_detailed_sound_nonvacuous :
  let rx := fun _ _ => false in
  let S := TStruct [([97%N], (TStringVal [97%N], TInteger 0 5)); ([98%N], (TOptional (TStringVal [98%N]), TOptional TString))] in
  let h := VHash [(VStr [97%N], VInt 1); (VStr [98%N], VUndef)] in
  let T := TTuple [TVariant [S; TInteger 0 0]; TArray (TNotUndef TScalar) 0 3] true 1 2 in
  let v := VArr [h; VArr [VFloat 2; VRegexp [97%N]]] in
  dv_ok2 rx v = true /\ LatticeRule.rule_free T (infer_detailed rx v) = true /\
  asg rx true T (infer_detailed rx v) = true /\ inst rx true T v = true /\
  asg rx true T (infer_detailed rx (VArr [h; VArr [VUndef]])) = false.
Proof. vm_compute. repeat split; reflexivity. Qed.

(* with types as values: T accepts the detailed type of an array of an array of types *)
Example C04_detailed_sound_types_as_values :
  let rx := fun _ _ => false in
  let v := VArr [VArr [VType (TInteger 0 5); VType (TArray (TEnum false [[97%N]]) 1 2)]; VType (TType TString)] in
  let T := TTuple [TArray (TType (TVariant [TNumeric; TArray TString 0 3])) 0 2; TType (TType TScalar)] false 2 2 in
  dv_ok2 rx v = true /\ LatticeRule.rule_free T (infer_detailed rx v) = true /\
  asg rx true T (infer_detailed rx v) = true /\ inst rx true T v = true /\ cv_ok0 v = true /\ cwf T = true.
Proof. vm_compute. repeat split; reflexivity. Qed.

(* open finding C04/byspec-struct-accepts-hash-sound: the unguarded statement fails in the model as in the code *)
Example C04_byspec_struct_accepts_hash_refuted :
  exists T v, dv_ok2 (fun _ _ => false) v = true /\
              asg (fun _ _ => false) true T (infer_detailed (fun _ _ => false) v) = true /\
              inst (fun _ _ => false) true T v = false.
Proof.
  exists (TStruct [([97%N], (TOptional (TStringVal [97%N]), TInteger MinI MaxI))]), (VHash [(VInt 1, VInt 1)]).
  vm_compute. repeat split; reflexivity.
Qed.

(* ---- conversely, for values without undef-valued hash entry ---- *)
(* cv_ok0 v = nothing outside the model, string hash keys pairwise different (kv_ok) + no undef-valued hash entry (the
   exclusion the property names) + float values that are order keys of floats (between the keys of -Inf and +Inf:
   the infinities and NaN are inside the theorem).  Nothing is asked of the types used as values and nothing of
   UniqueTypes (the earlier guard cv_ok contained dv_ok: reflexivity and dedup_exact; neither is needed).
   cwf T = Struct types as the constructors build them + no Tuple with more element types than its minimum size
   (open finding C04/tuple-slots-beyond-size: the one exclusion left, hence still `_partial`). *)
Theorem C04_detailed_complete_partial :
  forall (rx : str -> str -> bool) (v : value) (T : ty),
    cv_ok0 v = true -> cwf T = true ->
    inst rx true T v = true -> asg rx true T (infer_detailed rx v) = true.
Proof. intros rx v T Hv. exact (detailed_complete_core0 rx v Hv T). Qed.
Print Assumptions C04_detailed_complete_partial.

Example C04_detailed_complete_nonvacuous :
  let rx := fun _ _ => false in
  let S := TStruct [([97%N], (TStringVal [97%N], TInteger 0 5)); ([98%N], (TOptional (TStringVal [98%N]), TOptional TString))] in
  let T := TArray (TVariant [S; THash TScalarData (TVariant [TString; TArray TAny 0 0]) 0 2; TTuple [TFloat 0 5] true 1 3]) 1 4 in
  let v := VArr [VHash [(VStr [97%N], VInt 1)]; VHash [(VInt 1, VStr [97%N]); (VStr [], VArr [])]; VArr [VFloat 2; VFloat 3]] in
  cv_ok0 v = true /\ cwf T = true /\ inst rx true T v = true /\ asg rx true T (infer_detailed rx v) = true.
Proof. vm_compute. repeat split; reflexivity. Qed.

(* the exclusion the property names is needed: an undef-valued entry makes the inferred key optional *)
Example C04_undef_entry_excluded :
  let rx := fun _ _ => false in
  let T := TStruct [([97%N], (TStringVal [97%N], TUndef))] in
  let v := VHash [(VStr [97%N], VUndef)] in
  cwf T = true /\ no_undef_entry v = false /\ inst rx true T v = true /\ asg rx true T (infer_detailed rx v) = false.
Proof. vm_compute. repeat split; reflexivity. Qed.

(* open finding C04/tuple-slots-beyond-size: [1] is an instance of Tuple[Integer,String,1,2], which does not
   accept its detailed type Tuple[Integer[1,1]] *)
Example C04_tuple_slots_beyond_size_refuted :
  exists T v, cv_ok0 v = true /\ inst (fun _ _ => false) true T v = true /\
              asg (fun _ _ => false) true T (infer_detailed (fun _ _ => false) v) = false.
Proof.
  exists (TTuple [TInteger MinI MaxI; TString] true 1 2), (VArr [VInt 1]). vm_compute. repeat split; reflexivity.
Qed.

(* ---- the common type of two types accepts both of them ---- *)
(* The full statement is this one without `ok`. *)
Definition C04_common_statement (ok : (str -> str -> bool) -> ty -> ty -> bool) : Prop :=
  forall (rx : str -> str -> bool) (a b : ty),
    ok rx a b = true -> wf_ty a = true -> wf_ty b = true -> no_other (common rx a b) = true ->
    asg rx true (common rx a b) a = true /\ asg rx true (common rx a b) b = true.

(* Proved for every pair of well-formed types, Tuple/Tuple merges included (the common type of two Tuple types is
   Array[commonType(cet ts, cet ts')], `cet` a fold of commonType over the element types: that the result accepts every
   element type is transitivity of assignability, C03_trans, along the fold).  common_ok2 follows the recursion of
   commonType and asks, where two Tuple types are merged: their element types are Unit-free and the by-specification
   Struct<-Hash rule cannot fire between them (none contains a Struct, or none contains a Hash: `tfree`) - the two side
   conditions of transitivity, open findings unit-outside-empty-collection and byspec-struct-accepts-hash-common - and
   no step of the two folds yields an alias.  Nothing else: no condition on Tuple sizes or slots, and none on
   UniqueTypes where two Variants are merged (the earlier dedup_exact is gone: members with the same hash key accept
   each other, InferTransKeq.tkeq_asg, so whichever representative UniqueTypes keeps accepts the member dropped).
   no_other (result): the result is neither the out-of-fuel marker nor contains the aliases Data / RichData, which are
   not constructors of `ty` (missing constructor: TAlias; for a top-level alias result see InferCommon.other_accepts_data).
   `_partial` for the aliases only. *)
Theorem C04_common_ub_partial :
  C04_common_statement (fun rx a b => common_ok2 rx (S (tsize a + tsize b)) a b).
Proof. intros rx a b. apply common_ub2. Qed.
Print Assumptions C04_common_ub_partial.

(* the guard of the earlier version of the theorem (common_ok: no Tuple/Tuple merge at any depth) implies this one *)
Theorem C04_common_guard_weaker :
  forall (rx : str -> str -> bool) (n : nat) (a b : ty), common_ok rx n a b = true -> common_ok2 rx n a b = true.
Proof. exact common_ok_ok2. Qed.
Print Assumptions C04_common_guard_weaker.

Example C04_common_nonvacuous :
  let rx := fun _ _ => false in
  let a := TArray (TVariant [TInteger 0 5; TStringVal [97%N]]) 1 2 in
  let b := TArray (TVariant [TEnum false [[98%N]]; TFloat 1 1]) 3 3 in
  let a' := TType (TNotUndef (TArray (TEnum true [[97%N]]) 0 1)) in
  let b' := TType (TNotUndef (TArray (TStringVal [66%N]) 2 2)) in
  common_ok2 rx (S (tsize a + tsize b)) a b = true /\ wf_ty a = true /\ wf_ty b = true /\
  common rx a b = TArray (TVariant [TInteger 0 5; TStringVal [97%N]; TEnum false [[98%N]]; TFloat 1 1]) 1 3 /\
  asg rx true (common rx a b) a = true /\ asg rx true (common rx a b) b = true /\
  asg rx true a b = false /\ asg rx true b a = false /\
  common rx a' b' = TType (TNotUndef (TArray (TEnum true [[97%N]; [98%N]]) 0 2)) /\
  common_ok2 rx (S (tsize a' + tsize b')) a' b' = true /\
  asg rx true (common rx a' b') a' = true /\ asg rx true (common rx a' b') b' = true /\
  common rx (TInteger 1 1) (TStringVal [97%N]) = TScalarData /\
  common rx (TArray (TInteger 1 1) 1 1) (THash TString TUndef 0 1) = TData.
Proof. vm_compute. repeat split; reflexivity. Qed.

(* Tuple/Tuple: nested Tuples against Arrays, the common element types folded on both sides; the earlier guard
   excluded the pair *)
Example C04_common_tuple_tuple :
  let rx := fun _ _ => false in
  let a := TTuple [TTuple [TInteger 0 5; TInteger 7 9] false 2 2; TTuple [TInteger 20 30] false 1 1] false 2 2 in
  let b := TTuple [TArray (TFloat 0 1) 0 3; TArray (TFloat 5 6) 1 1] true 1 4 in
  let a' := TType (TTuple [TStringVal [97%N]; TEnum false [[98%N]; [99%N]]; TStringVal [100%N]] false 3 3) in
  let b' := TType (TTuple [TPattern [[97%N]]; TPattern [[98%N]]] true 0 9) in
  common_ok2 rx (S (tsize a + tsize b)) a b = true /\ common_ok rx (S (tsize a + tsize b)) a b = false /\
  wf_ty a = true /\ wf_ty b = true /\
  common rx a b = TArray (TArray TNumeric 0 3) 1 4 /\
  asg rx true (common rx a b) a = true /\ asg rx true (common rx a b) b = true /\
  asg rx true a b = false /\ asg rx true b a = false /\
  common_ok2 rx (S (tsize a' + tsize b')) a' b' = true /\ wf_ty a' = true /\ wf_ty b' = true /\
  common rx a' b' = TType (TArray TScalarData 0 9) /\
  asg rx true (common rx a' b') a' = true /\ asg rx true (common rx a' b') b' = true.
Proof. vm_compute. repeat split; reflexivity. Qed.

(* Variant/Variant where UniqueTypes drops a member that is key-equal but not structurally equal to the one kept
   (Enum['b','a'] for Enum['a','b']); the earlier guard excluded the pair *)
Example C04_common_variant_key_equal :
  let rx := fun _ _ => false in
  let a := TVariant [TEnum false [[97%N]; [98%N]]; TInteger 0 1] in
  let b := TVariant [TFloat 0 1; TEnum false [[98%N]; [97%N]]] in
  common_ok2 rx (S (tsize a + tsize b)) a b = true /\ common_ok rx (S (tsize a + tsize b)) a b = false /\
  wf_ty a = true /\ wf_ty b = true /\
  common rx a b = TVariant [TEnum false [[97%N]; [98%N]]; TInteger 0 1; TFloat 0 1] /\
  asg rx true (common rx a b) a = true /\ asg rx true (common rx a b) b = true /\
  asg rx true a b = false /\ asg rx true b a = false.
Proof. vm_compute. repeat split; reflexivity. Qed.

(* open finding C04/unit-outside-empty-collection (the reason for the Unit-free condition in `common_ok2`): two Tuple
   types whose common type does not accept the first *)
Example C04_unit_outside_empty_collection_refuted :
  exists a b, wf_ty a = true /\ wf_ty b = true /\ no_other (common (fun _ _ => false) a b) = true /\
              common_ok2 (fun _ _ => false) (S (tsize a + tsize b)) a b = false /\
              asg (fun _ _ => false) true (common (fun _ _ => false) a b) a = false.
Proof.
  exists (TTuple [THash TUnit TUnit 0 MaxI; THash (TInteger MinI MaxI) TString 0 MaxI] false 2 2),
         (TTuple [TOptional (THash TString TString 0 MaxI)] false 1 1).
  vm_compute. repeat split; reflexivity.
Qed.

(* ---- every value is an instance of its inferred (generic) type ---- *)
(* EVERY value of the model, types used as values at any depth included (arrays and hashes of types, types inside
   nested collections: the inferred type of an array of types is Array[Type[c]] with c a fold of commonType, and
   `inst (Type[c]) (VType u) = asg c u` - C04_common_ub plus transitivity, C03_trans, along the fold).
   iv_all v = iv_ok2 v && tvals_ok v:
     tvals_ok  the types used as values are well-formed (wf_ty: what the constructors guarantee), Unit-free, and the
               by-specification Struct<-Hash rule cannot fire between any two of them or their common types (none
               contains a Struct, or none contains a Hash) - the two exclusions the property names (C01_sound has the
               same ones as no_unit / rule_free_val), which are the side conditions of transitivity;
     iv_ok2    no alias Data / RichData at any step of a fold (the aliases are not constructors of `ty`: missing
               constructor TAlias) - hence `_partial` - and the guard common_ok2 of C04_common_ub at every step
               (for types used as values that are or contain Tuples / Variants; it holds of every first-order step).
   The proof shows that on the class K2 of types inference produces (InferInst.K extended by Type[t]) commonType is a
   semantic upper bound. *)
Theorem C04_infer_inst_partial :
  forall (rx : str -> str -> bool) (v : value), iv_all rx v = true -> inst rx true (infer rx v) v = true.
Proof. exact infer_inst_all. Qed.
Print Assumptions C04_infer_inst_partial.

(* the guard of the earlier, first-order version of the theorem (iv_ok: no type used as a value) implies this one *)
Theorem C04_infer_guard_weaker :
  forall (rx : str -> str -> bool) (v : value), iv_ok rx v = true -> iv_all rx v = true.
Proof. exact iv_ok_subsumed. Qed.
Print Assumptions C04_infer_guard_weaker.

Theorem C04_common_covers :
  forall (rx : str -> str -> bool) (a b : ty) (x : value),
    K a = true -> K b = true -> no_other (common rx a b) = true ->
    inst rx true a x = true \/ inst rx true b x = true -> inst rx true (common rx a b) x = true.
Proof. intros rx a b x. apply common_sem. Qed.
Print Assumptions C04_common_covers.

Example C04_infer_nonvacuous :
  let rx := fun _ _ => false in
  let a := VStr [97%N] in
  let v := VArr [VArr [VArr [a]; VArr []]; VArr [VArr []; VArr [VInt 1]];
                 VArr [VArr [VFloat 5; VInt 6]; VArr [VSensitive (VInt 1); VInt 2]]] in
  iv_ok rx v = true /\
  infer rx (VArr [VArr [VArr [a]; VArr []]; VArr [VArr []; VArr [VInt 1]]]) = TArray (TArray (TArray TScalarData 0 1) 2 2) 2 2 /\
  infer rx (VHash [(a, VInt 1); (VStr [98%N], VInt 7)]) = THash (TEnum false [[97%N]; [98%N]]) (TInteger 1 7) 2 2 /\
  infer rx v = TArray (TArray (TArray TAny 0 2) 2 2) 3 3 /\
  inst rx true (infer rx v) v = true /\
  (* the order of the elements matters: the wider element second (fixed defect common-returns-narrower) *)
  infer rx (VArr [VArr [VInt 1]; VArr [VInt 1; a]]) = TArray (TArray TScalarData 1 2) 2 2 /\
  inst rx true (infer rx (VArr [VArr [VInt 1]; VArr [VInt 1; a]])) (VArr [VArr [VInt 1]; VArr [VInt 1; a]]) = true.
Proof. vm_compute. repeat split; reflexivity. Qed.

(* types used as values: arrays of types (Tuple types among them: Tuple/Tuple common types), nested, as hash values
   and inside Sensitive; iv_ok (the earlier guard) is false of all of them *)
Example C04_infer_types_as_values :
  let rx := fun _ _ => false in
  let t1 := TTuple [TInteger 0 5; TInteger 7 9] false 2 2 in
  let t2 := TTuple [TFloat 0 1] true 1 4 in
  let t3 := TArray (TStringVal [97%N]) 0 3 in
  let v := VArr [VArr [VType t1; VType t2]; VArr [VType t3]; VArr []] in
  let w := VHash [(VStr [97%N], VArr [VType (TInteger 0 5); VType (TInteger 7 9)]);
                  (VStr [98%N], VArr [VType (TFloat 0 1)])] in
  let u := VHash [(VType (TVariant [TInteger 0 1; TString]), VSensitive (VType TString));
                  (VType (TVariant [TFloat 0 1; TString]), VSensitive (VType (TPattern [[97%N]])))] in
  iv_all rx v = true /\ iv_ok rx v = false /\
  infer rx (VArr [VType t1; VType t2]) = TArray (TType (TArray TNumeric 1 4)) 2 2 /\
  infer rx v = TArray (TArray (TType (TArray TScalar 0 4)) 0 2) 3 3 /\
  inst rx true (infer rx v) v = true /\
  iv_all rx w = true /\
  infer rx w = THash (TEnum false [[97%N]; [98%N]]) (TArray (TType TNumeric) 1 2) 2 2 /\
  inst rx true (infer rx w) w = true /\
  iv_all rx u = true /\
  infer rx u = THash (TType (TVariant [TInteger 0 1; TString; TFloat 0 1])) (TSensitive (TType TString)) 2 2 /\
  inst rx true (infer rx u) u = true.
Proof. vm_compute. repeat split; reflexivity. Qed.

(* open finding C04/byspec-struct-accepts-hash-infer (the reason for the Struct-free-or-Hash-free condition in tvals_ok):
   three types used as values, [Struct[{a=>Integer}], Hash[String,Integer,1,1], Hash[Enum[a],Integer,0,5]]; the Struct
   accepts the first Hash type by the by-specification rule and is accepted by the second, which does not accept the
   first: the array is not an instance of its inferred type Array[Type[Hash[Enum[a],Integer,0,5]],3,3] (same on the code) *)
Example C04_byspec_infer_refuted :
  exists v, iv_ok2 (fun _ _ => false) v = true /\ tv_ok (fun t => wf_ty t && no_unit t) v = true /\
            tvals_ok v = false /\
            inst (fun _ _ => false) true (infer (fun _ _ => false) v) v = false.
Proof.
  exists (VArr [VType (TStruct [([97%N], (TStringVal [97%N], TInteger MinI MaxI))]); VType (THash TString (TInteger MinI MaxI) 1 1);
                VType (THash (TEnum false [[97%N]]) (TInteger MinI MaxI) 0 5)]).
  vm_compute. repeat split; reflexivity.
Qed.

(* ---- histories: inference on values that share parts, in any order ---- *)
(* Model/InferHist.v: the objects of a value graph (a collection refers to its elements, an object can be an
   element of several collections), the lazily filled reducedType / detailedType fields of every Array and Hash
   object, and histories of v.PType(), DetailedValueType(v), CommonType(a, b), Generalize(a) whose type operands are
   literal types or the results of earlier operations.  `run` is the code (memoised), `spec_run` the pure functions
   of Model/Infer.v.  For EVERY graph and EVERY history: each operation returns, and each cache holds, the pure
   function of the value the object denotes. *)
Theorem C04_history_pure :
  forall (rx : str -> str -> bool) (ns : list node) (ops : list op),
    wf_dag ns = true -> forallb (op_ok ns) ops = true ->
    snd (run rx ns ops) = spec_run rx ns ops /\
    (forall i t, get_red (fst (run rx ns ops)) i = Some t -> t = infer rx (nth i (vals_of ns) VUndef)) /\
    (forall i t, get_det (fst (run rx ns ops)) i = Some t -> t = infer_detailed rx (nth i (vals_of ns) VUndef)).
Proof.
  intros rx ns ops Hwf Hops. destruct (history_pure rx ns Hwf ops Hops) as [H1 (_ & H2 & H3)].
  split; [exact H1|]. split; [exact H2|exact H3].
Qed.
Print Assumptions C04_history_pure.

(* hence the stated relations hold of what the k-th operation returned at the END of every history that contains it
   (whatever was asked before and after), under the hypotheses of the single-operation theorems *)
Theorem C04_history_infer_inst_partial :
  forall (rx : str -> str -> bool) (ns : list node) (ops : list op) (k i : nat),
    wf_dag ns = true -> forallb (op_ok ns) ops = true -> nth_error ops k = Some (OPType i) ->
    iv_all rx (nth i (vals_of ns) VUndef) = true ->
    inst rx true (nth k (snd (run rx ns ops)) TFault) (nth i (vals_of ns) VUndef) = true.
Proof.
  intros rx ns ops k i Hwf Hops Hk Hv. rewrite (history_result_end rx ns Hwf ops k _ Hops Hk eq_refl). cbn [spec_op].
  apply C04_infer_inst_partial. exact Hv.
Qed.
Print Assumptions C04_history_infer_inst_partial.

Theorem C04_history_detailed_inst_partial :
  forall (rx : str -> str -> bool) (ns : list node) (ops : list op) (k i : nat),
    wf_dag ns = true -> forallb (op_ok ns) ops = true -> nth_error ops k = Some (ODetailed i) ->
    dv_ok2 rx (nth i (vals_of ns) VUndef) = true ->
    inst rx true (nth k (snd (run rx ns ops)) TFault) (nth i (vals_of ns) VUndef) = true.
Proof.
  intros rx ns ops k i Hwf Hops Hk Hv. rewrite (history_result_end rx ns Hwf ops k _ Hops Hk eq_refl). cbn [spec_op].
  apply C04_infer_detailed_inst_partial. exact Hv.
Qed.
Print Assumptions C04_history_detailed_inst_partial.

(* the operands are the result objects as they are at the end of the history *)
Theorem C04_history_common_ub_partial :
  forall (rx : str -> str -> bool) (ns : list node) (ops : list op) (k : nat) (a b : tref),
    wf_dag ns = true -> forallb (op_ok ns) ops = true -> nth_error ops k = Some (OCommon a b) ->
    ref_ok k a = true -> ref_ok k b = true ->
    let res := snd (run rx ns ops) in
    let ta := deref res a in
    let tb := deref res b in
    common_ok2 rx (S (tsize ta + tsize tb)) ta tb = true -> wf_ty ta = true -> wf_ty tb = true ->
    no_other (common rx ta tb) = true ->
    asg rx true (nth k res TFault) ta = true /\ asg rx true (nth k res TFault) tb = true.
Proof.
  intros rx ns ops k a b Hwf Hops Hk Ha Hb res ta tb Hok Hwa Hwb Hno.
  assert (Hr : refs_ok k (OCommon a b) = true) by (cbn [refs_ok]; rewrite Ha, Hb; reflexivity).
  unfold res. rewrite (history_result_end rx ns Hwf ops k _ Hops Hk Hr). cbn [spec_op].
  apply C04_common_ub_partial; assumption.
Qed.
Print Assumptions C04_history_common_ub_partial.

Theorem C04_history_generalize_ub :
  forall (rx : str -> str -> bool) (ns : list node) (ops : list op) (k : nat) (a : tref),
    wf_dag ns = true -> forallb (op_ok ns) ops = true -> nth_error ops k = Some (OGeneralize a) -> ref_ok k a = true ->
    let res := snd (run rx ns ops) in
    gen_ok (deref res a) = true -> asg rx true (nth k res TFault) (deref res a) = true.
Proof.
  intros rx ns ops k a Hwf Hops Hk Ha res Hg.
  unfold res. rewrite (history_result_end rx ns Hwf ops k _ Hops Hk Ha). cbn [spec_op].
  apply C04_generalize_ub. exact Hg.
Qed.
Print Assumptions C04_history_generalize_ub.

(* one value, ['a','b','c'], element of two arrays; the inferences interleaved; the merged Enum of the first parent
   is merged again (the history of the seeded change C04-m3) *)
Example C04_history_nonvacuous :
  let rx := fun _ _ => false in
  let s := fun c : N => NLeaf (VStr [c]) in
  let ns := [s 97%N; s 98%N; s 99%N; NArr [0; 1; 2]%nat; s 100%N; NArr [4%nat]; s 101%N; NArr [6%nat];
             NArr [3; 5]%nat; NArr [3; 7]%nat; NHash [(0, 3); (4, 8)]%nat] in
  let ops := [OPType 8; ODetailed 3; OPType 9; OCommon (RRes 0) (RRes 2); OPType 8; OGeneralize (RRes 3); ODetailed 10; OPType 3]%nat in
  let e := fun l => TEnum false (map (fun c : N => [c]) l) in
  wf_dag ns = true /\ forallb (op_ok ns) ops = true /\
  nth 8 (vals_of ns) VUndef = VArr [VArr [VStr [97%N]; VStr [98%N]; VStr [99%N]]; VArr [VStr [100%N]]] /\
  snd (run rx ns ops) =
    [TArray (TArray (e [97; 98; 99; 100]%N) 1 3) 2 2;
     TTuple [TStringVal [97%N]; TStringVal [98%N]; TStringVal [99%N]] false 3 3;
     TArray (TArray (e [97; 98; 99; 101]%N) 1 3) 2 2;
     TArray (TArray (e [97; 98; 99; 100; 101]%N) 1 3) 2 2;
     TArray (TArray (e [97; 98; 99; 100]%N) 1 3) 2 2;
     TArray (TArray (TEnum false []) 0 MaxI) 0 MaxI;
     TStruct [([97%N], (TStringVal [97%N], TTuple [TStringVal [97%N]; TStringVal [98%N]; TStringVal [99%N]] false 3 3));
              ([100%N], (TStringVal [100%N], TTuple [TTuple [TStringVal [97%N]; TStringVal [98%N]; TStringVal [99%N]] false 3 3;
                                                       TTuple [TStringVal [100%N]] false 1 1] false 2 2))];
     TArray (e [97; 98; 99]%N) 3 3] /\
  get_red (fst (run rx ns ops)) 3 = Some (TArray (e [97; 98; 99]%N) 3 3) /\
  get_red (fst (run rx ns ops)) 10 = None /\
  iv_all rx (nth 8 (vals_of ns) VUndef) = true /\
  inst rx true (nth 0 (snd (run rx ns ops)) TFault) (nth 8 (vals_of ns) VUndef) = true /\
  (* what the seeded change turned the first result into does not contain the value *)
  inst rx true (TArray (TArray (e [97; 98; 99; 101]%N) 1 3) 2 2) (nth 8 (vals_of ns) VUndef) = false.
Proof. vm_compute. repeat split; reflexivity. Qed.

(* ---- histories with the QUESTION of the property and with asserting / describing operations in between ---- *)
(* Model/InferAsk.v: the operations above plus QAccepts T v (px.IsAssignable(T, px.DetailedValueType(v)) and
   px.IsInstance(T, v)), QAssert T v (px.AssertInstance, which on failure computes and caches the detailed types on its
   way to the message), QMismatch T v (px.MismatchError), QAssertType T a (px.AssertType).  For EVERY graph and EVERY
   history of these: every returned type, every answer and every cached type is the pure function of the value the
   object denotes and of the type operand - an assertion that failed on the value, or on a collection that holds it,
   before the question changes nothing.  Assumption as for C04_history_pure: no operation writes into a type object it
   is handed (types are values of `ty`); tied by the correspondence run (the cases_ask files) and the direct check. *)
Theorem C04_history_ask_pure :
  forall (rx : str -> str -> bool) (ns : list node) (ops : list qop),
    wf_dag ns = true -> forallb (qop_ok ns) ops = true ->
    (snd (fst (qrun rx ns ops)), snd (qrun rx ns ops)) = qspec_run rx ns ops /\
    (forall i t, get_red (fst (fst (qrun rx ns ops))) i = Some t -> t = infer rx (nth i (vals_of ns) VUndef)) /\
    (forall i t, get_det (fst (fst (qrun rx ns ops))) i = Some t -> t = infer_detailed rx (nth i (vals_of ns) VUndef)).
Proof.
  intros rx ns ops Hwf Hops. destruct (ask_pure rx ns Hwf ops Hops) as [H1 (_ & H2 & H3)].
  split; [exact H1|]. split; [exact H2|exact H3].
Qed.
Print Assumptions C04_history_ask_pure.

(* the clause, both directions, for the question put at the END of any such history (after whatever was inferred,
   asserted, described): (a, b) = (T accepts the detailed type of v, v is an instance of T) as the history answers.
   Guards: those of the single-operation theorems. *)
Theorem C04_history_detailed_sound_partial :
  forall (rx : str -> str -> bool) (ns : list node) (ops : list qop) (t : tref) (i : nat) (a b : bool),
    wf_dag ns = true -> forallb (qop_ok ns) ops = true -> (i < length ns)%nat ->
    let st := qrun rx ns ops in
    let T := deref (snd (fst st)) t in
    let v := nth i (vals_of ns) VUndef in
    dv_ok2 rx v = true -> LatticeRule.rule_free T (infer_detailed rx v) = true ->
    last (snd (qstep rx ns st (QAccepts t i))) (false, false) = (a, b) ->
    a = true -> b = true.
Proof.
  intros rx ns ops t i a b Hwf Hops Hi st T v Hv Hr Hl Ha.
  unfold st in Hl. rewrite (ask_at_end rx ns Hwf ops t i Hops Hi), last_snoc in Hl. injection Hl as <- <-.
  exact (C04_detailed_sound_partial rx v T Hv Hr Ha).
Qed.
Print Assumptions C04_history_detailed_sound_partial.

Theorem C04_history_detailed_complete_partial :
  forall (rx : str -> str -> bool) (ns : list node) (ops : list qop) (t : tref) (i : nat) (a b : bool),
    wf_dag ns = true -> forallb (qop_ok ns) ops = true -> (i < length ns)%nat ->
    let st := qrun rx ns ops in
    let T := deref (snd (fst st)) t in
    let v := nth i (vals_of ns) VUndef in
    cv_ok0 v = true -> cwf T = true ->
    last (snd (qstep rx ns st (QAccepts t i))) (false, false) = (a, b) ->
    b = true -> a = true.
Proof.
  intros rx ns ops t i a b Hwf Hops Hi st T v Hv Hc Hl Hb.
  unfold st in Hl. rewrite (ask_at_end rx ns Hwf ops t i Hops Hi), last_snoc in Hl. injection Hl as <- <-.
  exact (C04_detailed_complete_partial rx v T Hv Hc Hb).
Qed.
Print Assumptions C04_history_detailed_complete_partial.

(* the history of the seeded change C04-m7: h = {'a'=>1,'b'=>'x'} (object 4) inside [h] (object 5); the detailed type is
   inferred, the question is put, px.AssertInstance fails on h and on [h] against Struct types that name its keys, and the
   question is put again with five types: the answers are those of the fresh value (the seeded change answered
   (true, false) for Struct[{Optional[c]=>Integer}] and (false, true) for Struct[{a=>Integer,b=>String}]) *)
Example C04_history_ask_nonvacuous :
  let rx := fun _ _ => false in
  let I := TInteger MinI MaxI in
  let k := fun c : N => TStringVal [c] in
  let ns := [NLeaf (VStr [97%N]); NLeaf (VInt 1); NLeaf (VStr [98%N]); NLeaf (VStr [120%N]); NHash [(0, 1); (2, 3)]%nat; NArr [4%nat]] in
  let Sab := TStruct [([97%N], (k 97%N, I)); ([98%N], (k 98%N, TString))] in
  let Sii := TStruct [([97%N], (k 97%N, I)); ([98%N], (k 98%N, I))] in
  let Sc := TStruct [([99%N], (TOptional (k 99%N), I))] in
  let ops := [QOp (ODetailed 4); QAccepts (RTy Sc) 4; QAssert (RTy Sii) 4; QAssert (RTy (TArray Sii 0 MaxI)) 5; QAssert (RTy Sab) 4;
              QMismatch (RTy Sii) 5; QAssertType (RTy Sii) (RRes 0);
              QAccepts (RTy Sc) 4; QAccepts (RTy Sab) 4; QAccepts (RTy Sii) 4; QAccepts (RTy (TArray Sab 1 1)) 5;
              QAccepts (RTy (TVariant [Sc; TArray I 0 MaxI])) 4]%nat in
  wf_dag ns = true /\ forallb (qop_ok ns) ops = true /\
  nth 4 (vals_of ns) VUndef = VHash [(VStr [97%N], VInt 1); (VStr [98%N], VStr [120%N])] /\
  snd (fst (qrun rx ns ops)) = [TStruct [([97%N], (k 97%N, TInteger 1 1)); ([98%N], (k 98%N, TStringVal [120%N]))]] /\
  snd (qrun rx ns ops) = [(false, false); (false, false); (false, false); (true, true); (false, false);
                          (false, false); (true, true); (false, false); (true, true); (false, false)] /\
  get_det (fst (fst (qrun rx ns ops))) 5 <> None /\
  dv_ok2 rx (nth 4 (vals_of ns) VUndef) = true /\ cv_ok0 (nth 4 (vals_of ns) VUndef) = true /\ cwf Sab = true /\
  LatticeRule.rule_free Sc (infer_detailed rx (nth 4 (vals_of ns) VUndef)) = true.
Proof. vm_compute. repeat split; try reflexivity. discriminate. Qed.

(* ---- Runtime types: leaf types with a second identity (a reflect.Type) behind their printed form ---- *)
(* Model/InferRuntime.v; `gasg` = reflect's AssignableTo and `tname` = reflect.Type.String() are ARBITRARY functions in
   every statement: two Go types may have the same name (tname x = tname y with x <> y), which is the input class of the
   seeded change C04-m9.  The lattice model knows these types as the opaque TOther only. *)

(* "T accepts the detailed type inferred for the value" and "the value is an instance of T" are the same answer, for
   every Runtime type T (with or without reflect.Type, name, pattern) and every wrapped Go value: both directions of
   the clause, no hypothesis (since fix 2ee6afd; before it Runtime['go', '', /x/] accepted every Go type) *)
Theorem C04_runtime_accepts_iff_instance :
  forall (gasg : N -> N -> bool) (tname : N -> str) (T : rty) (v : N),
    rt_asg gasg T (rt_of tname v) = rt_inst gasg tname T v.
Proof. exact rt_accepts_iff. Qed.
Print Assumptions C04_runtime_accepts_iff_instance.

(* a wrapped Go value is an instance of its own type (inferred = detailed): reflexivity of AssignableTo is all it takes *)
Theorem C04_runtime_infer_inst :
  forall (gasg : N -> N -> bool) (tname : N -> str), (forall x, gasg x x = true) ->
  forall v, rt_inst gasg tname (rt_of tname v) v = true.
Proof. exact rt_infer_inst. Qed.
Print Assumptions C04_runtime_infer_inst.

(* the common type of two Runtime types accepts both *)
Theorem C04_runtime_common_ub :
  forall (gasg : N -> N -> bool), (forall x, gasg x x = true) ->
  forall a b, rt_asg gasg (rt_common gasg a b) a = true /\ rt_asg gasg (rt_common gasg a b) b = true.
Proof. exact rt_common_ub. Qed.
Print Assumptions C04_runtime_common_ub.

(* the element type inferred for an array of wrapped Go values (the fold of commonType over their types) has every
   element as an instance - where AssignableTo is transitive on the Go types involved.  _partial: Go's assignability is
   NOT transitive in general (channel directions, named against unnamed types): open finding
   go-assignability-not-transitive, refuted below *)
Definition C04_runtime_array_statement (gasg : N -> N -> bool) (tname : N -> str) : Prop :=
  forall vs t, rt_elem gasg tname vs = Some t -> Forall (fun v => rt_inst gasg tname t v = true) vs.
Theorem C04_runtime_array_inst_partial :
  forall (gasg : N -> N -> bool) (tname : N -> str),
    (forall x, gasg x x = true) -> (forall x y z, gasg x y = true -> gasg y z = true -> gasg x z = true) ->
    (forall x, tname x <> []) ->
    C04_runtime_array_statement gasg tname.
Proof. intros gasg tname Hr Ht Hn vs t. apply (rt_elem_inst gasg tname Hr Ht). intros v _. apply Hn. Qed.
Print Assumptions C04_runtime_array_inst_partial.

(* WHERE EXACTLY transitivity is needed: only among the Go types of the ELEMENTS of the array (the fold keeps the type of
   one element, or a type without reflect.Type; the one step that uses transitivity is "v is an instance of Runtime[x], and
   Runtime[y] accepts Runtime[x] and replaces it" with v, x, y Go types of three elements: InferRuntimeLocal.rt_inst_mono_on).
   This is the class the harness tags as the open finding (nonTransitive: x -> y -> z without x -> z among the Go types
   inside the input), so outside the finding's input class the statement is a theorem.  Detailed inference and
   "accepts the detailed type -> instance" need no transitivity at all (C04_runtime_coll_detailed_inst / _sound below). *)
Theorem C04_runtime_array_inst_local_partial :
  forall (gasg : N -> N -> bool) (tname : N -> str) (vs : list N) (t : rty),
    (forall x, gasg x x = true) ->
    (forall x y z, In x vs -> In y vs -> In z vs -> gasg x y = true -> gasg y z = true -> gasg x z = true) ->
    (forall v, In v vs -> tname v <> []) ->
    rt_elem gasg tname vs = Some t -> Forall (fun v => rt_inst gasg tname t v = true) vs.
Proof. intros gasg tname vs t. exact (rt_elem_inst_on gasg tname vs t). Qed.
Print Assumptions C04_runtime_array_inst_local_partial.

(* non-vacuity: the oracle of the refutation below (not transitive: 1 -> 0 -> 2 without 1 -> 2) is transitive among the Go
   types of [1; 0; 0] and of [0; 2; 2], whose inferred element types have every element as an instance; among those of
   [0; 1; 2] it is not *)
Example C04_runtime_array_local_nonvacuous :
  let gasg := (fun x y => N.eqb x y || (N.eqb x 1 && N.eqb y 0) || (N.eqb x 0 && N.eqb y 1) || (N.eqb x 0 && N.eqb y 2))%N in
  let tname := (fun x => [99; x]%N) in
  let trans_on := fun vs => forallb (fun x => forallb (fun y => forallb (fun z => negb (gasg x y && gasg y z) || gasg x z) vs) vs) vs in
  trans_on [1; 0; 0]%N = true /\ trans_on [0; 2; 2]%N = true /\ trans_on [0; 1; 2]%N = false /\
  rt_elem gasg tname [1; 0; 0]%N = Some (rt_of tname 1%N) /\ forallb (rt_inst gasg tname (rt_of tname 1%N)) [1; 0; 0]%N = true /\
  rt_elem gasg tname [0; 2; 2]%N = Some (rt_of tname 2%N) /\ forallb (rt_inst gasg tname (rt_of tname 2%N)) [0; 2; 2]%N = true.
Proof. vm_compute. repeat split; reflexivity. Qed.

(* open finding go-assignability-not-transitive: 0 = chan int, 1 = a named chan int, 2 = a named <-chan int; 1 -> 0, 0 -> 1,
   0 -> 2 and not 1 -> 2: [0; 1; 2] infers the element type Runtime['go', name of 2], of which 1 is no instance *)
Example C04_go_assignability_not_transitive_refuted :
  exists (gasg : N -> N -> bool) (tname : N -> str),
    (forall x, gasg x x = true) /\ (forall x, tname x <> []) /\ ~ C04_runtime_array_statement gasg tname.
Proof.
  exists (fun x y => N.eqb x y || (N.eqb x 1 && N.eqb y 0) || (N.eqb x 0 && N.eqb y 1) || (N.eqb x 0 && N.eqb y 2))%N.
  exists (fun x => [99; x]%N).
  split; [intros x; rewrite N.eqb_refl; reflexivity|]. split; [discriminate|].
  intros H. specialize (H [0; 1; 2]%N _ eq_refl).
  inversion H as [|? ? _ H1]; subst. inversion H1 as [|? ? H2 _]; subst. vm_compute in H2. discriminate.
Qed.

(* non-vacuity, the input class of C04-m9: Go types 0 and 1 have the SAME name and are not assignable to each other; their
   types print alike (same runtime, name, pattern) and are different types: neither accepts the other, neither has the
   other's value as an instance, [0; 1] infers Runtime['go'] (which has both), and the interface type 2 that 0 implements
   accepts the type of 0 only.  (The seeded change answered the first question by the names: true.) *)
Example C04_runtime_same_name_nonvacuous :
  let gasg := (fun x y => N.eqb x y || (N.eqb x 0 && N.eqb y 2))%N in
  let tname := (fun x => if N.eqb x 2 then [73] else [69])%N in
  let A := rt_of tname 0%N in let B := rt_of tname 1%N in let I := mkR s_go (tname 2%N) None (Some 2%N) in
  tname 0%N = tname 1%N /\ r_name A = r_name B /\ rty_eqb A B = false /\
  rt_asg gasg A B = false /\ rt_asg gasg B A = false /\ rt_inst gasg tname A 1%N = false /\ rt_inst gasg tname B 0%N = false /\
  rt_elem gasg tname [0; 1]%N = Some (rt_of_runtime s_go) /\ rt_elem gasg tname [0; 0]%N = Some A /\
  rt_asg gasg I A = true /\ rt_asg gasg I B = false /\ rt_inst gasg tname I 0%N = true /\ rt_inst gasg tname I 1%N = false /\
  rt_common gasg I B = rt_of_runtime s_go /\ rt_common gasg A I = I /\
  rt_asg gasg (mkR s_go [] (Some [120%N]) None) A = false /\ rt_inst gasg tname (mkR s_go [] (Some [120%N]) None) 0%N = false.
Proof. vm_compute. repeat split; reflexivity. Qed.

(* ---- Runtime types BELOW Array / Hash / Tuple / Variant / Optional (Model/InferRuntimeColl.v) ---- *)
(* The lattice model has a Runtime type as the opaque TOther; this layer has the container constructors over the leaves
   Runtime (rty), Integer, String, Undef with rc_inst = IsInstance, rc_asg = IsAssignable, rc_detailed = DetailedValueType,
   ckeq = equality of hash keys (what UniqueTypes compares; the key of a Runtime type carries its reflect.Type since fix
   403c461).  reflect's AssignableTo and String() are arbitrary functions. *)

(* every value of the layer, at any depth of nesting, is an instance of its detailed type.  Reflexivity of AssignableTo
   is all it takes: NO transitivity (detailed inference folds nothing: a Tuple of the element types, a Hash of the
   Variants of the distinct key / value types) and NO condition on UniqueTypes (the member it keeps has the same hash key
   as the one it drops, hence the same instances: C04_runtime_coll_key_equal).  rv_ok v: no hash inside v has only
   non-empty strings as keys (its detailed type is a Struct, which is in the lattice model only). *)
Theorem C04_runtime_coll_detailed_inst :
  forall (gasg : N -> N -> bool) (tname : N -> str), (forall x, gasg x x = true) ->
  forall v : rv, rv_ok v = true -> rc_inst gasg tname (rc_detailed tname v) v = true.
Proof. exact rc_detailed_inst. Qed.
Print Assumptions C04_runtime_coll_detailed_inst.

(* two types of the layer with the same hash key have the same instances (no hypothesis on reflect) *)
Theorem C04_runtime_coll_key_equal :
  forall (gasg : N -> N -> bool) (tname : N -> str) (a b : ct) (v : rv),
    ckeq a b = true -> rc_inst gasg tname a v = rc_inst gasg tname b v.
Proof. exact ckeq_inst. Qed.
Print Assumptions C04_runtime_coll_key_equal.

(* a type of the layer that accepts the detailed type of a value has the value as an instance - NO hypothesis on reflect
   (neither reflexivity nor transitivity of AssignableTo: the question put to reflect by IsAssignable on the detailed type
   is the question IsInstance puts, C04_runtime_accepts_iff_instance, and the containers add none), NO condition on
   UniqueTypes (InferRuntimeCollSound.fits: the detailed type up to equality of hash keys).  The converse has the two
   exclusions of C04_detailed_complete_partial (undef-valued entries, Tuple slots beyond the size) and is direct check only
   in this layer. *)
Theorem C04_runtime_coll_detailed_sound :
  forall (gasg : N -> N -> bool) (tname : N -> str) (T : ct) (v : rv),
    rv_ok v = true -> rc_asg gasg T (rc_detailed tname v) = true -> rc_inst gasg tname T v = true.
Proof. exact rc_detailed_sound. Qed.
Print Assumptions C04_runtime_coll_detailed_sound.

(* both directions: "T accepts the detailed type of v" and "v is an instance of T" are the same answer, for every type T
   of the layer without a Tuple that has more element types than its minimum size (ccwf; `_partial` for this exclusion
   only = open finding tuple-slots-beyond-size, refuted inside the layer below) and every value of the layer.  No
   hypothesis on reflect.  The layer has no Struct, so the exclusion of undef-valued hash entries does not arise. *)
Theorem C04_runtime_coll_accepts_iff_instance_partial :
  forall (gasg : N -> N -> bool) (tname : N -> str) (T : ct) (v : rv),
    ccwf T = true -> rv_ok v = true -> rc_asg gasg T (rc_detailed tname v) = rc_inst gasg tname T v.
Proof. exact rc_accepts_iff_instance. Qed.
Print Assumptions C04_runtime_coll_accepts_iff_instance_partial.

Example C04_runtime_coll_tuple_slots_refuted :
  exists (T : ct) (v : rv), rv_ok v = true /\ ccwf T = false /\
    rc_inst (fun _ _ => true) (fun _ => [97%N]) T v = true /\
    rc_asg (fun _ _ => true) T (rc_detailed (fun _ => [97%N]) v) = false.
Proof.
  exists (CTuple [CRt (rt_of_runtime s_go); CString] 1 2), (RVArr [RVGo 0%N]). vm_compute. repeat split; reflexivity.
Qed.

(* non-vacuity: Go types 0 and 1 print alike and reject each other (the input class of C04-m9), 2 is an interface 0
   implements; a hash whose keys are hashes with the same entries in two orders (key-equal detailed types that are not
   structurally equal: UniqueTypes keeps the first) and whose values are wrapped Go values of the two like-named types *)
Example C04_runtime_coll_nonvacuous :
  let gasg := (fun x y => N.eqb x y || (N.eqb x 0 && N.eqb y 2))%N in
  let tname := (fun x => if N.eqb x 2 then [73] else [69])%N in
  let A := rt_of tname 0%N in let B := rt_of tname 1%N in
  let k1 := RVHash [(RVInt 1, RVGo 0%N); (RVInt 2, RVStr [120%N])] in
  let k2 := RVHash [(RVInt 2, RVStr [120%N]); (RVInt 1, RVGo 0%N)] in
  let v := RVHash [(k1, RVArr [RVGo 0%N; RVGo 1%N]); (k2, RVGo 1%N); (RVInt 3, RVArr [])] in
  let K1 := CHash (CVariant [CInt 1 1; CInt 2 2]) (CVariant [CRt A; CStrVal [120%N]]) 2 2 in
  rv_ok v = true /\
  ckeq (rc_detailed tname k1) (rc_detailed tname k2) = true /\ rc_detailed tname k1 = K1 /\
  rc_detailed tname v = CHash (CVariant [K1; CInt 3 3]) (CVariant [CTuple [CRt A; CRt B] 2 2; CRt B; CArr CUnit 0 0]) 3 3 /\
  rc_inst gasg tname (rc_detailed tname v) v = true /\
  rc_inst gasg tname (CArr (CRt A) 0 5) (RVArr [RVGo 0%N; RVGo 1%N]) = false /\
  rc_inst gasg tname (CArr (CRt (mkR s_go (tname 2%N) None (Some 2%N))) 0 5) (RVArr [RVGo 0%N; RVGo 0%N]) = true /\
  rc_asg gasg (CArr (CRt (mkR s_go (tname 2%N) None (Some 2%N))) 0 5) (rc_detailed tname (RVArr [RVGo 0%N; RVGo 0%N])) = true /\
  rc_asg gasg (CArr (CRt A) 0 5) (rc_detailed tname (RVArr [RVGo 0%N; RVGo 1%N])) = false /\
  (let T := CTuple [CHash CAny (CVariant [CArr (CRt A) 0 1; CRt B; CArr (CRt B) 0 0]) 3 3] 1 1 in
   ccwf T = true /\ rc_inst gasg tname T (RVArr [v]) = false /\ rc_asg gasg T (rc_detailed tname (RVArr [v])) = false) /\
  (let T := CHash (CVariant [CHash (CInt 0 9) CAny 0 5; CInt 0 9]) (COptional (CVariant [CArr (CRt (rt_of_runtime s_go)) 0 2; CRt B])) 1 3 in
   rc_asg gasg T (rc_detailed tname v) = true /\ rc_inst gasg tname T v = true) /\
  rv_ok (RVHash [(RVStr [97%N], RVGo 0%N)]) = false.
Proof. vm_compute. repeat split; reflexivity. Qed.
