(* C04 — Inferred types contain their values; common type and generalisation are bounds.
   This file holds ONLY the statements of the property theorems, each closed by `exact <lemma>`, with
   `Print Assumptions` beneath, non-vacuity examples, and the refutations that belong to the open findings.
   Model: Model/Infer.v (infer = v.PType(), infer_detailed = px.DetailedValueType, common = commonType,
   generalize = px.Generalize, generic = px.GenericType) over Model/Lattice.v (`asg rx true` = GuardedIsAssignable
   + IsAssignable as the code is, `inst rx true` = IsInstance).  `rx` (Go regexp matching) is arbitrary. *)
From Coq Require Import ZArith NArith Bool List.
From PcoreV Require Import Model.Base Model.Ty Model.Lattice Model.Infer Proofs.LatticeBasics Proofs.InferProofs.
Import ListNotations.
Open Scope Z_scope.

(* ---- the generalisation of a type accepts that type ---- *)
(* Full statement; gen_ok t = what the Go constructors guarantee (int64 integer bounds, non-negative int64 sizes,
   distinct Struct member names, FINITE float bounds — see the finding below) + no constructor outside the model
   + UniqueTypes drops only structurally equal members of a generalised Variant (dedup_exact). *)
Definition C04_generalize_statement : Prop :=
  forall (rx : str -> str -> bool) (t : ty), gen_ok t = true -> asg rx true (generalize t) t = true.
Theorem C04_generalize_ub : C04_generalize_statement.
Proof. intros rx t H. exact (gen_ub rx true t true H). Qed.
Print Assumptions C04_generalize_ub.

(* the same for px.GenericType, which Generic() applies to type parameters *)
Theorem C04_generic_ub :
  forall (rx : str -> str -> bool) (t : ty), gen_ok t = true -> asg rx true (generic t) t = true.
Proof. intros rx t H. exact (gen_ub rx true t false H). Qed.
Print Assumptions C04_generic_ub.

Example C04_generalize_nonvacuous :
  let rx := fun _ _ => false in
  let t := TStruct [([97%N], (TStringVal [97%N], TTuple [TInteger 1 5; TVariant [TStringVal [98%N]; TEnum false [[99%N]]; TFloat 0 5]] false 2 2));
                    ([98%N], (TOptional (TStringVal [98%N]), TNotUndef (TOptional (TArray (TPattern [[97%N]]) 1 3))))] in
  gen_ok t = true /\
  generalize t = TStruct [([97%N], (TStringVal [97%N], TTuple [TInteger MinI MaxI; TVariant [TString; TEnum false []; TFloat (- MaxF) MaxF]] false 2 2));
                          ([98%N], (TOptional (TStringVal [98%N]), TNotUndef (TOptional (TArray (TPattern []) 0 MaxI))))] /\
  asg rx true (generalize t) t = true /\ asg rx true t (generalize t) = false.
Proof. vm_compute. repeat split; reflexivity. Qed.

(* open finding C04/nonfinite-float-generalize: the unbounded Float type is [-MaxFloat64, MaxFloat64] *)
Example C04_nonfinite_float_generalize_refuted :
  exists t, asg (fun _ _ => false) true (generalize t) t = false.
Proof. exists (TFloat (MaxF + 1) (MaxF + 1)). vm_compute. reflexivity. Qed.

(* ---- every value is an instance of its detailed type ---- *)
(* dv_ok v: no NaN (finding), nothing outside the model, string hash keys pairwise different, a type used as a
   value accepts itself (in the code: the pointer shortcut a == b of GuardedIsAssignable; C03 reflexivity), and
   UniqueTypes drops only structurally equal detailed key/value types (dedup_exact) — `_partial` for the last
   two: the general statement needs reflexivity of assignability (C03) and that key-equal types are
   interchangeable. *)
Theorem C04_infer_detailed_inst_partial :
  forall (rx : str -> str -> bool) (v : value), dv_ok rx v = true -> inst rx true (infer_detailed rx v) v = true.
Proof. exact detailed_inst. Qed.
Print Assumptions C04_infer_detailed_inst_partial.

Example C04_detailed_nonvacuous :
  let rx := fun _ _ => false in
  let v := VArr [VHash [(VStr [97%N], VInt 1); (VStr [98%N], VUndef)]; VHash [(VInt 1, VStr [97%N]); (VStr [], VArr [])];
                 VSensitive (VArr [VFloat 5; VType (TInteger 0 5)]); VArr []] in
  dv_ok rx v = true /\
  infer_detailed rx v =
    TTuple [TStruct [([97%N], (TStringVal [97%N], TInteger 1 1)); ([98%N], (TOptional (TStringVal [98%N]), TUndef))];
            THash (TVariant [TInteger 1 1; TStringVal []]) (TVariant [TStringVal [97%N]; TArray TUnit 0 0]) 2 2;
            TSensitive (TTuple [TFloat 5 5; TType (TInteger 0 5)] false 2 2);
            TArray TUnit 0 0] false 4 4 /\
  inst rx true (infer_detailed rx v) v = true.
Proof. vm_compute. repeat split; reflexivity. Qed.

(* open finding C04/nonfinite-float-infer: NaN is not an instance of its inferred type (Float[NaN,NaN], outside
   the order keys of the model: TOther) *)
Example C04_nonfinite_float_infer_refuted :
  exists v, inst (fun _ _ => false) true (infer (fun _ _ => false) v) v = false.
Proof. exists VNaN. vm_compute. reflexivity. Qed.
