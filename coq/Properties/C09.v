(* C09 — Ordered collections behave as their abstract models.
   This file holds ONLY the statements of the property theorems, each closed by `exact <lemma>`,
   and `Print Assumptions` beneath. *)
From Coq Require Import ZArith NArith Bool List.
From PcoreV Require Import Model.Base Model.StringHash Proofs.StringHashProofs.
Import ListNotations.

(* The mutable string-keyed hash (model of hash/stringhash.go, with its index map explicit) behaves,
   for EVERY history of operations over any number of hashes, exactly like the abstract
   insertion-ordered map: same result of every operation, query or mutation. *)
Theorem C09_stringhash_refines :
  forall ops : list op, snd (run [] ops) = snd (s_run [] ops).
Proof. exact stringhash_refines. Qed.
Print Assumptions C09_stringhash_refines.

(* ... in particular no operation ever hits a Go runtime fault (index out of range). *)
Theorem C09_stringhash_never_faults :
  forall ops, forallb (fun o => negb (is_fault o)) (snd (run [] ops)) = true.
Proof. exact stringhash_never_faults. Qed.
Print Assumptions C09_stringhash_never_faults.

(* What the abstract map guarantees (so that the refinement says what the property says):
   deletion removes exactly the given key and keeps every other entry reachable ... *)
Theorem C09_delete_keeps_others :
  forall es k k', k' <> k -> s_lookup (s_remove es k) k' = s_lookup es k'.
Proof. exact s_lookup_remove_other. Qed.
Print Assumptions C09_delete_keeps_others.

Theorem C09_delete_removes :
  forall es k, NoDup (map fst es) -> s_lookup (s_remove es k) k = None.
Proof. exact s_lookup_remove_same. Qed.
Print Assumptions C09_delete_removes.

(* ... replacing keeps the position, a new key is appended ... *)
Theorem C09_put_existing_in_place :
  forall es k v k', s_lookup (s_replace es k v) k' =
    if str_eqb k' k then match s_lookup es k with Some _ => Some v | None => None end
    else s_lookup es k'.
Proof. exact s_lookup_replace. Qed.
Print Assumptions C09_put_existing_in_place.

Theorem C09_put_new_appends :
  forall es k v k', s_lookup es k = None ->
    s_lookup (es ++ [(k, v)]) k' = if str_eqb k' k then Some v else s_lookup es k'.
Proof. exact s_lookup_app_new. Qed.
Print Assumptions C09_put_new_appends.

(* ... and all mutation is rejected once frozen. *)
Theorem C09_frozen_rejects_all_mutation :
  forall h k v, sfrozen h = true ->
    s_put h k v = (h, RFrozen) /\ s_delete h k = (h, RFrozen) /\
    (s_lookup (sents h) k = None -> s_compute h k v = (h, RFrozen)).
Proof. exact frozen_rejects. Qed.
Print Assumptions C09_frozen_rejects_all_mutation.

(* Every reachable concrete state satisfies the index/entries coupling invariant `rel`
   (index k = position of k in entries, keys unique). *)
Theorem C09_stringhash_invariant :
  forall ops, exists sp, hrel (fst (run [] ops)) sp.
Proof. exact stringhash_inv. Qed.
Print Assumptions C09_stringhash_invariant.

(* Non-vacuity: a concrete history with deletion in the middle, re-insertion, freeze and merge. *)
Example C09_nonvacuous :
  snd (run [] [ONew; OPut 0 [97]%N 1; OPut 0 [98]%N 2; OPut 0 [99]%N 3; ODelete 0 [97]%N;
               OGet 0 [99]%N; OKeys 0; OFreeze 0; OPut 0 [100]%N 4; OCopy 0; OMerge 1 0; OPairs 2])
  = [RObj 0; RPut None false; RPut None false; RPut None false; RVal (Some 1);
     RVal (Some 3); RKeys [[98]%N; [99]%N]; RUnit; RFrozen; RObj 1; RObj 2;
     RPairs [([98]%N, 2); ([99]%N, 3)]].
Proof. vm_compute. reflexivity. Qed.
