(* C09 — Ordered collections behave as their abstract models.
   This file holds ONLY the statements of the property theorems, each closed by `exact <lemma>`,
   and `Print Assumptions` beneath. *)
From Coq Require Import ZArith NArith Bool List.
From PcoreV Require Import Model.Base Model.StringHash Proofs.StringHashProofs.
From PcoreV Require Model.Coll Proofs.CollProofsKeyed Proofs.CollProofsEq Proofs.CollProofsInv Proofs.CollProofs.
From PcoreV Require Model.Keys Model.CollKey Proofs.CollKeyProofs.
From PcoreV Require Model.CollSeq Proofs.CollSeqProofs.
Import ListNotations.

(* The mutable string-keyed hash (model of hash/stringhash.go, with its index map and the capacity of its entries
   array explicit) behaves, for EVERY history of operations over any number of hashes, exactly like the abstract
   insertion-ordered map: same result of every operation, query or mutation.  The operations include
   ComputeIfAbsent with a mapping function that returns a value, one that panics (the caller recovers: nothing
   may have changed) and one that re-enters the hash (it puts another key, then returns), and the five iterations
   (EachKey, EachPair, EachValue, AllPair, AnyPair) with a callback that RE-ENTERS the hash it is called from: at each
   call it may Delete, Put or ComputeIfAbsent any key.
   ops_ok: a re-entrant mapping function puts a key OTHER than the one being computed; without that guard the
   statement is false of the model and of the code (open finding compute-producer-puts-same-key, refuted below).
   ops_plain: the callbacks of the iterations delete, compute or do nothing; for callbacks that also PUT see
   C09_stringhash_refines_reentrant. *)
Definition C09_stringhash_statement : Prop :=
  forall ops : list op, snd (run [] ops) = snd (s_run [] ops).
Theorem C09_stringhash_refines :
  forall ops : list op, ops_ok ops = true -> ops_plain ops = true -> snd (run [] ops) = snd (s_run [] ops).
Proof. exact stringhash_refines. Qed.
Print Assumptions C09_stringhash_refines.

(* Callbacks that put as well: every result of every operation is still the abstract map's - the keys each
   iteration hands out, how many, the result of AllPair / AnyPair, the map afterwards and so every later answer -
   except that nothing is claimed about the VALUES an iteration hands to its callback (erase_values forgets them):
   a value the callback puts for an entry still to come is or is not the one handed out later, depending on whether
   the entries still live in the array the iteration started on (C09_iteration_values_depend_on_capacity). *)
Theorem C09_stringhash_refines_reentrant :
  forall ops : list op, ops_ok ops = true ->
    map erase_values (snd (run [] ops)) = map erase_values (snd (s_run [] ops)).
Proof. exact stringhash_refines_reentrant. Qed.
Print Assumptions C09_stringhash_refines_reentrant.

(* What the abstract iteration is (so that the refinement says what the property says).  An iteration that was not
   left by a panic has handed out, in order and once each, the entries the map held WHEN IT STARTED - all of them,
   or the first m when AllPair / AnyPair was stopped - whatever its callback deleted or added meanwhile ... *)
Theorem C09_iteration_visits_entries_present_at_start :
  forall kind h acts h' ks vs b, s_iterate kind h acts = (h', RIter ks vs b) ->
    exists m st, RIter ks vs b = iter_out kind (firstn m (sents h)) st /\
                 (m <= length (sents h))%nat /\ (st = false -> m = length (sents h)).
Proof. exact s_iterate_visits_start_entries. Qed.
Print Assumptions C09_iteration_visits_entries_present_at_start.

Theorem C09_each_visits_every_entry_present_at_start :
  forall kind h acts h' ks vs b, stops kind true = false ->
    s_iterate kind h acts = (h', RIter ks vs b) -> RIter ks vs b = iter_out kind (sents h) false.
Proof. exact s_each_visits_all. Qed.
Print Assumptions C09_each_visits_every_entry_present_at_start.

(* ... and deletion from inside the callback keeps every other entry reachable: a key that no call of the callback
   deletes answers after the iteration as it did before (however the iteration ended). *)
Theorem C09_delete_during_iteration_keeps_others :
  forall kind h acts k', forallb (fun a => act_spares k' (fst a)) acts = true ->
    s_lookup (sents (fst (s_iterate kind h acts))) k' = s_lookup (sents h) k'.
Proof. exact s_iterate_delete_keeps_others. Qed.
Print Assumptions C09_delete_during_iteration_keeps_others.

(* The same history on a hash made with capacity 4 and with capacity 3: the callback appends a key at its first
   call (the entries move to a larger array only in the second hash) and puts c => 9 at its second; the iteration
   of the first hash then hands out c => 9, that of the second c => 3.  Both hashes hold c => 9 afterwards. *)
Example C09_iteration_values_depend_on_capacity :
  let h c := [ONewCap c; OPut 0 [97]%N 1; OPut 0 [98]%N 2; OPut 0 [99]%N 3;
              OIter 0 IEachPair [(ACompute [100]%N 5, false); (APut [99]%N 9, false)]; OGet 0 [99]%N] in
  nth 4 (snd (run [] (h 4%nat))) RUnit = RIter [[97]%N; [98]%N; [99]%N] [VInt 1; VInt 2; VInt 9] true /\
  nth 4 (snd (run [] (h 3%nat))) RUnit = RIter [[97]%N; [98]%N; [99]%N] [VInt 1; VInt 2; VInt 3] true /\
  nth 5 (snd (run [] (h 4%nat))) RUnit = RVal (Some (VInt 9)) /\ nth 5 (snd (run [] (h 3%nat))) RUnit = RVal (Some (VInt 9)).
Proof. vm_compute. auto. Qed.

(* Non-vacuity of the iteration theorems: "remove every visited key" visits a, b, c, d and leaves the hash empty;
   removing the entry that follows the visited one still visits it. *)
Example C09_iteration_nonvacuous :
  let ops := [ONew; OPut 0 [97]%N 1; OPut 0 [98]%N 2; OPut 0 [99]%N 3; OPut 0 [100]%N 4;
              OIter 0 IEachKey [(ADel [97]%N, false); (ADel [98]%N, false); (ADel [99]%N, false); (ADel [100]%N, false)];
              OLen 0; OPut 0 [97]%N 1; OPut 0 [98]%N 2; OPut 0 [99]%N 3;
              OIter 0 IAllPair [(ADel [98]%N, false); (ANone, false); (ANone, true)]; OPairs 0] in
  ops_ok ops = true /\ ops_plain ops = true /\
  snd (run [] ops) =
    [RObj 0; RPut None false; RPut None false; RPut None false; RPut None false;
     RIter [[97]%N; [98]%N; [99]%N; [100]%N] [] true; RInt 0; RPut None false; RPut None false; RPut None false;
     RIter [[97]%N; [98]%N; [99]%N] [VInt 1; VInt 2; VInt 3] false; RPairs [([97]%N, VInt 1); ([99]%N, VInt 3)]].
Proof. vm_compute. auto. Qed.

Theorem C09_compute_producer_puts_same_key_refuted :
  exists ops, ops_ok ops = false /\
    snd (run [] ops) = [RObj 0; RVal (Some (VInt 6)); RKeys [[97%N]; [97%N]]; RVal (Some (VInt 6)); RKeys [[97%N]]; RBool false].
Proof. exact compute_producer_puts_same_key_refuted. Qed.
Print Assumptions C09_compute_producer_puts_same_key_refuted.

(* LOOKUPS FIND EXACTLY THE PRESENT KEYS, whatever value a key is associated with - the Go value nil included
   (val = VNil | VInt z; `Put(k, nil)` declares k without a value).  For every history (any number of hashes, every
   operation above) and every hash it leaves: the keys are pairwise different (Len = number of keys), and for every
   key k: when k is among Keys, Get answers (v, true) with v the value of k's only entry, Includes true,
   GetOrDefault v FOR EVERY DEFAULT (also when v is nil and the default is not), ComputeIfAbsent v without computing or
   changing anything; when k is not among Keys, Get answers (nil, false), Includes false, GetOrDefault its default,
   Delete nothing. *)
Theorem C09_lookups_find_exactly_present_keys :
  forall ops, ops_ok ops = true ->
  forall i c, nth_error (fst (run [] ops)) i = Some c ->
    NoDup (map fst (entries c)) /\
    forall k,
      (In k (map fst (entries c)) ->
         exists v, In (k, v) (entries c) /\ get c k = RVal (Some v) /\ includes c k = true /\
                   (forall d, get_or_default c k d = RVal (Some v)) /\
                   (forall w, compute_if_absent c k w = (c, RVal (Some v))) /\
                   compute_panic c k = (c, RVal (Some v))) /\
      (~ In k (map fst (entries c)) ->
         get c k = RVal None /\ includes c k = false /\
         (forall d, get_or_default c k d = RVal (Some d)) /\
         (frozen c = false -> delete c k = (c, RVal None))).
Proof. exact lookups_find_exactly_present_keys. Qed.
Print Assumptions C09_lookups_find_exactly_present_keys.

(* the same of the abstract map: a lookup succeeds exactly for the keys of the map *)
Theorem C09_abstract_lookup_iff_present :
  forall es k, ((exists v, s_lookup es k = Some v) <-> In k (map fst es)) /\
               (s_lookup es k = None <-> ~ In k (map fst es)).
Proof. intros es k. split; [apply s_lookup_present|apply s_lookup_absent]. Qed.
Print Assumptions C09_abstract_lookup_iff_present.

(* Non-vacuity: b is put with the value nil.  It is present for every lookup - Get (nil, true), GetOrDefault nil and
   not 7, Includes, Len 2, ComputeIfAbsent does not compute - also in a copy, a merge and after a re-Put of a with
   nil; a Go caller of GetOrDefault / ComputeIfAbsent / Delete sees a bare nil there (go_view). *)
Example C09_nil_value_nonvacuous :
  let ops := [ONew; OPut 0 [97]%N (VInt 1); OPut 0 [98]%N VNil; OGet 0 [98]%N; OGetOrDefault 0 [98]%N (VInt 7);
              OIncludes 0 [98]%N; OLen 0; OCompute 0 [98]%N (VInt 5); OPairs 0; OCopy 0; OGetOrDefault 1 [98]%N (VInt 7);
              OPut 0 [97]%N VNil; OMerge 1 0; OGetOrDefault 2 [97]%N (VInt 7); OGetOrDefault 2 [99]%N (VInt 7);
              ODelete 0 [98]%N; OGet 0 [98]%N; OEquals 1 2] in
  ops_ok ops = true /\ ops_plain ops = true /\
  snd (run [] ops) =
    [RObj 0; RPut None false; RPut None false; RVal (Some VNil); RVal (Some VNil);
     RBool true; RInt 2; RVal (Some VNil); RPairs [([97]%N, VInt 1); ([98]%N, VNil)]; RObj 1; RVal (Some VNil);
     RPut (Some (VInt 1)) true; RObj 2; RVal (Some VNil); RVal (Some (VInt 7));
     RVal (Some VNil); RVal None; RBool false] /\
  go_view (OGetOrDefault 0 [98]%N (VInt 7)) (RVal (Some VNil)) = RVal None.
Proof. vm_compute. auto. Qed.

(* ... in particular no operation ever hits a Go runtime fault (index out of range). *)
Theorem C09_stringhash_never_faults :
  forall ops, ops_ok ops = true -> forallb (fun o => negb (is_fault o)) (snd (run [] ops)) = true.
Proof. exact stringhash_never_faults. Qed.
Print Assumptions C09_stringhash_never_faults.

(* What the abstract map guarantees (so that the refinement says what the property says):
   deletion removes exactly the given key and keeps every other entry reachable ... *)
Theorem C09_delete_keeps_others :
  forall es k k', k' <> k -> s_lookup (s_remove es k) k' = s_lookup es k'.
Proof. exact s_lookup_remove_other. Qed.
Print Assumptions C09_delete_keeps_others.

Theorem C09_delete_removes :
  forall es k, NoDup (map fst es) -> s_lookup (s_remove es k) k = None.
Proof. exact s_lookup_remove_same. Qed.
Print Assumptions C09_delete_removes.

(* ... replacing keeps the position, a new key is appended ... *)
Theorem C09_put_existing_in_place :
  forall es k v k', s_lookup (s_replace es k v) k' =
    if str_eqb k' k then match s_lookup es k with Some _ => Some v | None => None end
    else s_lookup es k'.
Proof. exact s_lookup_replace. Qed.
Print Assumptions C09_put_existing_in_place.

Theorem C09_put_new_appends :
  forall es k v k', s_lookup es k = None ->
    s_lookup (es ++ [(k, v)]) k' = if str_eqb k' k then Some v else s_lookup es k'.
Proof. exact s_lookup_app_new. Qed.
Print Assumptions C09_put_new_appends.

(* ... and all mutation is rejected once frozen. *)
Theorem C09_frozen_rejects_all_mutation :
  forall h k v, sfrozen h = true ->
    s_put h k v = (h, RFrozen) /\ s_delete h k = (h, RFrozen) /\
    (s_lookup (sents h) k = None -> s_compute h k v = (h, RFrozen)).
Proof. exact frozen_rejects. Qed.
Print Assumptions C09_frozen_rejects_all_mutation.

(* Every reachable concrete state satisfies the index/entries coupling invariant `rel`
   (index k = position of k in entries, keys unique). *)
Theorem C09_stringhash_invariant :
  forall ops, ops_ok ops = true -> exists sp, hrel (fst (run [] ops)) sp.
Proof. exact stringhash_inv. Qed.
Print Assumptions C09_stringhash_invariant.

(* Non-vacuity: a concrete history with deletion in the middle, re-insertion, freeze and merge. *)
Example C09_nonvacuous :
  snd (run [] [ONew; OPut 0 [97]%N 1; OPut 0 [98]%N 2; OPut 0 [99]%N 3; ODelete 0 [97]%N;
               OGet 0 [99]%N; OKeys 0; OFreeze 0; OPut 0 [100]%N 4; OCopy 0; OMerge 1 0; OPairs 2])
  = [RObj 0; RPut None false; RPut None false; RPut None false; RVal (Some (VInt 1));
     RVal (Some (VInt 3)); RKeys [[98]%N; [99]%N]; RUnit; RFrozen; RObj 1; RObj 2;
     RPairs [([98]%N, VInt 2); ([99]%N, VInt 3)]].
Proof. vm_compute. reflexivity. Qed.

(* ... and one with the three kinds of mapping function: a panic leaves the hash as it was (the key can still be
   computed afterwards), a re-entrant one puts its key first. *)
Example C09_compute_nonvacuous :
  ops_ok [ONew; OPut 0 [97]%N 1; OComputePanic 0 [98]%N; OIncludes 0 [98]%N; OLen 0;
          OComputePut 0 [98]%N 2 [99]%N 3; OPairs 0; OGet 0 [98]%N; ODelete 0 [99]%N; OGet 0 [98]%N;
          OComputePanic 0 [97]%N] = true /\
  snd (run [] [ONew; OPut 0 [97]%N 1; OComputePanic 0 [98]%N; OIncludes 0 [98]%N; OLen 0;
               OComputePut 0 [98]%N 2 [99]%N 3; OPairs 0; OGet 0 [98]%N; ODelete 0 [99]%N; OGet 0 [98]%N;
               OComputePanic 0 [97]%N])
  = [RObj 0; RPut None false; RPanic; RBool false; RInt 1; RVal (Some (VInt 2));
     RPairs [([97]%N, VInt 1); ([99]%N, VInt 3); ([98]%N, VInt 2)]; RVal (Some (VInt 2)); RVal (Some (VInt 3)); RVal (Some (VInt 2)); RVal (Some (VInt 1))].
Proof. vm_compute. auto. Qed.

(* ================================================================================================== *)
(* Array / Hash half.  The model is Model/Coll.v: `step pool op` is the result of one List / OrderedMap operation
   on the values of the pool, `pool_after pool ops` the pool after a history (every step appends its result).
   wf_pv p: every hash anywhere inside p has pairwise non-equal keys (and p holds no marker of a defective
   snapshot); lits_ok ops: the literals a history starts from (OLit / OBuild / OParse) are well-formed.
   The abstract specification (Proofs/CollProofs.v): a Hash is an association list with unique keys —
   spec_get = first match, spec_delete = filter, spec_merge = replace in place / append new in argument order. *)
Module CollHalf.
Import Coll CollProofsKeyed CollProofsEq CollProofsInv CollProofs.
Local Open Scope nat_scope.

(* Value equality (Equals of Array / Hash / HashEntry / scalars; also the hash-key equality) is an equivalence
   relation on the well-formed values: "keyed by value equality" means something. *)
Theorem C09_veq_reflexive : forall a, wf_pv a = true -> veq a a = true.
Proof. exact veq_refl. Qed.
Print Assumptions C09_veq_reflexive.

Theorem C09_veq_symmetric : forall a b, wf_pv a = true -> wf_pv b = true -> veq a b = true -> veq b a = true.
Proof. exact veq_sym. Qed.
Print Assumptions C09_veq_symmetric.

Theorem C09_veq_transitive : forall a b c, wf_pv a = true -> wf_pv b = true -> wf_pv c = true ->
  veq a b = true -> veq b c = true -> veq a c = true.
Proof. exact veq_trans. Qed.
Print Assumptions C09_veq_transitive.

(* ... and not outside them: a hash that repeats a key equals a hash that does not equal it *)
Theorem C09_veq_not_symmetric_refuted : exists a b, veq a b = true /\ veq b a = false /\ wf_pv a = false.
Proof. exact veq_not_symmetric_refuted. Qed.
Print Assumptions C09_veq_not_symmetric_refuted.

(* THE INVARIANT, for all histories: every value a history ever produces is well-formed; in particular no hash
   ever holds two equal keys, at any depth (inside arrays, hashes, entries). *)
Theorem C09_no_hash_holds_two_equal_keys : forall ops, lits_ok ops = true ->
  Forall (fun p => wf_pv p = true) (pool_after [] ops).
Proof. exact history_invariant. Qed.
Print Assumptions C09_no_hash_holds_two_equal_keys.

Theorem C09_no_two_equal_keys_top : forall ops i es, lits_ok ops = true ->
  pool_at (pool_after [] ops) i = PHash es -> nodup_keys (map fst es) = true.
Proof. exact no_two_equal_keys. Qed.
Print Assumptions C09_no_two_equal_keys_top.

(* every single operation keeps it (from any well-formed pool) *)
Theorem C09_every_operation_keeps_keys_unique : forall pool o,
  Forall (fun p => wf_pv p = true) pool -> lit_ok o = true -> wf_pv (val_of (step pool o)) = true.
Proof. exact step_wf. Qed.
Print Assumptions C09_every_operation_keeps_keys_unique.

(* The unguarded statement is false of the model and of the code (open finding literal-repeated-key): literal
   text that repeats a key gives a hash with both entries; Get answers with the last one (2), Delete leaves the
   first one (Includes is still true afterwards). *)
Definition C09_statement : Prop :=
  forall ops, Forall (fun p => wf_pv p = true) (pool_after [] ops).
Theorem C09_literal_repeated_key_refuted :
  exists ops es, lits_ok ops = false /\
    pool_at (pool_after [] ops) 0 = PHash es /\ nodup_keys (map fst es) = false /\
    pool_at (pool_after [] ops) 2 = PInt 2 /\ pool_at (pool_after [] ops) 4 = PBool true.
Proof. exact literal_repeated_key_refuted. Qed.
Print Assumptions C09_literal_repeated_key_refuted.

(* REFINEMENT, for all histories: on a hash receiver the model's index-style operations compute the abstract
   association-list functions.  Stated for any well-formed pool; C09_no_hash_holds_two_equal_keys supplies the
   hypothesis for every pool a history reaches (C09_hash_operations_all_histories below). *)
Theorem C09_hash_operations_refine_association_list : forall pool r x es,
  Forall (fun p => wf_pv p = true) pool -> pool_at pool r = PHash es ->
  step pool (ODelete r x) = RVal (PHash (spec_delete es (pool_at pool x))) /\
  (forall ks, elems (pool_at pool x) = Some ks ->
     step pool (ODeleteAll r x) = RVal (PHash (spec_delete_all es ks))) /\
  (forall oh, pool_at pool x = PHash oh ->
     step pool (OMerge r x) = RVal (PHash (spec_merge es oh)) /\
     step pool (OAddAll r x) = RVal (PHash (spec_merge es oh))) /\
  (forall k v, pool_at pool x = PEntry k v \/ pool_at pool x = PArr [k; v] ->
     step pool (OAdd r x) = RVal (PHash (spec_merge es [(k, v)]))) /\
  step pool (OGet r x) = RVal (or_undef (spec_get es (pool_at pool x))) /\
  step pool (OIncludes r x) = RVal (PBool (spec_has es (pool_at pool x))).
Proof. exact hash_step_spec. Qed.
Print Assumptions C09_hash_operations_refine_association_list.

Theorem C09_hash_operations_all_histories : forall ops r x es, lits_ok ops = true ->
  let pool := pool_after [] ops in
  pool_at pool r = PHash es ->
  step pool (ODelete r x) = RVal (PHash (spec_delete es (pool_at pool x))) /\
  (forall ks, elems (pool_at pool x) = Some ks ->
     step pool (ODeleteAll r x) = RVal (PHash (spec_delete_all es ks))) /\
  (forall oh, pool_at pool x = PHash oh ->
     step pool (OMerge r x) = RVal (PHash (spec_merge es oh)) /\
     step pool (OAddAll r x) = RVal (PHash (spec_merge es oh))) /\
  (forall k v, pool_at pool x = PEntry k v \/ pool_at pool x = PArr [k; v] ->
     step pool (OAdd r x) = RVal (PHash (spec_merge es [(k, v)]))) /\
  step pool (OGet r x) = RVal (or_undef (spec_get es (pool_at pool x))) /\
  step pool (OIncludes r x) = RVal (PBool (spec_has es (pool_at pool x))).
Proof. exact (fun ops r x es H => hash_step_spec (pool_after [] ops) r x es (history_invariant ops H)). Qed.
Print Assumptions C09_hash_operations_all_histories.

(* the same per operation, on entry lists *)
Theorem C09_merge_replaces_in_place_appends_new : forall hv oh,
  wf_pv (PHash hv) = true -> wf_pv (PHash oh) = true ->
  merge_entries hv oh = spec_merge hv oh /\ wf_pv (PHash (spec_merge hv oh)) = true.
Proof. exact merge_replaces_in_place_appends_new. Qed.
Print Assumptions C09_merge_replaces_in_place_appends_new.

Theorem C09_delete_removes_exactly : forall es k, wf_pv (PHash es) = true -> wf_pv k = true ->
  hash_delete es k = spec_delete es k.
Proof. exact delete_removes_exactly. Qed.
Print Assumptions C09_delete_removes_exactly.

(* also when the key list names a key more than once or names absent keys *)
Theorem C09_delete_all_removes_exactly : forall es ks,
  wf_pv (PHash es) = true -> Forall (fun k => wf_pv k = true) ks ->
  hash_delete_all es ks = spec_delete_all es ks.
Proof. exact delete_all_removes_exactly. Qed.
Print Assumptions C09_delete_all_removes_exactly.

(* Get finds a value iff some key is equal, and then the value of that (only) entry *)
Theorem C09_get_iff_present : forall es k, wf_pv (PHash es) = true -> wf_pv k = true ->
  match hfind es k with Some i => snd (nth i es (PUndef, PUndef)) | None => PUndef end = or_undef (spec_get es k) /\
  (forall v, spec_get es k = Some v <-> exists k', In (k', v) es /\ veq k' k = true) /\
  (spec_get es k = None <-> forall e, In e es -> veq (fst e) k = false).
Proof. exact get_iff_present. Qed.
Print Assumptions C09_get_iff_present.

Theorem C09_includes_iff_present : forall es k,
  (match hfind es k with Some _ => true | None => false end) = spec_has es k /\
  (spec_has es k = true <-> exists e, In e es /\ veq (fst e) k = true).
Proof. exact includes_iff_present. Qed.
Print Assumptions C09_includes_iff_present.

Theorem C09_keys_values_in_order : forall pool r es, pool_at pool r = PHash es ->
  step pool (OKeys r) = RVal (PArr (map fst es)) /\
  step pool (OValues r) = RVal (PArr (map snd es)) /\
  combine (map fst es) (map snd es) = es /\
  step pool (OLen r) = RVal (PInt (Z.of_nat (length es))) /\
  (forall i, i < length es ->
     step pool (OAt r (Z.of_nat i)) = RVal (PEntry (nth i (map fst es) PUndef) (nth i (map snd es) PUndef))).
Proof. exact keys_values_in_order. Qed.
Print Assumptions C09_keys_values_in_order.

(* what the abstract functions mean for later lookups: deletion removes exactly the given keys ... *)
Theorem C09_lookup_after_delete : forall es k k', wf_pv (PHash es) = true -> wf_pv k = true -> wf_pv k' = true ->
  spec_get (spec_delete es k) k' = if veq k' k then None else spec_get es k'.
Proof. exact get_after_delete. Qed.
Print Assumptions C09_lookup_after_delete.

Theorem C09_lookup_after_delete_all : forall es ks k',
  wf_pv (PHash es) = true -> Forall (fun k => wf_pv k = true) ks -> wf_pv k' = true ->
  spec_get (spec_delete_all es ks) k' = if existsb (fun k => veq k' k) ks then None else spec_get es k'.
Proof. exact get_after_delete_all. Qed.
Print Assumptions C09_lookup_after_delete_all.

(* ... and merging gives every key of the argument the argument's value and leaves every other key alone *)
Theorem C09_lookup_after_merge : forall hv oh k,
  wf_pv (PHash hv) = true -> wf_pv (PHash oh) = true -> wf_pv k = true ->
  spec_get (spec_merge hv oh) k = match spec_get oh k with Some v => Some v | None => spec_get hv k end.
Proof. exact get_after_merge. Qed.
Print Assumptions C09_lookup_after_merge.

(* ARRAYS are immutable sequences: every operation is a list function of the receiver's elements *)
Theorem C09_array_operations_are_list_functions : forall pool r x l, pool_at pool r = PArr l ->
  step pool (OAdd r x) = RVal (PArr (l ++ [pool_at pool x])) /\
  (forall xs, elems (pool_at pool x) = Some xs -> step pool (OAddAll r x) = RVal (PArr (l ++ xs))) /\
  step pool (ODelete r x) = RVal (PArr (filter (fun e => negb (veq e (pool_at pool x))) l)) /\
  (forall xs, elems (pool_at pool x) = Some xs ->
     step pool (ODeleteAll r x) = RVal (PArr (filter (fun e => negb (existsb (fun d => veq e d) xs)) l))) /\
  (forall i j, (0 <= i <= j)%Z -> (j <= Z.of_nat (length l))%Z ->
     step pool (OSlice r i j) = RVal (PArr (firstn (Z.to_nat (j - i)) (skipn (Z.to_nat i) l)))) /\
  (forall i j, ~ ((0 <= i <= j)%Z /\ (j <= Z.of_nat (length l))%Z) -> step pool (OSlice r i j) = RErr EFault) /\
  (forall i, step pool (OAt r (Z.of_nat i)) = RVal (nth i l PUndef)) /\
  step pool (OLen r) = RVal (PInt (Z.of_nat (length l))) /\
  (forall pd, step pool (OSelect r pd) = RVal (PArr (filter (eval_pred pool pd) l)) /\
              step pool (OReject r pd) = RVal (PArr (filter (fun e => negb (eval_pred pool pd e)) l))) /\
  (forall m, step pool (OMap r m) = RVal (PArr (map (eval_mapper pool m) l))) /\
  step pool (OFlatten r) = RVal (PArr (flat_map flatten1 l)) /\
  step pool (OUnique r) = RVal (PArr (unique_acc [] l)).
Proof. exact array_step_spec. Qed.
Print Assumptions C09_array_operations_are_list_functions.

(* Unique keeps the first element of every class of equal elements: a sub-sequence without two equal elements
   that still holds an equal of every element *)
Theorem C09_unique_is_nodup_modulo_equality : forall l, Forall (fun x => wf_pv x = true) l ->
  sublist (unique_acc [] l) l /\ nodup_keys (unique_acc [] l) = true /\
  (forall x, In x l -> exists y, In y (unique_acc [] l) /\ veq x y = true).
Proof. exact unique_spec. Qed.
Print Assumptions C09_unique_is_nodup_modulo_equality.

(* Flatten leaves no array / entry at the top and is idempotent *)
Theorem C09_flatten_is_flat : forall l,
  Forall (fun x => is_pairlike x = false) (flatten l) /\ flatten (flatten l) = flatten l.
Proof. exact flatten_spec. Qed.
Print Assumptions C09_flatten_is_flat.

(* IMMUTABILITY at the value level: a history only ever extends the pool - no operation changes its receiver,
   its argument or any earlier result - and what is done later does not change earlier results *)
Theorem C09_results_never_change : forall pool ops,
  (exists more, pool_after pool ops = pool ++ more /\ length more = length ops) /\
  (forall i, i < length pool -> pool_at (pool_after pool ops) i = pool_at pool i).
Proof. exact results_never_change. Qed.
Print Assumptions C09_results_never_change.

Theorem C09_earlier_results_stable : forall pool ops1 ops2,
  run_from pool (ops1 ++ ops2) = run_from pool ops1 ++ run_from (pool_after pool ops1) ops2.
Proof. exact run_app. Qed.
Print Assumptions C09_earlier_results_stable.

(* Non-vacuity: a concrete history with well-formed literals that merges (existing key b replaced in place by a
   key that is equal but not identical - the entry [b] vs the array [b] - new keys appended in argument order),
   deletes a present and an absent key, deletes a key list that names a key twice, and looks keys up. *)
Definition s (c : N) : pv := PStr [c].
Definition demo : list op :=
  [OLit (PHash [(s 97, PInt 1); (PArr [s 98], PInt 2); (s 99, PInt 3)]);            (* 0: {a=>1, [b]=>2, c=>3} *)
   OLit (PHash [(s 100, PInt 4); (PArr [s 98], PInt 9); (s 101, PInt 5)]);          (* 1: {d=>4, [b]=>9, e=>5} *)
   OMerge 0 1;                                                                       (* 2 *)
   OLit (s 97); ODelete 2 3; OGet 4 3; OGet 2 3;                                     (* 3..6 *)
   OLit (PArr [s 99; s 97; s 99; s 122]); ODeleteAll 2 7;                            (* 7, 8 *)
   OLit (PArr [s 98]); OGet 8 9; OIncludes 8 3; OKeys 8; OLen 0].                    (* 9..13 *)
Example C09_coll_nonvacuous :
  lits_ok demo = true /\
  run demo =
  [RVal (PHash [(s 97, PInt 1); (PArr [s 98], PInt 2); (s 99, PInt 3)]);
   RVal (PHash [(s 100, PInt 4); (PArr [s 98], PInt 9); (s 101, PInt 5)]);
   RVal (PHash [(s 97, PInt 1); (PArr [s 98], PInt 9); (s 99, PInt 3); (s 100, PInt 4); (s 101, PInt 5)]);
   RVal (s 97);
   RVal (PHash [(PArr [s 98], PInt 9); (s 99, PInt 3); (s 100, PInt 4); (s 101, PInt 5)]);
   RVal PUndef; RVal (PInt 1);
   RVal (PArr [s 99; s 97; s 99; s 122]);
   RVal (PHash [(PArr [s 98], PInt 9); (s 100, PInt 4); (s 101, PInt 5)]);
   RVal (PArr [s 98]); RVal (PInt 9); RVal (PBool false);
   RVal (PArr [PArr [s 98]; s 100; s 101]); RVal (PInt 3)].
Proof. vm_compute. auto. Qed.

(* The hash key.  Model/Coll.v takes the key equality of every operation (Merge, Get, IncludesKey, Delete, DeleteAll,
   HashFromArray, Unique) to be Equals: keq = veq.  Model/CollKey.v gives the key itself - tokey p = the bytes px.ToKey
   writes (Hash.ToKey: every entry rendered into its own buffer, the rendered strings sorted), through the model of
   the ToKey methods of Model/Keys.v - and these theorems show that on the well-formed values, within the ranges of
   the Go representation (in_range: int64, string lengths), two values have the same key bytes exactly when they
   are Equal: whatever the order of the entries of the hashes inside them, and although 1 and '1', true and 'true',
   undef and 'undef' print alike.  `tokey` is compared with the bytes of px.ToKey on every run (cases_key). *)
Import CollKey CollKeyProofs.
Theorem C09_hash_key_equality_is_equals : forall a b,
  wf_pv a = true -> wf_pv b = true -> in_range a = true -> in_range b = true ->
  (tokey a = tokey b <-> keq a b = true).
Proof. exact tokey_iff_keq. Qed.
Print Assumptions C09_hash_key_equality_is_equals.

Theorem C09_same_key_bytes_decide_key_equality : forall a b,
  wf_pv a = true -> wf_pv b = true -> in_range a = true -> in_range b = true -> key_eqb a b = keq a b.
Proof. exact key_eqb_is_keq. Qed.
Print Assumptions C09_same_key_bytes_decide_key_equality.

(* the order of the entries of a hash (at any depth: heq compares keys and values by Equals) does not matter for its key *)
Theorem C09_hash_key_ignores_entry_order : forall ea eb,
  wf_pv (PHash ea) = true -> wf_pv (PHash eb) = true -> in_range (PHash ea) = true -> in_range (PHash eb) = true ->
  heq ea eb = true -> tokey (PHash ea) = tokey (PHash eb).
Proof. exact tokey_hash_order. Qed.
Print Assumptions C09_hash_key_ignores_entry_order.

(* Equals of this model is Equals of the model of property C07 on the embedded values, which are well-formed and
   clean there (so every theorem of Properties/C07.v applies to the values of this universe) *)
Theorem C09_equals_is_the_equals_of_the_key_model : forall a b,
  wf_pv a = true -> wf_pv b = true -> in_range a = true -> in_range b = true ->
  Keys.veq (emb a) (emb b) = veq a b /\ Keys.wf_value (emb a) = true /\ Keys.clean (emb a) = true.
Proof. intros a b Wa Wb Ra Rb. split; [exact (emb_veq a b Wa Wb Ra Rb)|exact (emb_good a Wa Ra)]. Qed.
Print Assumptions C09_equals_is_the_equals_of_the_key_model.

(* Non-vacuity: {1=>'a','1'=>'b'} and {'1'=>'b',1=>'a'} are well-formed, in range, Equal and have the same key;
   {'1'=>'a',1=>'b'} has another one; 1 and '1' have different keys; as keys of an outer hash the two equal hashes
   are one key: Merge replaces in place, Get finds, Delete removes. *)
Definition h1 : pv := PHash [(PInt 1, s 97); (PStr [49%N], s 98)].
Definition h1r : pv := PHash [(PStr [49%N], s 98); (PInt 1, s 97)].
Definition h1x : pv := PHash [(PStr [49%N], s 97); (PInt 1, s 98)].
Example C09_key_nonvacuous :
  wf_pv h1 = true /\ wf_pv h1r = true /\ in_range h1 = true /\ in_range h1r = true /\
  keq h1 h1r = true /\ tokey h1 = tokey h1r /\ key_eqb h1 h1x = false /\ key_eqb (PInt 1) (PStr [49%N]) = false /\
  run [OLit (PHash [(h1, PInt 1)]); OLit (PHash [(h1r, PInt 2)]); OMerge 0 1; OLit h1; OGet 2 3; ODelete 2 3] =
  [RVal (PHash [(h1, PInt 1)]); RVal (PHash [(h1r, PInt 2)]); RVal (PHash [(h1r, PInt 2)]); RVal h1; RVal (PInt 2);
   RVal (PHash [])].
Proof. vm_compute. repeat split; reflexivity. Qed.
End CollHalf.

(* ================================================================================================== *)
(* The Array as a sequence of ARBITRARY values (Model/CollSeq.v).  The universe of Model/Coll.v holds only values
   that can be hash keys and are equal to themselves.  An element of an array need be neither: an instance of an Object
   type, a Sensitive, a TypedName, a Deferred has no hash key (keyless = true: px.ToKey panics), NaN and a Sensitive are
   equal to nothing.  Equals is defined for all of them, and the sequence operations use nothing else. *)
Module SeqHalf.
Import CollSeq CollSeqProofs.

(* Equals on this universe: symmetric; reflexive exactly on the values that hold no never-equal value at any depth; a
   never-equal value (NaN, Sensitive) is equal to nothing *)
Theorem C09_seq_equals_symmetric : forall a b, aeq a b = aeq b a.
Proof. exact aeq_sym. Qed.
Print Assumptions C09_seq_equals_symmetric.

Theorem C09_seq_equals_reflexive_iff : forall a, aeq a a = never_free a.
Proof. exact aeq_refl_iff. Qed.
Print Assumptions C09_seq_equals_reflexive_iff.

Theorem C09_seq_never_equal : forall k i x, aeq (ENever k i) x = false /\ aeq x (ENever k i) = false.
Proof. exact aeq_never. Qed.
Print Assumptions C09_seq_never_equal.

(* Deletion removes exactly the elements equal to a given value - for every array and every list of values, with or
   without hash keys: what is left are the elements equal to none of them (in order: a filter) *)
Theorem C09_delete_all_removes_exactly_equal_elements :
  forall l xs e, In e (sdelete_all l xs) <-> In e l /\ forall x, In x xs -> aeq e x = false.
Proof. exact delete_all_spec. Qed.
Print Assumptions C09_delete_all_removes_exactly_equal_elements.

(* the companion relations: DeleteAll([x]) = Delete(x), DeleteAll(x :: xs) = DeleteAll(xs) after Delete(x),
   DeleteAll([]) = the array *)
Theorem C09_delete_all_of_one_is_delete : forall l x, sdelete_all l [x] = sdelete l x.
Proof. exact delete_all_single. Qed.
Print Assumptions C09_delete_all_of_one_is_delete.

Theorem C09_delete_all_is_delete_in_turn :
  forall l x xs, sdelete_all l (x :: xs) = sdelete_all (sdelete l x) xs.
Proof. exact delete_all_cons. Qed.
Print Assumptions C09_delete_all_is_delete_in_turn.

Theorem C09_delete_all_of_nothing : forall l, sdelete_all l [] = l.
Proof. exact delete_all_nil. Qed.
Print Assumptions C09_delete_all_of_nothing.

(* a never-equal element (NaN, a Sensitive) is never removed, and deleting it removes nothing; a list that names no
   equal of any element removes nothing *)
Theorem C09_never_equal_elements_stay :
  forall l xs k i, (In (ENever k i) l -> In (ENever k i) (sdelete_all l xs)) /\ sdelete l (ENever k i) = l.
Proof. intros l xs k i. split; [apply delete_all_keeps_never|apply delete_keeps_length_never]. Qed.
Print Assumptions C09_never_equal_elements_stay.

Theorem C09_delete_all_of_unequal_values_keeps_all :
  forall l xs, (forall e x, In e l -> In x xs -> aeq e x = false) -> sdelete_all l xs = l.
Proof. exact delete_all_none. Qed.
Print Assumptions C09_delete_all_of_unequal_values_keeps_all.

(* in every pool of every history: Delete / DeleteAll on an array receiver never fail and are these functions, and
   DeleteAll with a one element array is the Delete of that element *)
Theorem C09_seq_delete_total_in_histories :
  forall ops pool r x l e, pool = spool_after [] ops -> arr_of pool r = Some l -> nth_error pool x = Some e ->
    sstep pool (SDelete r x) = OV (EArr (sdelete l e)) /\
    (forall xs, arr_of pool x = Some xs -> sstep pool (SDeleteAll r x) = OV (EArr (sdelete_all l xs))).
Proof. intros ops pool r x l e _. apply step_delete_total. Qed.
Print Assumptions C09_seq_delete_total_in_histories.

Theorem C09_seq_delete_all_single_in_histories :
  forall ops pool r x y e, pool = spool_after [] ops ->
    nth_error pool x = Some (EArr [e]) -> nth_error pool y = Some e ->
    sstep pool (SDeleteAll r x) = sstep pool (SDelete r y).
Proof. intros ops pool r x y e _. apply step_delete_all_single. Qed.
Print Assumptions C09_seq_delete_all_single_in_histories.

(* UNIQUE (arraytype.go:724, after fix - see known_findings/C09.json unique-keyless-nan): total on every array, and the
   FIRST OCCURRENCES modulo Equals: the element at a position is kept exactly when no earlier element of the array is
   equal to it (first_occ_from seen: `seen` = all earlier elements, kept or not), although the code compares with the
   KEPT elements only (sunique_from kept) - Equals is transitive and what is equal to something is equal to itself. *)
Theorem C09_unique_is_first_occurrences : forall l, sunique l = first_occ l.
Proof. exact unique_is_first_occurrences. Qed.
Print Assumptions C09_unique_is_first_occurrences.

Theorem C09_seq_equals_transitive : forall a b c, aeq a b = true -> aeq b c = true -> aeq a c = true.
Proof. exact aeq_trans. Qed.
Print Assumptions C09_seq_equals_transitive.

(* nodup modulo equality: no two kept elements are equal, they are elements of the array, every element that is equal
   to itself has an equal among them, and the elements equal to nothing (two NaN, a Sensitive, a list holding one) ALL
   stay, in order *)
Theorem C09_unique_nodup_modulo_equality_any_values :
  forall l, ForallOrdPairs (fun a b => aeq a b = false) (sunique l) /\
            (forall e, In e (sunique l) -> In e l) /\
            (forall e, In e l -> aeq e e = true -> exists w, In w (sunique l) /\ aeq w e = true) /\
            filter (fun e => negb (aeq e e)) (sunique l) = filter (fun e => negb (aeq e e)) l.
Proof.
  intros l. split; [apply unique_no_two_equal|]. split; [apply unique_elements_of|].
  split; [apply unique_holds_an_equal_of_every_element|apply unique_keeps_never_equal].
Qed.
Print Assumptions C09_unique_nodup_modulo_equality_any_values.

Theorem C09_seq_unique_total_in_histories :
  forall ops pool r l, pool = spool_after [] ops -> arr_of pool r = Some l ->
    sstep pool (SUnique r) = OV (EArr (sunique l)).
Proof. intros ops pool r l _. apply step_unique_total. Qed.
Print Assumptions C09_seq_unique_total_in_histories.

Example C09_seq_unique_nonvacuous :
  let one := EAtom false 1 in let obj := EAtom true 20 in let nan := ENever false 1 in let sens := ENever true 3 in
  sunique [one; obj; nan; EArr [obj]; one; nan; obj; sens; EArr [obj]; EArr [nan]; EArr [nan]]
  = [one; obj; nan; EArr [obj]; nan; sens; EArr [nan]; EArr [nan]].
Proof. vm_compute. reflexivity. Qed.

(* Non-vacuity: [1, obj, NaN, 2, 1] with obj an instance of an Object type (no hash key): DeleteAll([1]) = Delete(1) =
   [obj, NaN, 2]; DeleteAll([NaN, obj']) with obj' an equal instance removes obj and keeps NaN. *)
Example C09_seq_nonvacuous :
  let one := EAtom false 1 in let two := EAtom false 2 in let obj := EAtom true 20 in let nan := ENever false 1 in
  srun [SLit (EArr [one; obj; nan; two; one]); SLit one; SLit (EArr [one]); SDelete 0 1; SDeleteAll 0 2;
        SLit (EArr [nan; obj]); SDeleteAll 0 5; SAnyEq 0 1; SEquals 0 0; SLen 6]
  = [OV (EArr [one; obj; nan; two; one]); OV one; OV (EArr [one]); OV (EArr [obj; nan; two]); OV (EArr [obj; nan; two]);
     OV (EArr [nan; obj]); OV (EArr [one; nan; two; one]); OB true; OB false; ON 4%Z].
Proof. vm_compute. reflexivity. Qed.
End SeqHalf.
