(* C02 — Instance-of follows the set denotation of every type constructor.
   ONLY statements, each closed by `exact <lemma>`, with `Print Assumptions` beneath.
   `inst rx true` (Model/Lattice.v) mirrors every IsInstance method of /repo/types; `den` (Model/Spec.v) is the
   set the Puppet type system defines for the type, written without reference to the implementation's algorithms.
   `wf_ty` = what the Go constructors guarantee (and: the type lies in the reference fragment — no Callable,
   Runtime, Iterator, Like, Init, TypeReference, Iterable, aliases or Object types, which are `TOther`);
   `wfv` = the keys of every hash inside the value are pairwise different (the invariant of C09). *)
From Coq Require Import ZArith NArith Bool List.
From PcoreV Require Import Model.Base Model.Ty Model.Lattice Model.Spec Proofs.LatticeBasics Proofs.SpecProofs.
From PcoreV Require Import Model.StrBytes Proofs.StrBytesProofs Proofs.StrBytesInst Proofs.StrBytesEncode Proofs.StrBytesMap Model.Alias Proofs.AliasProofs.
Import ListNotations.
Open Scope Z_scope.

Theorem C02_inst_is_denotation :
  forall (rx : str -> str -> bool) (t : ty), wf_ty t = true ->
  forall v, wfv v = true -> (inst rx true t v = true <-> den rx (asg rx true) t v).
Proof. exact (fun rx => inst_is_den rx true). Qed.
Print Assumptions C02_inst_is_denotation.

(* Non-vacuity and readability: what the denotation says on concrete types. *)
Example C02_den_examples :
  let rx := fun _ _ => false in
  (* String[1,1] counts characters: "é" (2 bytes) is a member *)
  den rx (asg rx true) (TStringSz 1 1) (VStr [195%N; 169%N]) /\
  inst rx true (TStringSz 1 1) (VStr [195%N; 169%N]) = true /\
  (* Tuple[Integer[0,5],String,1,4]: the last type repeats *)
  inst rx true (TTuple [TInteger 0 5; TString] true 1 4) (VArr [VInt 3; VStr []; VStr [97%N]]) = true /\
  inst rx true (TTuple [TInteger 0 5; TString] true 1 4) (VArr [VInt 3; VStr []; VInt 1]) = false /\
  (* Struct: an absent optional member is fine, an undeclared key is not *)
  inst rx true (TStruct [([97%N], (TStringVal [97%N], TInteger 0 5)); ([98%N], (TOptional (TStringVal [98%N]), TString))])
       (VHash [(VStr [97%N], VInt 1)]) = true /\
  inst rx true (TStruct [([97%N], (TStringVal [97%N], TInteger 0 5))]) (VHash [(VStr [97%N], VInt 1); (VStr [99%N], VInt 1)]) = false /\
  (* Type[T] contains exactly the types assignable to T *)
  inst rx true (TType (TInteger 0 5)) (VType (TInteger 1 2)) = true /\
  inst rx true (TType (TInteger 0 5)) (VType (TInteger 0 9)) = false.
Proof.
  repeat split; try reflexivity.
  cbn. exists [195%N; 169%N]. split; [reflexivity|]. unfold between. vm_compute. split; discriminate.
Qed.

(* ================= strings as BYTES (Model/StrBytes.v) =================
   A Go string is any byte sequence.  `utf8_rune_count` mirrors utf8.RuneCountInString (the function
   stringtype.go:244 calls), `steps`/`decode` mirror the decoding loop of `for range s` (each byte that does not
   start a well-formed sequence is one U+FFFD of width 1), `instB rx lc t s` is t.IsInstance(stringValue(s)) with
   the size test on the bytes and strings.ToLower as Enum's flag calls it (`lc` = unicode.ToLower on a code point,
   consulted beyond ASCII only), `denB` the set written on the decoded text. *)

(* the number String[lo,hi] compares is the number of code points of the decoded text: EVERY byte string *)
Theorem C02_rune_count_is_decoded_length : forall s : str, utf8_rune_count s = zlen (decode s).
Proof. exact count_is_decoded. Qed.
Print Assumptions C02_rune_count_is_decoded_length.

Theorem C02_string_size_counts_code_points :
  forall (rx : str -> str -> bool) (lc : N -> N) (lo hi : Z) (s : str),
  instB rx lc (TStringSz lo hi) s = true <-> lo <= zlen (decode s) <= hi.
Proof. exact instB_string_size. Qed.
Print Assumptions C02_string_size_counts_code_points.

(* the decoding loop consumes every byte exactly once, 1 to 4 bytes per code point *)
Theorem C02_decoding_covers_the_bytes :
  forall s : str, width_sum (steps s) = length s /\ (forall st, In st (steps s) -> (1 <= snd st <= 4)%nat).
Proof. exact (fun s => conj (widths_cover s) (width_bounds s)). Qed.
Print Assumptions C02_decoding_covers_the_bytes.

(* ... so the size is at most the byte length, with equality exactly when no code point took more than one byte;
   on well-formed UTF-8 that is: exactly for ASCII text.  ("equal iff ASCII" is FALSE for arbitrary bytes: each
   invalid byte counts one — Example C02_bytes_examples.) *)
Theorem C02_string_size_at_most_bytes : forall s : str, utf8_rune_count s <= zlen s.
Proof. exact count_le_len. Qed.
Print Assumptions C02_string_size_at_most_bytes.

Theorem C02_string_size_equals_bytes_iff :
  forall s : str, utf8_rune_count s = zlen s <-> (forall st, In st (steps s) -> snd st = 1%nat).
Proof. exact count_eq_len_iff. Qed.
Print Assumptions C02_string_size_equals_bytes_iff.

Theorem C02_string_size_equals_bytes_iff_ascii :
  forall s : str, valid_utf8 s = true -> (utf8_rune_count s = zlen s <-> is_ascii s = true).
Proof. exact valid_count_eq_len_ascii. Qed.
Print Assumptions C02_string_size_equals_bytes_iff_ascii.

(* the whole scalar string fragment on bytes (String[lo,hi], String value, Enum with/without the flag, Pattern,
   under Variant / Optional / NotUndef; every other type through `inst`): instance <-> member of the set *)
Theorem C02_bytes_inst_is_denotation :
  forall (rx : str -> str -> bool) (lc : N -> N) (t : ty), wf_ty t = true ->
  forall s : str, instB rx lc t s = true <-> denB rx lc t s.
Proof. exact instB_is_denB. Qed.
Print Assumptions C02_bytes_inst_is_denotation.

(* on well-formed UTF-8 (under a case-insensitive Enum: ASCII text) the byte-level model and the value-level model
   `inst` of C02_inst_is_denotation are the same function, and so are the two denotations *)
Theorem C02_bytes_agree_with_values :
  forall (rx : str -> str -> bool) (lc : N -> N) (t : ty) (s : str),
  valid_utf8 s = true -> (is_ascii s = true \/ no_ci t = true) ->
  instB rx lc t s = inst rx true t (VStr s) /\ utf8_rune_count s = rune_count s.
Proof. exact (fun rx lc t s V A => conj (instB_agrees rx lc t s V A) (valid_count_agrees s V)). Qed.
Print Assumptions C02_bytes_agree_with_values.

Theorem C02_bytes_denotations_agree :
  forall (rx : str -> str -> bool) (lc : N -> N) (t : ty), wf_ty t = true -> forall s : str,
  valid_utf8 s = true -> (is_ascii s = true \/ no_ci t = true) ->
  (denB rx lc t s <-> den rx (asg rx true) t (VStr s)).
Proof. exact denB_agrees. Qed.
Print Assumptions C02_bytes_denotations_agree.

(* ASCII case folding on bytes (Enum's flag): same length, every byte that is not a capital A-Z stays, idempotent,
   no code point boundary moves, the number of code points stays (for EVERY byte string), and the decoded text of
   the folded bytes is the decoded text with its one-byte code points folded *)
Theorem C02_folding_keeps_length_and_non_letters :
  forall s : str, length (lower_ascii s) = length s /\
    (forall i, nth i (lower_ascii s) 0%N = lower_ascii_byte (nth i s 0%N)) /\
    (forall b, upper_byte b = false -> lower_ascii_byte b = b) /\
    lower_ascii (lower_ascii s) = lower_ascii s.
Proof. exact (fun s => conj (lower_len s) (conj (lower_nth s) (conj lower_nonletter (lower_idem s)))). Qed.
Print Assumptions C02_folding_keeps_length_and_non_letters.

Theorem C02_folding_keeps_code_points :
  forall s : str, steps (lower_ascii s) = map lower_step (steps s) /\
    map snd (steps (lower_ascii s)) = map snd (steps s) /\
    utf8_rune_count (lower_ascii s) = utf8_rune_count s.
Proof. exact (fun s => conj (steps_lower s) (conj (lower_widths s) (lower_count s))). Qed.
Print Assumptions C02_folding_keeps_code_points.

(* strings.ToLower on ASCII text never consults the Unicode tables *)
Theorem C02_to_lower_on_ascii :
  forall (lc : N -> N) (s : str), is_ascii s = true ->
    to_lower_b lc s = lower_ascii s /\
    length (to_lower_b lc s) = length s /\
    (forall i, upper_byte (nth i s 0%N) = false -> nth i (to_lower_b lc s) 0%N = nth i s 0%N) /\
    utf8_rune_count (to_lower_b lc s) = utf8_rune_count s /\
    to_lower_b lc (to_lower_b lc s) = to_lower_b lc s.
Proof. exact (fun lc s A => conj (to_lower_ascii lc s A) (to_lower_ascii_facts lc s A)). Qed.
Print Assumptions C02_to_lower_on_ascii.

Example C02_bytes_examples :
  let rx := fun _ _ => false in let lc := lower_ascii_cp in
  (* "é" = C3 A9: one code point *)
  decode [195; 169]%N = [233]%N /\ instB rx lc (TStringSz 1 1) [195; 169]%N = true /\
  (* FF FF: two invalid bytes = two code points U+FFFD; size = byte length although not ASCII *)
  decode [255; 255]%N = [65533; 65533]%N /\ instB rx lc (TStringSz 2 2) [255; 255]%N = true /\
  is_ascii [255; 255]%N = false /\ valid_utf8 [255; 255]%N = false /\
  (* the non-continuation-byte count of the value-level model is wrong there: 80 80 has two code points *)
  utf8_rune_count [128; 128]%N = 2 /\ rune_count [128; 128]%N = 0 /\
  (* overlong E0 80 80, lone surrogate ED A0 80, above U+10FFFF F4 90 80 80, truncated F0 9F 98: one per byte *)
  utf8_rune_count [224; 128; 128]%N = 3 /\ utf8_rune_count [237; 160; 128]%N = 3 /\
  utf8_rune_count [244; 144; 128; 128]%N = 4 /\ utf8_rune_count [240; 159; 152]%N = 3 /\
  (* U+1F600 = F0 9F 98 80: one code point of four bytes *)
  steps [240; 159; 152; 128]%N = [(128512%N, 4%nat)] /\
  (* a truncated sequence followed by ASCII: E2 82 'a' = three code points *)
  decode [226; 130; 97]%N = [65533; 65533; 97]%N /\
  (* folding: "AbC" FF "Z" *)
  lower_ascii [65; 98; 67; 255; 90]%N = [97; 98; 99; 255; 122]%N /\
  (* Enum['abc', true] against "ABC"; Variant[String[1,1], Enum['abc', true]] against FF (one code point) *)
  instB rx lc (TEnum true [[97; 98; 99]%N]) [65; 66; 67]%N = true /\
  instB rx lc (TVariant [TEnum true [[97; 98; 99]%N]; TStringSz 1 1]) [255]%N = true /\
  (* beyond ASCII ToLower decodes, maps and encodes: an invalid byte comes back as EF BF BD *)
  to_lower_b lc [65; 255]%N = [97; 239; 191; 189]%N /\
  to_lower_b (fun c => if N.eqb c 201 then 233%N else lower_ascii_cp c) [65; 195; 137]%N = [97; 195; 169]%N.
Proof. vm_compute. repeat split. Qed.

(* ---- strings.ToLower beyond ASCII (decode, map every code point, encode), for EVERY byte string and EVERY mapping:
        the result has the same number of code points and is well-formed UTF-8; the encoder and the decoder are inverse
        on well-formed text / on Unicode scalar values *)
Theorem C02_to_lower_keeps_size_and_is_well_formed :
  forall (lc : N -> N) (s : str),
  utf8_rune_count (to_lower_b lc s) = utf8_rune_count s /\ valid_utf8 (to_lower_b lc s) = true.
Proof. exact (fun lc s => conj (to_lower_count lc s) (to_lower_valid lc s)). Qed.
Print Assumptions C02_to_lower_keeps_size_and_is_well_formed.

Theorem C02_encoding_round_trip :
  (forall cs : list N, decode (encode cs) = map sanitize cs /\ valid_utf8 (encode cs) = true) /\
  (forall s : str, valid_utf8 s = true -> encode (decode s) = s).
Proof. exact (conj (fun cs => conj (decode_encode cs) (encode_valid cs)) encode_decode). Qed.
Print Assumptions C02_encoding_round_trip.

Theorem C02_to_lower_unchanged_without_letters :
  forall (lc : N -> N) (s : str), valid_utf8 s = true -> (forall c, In c (decode s) -> lc c = c) ->
  is_ascii s = false -> to_lower_b lc s = s.
Proof. exact to_lower_fixed. Qed.
Print Assumptions C02_to_lower_unchanged_without_letters.

(* strings.Map / strings.ToLower AS WRITTEN (phase 1: scan for the first rune that changes or stands for an invalid byte,
   nothing found: the argument itself; phase 2: unchanged prefix, then every rune mapped and written) is decode / map /
   encode: `to_lower_go` (the loop) = `to_lower_b` (the reading the theorems above are about) *)
Theorem C02_strings_map_is_decode_map_encode :
  forall (lc : N -> N) (s : str),
  go_map lc s = encode (map lc (decode s)) /\ to_lower_go lc s = to_lower_b lc s.
Proof. exact (fun lc s => conj (go_map_is_decode_map_encode lc s) (to_lower_go_eq lc s)). Qed.
Print Assumptions C02_strings_map_is_decode_map_encode.

(* a member of an Enum (flag or not, any bytes) has the size of a listed value; an Enum whose values fit String[lo,hi]
   has only instances that fit it (the rule of stringtype.go:215, sound on bytes although ToLower changes byte lengths) *)
Theorem C02_enum_instances_fit_its_string_bound :
  forall (rx : str -> str -> bool) (lc : N -> N) (ci : bool) (vs : list str) (lo hi : Z) (s : str), vs <> [] ->
  (forall v, In v vs -> in_size lo hi (utf8_rune_count v) = true) ->
  instB rx lc (TEnum ci vs) s = true -> instB rx lc (TStringSz lo hi) s = true.
Proof. exact enum_fits_string_bound. Qed.
Print Assumptions C02_enum_instances_fit_its_string_bound.

Example C02_to_lower_examples :
  (* U+0130 (C4 B0) lower-cases to 'i': two bytes become one, one code point stays one *)
  let lc := fun c => if N.eqb c 304 then 105%N else lower_ascii_cp c in
  to_lower_b lc [196; 176]%N = [105]%N /\ utf8_rune_count [196; 176]%N = 1 /\
  instB (fun _ _ => false) lc (TEnum true [[105]%N]) [196; 176]%N = true /\
  encode [97; 233; 8364; 128512; 55296; 1114112]%N = [97; 195;169; 226;130;172; 240;159;152;128; 239;191;189; 239;191;189]%N /\
  decode (encode [55296]%N) = [65533]%N /\
  (* the loop: "é!" has nothing to fold - the argument comes back; "éA" - prefix C3 A9 kept, then 'a' *)
  map_scan lc (steps [195; 169; 33]%N) [195; 169; 33]%N = None /\
  to_lower_go lc [195; 169; 65]%N = [195; 169; 97]%N /\ to_lower_go lc [195; 169; 255; 65]%N = [195; 169; 239; 191; 189; 97]%N.
Proof. vm_compute. repeat split. Qed.

(* ================= type aliases (Model/Alias.v) =================
   `aty` = the types with  AAlias name body  in any member position (non-recursive); `instA` mirrors
   TypeAliasType.IsInstance (delegation to the resolved type) and the IsInstance methods around it; `resolve`
   replaces every alias by its body; denA a = den (resolve a). *)
Theorem C02_alias_inst_is_resolved_inst :
  forall (rx : str -> str -> bool) (a : aty) (v : value), instA rx a v = inst rx true (resolve a) v.
Proof. exact instA_resolve. Qed.
Print Assumptions C02_alias_inst_is_resolved_inst.

Theorem C02_alias_inst_is_denotation :
  forall (rx : str -> str -> bool) (a : aty), wf_ty (resolve a) = true ->
  forall v, wfv v = true -> (instA rx a v = true <-> denA rx a v).
Proof. exact instA_is_denA. Qed.
Print Assumptions C02_alias_inst_is_denotation.

Theorem C02_alias_adds_nothing :
  forall (rx : str -> str -> bool) (n : str) (b : aty) (v : value),
  (denA rx (AAlias n b) v <-> denA rx b v) /\ instA rx (AAlias n b) v = instA rx b v.
Proof. exact (fun rx n b v => conj (denA_alias rx n b v) (instA_alias rx n b v)). Qed.
Print Assumptions C02_alias_adds_nothing.

Example C02_alias_examples :
  let rx := fun _ _ => false in
  let small := AAlias [83%N] (AT (TInteger 0 5)) in                  (* type S = Integer[0,5] *)
  let anyA := AAlias [65%N] (AT TAny) in                             (* type A = Any *)
  instA rx (AArray small 0 3) (VArr [VInt 1; VInt 5]) = true /\
  instA rx (AArray small 0 3) (VArr [VInt 1; VInt 6]) = false /\
  instA rx (AArray anyA 0 3) (VArr [VInt 1; VStr []]) = true /\
  instA rx (ATuple [small; AT TString] true 1 4) (VArr [VInt 3; VStr []; VStr [97%N]]) = true /\
  instA rx (AStruct [([97%N], (TStringVal [97%N], small)); ([98%N], (TOptional (TStringVal [98%N]), AAlias [84%N] small))])
        (VHash [(VStr [97%N], VInt 1)]) = true /\
  instA rx (AStruct [([97%N], (TStringVal [97%N], small))]) (VHash [(VStr [97%N], VInt 7)]) = false /\
  instA rx (AVariant [AOptional small; AT TString]) VUndef = true /\
  resolve (AHash (AT TString) (AAlias [84%N] small) 0 2) = THash TString (TInteger 0 5) 0 2.
Proof. vm_compute. repeat split. Qed.
