(* C02 — Instance-of follows the set denotation of every type constructor.
   ONLY statements, each closed by `exact <lemma>`, with `Print Assumptions` beneath.
   `inst rx true` (Model/Lattice.v) mirrors every IsInstance method of /repo/types; `den` (Model/Spec.v) is the
   set the Puppet type system defines for the type, written without reference to the implementation's algorithms.
   `wf_ty` = what the Go constructors guarantee (and: the type lies in the reference fragment — no Callable,
   Runtime, Iterator, Like, Init, TypeReference, Iterable, aliases or Object types, which are `TOther`);
   `wfv` = the keys of every hash inside the value are pairwise different (the invariant of C09). *)
From Coq Require Import ZArith NArith Bool List.
From PcoreV Require Import Model.Base Model.Ty Model.Lattice Model.Spec Proofs.LatticeBasics Proofs.SpecProofs.
Import ListNotations.
Open Scope Z_scope.

Theorem C02_inst_is_denotation :
  forall (rx : str -> str -> bool) (t : ty), wf_ty t = true ->
  forall v, wfv v = true -> (inst rx true t v = true <-> den rx (asg rx true) t v).
Proof. exact (fun rx => inst_is_den rx true). Qed.
Print Assumptions C02_inst_is_denotation.

(* Non-vacuity and readability: what the denotation says on concrete types. *)
Example C02_den_examples :
  let rx := fun _ _ => false in
  (* String[1,1] counts characters: "é" (2 bytes) is a member *)
  den rx (asg rx true) (TStringSz 1 1) (VStr [195%N; 169%N]) /\
  inst rx true (TStringSz 1 1) (VStr [195%N; 169%N]) = true /\
  (* Tuple[Integer[0,5],String,1,4]: the last type repeats *)
  inst rx true (TTuple [TInteger 0 5; TString] true 1 4) (VArr [VInt 3; VStr []; VStr [97%N]]) = true /\
  inst rx true (TTuple [TInteger 0 5; TString] true 1 4) (VArr [VInt 3; VStr []; VInt 1]) = false /\
  (* Struct: an absent optional member is fine, an undeclared key is not *)
  inst rx true (TStruct [([97%N], (TStringVal [97%N], TInteger 0 5)); ([98%N], (TOptional (TStringVal [98%N]), TString))])
       (VHash [(VStr [97%N], VInt 1)]) = true /\
  inst rx true (TStruct [([97%N], (TStringVal [97%N], TInteger 0 5))]) (VHash [(VStr [97%N], VInt 1); (VStr [99%N], VInt 1)]) = false /\
  (* Type[T] contains exactly the types assignable to T *)
  inst rx true (TType (TInteger 0 5)) (VType (TInteger 1 2)) = true /\
  inst rx true (TType (TInteger 0 5)) (VType (TInteger 0 9)) = false.
Proof.
  repeat split; try reflexivity.
  cbn. exists [195%N; 169%N]. split; [reflexivity|]. unfold between. vm_compute. split; discriminate.
Qed.
