(* C11 — JSON and protobuf transports carry Data exactly.
   This file holds ONLY the statements of the property theorems, each closed by `exact <lemma>`, and
   `Print Assumptions` beneath.  Models: Model/Json.v (serialization/jsonstreamer.go, jsontodata.go),
   Model/Pb.v (proto/convert.go, types/basiccollector.go). *)
From Coq Require Import ZArith NArith Bool List.
From PcoreV Require Import Model.Base Model.Json Model.Pb Proofs.JsonProofs.
Import ListNotations.
Open Scope Z_scope.

(* The five-state machine of jsonStreamer (delimit + the state AddArray/AddHash overwrite inside the doer)
   writes, for EVERY event tree whose floats are finite and from every state, exactly the canonical
   state-free JSON text `render` — whatever the nesting and wherever empty containers or hashes sit. *)
Theorem C11_stream_is_render :
  forall e, floats_finite e = true -> stream_top e = Ok (render e).
Proof. exact stream_top_render. Qed.
Print Assumptions C11_stream_is_render.

(* json_always_valid: what the streamer writes for any well-formed event tree (even hashes with string
   keys, finite floats) is accepted by the RFC 8259 recogniser. *)
Theorem C11_json_always_valid :
  forall e, json_wf_all e = true ->
  exists toks, stream_top e = Ok toks /\ json_valid toks = true.
Proof. exact json_always_valid. Qed.
Print Assumptions C11_json_always_valid.

(* json_events_roundtrip: reading it back delivers the same events: same nesting, same scalar kinds (floats
   stay floats, int64 exact), same reference indices; strings keep every Unicode character (json_image maps a
   byte that is not UTF-8 to U+FFFD and a non-Data scalar to undef, and is the identity otherwise).
   Guard (open finding pref-first-key): no hash whose first key is the reserved string `__pref`. *)
Theorem C11_json_events_roundtrip :
  forall e, json_wf e = true ->
  exists toks, stream_top e = Ok toks /\ read toks = Ok [json_image e].
Proof. exact json_events_roundtrip. Qed.
Print Assumptions C11_json_events_roundtrip.
