(* C11 — JSON and protobuf transports carry Data exactly.
   This file holds ONLY the statements of the property theorems, each closed by `exact <lemma>`, and
   `Print Assumptions` beneath.  Models: Model/Json.v (serialization/jsonstreamer.go, jsontodata.go),
   Model/Pb.v (proto/convert.go, types/basiccollector.go), Model/PbMem.v (the stack of protoConsumer as a Go slice
   over backing arrays that `append` abandons when it grows), Model/JsonSer.v (serialization/serializer.go: which call the
   Serializer makes at which position - toData, the dedup memo, the three hash routes, stringified values).  An "event tree" `ev` is one top-level call on a
   px.ValueConsumer with the calls its doer makes nested inside (Add / AddRef / AddArray / AddHash). *)
From Coq Require Import ZArith NArith Bool List.
From PcoreV Require Import Model.Base Model.Json Model.Pb Model.PbMem Model.JsonSer Model.JsonStr Model.JsonText Proofs.JsonProofs Proofs.PbProofs
  Proofs.PbMemProofs Proofs.JsonSerProofs Proofs.JsonStrProofs Proofs.JsonTextProofs Proofs.JsonTextLawProofs.
Import ListNotations.
Open Scope Z_scope.

(* ============================================================================================== *)
(* JSON                                                                                             *)

(* The five-state machine of jsonStreamer (delimit + the state AddArray/AddHash overwrite inside the doer)
   writes, for EVERY event tree whose floats are finite and from every state, exactly the canonical
   state-free JSON text `render` — whatever the nesting and wherever empty containers or hashes sit. *)
Theorem C11_stream_is_render :
  forall e, floats_finite e = true -> stream_top e = Ok (render e).
Proof. exact stream_top_render. Qed.
Print Assumptions C11_stream_is_render.

(* The writer is total on ALL event trees (ill-formed ones included): it never hits a runtime fault and
   reports an error exactly when some float is NaN or ±Inf (which no JSON text can carry). *)
Theorem C11_json_writer_total :
  forall e, stream_top e = if floats_finite e then Ok (render e) else Err.
Proof. exact stream_top_total. Qed.
Print Assumptions C11_json_writer_total.

(* json_always_valid: what the streamer writes for any well-formed event tree (even hashes with string
   keys, finite floats — what a Serializer hands to a consumer without CanDoComplexKeys) is accepted by
   the RFC 8259 recogniser.  No guard: holds for hashes keyed `__pref` too. *)
Theorem C11_json_always_valid :
  forall e, json_wf_all e = true ->
  exists toks, stream_top e = Ok toks /\ json_valid toks = true.
Proof. exact json_always_valid. Qed.
Print Assumptions C11_json_always_valid.

(* The full round-trip statement of the property, unguarded.  It is FALSE of the code (open finding
   json-pref-first-key, see C11_pref_first_key_refuted); the theorem below it carries the guard. *)
Definition C11_statement : Prop :=
  forall e, json_wf_all e = true ->
  exists toks, stream_top e = Ok toks /\ read toks = Ok [json_image e].

(* json_events_roundtrip: reading it back delivers the same events: same nesting, same scalar kinds (floats
   stay floats, int64 exact), same reference indices; strings keep every Unicode character (json_image maps a
   byte that is not UTF-8 to U+FFFD and a non-Data scalar to undef, and is the identity otherwise).
   Guard (open finding pref-first-key): no hash whose first key is the reserved string `__pref`. *)
Theorem C11_json_events_roundtrip :
  forall e, json_wf e = true ->
  exists toks, stream_top e = Ok toks /\ read toks = Ok [json_image e].
Proof. exact json_events_roundtrip. Qed.
Print Assumptions C11_json_events_roundtrip.

(* ... and for Data proper (strings valid UTF-8, no Binary, nothing foreign) the events come back EXACTLY. *)
Theorem C11_json_events_roundtrip_exact :
  forall e, json_wf e = true -> data_exact e = true ->
  exists toks, stream_top e = Ok toks /\ json_valid toks = true /\ read toks = Ok [e].
Proof. exact json_events_roundtrip_exact. Qed.
Print Assumptions C11_json_events_roundtrip_exact.

(* "strings keep every Unicode character": a valid UTF-8 string is its own image; whatever is read back is
   valid UTF-8 (so a second trip is exact). *)
Theorem C11_strings_keep_unicode :
  forall s, utf8_valid s = true -> utf8_coerce s = s.
Proof. exact utf8_valid_coerce. Qed.
Print Assumptions C11_strings_keep_unicode.

Theorem C11_image_is_exact :
  forall e, data_exact (json_image e) = true.
Proof. exact json_image_is_exact. Qed.
Print Assumptions C11_image_is_exact.

(* With back-references: the far side's collector receives the very calls the writer received, so the value
   it builds (references resolved against the same positions) is the value built on the near side. *)
Theorem C11_json_collect_roundtrip :
  forall e v, json_wf e = true -> data_exact e = true -> collect e = Ok v ->
  exists toks, stream_top e = Ok toks /\ exists e', read toks = Ok [e'] /\ collect e' = Ok v.
Proof. exact json_collect_roundtrip. Qed.
Print Assumptions C11_json_collect_roundtrip.

(* The reader's model terminates within the fuel `read` gives it on EVERY token list, valid JSON or not
   (so `OutOfFuel` never hides a behaviour of JsonToData from the theorems or from the correspondence). *)
Theorem C11_reader_total :
  forall toks, read toks <> OutOfFuel.
Proof. exact read_never_out_of_fuel. Qed.
Print Assumptions C11_reader_total.

(* Full strength with back-references and arbitrary byte strings: for ANY well-formed tree the value the far
   side's collector rebuilds is the image (vimage: invalid bytes -> U+FFFD, non-Data scalar -> undef) of what the
   near side's collector builds from the same calls - including the same fault on a dangling reference. *)
Theorem C11_json_collect_image :
  forall e, json_wf e = true ->
  exists toks, stream_top e = Ok toks /\ exists e', read toks = Ok [e'] /\ collect e' = res_map vimage (collect e).
Proof. exact json_collect_image. Qed.
Print Assumptions C11_json_collect_image.

(* End to end for a value: its calls -> NewJsonStreamer -> JsonToData -> BasicCollector = the value. *)
Theorem C11_json_data_roundtrip :
  forall v, json_wf (events_of v) = true -> data_exact (events_of v) = true ->
  exists toks, stream_top (events_of v) = Ok toks /\ json_valid toks = true /\
               exists e', read toks = Ok [e'] /\ collect e' = Ok v.
Proof. exact json_data_roundtrip. Qed.
Print Assumptions C11_json_data_roundtrip.

(* ---- the open finding: the guard of C11_json_events_roundtrip cannot be dropped ---- *)

(* a well-formed user hash {"__pref":1} is written as valid JSON and read back as AddRef(1) *)
Theorem C11_pref_first_key_refuted :
  exists e, json_wf_all e = true /\
            exists toks, stream_top e = Ok toks /\ json_valid toks = true /\ read toks <> Ok [json_image e].
Proof. exact pref_first_key_refuted. Qed.
Print Assumptions C11_pref_first_key_refuted.

Theorem C11_statement_refuted : ~ C11_statement.
Proof. exact json_roundtrip_statement_refuted. Qed.
Print Assumptions C11_statement_refuted.

(* {"__pref":"x"} and {"__pref":1,"b":2} make JsonToData fail *)
Theorem C11_pref_read_fails :
  let e1 := pref_hash (EAdd (SStr [120%N])) [] in
  let e2 := pref_hash (EAdd (SInt 1)) [EAdd (SStr [98%N]); EAdd (SInt 2)] in
  json_wf_all e1 = true /\ stream_top e1 = Ok (render e1) /\ read (render e1) = Err /\
  json_wf_all e2 = true /\ stream_top e2 = Ok (render e2) /\ read (render e2) = Err.
Proof. exact pref_read_fails. Qed.
Print Assumptions C11_pref_read_fails.

(* ---- the two repaired defects: the same statements are false of the PINNED writer ---- *)

(* before fix 1ed663c: [1,[],3] was written `[1,[]3]` *)
Theorem C11_json_invalid_refuted_pinned :
  forall fit, exists e, json_wf_all e = true /\
              exists toks, stream_top_pinned fit e = Ok toks /\ json_valid toks = false.
Proof. exact json_invalid_refuted_pinned. Qed.
Print Assumptions C11_json_invalid_refuted_pinned.

(* before fix 1f092e9: the float 1.0 was written `1` and read back as the Integer 1 *)
Theorem C11_float_kind_refuted_pinned :
  exists e, json_wf_all e = true /\
            exists toks, stream_top_pinned (fun _ => 1) e = Ok toks /\ read toks = Ok [EAdd (SInt 1)] /\
                         json_image e <> EAdd (SInt 1).
Proof. exact float_kind_refuted_pinned. Qed.
Print Assumptions C11_float_kind_refuted_pinned.

(* ============================================================================================== *)
(* protobuf                                                                                         *)

(* pb_roundtrip: FromPBData (ToPBData v) = v for every Data value (any nesting, any keys). *)
Theorem C11_pb_roundtrip :
  forall v, is_data v = true -> from_pb (to_pb v) = Ok v.
Proof. exact pb_roundtrip. Qed.
Print Assumptions C11_pb_roundtrip.

(* pb_stream_roundtrip: for EVERY event tree whose hashes have an even number of children (references,
   binaries, complex keys included) the protoConsumer builds a message from which ConsumePBData replays the
   same events (a scalar that is no pcore Data/Binary travels as undef: pb_image). *)
Theorem C11_pb_stream_roundtrip :
  forall e, even_hashes e = true -> exists d, pc_run e = Ok d /\ consume_pb d = Ok (pb_image e).
Proof. exact pb_stream_roundtrip. Qed.
Print Assumptions C11_pb_stream_roundtrip.

Theorem C11_pb_stream_roundtrip_exact :
  forall e, even_hashes e = true -> no_other e = true -> exists d, pc_run e = Ok d /\ consume_pb d = Ok e.
Proof. exact pb_stream_roundtrip_exact. Qed.
Print Assumptions C11_pb_stream_roundtrip_exact.

(* The stack of protoConsumer is a Go slice: make([][]*datapb.Data, 1, 8).  From the 8th nested container on,
   `append` moves it to a new backing array; a header or element pointer taken before keeps naming the old one.
   Model/PbMem.v is the consumer over such slices (heap of backing arrays, bounds checks as faults).  For EVERY
   tree of calls (any nesting depth, ill-formed ones included), every initial capacity and every growth policy
   of `append`, it computes exactly what the list model computes: the moves are harmless for the code as it is
   (it re-indexes pc.stack[top] after the doer). *)
Theorem C11_pb_slices_refine :
  forall (grow : nat -> nat) (cap0 : nat) e, pcm_run grow cap0 false e = pc_run e.
Proof. exact pcm_run_refines. Qed.
Print Assumptions C11_pb_slices_refine.

(* hence the stream round trip holds over real slices, at every depth *)
Theorem C11_pb_stream_roundtrip_slices :
  forall (grow : nat -> nat) (cap0 : nat) e, even_hashes e = true ->
  exists d, pcm_run grow cap0 false e = Ok d /\ consume_pb d = Ok (pb_image e).
Proof. exact pcm_stream_roundtrip. Qed.
Print Assumptions C11_pb_stream_roundtrip_slices.

(* the slice model tells the code from the rewrite `frame := &pc.stack[top]; doer(); els := *frame`: that one
   is wrong as soon as the stack moves (8 nested containers with the capacity of NewProtoConsumer) *)
Theorem C11_pb_retained_pointer_refuted :
  exists e, even_hashes e = true /\ pcm_run go_grow 8 true e <> pc_run e.
Proof. exact pcm_retained_pointer_refuted. Qed.
Print Assumptions C11_pb_retained_pointer_refuted.

(* the calls ConsumePBData makes for ToPBData v are the calls v denotes (for every v) *)
Theorem C11_pb_value_events :
  forall v, consume_pb (to_pb v) = Ok (pb_image (events_of v)).
Proof. exact consume_to_pb. Qed.
Print Assumptions C11_pb_value_events.

(* Data value -> ToPBData -> ConsumePBData -> BasicCollector = the value *)
Theorem C11_pb_data_roundtrip :
  forall v, is_data v = true -> exists e, consume_pb (to_pb v) = Ok e /\ collect e = Ok v.
Proof. exact pb_data_roundtrip. Qed.
Print Assumptions C11_pb_data_roundtrip.

(* Data value -> its calls -> protoConsumer -> FromPBData = the value *)
Theorem C11_pb_consumer_roundtrip :
  forall v, is_data v = true -> exists d, pc_run (events_of v) = Ok d /\ from_pb d = Ok v.
Proof. exact pb_consumer_roundtrip. Qed.
Print Assumptions C11_pb_consumer_roundtrip.

(* the collector rebuilds exactly the value a reference-free tree of calls denotes *)
Theorem C11_collect_events_of :
  forall v, collect (events_of v) = Ok v.
Proof. exact collect_events_of. Qed.
Print Assumptions C11_collect_events_of.

(* ============================================================================================== *)
(* "ANY serializer output": the Serializer in front of the JSON streamer                          *)

(* Whatever the value (hashes with keys of any kind, Sensitive, Binary, Default, values that are turned into
   their string form; shared sub-values, repeated long strings), whatever the options (rich_data, dedup_level,
   thresholds, binary support), the dedup level a position is sent at and the state of the dedup memo: a consumer
   that cannot do complex keys receives Add(String) at every key position of every hash - never an AddRef. *)
Theorem C11_ser_keys_are_strings :
  forall c level v st, ckeys c = false -> keys_wf (fst (ser c level v st)) = true.
Proof. exact ser_keys_are_strings. Qed.
Print Assumptions C11_ser_keys_are_strings.

(* hence Serializer -> NewJsonStreamer writes valid JSON for every value of the model whose floats are finite,
   under every option set *)
Theorem C11_ser_json_always_valid :
  forall rich_data dedup_level v, sval_finite v = true ->
  exists toks, stream_top (ser_top (json_cfg rich_data dedup_level) v) = Ok toks /\ json_valid toks = true.
Proof. exact ser_json_valid. Qed.
Print Assumptions C11_ser_json_always_valid.

(* the model tells the code from the variant that sends the stringified key of a hash with non-String keys at
   the level of a VALUE (seeded change C11-m5): [{MinInt64 => "a"}, {MinInt64 => "b"}] under rich_data => false -
   the second key (20 bytes = the streamer's dedup threshold, seen before) becomes {"__pref":2}: invalid JSON *)
Theorem C11_ser_key_level_refuted :
  sval_finite m5_witness = true /\
  ser_top_level1 (json_cfg false 2) m5_witness =
    EArr [EHash [EAdd (SStr minint_text); EAdd (SStr [97%N])]; EHash [ERef 2; EAdd (SStr [98%N])]] /\
  exists toks, stream_top (ser_top_level1 (json_cfg false 2) m5_witness) = Ok toks /\ json_valid toks = false.
Proof. exact ser_level1_key_refuted. Qed.
Print Assumptions C11_ser_key_level_refuted.

(* ============================================================================================== *)
(* Non-vacuity: the hypotheses are satisfiable and the models compute non-trivial concrete cases.   *)

(* [1, [], {"a": 2.0, "b": {}}, "é", ref 1, -2^63, []] : empty containers and a hash at non-first positions,
   an integral float, an extreme integer, a non-ASCII string, a back-reference *)
Definition ex_tree : ev :=
  EArr [EAdd (SInt 1); EArr [];
        EHash [EAdd (SStr [97%N]); EAdd (SFloat 4611686018427387904); EAdd (SStr [98%N]); EHash []];
        EAdd (SStr [195%N; 169%N]); ERef 1; EAdd (SInt (-9223372036854775808)); EArr []].

Example C11_json_nonvacuous :
  json_wf ex_tree = true /\ data_exact ex_tree = true /\
  stream_top ex_tree =
    Ok [LBrack; TNum (NInt 1); Comma; LBrack; RBrack; Comma;
        LBrace; TStr [97%N]; Colon; TNum (NFrac 4611686018427387904); Comma; TStr [98%N]; Colon; LBrace; RBrace; RBrace; Comma;
        TStr [195%N; 169%N]; Comma; LBrace; TStr pref_key; Colon; TNum (NInt 1); RBrace; Comma;
        TNum (NInt (-9223372036854775808)); Comma; LBrack; RBrack; RBrack] /\
  json_valid (render ex_tree) = true /\ read (render ex_tree) = Ok [ex_tree].
Proof. repeat split; vm_compute; reflexivity. Qed.

(* a string with a byte that is not UTF-8 comes back with U+FFFD in its place; a Binary comes back as undef *)
Example C11_json_image_nonvacuous :
  read (render (EArr [EAdd (SStr [97%N; 255%N]); EAdd (SBin [1%N])]))
  = Ok [EArr [EAdd (SStr [97%N; 239%N; 191%N; 189%N]); EAdd SUndef]].
Proof. vm_compute. reflexivity. Qed.

(* a non-finite float is reported, not written *)
Example C11_json_nan_nonvacuous :
  stream_top (EArr [EAdd (SInt 1); EAdd (SFloat 9221120237041090560)]) = Err.
Proof. vm_compute. reflexivity. Qed.

(* references are resolved by the collector: ["abc", ref 1] collects to ["abc", "abc"] *)
Example C11_collect_ref_nonvacuous :
  collect (EArr [EAdd (SStr [97%N; 98%N; 99%N]); ERef 1]) = Ok (VArr [VStr [97%N; 98%N; 99%N]; VStr [97%N; 98%N; 99%N]]).
Proof. vm_compute. reflexivity. Qed.

(* a reference to a string with an invalid byte: both occurrences come back coerced *)
Example C11_collect_image_nonvacuous :
  let e := EArr [EAdd (SStr [97%N; 255%N]); ERef 1] in
  collect e = Ok (VArr [VStr [97%N; 255%N]; VStr [97%N; 255%N]]) /\
  (let* evs := read (render e) in match evs with [e'] => collect e' | _ => Err end)
  = Ok (VArr [VStr [97%N; 239%N; 191%N; 189%N]; VStr [97%N; 239%N; 191%N; 189%N]]).
Proof. split; vm_compute; reflexivity. Qed.

Definition ex_value : value :=
  VHash [(VStr [107%N], VArr [VInt 9223372036854775807; VFloat 4607182418800017408; VUndef; VArr []]);
         (VInt 3, VHash [])].

Example C11_pb_nonvacuous :
  is_data ex_value = true /\
  to_pb ex_value = PbHash [(PbStr [107%N], PbArr [PbInt 9223372036854775807; PbFloat 4607182418800017408; PbUndef; PbArr []]);
                           (PbInt 3, PbHash [])] /\
  from_pb (to_pb ex_value) = Ok ex_value /\
  pc_run (events_of ex_value) = Ok (to_pb ex_value) /\
  (let* e := consume_pb (to_pb ex_value) in collect e) = Ok ex_value.
Proof. repeat split; vm_compute; reflexivity. Qed.

(* an event tree with a reference and a Binary through the protoConsumer and back; a Binary is not Data and
   FromPBData has no arm for it *)
Example C11_pb_stream_nonvacuous :
  let e := EArr [EAdd (SBin [0%N; 255%N]); ERef 0; EHash [EArr []; EAdd (SFloat 0)]] in
  even_hashes e = true /\ no_other e = true /\
  pc_run e = Ok (PbArr [PbBin [0%N; 255%N]; PbRef 0; PbHash [(PbArr [], PbFloat 0)]]) /\
  (let* d := pc_run e in consume_pb d) = Ok e /\
  from_pb (to_pb (VBin [1%N])) = Ok VUndef.
Proof. repeat split; vm_compute; reflexivity. Qed.

(* 12 nested arrays: the stack of NewProtoConsumer (capacity 8) has moved to a second backing array (16 cells) on the
   way down; the message is complete, the elements that follow the nested array at each level included *)
Example C11_pb_slices_nonvacuous :
  let e := EArr [EAdd (SInt 7); nest 11%nat (EArr [EAdd (SInt 42); EAdd (SFloat 4602678819172646912)]); EAdd (SInt 8)] in
  even_hashes e = true /\
  (let* m := pcm_ev go_grow false (sl_make1 [] 8 []) e in Ok (length (m_heap m), sl_cap (m_sl m))) = Ok (2%nat, 16%nat) /\
  pc_run_mem e = Ok (PbArr [PbInt 7; pb_of_ev (nest 11%nat (EArr [EAdd (SInt 42); EAdd (SFloat 4602678819172646912)])); PbInt 8]) /\
  (let* d := pc_run_mem e in consume_pb d) = Ok e.
Proof. repeat split; vm_compute; reflexivity. Qed.

(* the Serializer's placement of calls: an Integer key and a 21-byte string that occurs as a value, then as a key, then
   as a value again, a shared array; rich_data => false: the key is stringified and stays a string, the repeated value
   and the shared array become references; rich_data => true: the hash is sent as {__ptype: Hash, __pvalue: [k, v, ...]} *)
Definition ex_long : str := [97;32;115;116;114;105;110;103;32;111;102;32;50;49;32;98;121;116;101;115;33]%N.
Definition ex_sval : sval :=
  XArr 1 [XStr ex_long; XArr 2 [XSc (SInt 1)];
          XHash 3 [(XSc (SInt 7), [55%N], XArr 2 [XSc (SInt 1)]); (XStr ex_long, ex_long, XStr ex_long)]].

Example C11_ser_nonvacuous :
  sval_finite ex_sval = true /\
  ser_top (json_cfg false 2) ex_sval =
    EArr [EAdd (SStr ex_long); EArr [EAdd (SInt 1)];
          EHash [EAdd (SStr [55%N]); ERef 2; EAdd (SStr ex_long); ERef 1]] /\
  ser_top (json_cfg true 2) ex_sval =
    EArr [EAdd (SStr ex_long); EArr [EAdd (SInt 1)];
          EHash [EAdd (SStr s_ptype); EAdd (SStr s_Hash); EAdd (SStr s_pvalue);
                 EArr [EAdd (SInt 7); ERef 2; ERef 1; ERef 1]]] /\
  json_valid (render (ser_top (json_cfg false 2) ex_sval)) = true.
Proof. repeat split; vm_compute; reflexivity. Qed.

(* ============================================================================================== *)
(* The string lexeme, byte by byte (Model/JsonStr.v)                                                *)

(* The theorems above speak of tokens: `write (SStr x)` is the token TStr (utf8_coerce x), i.e. "what is written for
   x is a string lexeme that decodes to utf8_coerce x".  Here that is a theorem about the BYTES: write_string x
   (jsonstreamer.go:108, json.Marshal(e.String()) handed on unchanged) against a reader of one string lexeme
   (json_unquote: encoding/json's scanner + unquoteBytes, all escapes, surrogate pairs, UTF-8 coercion).
   For EVERY byte string x - in particular one whose content looks like an escape sequence (a backslash followed
   by u0026, n, a quote ...; JSON text stored as a string; a string ending in a backslash): *)

(* what is written is a JSON string lexeme (RFC 8259 section 7) ... *)
Theorem C11_string_lexeme_valid :
  forall x, str_lexeme_ok (write_string x) = true.
Proof. exact escape_lexeme_ok. Qed.
Print Assumptions C11_string_lexeme_valid.

(* ... which decodes to x with each byte that starts no well-formed UTF-8 sequence replaced by U+FFFD ... *)
Theorem C11_string_lexeme_roundtrip :
  forall x, json_unquote (write_string x) = Some (utf8_coerce x).
Proof. exact unquote_escape. Qed.
Print Assumptions C11_string_lexeme_roundtrip.

(* ... so a valid UTF-8 string keeps every character, whatever its content looks like *)
Theorem C11_string_lexeme_keeps_unicode :
  forall x, utf8_valid x = true -> json_unquote (write_string x) = Some x.
Proof. exact unquote_escape_valid. Qed.
Print Assumptions C11_string_lexeme_keeps_unicode.

(* the token the writer model of Model/Json.v emits for a string IS the token of the bytes written *)
Theorem C11_string_token_is_bytes :
  forall x, write (SStr x) = Ok [str_token (write_string x)].
Proof. exact write_is_write_string. Qed.
Print Assumptions C11_string_token_is_bytes.

(* the byte model is discriminating: the variant that replaces the six bytes backslash-u0026 by & after marshalling
   (seeded change C11-m8) writes, for the string whose content is those six bytes, something that is no string
   lexeme, while the code as it is writes a lexeme that decodes to the string *)
Theorem C11_string_amp_replace_refuted :
  str_lexeme_ok (write_string_amp amp_witness) = false /\ str_token (write_string_amp amp_witness) = TBad /\
  str_token (write_string amp_witness) = TStr amp_witness.
Proof. exact amp_replace_refuted. Qed.
Print Assumptions C11_string_amp_replace_refuted.

(* a & b < quote backslash + the six bytes backslash-u0026 + LF + e-acute + an invalid byte + U+2028 + a trailing backslash *)
Example C11_string_nonvacuous :
  let x := [97; 38; 98; 60; 34; 92; 92; 117; 48; 48; 50; 54; 10; 195; 169; 255; 226; 128; 168; 92]%N in
  write_string x =
    [34; 97; 92; 117; 48; 48; 50; 54; 98; 92; 117; 48; 48; 51; 99; 92; 34; 92; 92; 92; 92; 117; 48; 48; 50; 54; 92; 110;
     195; 169; 92; 117; 102; 102; 102; 100; 92; 117; 50; 48; 50; 56; 92; 92; 34]%N /\
  json_unquote (write_string x) =
    Some [97; 38; 98; 60; 34; 92; 92; 117; 48; 48; 50; 54; 10; 195; 169; 239; 191; 189; 226; 128; 168; 92]%N /\
  (* a surrogate pair, a lone surrogate, an unknown escape, a raw control character *)
  json_unquote [34; 92; 117; 100; 56; 51; 100; 92; 117; 100; 101; 48; 48; 34]%N = Some [240; 159; 152; 128]%N /\
  json_unquote [34; 92; 117; 100; 56; 48; 48; 120; 34]%N = Some [239; 191; 189; 120]%N /\
  json_unquote [34; 92; 38; 34]%N = None /\ json_unquote [34; 10; 34]%N = None.
Proof. repeat split; vm_compute; reflexivity. Qed.

(* ============================================================================================== *)
(* JSON at the level of the BYTES of the whole text (Model/JsonText.v)                              *)

(* Until here a JSON text was a token list and the step from the bytes the streamer wrote to that list was the
   harness' tokenizer.  Model/JsonText.v models both sides of that step: `btext` = jsonstreamer.go writing BYTES
   (delimiter bytes, `{"__pref":%d}`, json.Marshal of a string byte by byte, integers in decimal, true/false/null,
   a float as the oracle's text + the `.0` of fix 1f092e9) and `lex` = a tokenizer of a whole text (one structurally
   recursive pass, no fuel); `read_text bs = read (lex bs)` is JsonToData on bytes.
   ORACLES: `ft` (json.Marshal(float64): bits -> text) and `pf` (strconv.ParseFloat: text -> bits) are arbitrary
   functions, universally quantified.  The one law used is the BOOLEAN `floats_lawful ft pf e`: for every finite
   float b of e, the text the streamer completes `ft b` to is an RFC 8259 number lexeme and pf reads it back to b.  It is evaluated with the library's answers on
   every case of every run (obligation text_model).  Integers are not an oracle. *)

(* The tokens of the bytes written ARE the tokens of the token model - for EVERY event tree (ill-formed ones,
   NaN/Inf included: an error is an error), any nesting, any strings (a quote or backslash inside a string never ends
   the lexeme early, the closing quote is found exactly where json.Marshal put it), any integers.  So every theorem
   above about `stream_top e` is a theorem about the bytes. *)
Theorem C11_text_lex :
  forall ft pf e, floats_lawful ft pf e = true -> lex_res pf (btext ft e) = stream_top e.
Proof. exact text_lex. Qed.
Print Assumptions C11_text_lex.

(* the byte-level writer never faults and reports an error exactly on NaN/Inf *)
Theorem C11_text_writer_total :
  forall ft pf e, floats_lawful ft pf e = true ->
  match btext ft e with
  | Ok _ => floats_finite e = true
  | Err => floats_finite e = false
  | _ => False
  end.
Proof. exact text_writer_total. Qed.
Print Assumptions C11_text_writer_total.

(* "always produces syntactically valid JSON", of the bytes: they split into lexemes (no TBad: every string lexeme
   is one, every number matches the RFC 8259 number grammar) that form one RFC 8259 value *)
Theorem C11_text_always_valid :
  forall ft pf e, json_wf_all e = true -> floats_lawful ft pf e = true ->
  exists bs, btext ft e = Ok bs /\ json_valid (lex pf bs) = true.
Proof. exact text_always_valid. Qed.
Print Assumptions C11_text_always_valid.

(* "reading it back delivers the same events", from bytes: JsonToData on the bytes NewJsonStreamer wrote *)
Theorem C11_text_events_roundtrip :
  forall ft pf e, json_wf e = true -> floats_lawful ft pf e = true ->
  exists bs, btext ft e = Ok bs /\ read_text pf bs = Ok [json_image e].
Proof. exact text_events_roundtrip. Qed.
Print Assumptions C11_text_events_roundtrip.

Theorem C11_text_events_roundtrip_exact :
  forall ft pf e, json_wf e = true -> data_exact e = true -> floats_lawful ft pf e = true ->
  exists bs, btext ft e = Ok bs /\ json_valid (lex pf bs) = true /\ read_text pf bs = Ok [e].
Proof. exact text_events_roundtrip_exact. Qed.
Print Assumptions C11_text_events_roundtrip_exact.

(* through the far side's BasicCollector, references resolved, arbitrary byte strings *)
Theorem C11_text_collect_image :
  forall ft pf e, json_wf e = true -> floats_lawful ft pf e = true ->
  exists bs, btext ft e = Ok bs /\
  exists e', read_text pf bs = Ok [e'] /\ collect e' = res_map vimage (collect e).
Proof. exact text_collect_image. Qed.
Print Assumptions C11_text_collect_image.

(* end to end for a value, over bytes: from_json (to_json v) = v *)
Theorem C11_text_data_roundtrip :
  forall ft pf v, json_wf (events_of v) = true -> data_exact (events_of v) = true ->
  floats_lawful ft pf (events_of v) = true ->
  exists bs, btext ft (events_of v) = Ok bs /\ json_valid (lex pf bs) = true /\
  exists e', read_text pf bs = Ok [e'] /\ collect e' = Ok v.
Proof. exact text_data_roundtrip. Qed.
Print Assumptions C11_text_data_roundtrip.

(* serialization.DataToJson (jsonstreamer.go:28) writes the same text followed by a newline: the same tokens, hence the
   same events *)
Theorem C11_text_data_to_json_newline :
  forall ft pf e bs, floats_lawful ft pf e = true -> btext ft e = Ok bs -> lex pf (bs ++ [10%N]) = lex pf bs.
Proof. exact text_lex_newline. Qed.
Print Assumptions C11_text_data_to_json_newline.

(* the byte model is discriminating: the variant whose fraction test only looks for a dot (hand-made mutant M5) turns the
   text 1e+21 into 1e+21.0 - no number lexeme, the tokenizer answers TBad - while the code leaves it a lexeme *)
Theorem C11_text_fraction_test_refuted :
  forall pf, lex pf (fix_float_dot text_1e21) = [TBad] /\ num_ok (fix_float text_1e21) = true /\
             lex pf (fix_float text_1e21) = [TNum (NFrac (pf text_1e21))].
Proof. exact fraction_test_refuted. Qed.
Print Assumptions C11_text_fraction_test_refuted.

(* "ANY serializer output", over bytes: Serializer (Model/JsonSer.v) -> NewJsonStreamer, every value with finite floats,
   every option set; the law is asked of the floats the Serializer hands on *)
Theorem C11_text_ser_always_valid :
  forall ft pf rich_data dedup_level v, sval_finite v = true ->
  floats_lawful ft pf (ser_top (json_cfg rich_data dedup_level) v) = true ->
  exists bs, btext ft (ser_top (json_cfg rich_data dedup_level) v) = Ok bs /\ json_valid (lex pf bs) = true.
Proof. exact text_ser_always_valid. Qed.
Print Assumptions C11_text_ser_always_valid.

(* a text that matches the RFC 8259 number grammar starts with '-' or a digit and holds number characters only, so a
   tokenizer taking a maximal run of number characters takes exactly the lexeme (why the law needs no more than
   "is a number lexeme and parses back") *)
Theorem C11_number_lexeme_shape :
  forall t, num_ok t = true -> num_shape t = true.
Proof. exact num_ok_shape. Qed.
Print Assumptions C11_number_lexeme_shape.

(* "integers keep 64-bit precision" at the level of digits, for every integer (no oracle): the decimal text written is
   an RFC 8259 number lexeme, integer-looking, and denotes the integer *)
Theorem C11_int_text_roundtrip :
  forall z, num_ok (int_text z) = true /\ int_of_text (int_text z) = Some z.
Proof. exact (fun z => conj (int_text_num_ok z) (int_of_text_int_text z)). Qed.
Print Assumptions C11_int_text_roundtrip.

(* whatever text the streamer completes a float text to, it is never integer-looking: floats stay floats *)
Theorem C11_float_text_never_int :
  forall v, int_of_text (fix_float v) = None.
Proof. exact (fun v => int_of_text_frac _ (has_frac_fix v)). Qed.
Print Assumptions C11_float_text_never_int.

(* The law is consistent: there IS a pair of total functions satisfying it on every bit pattern (a toy printer - the bits
   in decimal followed by e0 - and its parser), so the hypothesis class of the C11_text_* theorems is inhabited also in the
   form "for all floats"; that strconv satisfies it is what the correspondence run observes, float by float. *)
Theorem C11_text_law_satisfiable :
  exists ft pf, forall b, float_law ft pf b = true.
Proof. exact float_law_satisfiable. Qed.
Print Assumptions C11_text_law_satisfiable.

Theorem C11_text_events_roundtrip_all_floats :
  forall ft pf, (forall b, float_law ft pf b = true) ->
  forall e, json_wf e = true -> exists bs, btext ft e = Ok bs /\ read_text pf bs = Ok [json_image e].
Proof. exact text_events_roundtrip_all. Qed.
Print Assumptions C11_text_events_roundtrip_all_floats.

(* Non-vacuity: the oracle tables hold json.Marshal / strconv.ParseFloat for 1.0 and 1.5; the law holds of them; the
   bytes are [-9223372036854775808,[],{K:1.0,"b":{"__pref":3}},1.5,null,true,0] (K = the key a-quote, written "a" + backslash + quote + ""
   i.e. 34 97 92 34 34) and read back to the events.
   And the byte level sees what the token level cannot: were the comma between two elements forgotten, [1,2] would be
   the bytes [12] - VALID JSON with other content (at token level the same slip is merely invalid). *)
Example C11_text_nonvacuous :
  let ft := ftab_lookup [(4609434218613702656, [49;46;53]%N); (4607182418800017408, [49]%N)] in
  let pf := ptab_lookup [([49;46;53]%N, 4609434218613702656); ([49;46;48]%N, 4607182418800017408)] in
  let e := EArr [EAdd (SInt (-9223372036854775808)); EArr [];
                 EHash [EAdd (SStr [97;34]%N); EAdd (SFloat 4607182418800017408); EAdd (SStr [98]%N); ERef 3];
                 EAdd (SFloat 4609434218613702656); EAdd SUndef; EAdd (SBool true); EAdd (SInt 0)] in
  floats_lawful ft pf e = true /\
  btext ft e = Ok [91; 45; 57; 50; 50; 51; 51; 55; 50; 48; 51; 54; 56; 53; 52; 55; 55; 53; 56; 48; 56; 44; 91; 93; 44; 123; 34; 97;
                   92; 34; 34; 58; 49; 46; 48; 44; 34; 98; 34; 58; 123; 34; 95; 95; 112; 114; 101; 102; 34; 58; 51; 125; 125; 44;
                   49; 46; 53; 44; 110; 117; 108; 108; 44; 116; 114; 117; 101; 44; 48; 93]%N /\
  (exists bs, btext ft e = Ok bs /\ read_text pf bs = Ok [e]) /\
  lex pf [91; 49; 50; 93]%N = [LBrack; TNum (NInt 12); RBrack] /\
  lex pf [45; 48; 32; 48; 49; 32; 110; 117; 108; 108; 120; 34; 97]%N = [TNum (NInt 0); TBad; TBad; TBad].
Proof.
  cbv zeta. split; [vm_compute; reflexivity|]. split; [vm_compute; reflexivity|].
  split; [eexists; split; [vm_compute; reflexivity|vm_compute; reflexivity]|]. split; vm_compute; reflexivity.
Qed.
