(* Property C20: string formatting is total and faithful to the format directive.
   Statements only; the proofs are in Proofs/Format{Proofs,Width,Total,Radix,NoFault,Share}.v, the model in
   Model/Format.v (one Gallina function per Go method; oracles for strconv float digits, quoting
   beyond plain ASCII, Unicode case mapping, int64<->float64 and nested container types). *)
From Coq Require Import String.
From Coq Require Import ZArith NArith Bool List.
From PcoreV Require Import Model.Base Model.Format Model.FormatShare Model.FormatSprintf.
From PcoreV Require Import Proofs.FormatSprintf.
From PcoreV Require Import Proofs.FormatProofs Proofs.FormatWidth Proofs.FormatTotal Proofs.FormatRadix Proofs.FormatRadixPad Proofs.FormatNoFault Proofs.FormatShare.
Import ListNotations.
Open Scope Z_scope.

Definition o0 : oracle := mkOracle [] [] [] [] [] [] [].

(* --- formatting is total --------------------------------------------------------------------- *)

(* for every oracle, every value (scalars, arrays, hashes, nested to any depth) and every format
   specification (default, any string, any per-type map nested to any depth) formatting returns a
   text or an error class: the fuel of the container recursion and of mergeFormats always suffices *)
Theorem C20_format_total :
  forall (o : oracle) (v : value) (spec : fspec), exists r, format_value o v spec = Some r.
Proof. exact format_total. Qed.
Print Assumptions C20_format_total.

Example C20_total_ex :
  format_value o0 (VArr [VInt 1; VArr [VStr (lit "a"); VUndef]; VHash [(VStr (lit "k"), VBool true)]]) FDefault
  = Some (OText (lit "[1, ['a', undef], {'k' => true}]"))
  /\ format_value o0 (VHash [(VStr (lit "a"), VInt 10)])
                  (FMap [(KHash, FEHash (lit "%<h") (Some (lit ";")) (Some (lit ":")) (Some [(KInteger, FEStr (lit "%#x"))]))])
     = Some (OText (lit "<'a':0xa>"))
  /\ format_value o0 (VInt 5) (FMap [(KInteger, FEStr (lit "%--d"))]) = Some (OErr ERepeatedFlag).
Proof. vm_compute. repeat split. Qed.

(* no runtime fault escapes: the explicit fault sites of the model (index into an empty string in
   fmt.fmtFloat and floatGFormat, a second numeric conversion, a container handed to a scalar's
   ToString) are unreachable for every value and specification, provided no digit string of the
   oracle is empty or a bare sign (strconv.FormatFloat never returns one) *)
Theorem C20_no_fault :
  forall (o : oracle) (v : value) (spec : fspec) (r : obs),
    oracle_ok o -> format_value o v spec = Some r -> r <> OErr EFault.
Proof. exact no_fault. Qed.
Print Assumptions C20_no_fault.

Example C20_no_fault_ex :
  let o := mkOracle [] [] [] [((4615063718147915776, 102%N, 2), lit "3.50")] [] [] [] in
  oracle_ok o /\ format_value o (VFloat 4615063718147915776) (FStr (lit "%+08.2f")) = Some (OText (lit "+0003.50")).
Proof.
  split; [|vm_compute; reflexivity].
  intros k ds [H|[]]. injection H as _ <-. split; discriminate.
Qed.

(* --- the unsupported-format error is raised exactly outside the documented set ------------- *)

(* for every scalar value, every format (any flags, width, precision, letter) and every oracle:
   the scalar's ToString raises UnsupportedFormat(c, k) iff the format's letter is outside the
   documented set of the value's kind, and then c is that letter and k the kind's name *)
Theorem C20_unsupported_iff_outside_set :
  forall (o : oracle) (f : format) (v : value) (c : N) (k : kind),
    is_container v = false ->
    (render_scalar o f v = OErr (EUnsupported c k)
     <-> (supported (kind_of v) (f_char f) = false /\ c = f_char f /\ k = kind_of v)).
Proof. exact unsupported_iff. Qed.
Print Assumptions C20_unsupported_iff_outside_set.

(* the same through px.NewFormatContext3(value, directive) + ToString, for every directive string of
   the grammar (parse_format succeeds).  Float NaN is included (fixed finding nan-directive-ignored): its
   inferred type is the unbounded Float type, which accepts itself, so GetFormat selects the directive *)
Theorem C20_unsupported_iff_directive :
  forall (o : oracle) (v : value) (s : str) (f : format) (c : N) (k : kind),
    is_container v = false -> parse_format s None None CfNone = ROk f ->
    (format_value o v (FStr s) = Some (OErr (EUnsupported c k))
     <-> (supported (kind_of v) (f_char f) = false /\ c = f_char f /\ k = kind_of v)).
Proof. exact unsupported_iff_directive. Qed.
Print Assumptions C20_unsupported_iff_directive.

Example C20_unsupported_ex :
  format_value o0 (VInt 5) (FStr (lit "%-8q")) = Some (OErr (EUnsupported 113 KdInteger))
  /\ format_value o0 (VInt 255) (FStr (lit "%#010x")) = Some (OText (lit "0x00000000ff"))
  /\ format_value o0 (VStr (lit "ab")) (FStr (lit "%-5s|")) = Some (OErr EInvalidSpec)
  /\ format_value o0 (VStr (lit "ab")) (FStr (lit "%-5p")) = Some (OText (lit "'ab' ")).
Proof. vm_compute. repeat split. Qed.

(* --- radix renderings convert back ----------------------------------------------------------- *)

(* the digit string of every u < 2^64 (hence of |n| for every int64 n, MinInt64 included) in radix
   2, 8, 10 and 16, lower and upper case, consists of valid digits of that radix and denotes u *)
Theorem C20_digits_roundtrip :
  forall (base : Z) (upper : bool) (u : Z),
    In base [2; 8; 10; 16] -> 0 <= u < 2 ^ 64 ->
    exists dv, digit_vals base (digits base upper u) = Some dv /\ of_digits base dv = u.
Proof. exact digits_roundtrip. Qed.
Print Assumptions C20_digits_roundtrip.

(* lifted to the Integer constructor with radix (Convertible pattern, prefix that agrees with the
   radix, strconv.ParseInt): for every int64 n and every format with letter d x X o b B, with or
   without '#', with or without '+' (no width, precision or space flag), the text that Integer n
   renders to is converted back to n by Integer.new(text, radix of the letter) *)
Theorem C20_radix_roundtrip :
  forall (o : oracle) (f : format) (n : Z) (t : str),
    plain_format f -> in_int64 n = true -> mem (f_char f) l_dxXobB = true ->
    render_scalar o f (VInt n) = OText t -> int_new t (radix_of (f_char f)) = Some n.
Proof. exact radix_roundtrip. Qed.
Print Assumptions C20_radix_roundtrip.

Theorem C20_radix_roundtrip_directive :
  forall (o : oracle) (s : str) (f : format) (n : Z) (t : str),
    parse_format s None None CfNone = ROk f -> plain_format f -> in_int64 n = true ->
    mem (f_char f) l_dxXobB = true ->
    format_value o (VInt n) (FStr s) = Some (OText t) -> int_new t (radix_of (f_char f)) = Some n.
Proof. exact radix_roundtrip_directive. Qed.
Print Assumptions C20_radix_roundtrip_directive.

Example C20_radix_ex :
  digits 16 true 9223372036854775808 = lit "8000000000000000"
  /\ format_value o0 (VInt (-9223372036854775808)) (FStr (lit "%#x")) = Some (OText (lit "-0x8000000000000000"))
  /\ int_new (lit "-0x8000000000000000") 16 = Some (-9223372036854775808)
  /\ format_value o0 (VInt 5) (FStr (lit "%#+B")) = Some (OText (lit "+0B101"))
  /\ int_new (lit "+0B101") 2 = Some 5
  /\ (exists f, parse_format (lit "%#+B") None None CfNone = ROk f /\ plain_format f /\ mem (f_char f) l_dxXobB = true).
Proof.
  vm_compute. repeat split; try reflexivity.
  eexists. split; [reflexivity|]. vm_compute. repeat split; auto.
Qed.

(* ... under ANY flags, width and precision (zero filled to any width - beyond the 16 / 22 / 64 / 19 digits
   a 64 bit number needs included -, filled by any precision, space padded on either side, '#', '+', ' '):
   the rendering with its padding spaces trimmed (strings.TrimSpace) is converted back to n by both
   dispatches of the constructor, Integer.new(text, radix [, abs]) and Integer.new({from => text, radix =>
   radix [, abs => abs]}); under abs => true a negative n comes back negated (wrapping at MinInt64).
   The single exception is fmt's (and C's) rule that precision 0 of the integer 0 renders no digit. *)
Theorem C20_radix_roundtrip_any_format :
  forall (o : oracle) (f : format) (n : Z) (t : str) (form : ctor_form) (abs : option bool),
    in_int64 n = true -> mem (f_char f) l_dxXobB = true -> (f_prec f = 0 -> n <> 0) ->
    render_scalar o f (VInt n) = OText t ->
    int_ctor form (trim_space t) (radix_of (f_char f)) abs
    = Some (if abs_given abs && (n <? 0) then wrap64 (- n) else n).
Proof. exact radix_roundtrip_ctor. Qed.
Print Assumptions C20_radix_roundtrip_any_format.

(* a rendering that carries no white space (zero fill, precision fill, no width) converts back as it is *)
Theorem C20_radix_roundtrip_filled :
  forall (o : oracle) (f : format) (n : Z) (t : str),
    in_int64 n = true -> mem (f_char f) l_dxXobB = true -> (f_prec f = 0 -> n <> 0) ->
    render_scalar o f (VInt n) = OText t -> Forall (fun c => is_space_b c = false) t ->
    int_new t (radix_of (f_char f)) = Some n.
Proof. exact radix_roundtrip_filled. Qed.
Print Assumptions C20_radix_roundtrip_filled.

(* through px.NewFormatContext3(Integer n, directive) + px.ToString2, for every directive of the grammar *)
Theorem C20_radix_roundtrip_any_directive :
  forall (o : oracle) (s : str) (f : format) (n : Z) (t : str) (form : ctor_form),
    parse_format s None None CfNone = ROk f -> in_int64 n = true -> mem (f_char f) l_dxXobB = true ->
    (f_prec f = 0 -> n <> 0) ->
    format_value o (VInt n) (FStr s) = Some (OText t) ->
    int_ctor form (trim_space t) (radix_of (f_char f)) None = Some n.
Proof. exact radix_roundtrip_ctor_directive. Qed.
Print Assumptions C20_radix_roundtrip_any_directive.

Example C20_radix_pad_ex :
  format_value o0 (VInt 255) (FStr (lit "%+024x")) = Some (OText (lit "+000000000000000000000ff"))
  /\ int_ctor CPositional (lit "+000000000000000000000ff") 16 None = Some 255
  /\ int_ctor CNamed (lit "+000000000000000000000ff") 16 None = Some 255
  /\ format_value o0 (VInt (-9)) (FStr (lit "%.21d")) = Some (OText (lit "-000000000000000000009"))
  /\ int_ctor CNamed (lit "-000000000000000000009") 10 (Some true) = Some 9
  /\ format_value o0 (VInt 8) (FStr (lit "%#-8o")) = Some (OText (lit "010     "))
  /\ int_ctor CPositional (trim_space (lit "010     ")) 8 None = Some 8
  /\ format_value o0 (VInt 0) (FStr (lit "%3.0x")) = Some (OText (lit "   "))
  /\ int_ctor CPositional (lit "ff") 7 None = None
  /\ int_ctor CPositional (lit "-8000000000000000") 16 (Some true) = Some (-9223372036854775808).
Proof. vm_compute. repeat split. Qed.

(* --- width and padding side ------------------------------------------------------------------ *)

(* every scalar rendering that does not pass through fmt's float verbs (Integer/Float/Boolean under
   e E f g G a A, whose digits are strconv's) is at least as wide, in runes, as the format asks *)
Theorem C20_width_respected_partial :
  forall (o : oracle) (f : format) (v : value) (t : str),
    is_container v = false -> float_path v (f_char f) = false ->
    render_scalar o f v = OText t -> f_width f <= rlen t.
Proof. exact width_respected. Qed.
Print Assumptions C20_width_respected_partial.
(* partial: the renderings under e E f g G a A are excluded (digit strings are an oracle); their
   sign / zero padding / width shape is tied by the correspondence and the direct check only *)

(* the same through NewFormatContext3(value, directive string), Float NaN included; partial for the same reason
   (float_path) *)
Theorem C20_width_respected_directive_partial :
  forall (o : oracle) (v : value) (s : str) (f : format) (t : str),
    is_container v = false -> float_path v (f_char f) = false ->
    parse_format s None None CfNone = ROk f ->
    format_value o v (FStr s) = Some (OText t) -> f_width f <= rlen t.
Proof. exact width_respected_directive. Qed.
Print Assumptions C20_width_respected_directive_partial.

(* fixed finding nan-directive-ignored: the directive given for NaN is applied ('%10s' of NaN is 10 wide, '%6g'
   6 wide; it was "NaN", 3 wide, whatever the directive: Float[NaN, NaN] did not accept itself and GetFormat fell
   back to %s) *)
Example C20_nan_directive_applied :
  let o := mkOracle [] [] [] [((9221120237041090561, 103%N, -1), lit "NaN")] [] [] [] in
  format_value o (VFloat 9221120237041090561) (FStr (lit "%10s")) = Some (OText (lit "       NaN"))
  /\ format_value o (VFloat 9221120237041090561) (FStr (lit "%6g")) = Some (OText (lit "   NaN"))
  /\ format_value o (VFloat 9221120237041090561) (FStr (lit "%q")) = Some (OErr (EUnsupported 113 KdFloat)).
Proof. vm_compute. repeat split. Qed.

(* ApplyStringFlags (every value kind's %s %p %c %t ... family): the text under width w is the text
   without width padded with spaces to w runes, on the right under '-', on the left otherwise *)
Theorem C20_padding_side_string_flags :
  forall (o : oracle) (f : format) (s : str) (quoted : bool) (t : str),
    apply_string_flags o f s quoted = OText t ->
    exists t0, apply_string_flags o (set_width f (-1)) s quoted = OText t0 /\ padded (f_left f) (f_width f) t0 t.
Proof. exact padding_side_string_flags. Qed.
Print Assumptions C20_padding_side_string_flags.

(* the integer verbs d x X o b: under '-' or without the '0' flag, the same statement *)
Theorem C20_padding_side_integer :
  forall (f : format) (verb : N) (n : Z),
    (f_left f = true \/ f_zero f = false) ->
    padded (f_left f) (f_width f) (go_fmt_int (set_width f (-1)) verb n) (go_fmt_int f verb n).
Proof. exact padding_side_integer. Qed.
Print Assumptions C20_padding_side_integer.

Example C20_width_ex :
  format_value o0 (VStr (lit "héllo")) (FStr (lit "%-8.3s")) = Some (OText (lit "hél     "))
  /\ format_value o0 (VInt (-42)) (FStr (lit "%08d")) = Some (OText (lit "-0000042"))
  /\ format_value o0 (VInt (-42)) (FStr (lit "%-8d")) = Some (OText (lit "-42     "))
  /\ format_value o0 VUndef (FStr (lit "%10s")) = Some (OText (lit "     undef")).
Proof. vm_compute. repeat split. Qed.

(* --- containers are rendered recursively ------------------------------------------------------- *)

(* Array: under the format f that GetFormat selects (letter a, s or p; not alternate; outside an
   indenting context), if every element renders to a text - containers under the parent's format
   map, scalars under the container formats of f or the default ones - the array renders to left
   delimiter, those texts joined by separator and space, right delimiter *)
Theorem C20_array_recursive :
  forall n o ind m es f ts,
    get_format o m (VArr es) = ROk f -> mem (f_char f) set_array = true ->
    f_alt f = false -> i_indenting ind = false ->
    Forall2 (fun e t => render n o (i_subsequent (i_increase (i_set_indenting ind false) false))
                               (if is_container e then m else cf_or_default f) false e = Some (OText t)) es ts ->
    render (S n) o ind m false (VArr es) =
    Some (OText (opt_byte (fst (delim_pair (if N.eqb (f_delim f) 0 then 91%N else f_delim f))) ++
                 join (sep_or (f_sep f) s_comma ++ [32%N]) ts ++
                 opt_byte (snd (delim_pair (if N.eqb (f_delim f) 0 then 91%N else f_delim f))))).
Proof. exact array_recursive. Qed.
Print Assumptions C20_array_recursive.

(* Hash (letters h s p): key text, association separator, value text per entry *)
Theorem C20_hash_recursive :
  forall n o ind m es f ts,
    get_format o m (VHash es) = ROk f -> N.eqb (f_char f) 97 = false -> mem (f_char f) l_hsp = true ->
    f_alt f = false -> i_indenting ind = false ->
    Forall2 (fun kv t =>
               render n o (i_increase (i_set_indenting ind false) false)
                      (if is_container (fst kv) then m else cf_or_default f) false (fst kv) = Some (OText (fst t)) /\
               render n o (i_increase (i_set_indenting ind false) false)
                      (if is_container (snd kv) then m else cf_or_default f) false (snd kv) = Some (OText (snd t))) es ts ->
    render (S n) o ind m false (VHash es) =
    Some (OText (opt_byte (fst (delim_pair (if N.eqb (f_delim f) 0 then 123%N else f_delim f))) ++
                 join (sep_or (f_sep f) s_comma ++ [32%N]) (map (fun kv => fst kv ++ sep_or (f_sep2 f) s_arrow ++ snd kv) ts) ++
                 opt_byte (snd (delim_pair (if N.eqb (f_delim f) 0 then 123%N else f_delim f))))).
Proof. exact hash_recursive. Qed.
Print Assumptions C20_hash_recursive.

Example C20_container_ex :
  format_value o0 (VArr [VInt 10; VInt 255]) (FMap [(KArray, FEHash (lit "%(a") (Some (lit ";")) None (Some [(KInteger, FEStr (lit "%x"))]))])
  = Some (OText (lit "(a; ff)"))
  /\ format_value o0 (VHash [(VInt 1, VArr [VInt 2])]) (FStr (lit "%#h")) <> None.
Proof. vm_compute. split; [reflexivity | discriminate]. Qed.

(* --- one container instance at several positions (aliasing) ---------------------------------- *)

(* The implementation's values are graphs: the same *Array / *Hash instance may occur at several
   positions (px.EmptyArray, a sub-hash under two keys).  ToString2 carries a map of the instances
   being rendered (Model/FormatShare.v: `lvalue` = values with instance identities, `render_g` =
   ToString2 with the guard map as state).  For every value whose instances form no cycle
   (`lok []`; every value built from finished parts), every oracle and every specification the
   formatted text is the text of the tree the value unfolds to: an instance met again renders like
   a value of its own, never as "<recursive reference>".  (False before fix ee5842a: the 'a' case of
   Hash.ToString2 kept the hash in the guard map.) *)
Theorem C20_sharing_invisible :
  forall (o : oracle) (lv : lvalue) (spec : fspec),
    lok [] lv = true -> format_value_g o lv spec = format_value o (erase lv) spec.
Proof. exact sharing_invisible. Qed.
Print Assumptions C20_sharing_invisible.

(* every returning exit of Array.ToString2 / Hash.ToString2 hands the guard map back as it was *)
Theorem C20_guard_restored :
  forall n o ind m entries g lv g' s,
    lok g lv = true -> render_g n o ind m entries g lv = Some (ROk (g', s)) -> g' = g.
Proof. exact guard_restored. Qed.
Print Assumptions C20_guard_restored.

(* hence formatting is total on values with aliasing too *)
Theorem C20_format_total_shared :
  forall (o : oracle) (lv : lvalue) (spec : fspec),
    lok [] lv = true -> exists r, format_value_g o lv spec = Some r.
Proof. exact format_total_shared. Qed.
Print Assumptions C20_format_total_shared.

(* h = {'a' => 1} twice in an array, Hash under %a; the guard does fire on a cycle (the finite
   unrolling of an array holding itself), where `lok` is false *)
Example C20_sharing_ex :
  let h := LHash (Some 1%N) [(LTree (VStr (lit "a")), LTree (VInt 1))] in
  let spec := FMap [(KHash, FEStr (lit "%a"))] in
  lok [] (LArr None [h; h]) = true
  /\ format_value_g o0 (LArr None [h; h]) spec = Some (OText (lit "[[['a', 1]], [['a', 1]]]"))
  /\ lok [] (LArr (Some 7%N) [LArr (Some 7%N) []]) = false
  /\ format_value_g o0 (LArr (Some 7%N) [LArr (Some 7%N) []]) FDefault = Some (OText (lit "[<recursive reference>]")).
Proof. vm_compute. repeat split. Qed.

(* --- the sprintf style entry points: every directive renders as that directive alone ----------- *)

(* types.PuppetSprintf(format, args...) / PuppetFprintf (Model/FormatSprintf.v: `sp_run` is fprintf's walk over
   the runes of the format text, `sprintf` the call on a byte string).  A format text made of segments -
   literal runes (none is '%'), `%%`, and directives `%`body letter (body: any runes but ASCII letters, not
   starting with '%', '<' or '{') - applied to the argument list of the directives' values gives, for every
   number and order of segments, whatever directives and values came earlier in the same call:
   the literal text, '%', and for every directive the text `sp_apply` gives for that directive and that value
   ALONE (expect); the first directive that fails alone decides the error.  `sp_apply` is
   px.NewFormatContext3(value, directive) + ToString: C20_sprintf_single_is_format_value. *)
Theorem C20_sprintf_directives_alone :
  forall (segs : list seg) (pos : nat) (args : list value) (out : str),
    Forall pos_ok segs ->
    skipn pos args = flat_map seg_vals segs ->
    sp_run (map Some (flat_map seg_runes segs)) args MText pos false (flat_map seg_os segs) out = expect segs out.
Proof. exact sprintf_positional. Qed.
Print Assumptions C20_sprintf_directives_alone.

(* the keyed forms %<key>directive and %{key} (the default rendering) against the one Hash argument:
   every key (any runes but the closing '>' / '}') that the hash holds selects its value *)
Theorem C20_sprintf_keyed_directives_alone :
  forall (es : list (value * value)) (segs : list seg) (keyed : bool) (out : str),
    Forall (key_ok es) segs ->
    sp_run (map Some (flat_map seg_runes segs)) [VHash es] MText 0 keyed (flat_map seg_os segs) out = expect segs out.
Proof. exact sprintf_keyed. Qed.
Print Assumptions C20_sprintf_keyed_directives_alone.

(* on the level of the call, for format texts written in ASCII (the runes of the text are its bytes; other
   literal text is decoded by `runes`, tied by the correspondence) *)
Theorem C20_sprintf_text :
  forall (segs : list seg),
    Forall pos_ok segs -> Forall seg_ascii segs ->
    sprintf (flat_map seg_os segs) (format_text segs) (flat_map seg_vals segs) = expect segs [].
Proof. exact sprintf_positional_text. Qed.
Print Assumptions C20_sprintf_text.

Theorem C20_sprintf_keyed_text :
  forall (es : list (value * value)) (segs : list seg),
    Forall (key_ok es) segs -> Forall seg_ascii segs ->
    sprintf (flat_map seg_os segs) (format_text segs) [VHash es] = expect segs [].
Proof. exact sprintf_keyed_text. Qed.
Print Assumptions C20_sprintf_keyed_text.

(* the single rendering inside a call is format_value, the function all other theorems of this file are about;
   so when every directive alone gives a text, the call gives these texts, in order, between the literal text *)
Theorem C20_sprintf_single_is_format_value :
  forall (o : oracle) (v : value) (spec : fspec) (t : str),
    sp_apply o v spec = SpText t <-> format_value o v spec = Some (OText t).
Proof. exact sp_apply_text. Qed.
Print Assumptions C20_sprintf_single_is_format_value.

Theorem C20_sprintf_texts_in_order :
  forall (segs : list seg) (ts : list str) (out whole : str),
    Forall2 (fun x t => format_value (fst (fst x)) (snd (fst x)) (snd x) = Some (OText t)) (seg_specs segs) ts ->
    seg_texts segs ts = Some whole ->
    expect segs out = SpText (out ++ whole).
Proof. exact expect_texts. Qed.
Print Assumptions C20_sprintf_texts_in_order.

(* sprintf("%05d|%05d %%", 42, 7); the keyed form with a default rendering; the first failing directive decides *)
Example C20_sprintf_ex :
  sprintf [o0; o0] (lit "%05d|%05d %%") [VInt 42; VInt 7] = SpText (lit "00042|00007 %")
  /\ sprintf [o0; o0; o0] (lit "%<a>#x, %{b} and %<b>-4sX") [VHash [(VStr (lit "a"), VInt 255); (VStr (lit "b"), VStr (lit "c"))]]
     = SpText (lit "0xff, c and c   X")
  /\ sprintf [o0; o0; o0] (lit "%d %q %z") [VInt 1; VInt 2; VInt 3] = SpErr (SpFormat (EUnsupported 113 KdInteger))
  /\ sprintf [o0; o0] (lit "%d %") [VInt 1; VInt 2] = SpErr SpIllegalArgument
  /\ sprintf [o0; o0] (lit "%d %<k>d") [VInt 1; VInt 2] = SpErr SpIllegalArguments
  /\ Forall pos_ok [SDir [[48%N]; [53%N]] 100%N (VInt 42) o0; SLit [[124%N]]; SDir [[48%N]; [53%N]] 100%N (VInt 7) o0].
Proof. vm_compute. repeat split. repeat constructor. Qed.
